// Package memnet is an in-memory, harness-controllable Backend for real Netceptor nodes.
// A Pipe is a bidirectional datagram link made of two FIFO queues; each direction can be
// held (delayed), black-holed (silent failure), cut (closed), and - for data frames only -
// made lossy/duplicating/re-ordering from a seeded source. Control frames (types 1..3)
// are never dropped or re-ordered relative to each other (every stream back-end delivers
// them in order), which is exactly the assumption stated in properties C01/C06.
package memnet

import (
	"errors"
	"context"
	"io"
	"math/rand"
	"sync"
	"time"

	"github.com/ansible/receptor/pkg/netceptor"
)

// Faults configures data-plane fault injection for one direction.
type Faults struct {
	LossPct    int // percent of data frames dropped
	DupPct     int // percent of data frames duplicated
	ReorderPct int // percent of data frames moved ahead of up to ReorderSpan queued data frames
	ReorderSpan int
}

// Dir is one direction of a pipe.
type Dir struct {
	mu        sync.Mutex
	cond      *sync.Cond
	q         [][]byte
	closed    bool
	hold      bool
	blackhole bool
	sendErr   bool
	faults    Faults
	rng       *rand.Rand
	// counters
	Pushed, Dropped, Duplicated, Reordered, Delivered int
	// Tap, if set, sees every frame accepted into the queue (after fault decisions).
	Tap func([]byte)
}

func newDir(seed int64) *Dir {
	d := &Dir{rng: rand.New(rand.NewSource(seed))}
	d.cond = sync.NewCond(&d.mu)

	return d
}

func isData(b []byte) bool { return len(b) > 0 && b[0] == netceptor.MsgTypeData }

func (d *Dir) push(b []byte) error {
	d.mu.Lock()
	defer d.mu.Unlock()
	if d.closed {
		return io.ErrClosedPipe
	}
	if d.sendErr {
		return errBrokenPipe
	}
	d.Pushed++
	if d.blackhole {
		d.Dropped++

		return nil
	}
	c := append([]byte(nil), b...)
	n := 1
	if isData(c) {
		if d.faults.LossPct > 0 && d.rng.Intn(100) < d.faults.LossPct {
			d.Dropped++

			return nil
		}
		if d.faults.DupPct > 0 && d.rng.Intn(100) < d.faults.DupPct {
			n = 2
			d.Duplicated++
		}
	}
	for i := 0; i < n; i++ {
		pos := len(d.q)
		if isData(c) && d.faults.ReorderPct > 0 && d.rng.Intn(100) < d.faults.ReorderPct {
			span := d.faults.ReorderSpan
			if span <= 0 {
				span = 3
			}
			back := d.rng.Intn(span) + 1
			for back > 0 && pos > 0 {
				pos--
				back--
			}
			if pos != len(d.q) {
				d.Reordered++
			}
		}
		d.q = append(d.q, nil)
		copy(d.q[pos+1:], d.q[pos:])
		d.q[pos] = c
		if d.Tap != nil {
			d.Tap(c)
		}
	}
	d.cond.Broadcast()

	return nil
}

func (d *Dir) pop(timeout time.Duration) ([]byte, error) {
	deadline := time.Now().Add(timeout)
	d.mu.Lock()
	defer d.mu.Unlock()
	for {
		if len(d.q) > 0 && !d.hold {
			b := d.q[0]
			d.q = d.q[1:]
			d.Delivered++

			return b, nil
		}
		if d.closed {
			return nil, io.EOF
		}
		rem := time.Until(deadline)
		if rem <= 0 {
			return nil, netceptor.ErrTimeout
		}
		t := time.AfterFunc(rem, func() {
			d.mu.Lock()
			d.cond.Broadcast()
			d.mu.Unlock()
		})
		d.cond.Wait()
		t.Stop()
	}
}

func (d *Dir) close() {
	d.mu.Lock()
	d.closed = true
	d.cond.Broadcast()
	d.mu.Unlock()
}

// SetHold stops (true) or resumes (false) delivery in this direction; frames queue up meanwhile.
func (d *Dir) SetHold(h bool) {
	d.mu.Lock()
	d.hold = h
	d.cond.Broadcast()
	d.mu.Unlock()
}

var errBrokenPipe = errors.New("write: broken pipe")

// SetSendError makes every Send in this direction fail (the other direction keeps working): a one-way transport fault.
func (d *Dir) SetSendError(b bool) {
	d.mu.Lock()
	d.sendErr = b
	d.mu.Unlock()
}

// SetBlackhole makes this direction silently discard everything pushed from now on.
func (d *Dir) SetBlackhole(b bool) {
	d.mu.Lock()
	d.blackhole = b
	d.mu.Unlock()
}

// SetFaults sets data-frame fault injection.
func (d *Dir) SetFaults(f Faults) {
	d.mu.Lock()
	d.faults = f
	d.mu.Unlock()
}

// Pending returns the number of queued frames.
func (d *Dir) Pending() int {
	d.mu.Lock()
	defer d.mu.Unlock()

	return len(d.q)
}

// Pipe is a bidirectional link.
type Pipe struct {
	AB, BA *Dir
	A, B   *End
}

// End is one end of a pipe; it implements netceptor.BackendSession.
type End struct {
	out, in *Dir
	p       *Pipe
	once    sync.Once
	done    chan struct{}
}

// NewPipe creates a link; seed drives the fault decisions.
func NewPipe(seed int64) *Pipe {
	p := &Pipe{AB: newDir(seed*2 + 1), BA: newDir(seed*2 + 2)}
	p.A = &End{out: p.AB, in: p.BA, p: p, done: make(chan struct{})}
	p.B = &End{out: p.BA, in: p.AB, p: p, done: make(chan struct{})}

	return p
}

// Send implements BackendSession.
func (e *End) Send(b []byte) error { return e.out.push(b) }

// Recv implements BackendSession.
func (e *End) Recv(timeout time.Duration) ([]byte, error) { return e.in.pop(timeout) }

// Close implements BackendSession: closing either end cuts the whole link.
func (e *End) Close() error {
	e.once.Do(func() { close(e.done) })
	e.p.Cut()

	return nil
}

// Done is closed when this end has been closed by its owner.
func (e *End) Done() <-chan struct{} { return e.done }

// Cut closes both directions: both ends see EOF after draining nothing more.
func (p *Pipe) Cut() {
	p.AB.close()
	p.BA.close()
}

// Silence black-holes both directions without closing (a session that stays open but carries nothing).
func (p *Pipe) Silence() {
	p.AB.SetBlackhole(true)
	p.BA.SetBlackhole(true)
}

// Closed reports whether the link has been cut.
func (p *Pipe) Closed() bool {
	p.AB.mu.Lock()
	defer p.AB.mu.Unlock()

	return p.AB.closed
}

// Backend is a netceptor.Backend whose sessions are handed in by the harness.
type Backend struct {
	mu       sync.Mutex
	ctx      context.Context
	sessChan chan netceptor.BackendSession
}

// NewBackend returns a backend to be passed to Netceptor.AddBackend.
func NewBackend() *Backend { return &Backend{} }

// Start implements netceptor.Backend.
func (b *Backend) Start(ctx context.Context, _ *sync.WaitGroup) (chan netceptor.BackendSession, error) {
	b.mu.Lock()
	defer b.mu.Unlock()
	b.ctx = ctx
	b.sessChan = make(chan netceptor.BackendSession)

	return b.sessChan, nil
}

// Attach hands a session end to the node owning this backend. Returns false if the backend is stopped.
func (b *Backend) Attach(e *End) bool {
	b.mu.Lock()
	ctx, ch := b.ctx, b.sessChan
	b.mu.Unlock()
	if ch == nil {
		return false
	}
	select {
	case ch <- e:
		return true
	case <-ctx.Done():
		return false
	case <-time.After(5 * time.Second):
		return false
	}
}
