package main

import (
	"fmt"
	"os"
	"os/exec"
	"path/filepath"
	"sort"
	"strings"
	"sync"
	"time"

	"verif/harness/daemon"
	"verif/harness/sftrace"
)

// releaseRequery: "a successful release removes the unit and its files so that it is no longer known" - also a
// moment later, also for remote units that never started, and also when the daemon could not delete every file
// (RemoveAll error ignored by a forced release; remote units that have not started are ALWAYS released with force).
// The undeletable file is made with chattr +i on the status file (the scratch file system is ext4, we are root).
func releaseRequery(res *Result, bin, base string, seed int64) {
	name := fmt.Sprintf("release-requery-s%d", seed)
	d := daemon.New(bin, filepath.Join(base, name), "n1")
	_ = exec.Command("chattr", "-R", "-i", d.Dir).Run()
	_ = os.RemoveAll(d.Dir)
	defer d.Cleanup()
	defer func() { _ = exec.Command("chattr", "-R", "-i", d.Dir).Run() }()
	if err := d.Start(60 * time.Second); err != nil {
		res.inconclusive(name + ": start: " + err.Error())

		return
	}
	viol := func(sig, what string) {
		res.violate(sig, fmt.Sprintf("[%s] %s", name, what), map[string]any{"scenario": name, "seed": seed, "dir": d.Dir})
	}
	mk := func(remote bool) string {
		c, err := d.Dial(20 * time.Second)
		if err != nil {
			return ""
		}
		defer c.Close()
		node := "localhost"
		if remote {
			node = "ghost" // a node that is not on the mesh: the remote unit never starts
		}
		sr, _ := c.Submit(node, "sh", "", []byte(instantScript), 60*time.Second, nil)
		if sr == nil || !sr.Acked {
			return ""
		}
		if !remote {
			k := &Know{ID: sr.UnitID, ToldState: -1}
			waitState(d, k, func(s int64) bool { return s >= 2 }, 60*time.Second, func(string, string) {})
		}

		return sr.UnitID
	}
	// requery: the unit must stay unknown
	requery := func(id, kind, sig string) {
		for i := 0; i < 6; i++ {
			m, et, err := statusOf(d, id, 30*time.Second)
			if err != nil {
				res.inconclusive(fmt.Sprintf("%s: status %s: %v", name, id, err))

				return
			}
			if m != nil || !strings.Contains(et, "unknown work unit") {
				viol(sig, fmt.Sprintf("%s unit %s was answered {\"released\":...} but query #%d afterwards answers State %v WorkType %q Detail %q (%s)",
					kind, id, i+1, m["StateName"], daemon.Str(m, "WorkType"), daemon.Str(m, "Detail"), et))

				return
			}
			if lr, err := simpleCmd(d, "work list", 30*time.Second); err == nil && lr != nil && lr.JSON != nil {
				if _, ok := lr.JSON[id]; ok {
					viol(sig, fmt.Sprintf("%s unit %s was answered {\"released\":...} but is listed again (query #%d)", kind, id, i+1))

					return
				}
			}
			time.Sleep(250 * time.Millisecond)
		}
		res.count("release_requery_units", 1)
	}
	release := func(id, cmd string) bool {
		r, err := simpleCmd(d, "work "+cmd+" "+id, 90*time.Second)

		return err == nil && r != nil && r.Err == "" && r.JSON["released"] == id
	}
	immutable := func(id string) bool {
		return exec.Command("chattr", "+i", filepath.Join(d.UnitDir(id), "status")).Run() == nil
	}
	// 1. plain cases
	for _, remote := range []bool{false, true} {
		kind := map[bool]string{false: "finished command", true: "never-started remote"}[remote]
		id := mk(remote)
		if id == "" {
			res.note(name + ": could not create a " + kind + " unit in time, case skipped")

			continue
		}
		if !release(id, "release") {
			viol("C13:release-refused", fmt.Sprintf("release of a %s unit %s was not answered 'released'", kind, id))

			continue
		}
		if _, err := os.Stat(d.UnitDir(id)); err == nil {
			viol("C13:release-leaves-files", fmt.Sprintf("%s unit %s released but its directory still exists", kind, id))
		}
		requery(id, kind, "C13:released-unit-known")
	}
	// 2. the daemon cannot delete the status file
	for _, remote := range []bool{false, true} {
		kind := map[bool]string{false: "finished command", true: "never-started remote"}[remote]
		id := mk(remote)
		if id == "" || !immutable(id) {
			res.note(name + ": undeletable-file case skipped for " + kind)

			continue
		}
		cmd := "force-release"
		if remote {
			cmd = "release" // not-started remote units are released with force internally
		}
		if !release(id, cmd) {
			// refusing is fine: then the unit must still be known
			if m, _, err := statusOf(d, id, 30*time.Second); err == nil && m == nil {
				viol("C13:release-failed-unit-lost", fmt.Sprintf("%s of %s unit %s failed but the unit is no longer known", cmd, kind, id))
			}

			continue
		}
		requery(id, kind, "C13:released-unit-reappears@status-file-undeletable")
	}
	// 3. release raced with look-ups of the same id from other sessions (TLC: WorkUnit.tla, UnregFirst variant): the unit
	// directory is made large (the payload fills it with files) so that RemoveAll takes a while
	for round := 0; round < 3; round++ {
		c, err := d.Dial(20 * time.Second)
		if err != nil {
			break
		}
		sr, _ := c.Submit("localhost", "sh", "", []byte(bigDirScript), 90*time.Second, nil)
		c.Close()
		if sr == nil || !sr.Acked {
			res.note(name + ": could not create the large unit, release-vs-lookup case skipped")

			break
		}
		id := sr.UnitID
		k := &Know{ID: id, ToldState: -1}
		if !waitState(d, k, func(s int64) bool { return s >= 2 }, 90*time.Second, func(string, string) {}) {
			res.note(name + ": large unit did not finish in time, release-vs-lookup case skipped")

			break
		}
		stop := make(chan struct{})
		var pwg sync.WaitGroup
		for p := 0; p < 4; p++ {
			pwg.Add(1)
			go func() {
				defer pwg.Done()
				cl, err := d.Dial(20 * time.Second)
				if err != nil {
					return
				}
				defer cl.Close()
				for {
					select {
					case <-stop:
						return
					default:
					}
					if _, err := cl.Command("work status "+id, 20*time.Second); err != nil {
						return
					}
				}
			}()
		}
		time.Sleep(50 * time.Millisecond)
		ok := release(id, "release")
		time.Sleep(100 * time.Millisecond)
		close(stop)
		pwg.Wait()
		if !ok {
			res.note(name + ": release of the large unit was not answered 'released'")

			continue
		}
		if _, err := os.Stat(d.UnitDir(id)); err == nil {
			viol("C13:release-leaves-files", fmt.Sprintf("unit %s released (while other sessions looked it up) but its directory still exists", id))
		}
		requery(id, "large finished command (release raced with look-ups)", "C13:released-unit-known")
		res.count("release_vs_lookup_rounds", 1)
	}
	// 4. non-canonical names of an existing unit ("<id>/", "./<id>", "<id>/.", "x/../<id>"): a directory has exactly one id.
	// WorkUnit.tla (AliasLookup): such a name is an unknown work unit and the command has no effect.
	if id := mk(false); id != "" {
		aliases := []string{id + "/", "./" + id, id + "/.", "x/../" + id}
		for ai, al := range aliases {
			sub := []string{"status", "cancel", "release", "status"}[ai]
			r, err := simpleCmd(d, "work "+sub+" "+al, 60*time.Second)
			if err != nil || r == nil {
				res.note(fmt.Sprintf("%s: work %s %s not answered: %v", name, sub, al, err))

				continue
			}
			res.count("alias_commands", 1)
			if r.Err == "" || !strings.Contains(r.Err, "unknown work unit") {
				viol("C13:alias-of-unit-known", fmt.Sprintf("'work %s %s' (a non-canonical name of unit %s) was answered %s instead of 'unknown work unit'", sub, al, id, trunc(r.Raw, 120)))
			}
			if _, serr := os.Stat(d.UnitDir(id)); serr != nil {
				viol("C13:alias-command-removed-unit", fmt.Sprintf("after 'work %s %s' the directory of unit %s is gone although %s was never released", sub, al, id, id))

				break
			}
			if lr, err := simpleCmd(d, "work list", 30*time.Second); err == nil && lr != nil && lr.JSON != nil {
				n := 0
				for k := range lr.JSON {
					if filepath.Clean(k) == id || strings.HasSuffix(filepath.Clean(k), "/"+id) {
						n++
					}
				}
				if n != 1 {
					viol("C13:duplicate-id", fmt.Sprintf("after 'work %s %s' the unit directory of %s is listed %d times: %v", sub, al, id, n, keysOf(lr.JSON)))
				}
			}
		}
		if m, _, err := statusOf(d, id, 30*time.Second); err == nil && m == nil {
			viol("C13:alias-command-removed-unit", fmt.Sprintf("unit %s is no longer known after commands on its aliases only", id))
		}
	}
	// the order of the two steps of every release in this scenario: files first, index entry last
	for _, sig := range releaseOrderProblems(traceEvents(d.Trace)) {
		viol("C13:release-unregisters-before-removal", sig)
	}
}

// the payload fills its own unit directory (found through its stdout file) with files
const bigDirScript = "d=$(dirname $(readlink /proc/$$/fd/1))\nmkdir -p $d/junk\nfor i in $(seq 1 4000); do : > $d/junk/f$i; done\necho filled-0123456789\n"

// releaseOrderProblems: per unit, "wu_release_done" (index entry deleted) must come after the "wu_release_rm" of that
// release (WorkUnit.tla: ReleaseRm, then ReleaseUnreg).
func releaseOrderProblems(evs []sftrace.Event) []string {
	rmSeen := map[string]bool{}
	var out []string
	for _, e := range evs {
		switch e.Str("ev") {
		case "wu_release_rm":
			rmSeen[e.Str("id")] = true
		case "wu_release_done":
			if !rmSeen[e.Str("id")] {
				out = append(out, fmt.Sprintf("unit %s was dropped from the index (wu_release_done) before its directory was removed (wu_release_rm)", e.Str("id")))
			}
			rmSeen[e.Str("id")] = false
		}
	}

	return out
}

func keysOf(m map[string]any) []string {
	var out []string
	for k := range m {
		out = append(out, k)
	}
	sort.Strings(out)

	return out
}
