package main

import (
	"fmt"
	"os"
	"os/exec"
	"path/filepath"
	"strings"
	"time"

	"verif/harness/daemon"
)

// releaseRequery: "a successful release removes the unit and its files so that it is no longer known" - also a
// moment later, also for remote units that never started, and also when the daemon could not delete every file
// (RemoveAll error ignored by a forced release; remote units that have not started are ALWAYS released with force).
// The undeletable file is made with chattr +i on the status file (the scratch file system is ext4, we are root).
func releaseRequery(res *Result, bin, base string, seed int64) {
	name := fmt.Sprintf("release-requery-s%d", seed)
	d := daemon.New(bin, filepath.Join(base, name), "n1")
	_ = exec.Command("chattr", "-R", "-i", d.Dir).Run()
	_ = os.RemoveAll(d.Dir)
	defer d.Cleanup()
	defer func() { _ = exec.Command("chattr", "-R", "-i", d.Dir).Run() }()
	if err := d.Start(60 * time.Second); err != nil {
		res.inconclusive(name + ": start: " + err.Error())

		return
	}
	viol := func(sig, what string) {
		res.violate(sig, fmt.Sprintf("[%s] %s", name, what), map[string]any{"scenario": name, "seed": seed, "dir": d.Dir})
	}
	mk := func(remote bool) string {
		c, err := d.Dial(20 * time.Second)
		if err != nil {
			return ""
		}
		defer c.Close()
		node := "localhost"
		if remote {
			node = "ghost" // a node that is not on the mesh: the remote unit never starts
		}
		sr, _ := c.Submit(node, "sh", "", []byte(instantScript), 60*time.Second, nil)
		if sr == nil || !sr.Acked {
			return ""
		}
		if !remote {
			k := &Know{ID: sr.UnitID, ToldState: -1}
			waitState(d, k, func(s int64) bool { return s >= 2 }, 60*time.Second, func(string, string) {})
		}

		return sr.UnitID
	}
	// requery: the unit must stay unknown
	requery := func(id, kind, sig string) {
		for i := 0; i < 6; i++ {
			m, et, err := statusOf(d, id, 30*time.Second)
			if err != nil {
				res.inconclusive(fmt.Sprintf("%s: status %s: %v", name, id, err))

				return
			}
			if m != nil || !strings.Contains(et, "unknown work unit") {
				viol(sig, fmt.Sprintf("%s unit %s was answered {\"released\":...} but query #%d afterwards answers State %v WorkType %q Detail %q (%s)",
					kind, id, i+1, m["StateName"], daemon.Str(m, "WorkType"), daemon.Str(m, "Detail"), et))

				return
			}
			if lr, err := simpleCmd(d, "work list", 30*time.Second); err == nil && lr != nil && lr.JSON != nil {
				if _, ok := lr.JSON[id]; ok {
					viol(sig, fmt.Sprintf("%s unit %s was answered {\"released\":...} but is listed again (query #%d)", kind, id, i+1))

					return
				}
			}
			time.Sleep(250 * time.Millisecond)
		}
		res.count("release_requery_units", 1)
	}
	release := func(id, cmd string) bool {
		r, err := simpleCmd(d, "work "+cmd+" "+id, 90*time.Second)

		return err == nil && r != nil && r.Err == "" && r.JSON["released"] == id
	}
	immutable := func(id string) bool {
		return exec.Command("chattr", "+i", filepath.Join(d.UnitDir(id), "status")).Run() == nil
	}
	// 1. plain cases
	for _, remote := range []bool{false, true} {
		kind := map[bool]string{false: "finished command", true: "never-started remote"}[remote]
		id := mk(remote)
		if id == "" {
			res.note(name + ": could not create a " + kind + " unit in time, case skipped")

			continue
		}
		if !release(id, "release") {
			viol("C13:release-refused", fmt.Sprintf("release of a %s unit %s was not answered 'released'", kind, id))

			continue
		}
		if _, err := os.Stat(d.UnitDir(id)); err == nil {
			viol("C13:release-leaves-files", fmt.Sprintf("%s unit %s released but its directory still exists", kind, id))
		}
		requery(id, kind, "C13:released-unit-known")
	}
	// 2. the daemon cannot delete the status file
	for _, remote := range []bool{false, true} {
		kind := map[bool]string{false: "finished command", true: "never-started remote"}[remote]
		id := mk(remote)
		if id == "" || !immutable(id) {
			res.note(name + ": undeletable-file case skipped for " + kind)

			continue
		}
		cmd := "force-release"
		if remote {
			cmd = "release" // not-started remote units are released with force internally
		}
		if !release(id, cmd) {
			// refusing is fine: then the unit must still be known
			if m, _, err := statusOf(d, id, 30*time.Second); err == nil && m == nil {
				viol("C13:release-failed-unit-lost", fmt.Sprintf("%s of %s unit %s failed but the unit is no longer known", cmd, kind, id))
			}

			continue
		}
		requery(id, kind, "C13:released-unit-reappears@status-file-undeletable")
	}
}
