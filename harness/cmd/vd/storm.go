package main

import (
	"fmt"
	"os"
	"path/filepath"
	"sort"
	"sync"
	"time"

	"verif/harness/daemon"
)

type pollObs struct {
	send, recv time.Time
	st, sz     int64
	client     int
}

// pollStorm: several sessions poll "work status" of ONE unit back to back while the unit progresses, completes or is
// cancelled. All answers for the unit - from any session - are compared in real-time order: an answer received before
// another request was sent must not be "later" than that request's answer (stage, succeeded-is-final, size while running).
// The in-process unit type reports progress from inside the daemon while its monitor reloads the record on every
// write, which is the situation in which a stale in-memory status would show.
func pollStorm(res *Result, bin, base string, seed int64, inproc bool, rounds, pollers int) {
	name := fmt.Sprintf("poll-storm-s%d", seed)
	d := daemon.New(bin, filepath.Join(base, name), "n1")
	d.Inproc = inproc
	_ = os.RemoveAll(d.Dir)
	defer d.Cleanup()
	if err := d.Start(60 * time.Second); err != nil {
		res.inconclusive(name + ": start: " + err.Error())

		return
	}
	for round := 0; round < rounds; round++ {
		kind := 0 // 0: in-process to completion, 1: in-process cancelled half-way, 2: command unit
		switch round % 6 {
		case 4:
			kind = 1
		case 5:
			kind = 2
		}
		wtype, script := "inproc", "2500 0\n"
		if !inproc || kind == 2 {
			wtype, script = "sh", quickScript
		}
		c, err := d.Dial(20 * time.Second)
		if err != nil {
			continue
		}
		sr, _ := c.Submit("localhost", wtype, "", []byte(script), 90*time.Second, nil)
		c.Close()
		if sr == nil || !sr.Acked {
			continue
		}
		id := sr.UnitID
		var mu sync.Mutex
		var all []pollObs
		var wg sync.WaitGroup
		stopAt := time.Now().Add(20 * time.Second)
		for p := 0; p < pollers; p++ {
			wg.Add(1)
			go func(p int) {
				defer wg.Done()
				cl, err := d.Dial(20 * time.Second)
				if err != nil {
					return
				}
				defer cl.Close()
				var finalSeen time.Time
				var mine []pollObs
				for time.Now().Before(stopAt) {
					t0 := time.Now()
					r, err := cl.Command("work status "+id, 20*time.Second)
					t1 := time.Now()
					if err != nil || r == nil || r.JSON == nil {
						break
					}
					o := pollObs{send: t0, recv: t1, st: daemon.Num(r.JSON, "State"), sz: daemon.Num(r.JSON, "StdoutSize"), client: p}
					mine = append(mine, o)
					if o.st >= 2 && finalSeen.IsZero() {
						finalSeen = t1
					}
					if !finalSeen.IsZero() && time.Since(finalSeen) > 1500*time.Millisecond {
						break
					}
				}
				mu.Lock()
				all = append(all, mine...)
				mu.Unlock()
			}(p)
		}
		if kind == 1 {
			time.Sleep(120 * time.Millisecond)
			_, _ = simpleCmd(d, "work cancel "+id, 60*time.Second)
		}
		wg.Wait()
		res.count("poll_storm_answers", len(all))
		// real-time order: X precedes Y iff X.recv < Y.send
		byRecv := append([]pollObs(nil), all...)
		sort.Slice(byRecv, func(a, b int) bool { return byRecv[a].recv.Before(byRecv[b].recv) })
		bySend := append([]pollObs(nil), all...)
		sort.Slice(bySend, func(a, b int) bool { return bySend[a].send.Before(bySend[b].send) })
		maxStage, maxRunSize := -1, int64(-1)
		succ, succSize := false, int64(0)
		var stageFrom pollObs
		k := 0
		reported := map[string]bool{}
		viol := func(sig, what string) {
			if !reported[sig] {
				reported[sig] = true
				res.violate(sig, fmt.Sprintf("[%s] unit %s (%s): %s", name, id, wtype, what), map[string]any{"scenario": name, "seed": seed, "dir": d.Dir})
			}
		}
		for _, y := range bySend {
			for k < len(byRecv) && byRecv[k].recv.Before(y.send) {
				x := byRecv[k]
				if stage(x.st) > maxStage {
					maxStage, stageFrom = stage(x.st), x
				}
				if x.st == 1 && x.sz > maxRunSize {
					maxRunSize = x.sz
				}
				if x.st == 2 && !succ {
					succ, succSize = true, x.sz
				}
				k++
			}
			if stage(y.st) < maxStage {
				viol("C13:reported-stage-regressed", fmt.Sprintf("session %d was answered State %d (size %d) to a request sent AFTER session %d had received State %d (size %d)",
					y.client, y.st, y.sz, stageFrom.client, stageFrom.st, stageFrom.sz))
			}
			if succ && (y.st != 2 || y.sz != succSize) {
				viol("C13:reported-succeeded-changed", fmt.Sprintf("session %d was answered State %d size %d after Succeeded size %d had been reported", y.client, y.st, y.sz, succSize))
			}
			if y.st == 1 && y.sz < maxRunSize {
				viol("C13:reported-size-shrank", fmt.Sprintf("session %d was answered Running size %d after Running size %d had been reported", y.client, y.sz, maxRunSize))
			}
		}
		_, _ = simpleCmd(d, "work release "+id, 60*time.Second)
	}
}

func init() {
	commands["storm"] = func(args []string) {
		bin, rounds := args[0], 9
		if len(args) > 1 {
			fmt.Sscanf(args[1], "%d", &rounds)
		}
		res := &Result{Counters: map[string]int{}, Violations: []Violation{}}
		pollStorm(res, bin, "/verif/.work/_vd/storm", 1, true, rounds, 4)
		for _, v := range res.Violations {
			fmt.Println(v.Sig, v.What)
		}
		fmt.Println(res.Counters, res.Inconclusive)
	}
}
