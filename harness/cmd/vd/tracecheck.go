package main

import (
	"encoding/json"
	"fmt"
	"os"

	"verif/harness/sftrace"
)

// vd tracecheck <trace.ndjson> <outdir>: run the status-file acceptor (crash-aware) over a raw hook trace and write the
// normalised streams that StatusFileTrace.tla / WorkUnitTrace.tla read (debugging aid, also used to re-check a failing run).
func init() {
	commands["tracecheck"] = func(args []string) {
		evs := traceEvents(args[0])
		var norm []sftrace.Norm
		for _, ft := range sftrace.Split(evs, nil) {
			ft.Events = sftrace.WithCrashes(ft)
			for _, p := range sftrace.Accept(ft, false) {
				fmt.Println(p.Sig, p.File, p.What)
			}
			norm = append(norm, sftrace.Norm{Ev: "reset", H: "save", Own: make([]int, 6)})
			for _, n := range ft.Events {
				n.Own = make([]int, 6)
				n.Cnt = 0
				norm = append(norm, n)
			}
		}
		_ = os.MkdirAll(args[1], 0o755)
		_ = sftrace.WriteNorm(args[1]+"/sf_trace.ndjson", norm)
		f, _ := os.Create(args[1] + "/unit_trace.ndjson")
		enc := json.NewEncoder(f)
		for _, e := range sftrace.UnitRewrites(evs, true) {
			_ = enc.Encode(e)
		}
		f.Close()
		fmt.Println("events", len(norm))
	}
}
