package main

import (
	"flag"
	"fmt"
	"os"
	"time"

	"verif/harness/daemon"
)

func init() { commands["try"] = tryMain }

func tryMain(args []string) {
	fs := flag.NewFlagSet("try", flag.ExitOnError)
	bin := fs.String("bin", "/verif/.work/bin/receptor", "receptor binary")
	dir := fs.String("dir", "/verif/.work/_vd/try", "scenario dir")
	crash := fs.String("crash", "", "VERIF_CRASH_AT")
	who := fs.String("who", "", "VERIF_CRASH_WHO")
	script := fs.String("script", "for i in 1 2 3; do echo chunk-$i; sleep 0.2; done\n", "payload")
	_ = fs.Parse(args)
	_ = os.RemoveAll(*dir)
	d := daemon.New(*bin, *dir, "n1")
	defer d.Cleanup()
	t0 := time.Now()
	var env []string
	if *crash != "" {
		env = append(env, "VERIF_CRASH_AT="+*crash, "VERIF_CRASH_WHO="+*who)
	}
	if err := d.Start(30*time.Second, env...); err != nil {
		fmt.Println("start:", err)

		return
	}
	fmt.Println("started in", time.Since(t0))
	c, err := d.Dial(5 * time.Second)
	if err != nil {
		fmt.Println("dial:", err)

		return
	}
	sr, err := c.Submit("localhost", "sh", "", []byte(*script), 20*time.Second, nil)
	fmt.Printf("submit: %+v err=%v\n", sr, err)
	if sr != nil && sr.Final != nil {
		fmt.Println("final:", sr.Final.Raw)
	}
	c.Close()
	for i := 0; i < 12; i++ {
		if !d.Alive() {
			fmt.Println("daemon dead; restarting")
			if err := d.Start(30 * time.Second); err != nil {
				fmt.Println("restart:", err)

				return
			}
		}
		c, err := d.Dial(5 * time.Second)
		if err != nil {
			fmt.Println("dial:", err)
			time.Sleep(300 * time.Millisecond)

			continue
		}
		r, err := c.Command("work list", 5*time.Second)
		if r != nil {
			fmt.Println("list:", r.Raw, err)
		} else {
			fmt.Println("list err:", err)
		}
		c.Close()
		time.Sleep(300 * time.Millisecond)
	}
	if sr != nil && sr.UnitID != "" {
		c, _ := d.Dial(5 * time.Second)
		if c != nil {
			h, data, closed, err := c.Results(sr.UnitID, 0, 10*time.Second)
			fmt.Printf("results: %q %q closed=%v err=%v\n", h, data, closed, err)
			c.Close()
		}
	}
}
