package main

import (
	"encoding/json"
	"flag"
	"fmt"
	"math/rand"
	"os"
	"path/filepath"
	"sort"
	"strings"
	"sync"
	"syscall"
	"time"

	"verif/harness/daemon"
	"verif/harness/sftrace"
)

func init() { commands["c13"] = c13Main }

const failScript = "echo fail-0123456789\nexit 3\n"
const instantScript = "echo instant-0123456789\n"

func stage(st int64) int {
	switch st {
	case 0:
		return 0
	case 1:
		return 1
	}

	return 2
}

type unitInfo struct {
	id        string
	kind      string // quick | long | fail | instant
	released  bool   // a release was answered "released"
	relAsked  bool
	cancelled bool
}

type obs struct {
	Client int    `json:"client"`
	Op     string `json:"op"`
	ID     string `json:"id,omitempty"`
	Reply  string `json:"reply"`
}

type c13run struct {
	res       *Result
	d         *daemon.Daemon
	mu        sync.Mutex
	units     []*unitInfo
	hist      []obs
	seed      int64
	name      string
	n2        *daemon.Daemon   // executor node for remote units (nil: none)
	inproc    bool             // the daemon also offers the in-process work type
	unitTrace []map[string]any // per unit: reset + apply events for WorkUnitTrace.tla
}

func (r *c13run) viol(sig, what string) {
	r.mu.Lock()
	defer r.mu.Unlock()
	r.res.violate(sig, fmt.Sprintf("[%s] %s", r.name, what), map[string]any{"scenario": r.name, "seed": r.seed, "dir": r.d.Dir})
}

func (r *c13run) note(client int, op, id, reply string) {
	r.mu.Lock()
	if len(reply) > 160 {
		reply = reply[:160]
	}
	r.hist = append(r.hist, obs{client, op, id, reply})
	r.mu.Unlock()
}

// per client: last reported (state,size) per unit, for the "reported status only advances" check
type reported struct {
	st, sz int64
	seen   bool
}

func (r *c13run) checkReport(last map[string]*reported, client int, id string, m map[string]any) {
	st, sz := daemon.Num(m, "State"), daemon.Num(m, "StdoutSize")
	p := last[id]
	if p == nil {
		p = &reported{}
		last[id] = p
	}
	if p.seen {
		if stage(st) < stage(p.st) {
			r.viol("C13:reported-stage-regressed", fmt.Sprintf("client %d was told State %d for unit %s after having been told State %d", client, st, id, p.st))
		}
		if p.st == 2 && (st != 2 || sz != p.sz) {
			sig := "C13:reported-succeeded-changed"
			if st == 4 {
				sig = "C13:succeeded-then-canceled"
			}
			r.viol(sig, fmt.Sprintf("client %d was told Succeeded size %d for unit %s, later State %d size %d", client, p.sz, id, st, sz))
		}
		if st == 1 && p.st == 1 && sz < p.sz {
			r.viol("C13:reported-size-shrank", fmt.Sprintf("client %d: unit %s running, size %d after %d", client, id, sz, p.sz))
		}
	}
	p.st, p.sz, p.seen = st, sz, true
}

func (r *c13run) pidsOf(id string) (runner int, child int) {
	evs := traceEvents(r.d.Trace)
	for _, e := range evs {
		switch e.Str("ev") {
		case "wu_spawn":
			if e.Str("id") == id {
				runner = int(e.Int("pid"))
			}
		case "rn_child":
			if strings.HasSuffix(e.Str("unitdir"), "/"+id) {
				child = int(e.Int("pid"))
			}
		}
	}

	return runner, child
}

// one client program
func (r *c13run) client(ci int, nops int, wg *sync.WaitGroup) {
	defer wg.Done()
	rng := rand.New(rand.NewSource(r.seed*7919 + int64(ci)))
	last := map[string]*reported{}
	d := r.d
	pick := func() *unitInfo {
		r.mu.Lock()
		defer r.mu.Unlock()
		if len(r.units) == 0 {
			return nil
		}

		return r.units[rng.Intn(len(r.units))]
	}
	for k := 0; k < nops; k++ {
		if !d.Alive() {
			r.res.inconclusive(r.name + ": daemon died during the history")

			return
		}
		x := rng.Intn(100)
		u := pick()
		switch {
		case x < 22 || u == nil:
			kinds := []string{"quick", "quick", "long", "fail", "instant"}
			if r.n2 != nil {
				kinds = append(kinds, "remote", "remote", "remote-long")
			}
			if r.inproc {
				kinds = append(kinds, "inproc", "inproc", "inproc-long")
			}
			kind := kinds[rng.Intn(len(kinds))]
			script := map[string]string{"quick": quickScript, "long": longScript, "fail": failScript, "instant": instantScript,
				"remote": quickScript, "remote-long": longScript, "inproc": "3 120\n", "inproc-long": "8 500\n"}[kind]
			node, wtype := "localhost", "sh"
			if strings.HasPrefix(kind, "remote") {
				node = "n2"
			}
			if strings.HasPrefix(kind, "inproc") {
				wtype = "inproc"
			}
			c, err := d.Dial(20 * time.Second)
			if err != nil {
				continue
			}
			sr, err := c.Submit(node, wtype, "", []byte(script), 90*time.Second, nil)
			c.Close()
			if err != nil || sr == nil || !sr.Acked {
				r.note(ci, "submit", "", fmt.Sprint(err))

				continue
			}
			r.mu.Lock()
			for _, o := range r.units {
				if o.id == sr.UnitID && !o.released {
					r.res.violate("C13:duplicate-id", fmt.Sprintf("[%s] id %s handed out twice", r.name, sr.UnitID), map[string]any{"scenario": r.name, "seed": r.seed})
				}
			}
			r.units = append(r.units, &unitInfo{id: sr.UnitID, kind: kind})
			r.mu.Unlock()
			r.note(ci, "submit "+kind, sr.UnitID, "acked")
		case x < 50:
			id := u.id
			alias := false
			if x < 26 {
				id = "NoSuchUn"
			} else if x < 30 {
				// a non-canonical spelling of a known unit's id: a directory has exactly one id, this one is unknown
				id, alias = []string{u.id + "/", "./" + u.id, u.id + "/.", "x/../" + u.id}[rng.Intn(4)], true
			}
			m, et, err := statusOf(d, id, 30*time.Second)
			if err != nil {
				r.note(ci, "status", id, "timeout/err "+err.Error())

				continue
			}
			r.note(ci, "status", id, fmt.Sprintf("%v %s", m["StateName"], et))
			if m != nil && !alias {
				r.checkReport(last, ci, id, m)
				r.mu.Lock()
				rel := u.released && id == u.id
				r.mu.Unlock()
				_ = rel
			} else if id == "NoSuchUn" && !strings.Contains(et, "unknown work unit") {
				r.viol("C13:unknown-unit-answer", fmt.Sprintf("status of an unknown unit answered %q", et))
			}
			if alias && (m != nil || !strings.Contains(et, "unknown work unit")) {
				r.viol("C13:alias-of-unit-known", fmt.Sprintf("'work status %s' (a non-canonical name of unit %s) was answered %v %q instead of 'unknown work unit'", id, u.id, m["StateName"], et))
			}
		case x < 60:
			lr, err := simpleCmd(d, "work list", 30*time.Second)
			if err != nil || lr == nil || lr.JSON == nil {
				continue
			}
			r.note(ci, "list", "", fmt.Sprintf("%d units", len(lr.JSON)))
			for id, v := range lr.JSON {
				if m, ok := v.(map[string]any); ok {
					r.checkReport(last, ci, id, m)
				}
			}
		case x < 75:
			r.mu.Lock()
			u.cancelled = true
			r.mu.Unlock()
			rep, err := simpleCmd(d, "work cancel "+u.id, 60*time.Second)
			if err != nil || rep == nil {
				r.note(ci, "cancel", u.id, fmt.Sprint(err))

				continue
			}
			r.note(ci, "cancel", u.id, rep.Raw)
			if rep.Err == "" && rep.JSON["cancelled"] == u.id {
				// CancelStops: supervisor and payload of the unit are gone
				runner, child := r.pidsOf(u.id)
				deadline := time.Now().Add(3 * time.Second)
				for time.Now().Before(deadline) && (daemon.PidAlive(runner) && isRunnerOf(runner, u.id) || daemon.PidAlive(child) && isChildOf(child, d, u.id)) {
					time.Sleep(50 * time.Millisecond)
				}
				if daemon.PidAlive(runner) && isRunnerOf(runner, u.id) {
					r.viol("C13:cancel-does-not-stop", fmt.Sprintf("unit %s: cancel answered 'cancelled' but the runner process %d is still alive 3 s later", u.id, runner))
				} else if daemon.PidAlive(child) && isChildOf(child, d, u.id) {
					r.viol("C13:cancel-does-not-stop", fmt.Sprintf("unit %s: cancel answered 'cancelled' but the payload process %d is still alive 3 s later", u.id, child))
				}
			}
		case x < 90:
			cmd := "release"
			if x >= 84 {
				cmd = "force-release"
			}
			r.mu.Lock()
			u.relAsked = true
			r.mu.Unlock()
			rep, err := simpleCmd(d, "work "+cmd+" "+u.id, 60*time.Second)
			if err != nil || rep == nil {
				r.note(ci, cmd, u.id, fmt.Sprint(err))

				continue
			}
			r.note(ci, cmd, u.id, rep.Raw)
			if rep.Err == "" && rep.JSON["released"] == u.id {
				r.mu.Lock()
				u.released = true
				r.mu.Unlock()
				delete(last, u.id)
				// ReleaseRemoves: files gone, no longer known
				if strings.HasPrefix(u.kind, "remote") {
					// a started remote unit is removed by a goroutine AFTER the remote side has confirmed: measure the lag
					lag := 0
					for ; lag < 100; lag++ {
						_, serr := os.Stat(d.UnitDir(u.id))
						m, et, err := statusOf(d, u.id, 30*time.Second)
						if serr != nil && err == nil && m == nil && strings.Contains(et, "unknown work unit") {
							break
						}
						time.Sleep(100 * time.Millisecond)
					}
					if lag > 0 && lag < 100 {
						r.viol("C13:remote-release-answered-before-removal", fmt.Sprintf("remote unit %s: 'work %s' answered {\"released\":...} while the unit was still known and its directory still existed; both were gone about %d ms later", u.id, cmd, lag*100))

						continue
					}
				}
				if _, err := os.Stat(d.UnitDir(u.id)); err == nil {
					r.viol("C13:release-leaves-files", fmt.Sprintf("unit %s released but its directory still exists", u.id))
				}
				m, et, err := statusOf(d, u.id, 30*time.Second)
				if err == nil && (m != nil || !strings.Contains(et, "unknown work unit")) {
					r.viol("C13:released-unit-known", fmt.Sprintf("unit %s released but 'work status' answers %v %q", u.id, m, et))
				}
				if lr, err := simpleCmd(d, "work list", 30*time.Second); err == nil && lr != nil && lr.JSON != nil {
					if _, ok := lr.JSON[u.id]; ok {
						r.viol("C13:released-unit-known", fmt.Sprintf("unit %s released but still listed", u.id))
					}
				}
			}
		default:
			r.mu.Lock()
			skip := u.cancelled || u.relAsked || strings.HasSuffix(u.kind, "long")
			r.mu.Unlock()
			if skip {
				continue // results of cancelled units never end (C05 finding); long ones take too long here
			}
			c, err := d.Dial(20 * time.Second)
			if err != nil {
				continue
			}
			_, data, closed, _ := c.Results(u.id, 0, 20*time.Second)
			c.Close()
			r.note(ci, "results", u.id, fmt.Sprintf("%d bytes closed=%v", len(data), closed))
		}
		time.Sleep(time.Duration(rng.Intn(120)) * time.Millisecond)
	}
}

func isRunnerOf(pid int, id string) bool {
	cl := daemon.PidCmdline(pid)

	return strings.Contains(cl, "--command-runner") && strings.Contains(cl, "/"+id)
}

func isChildOf(pid int, d *daemon.Daemon, id string) bool {
	l, err := os.Readlink(fmt.Sprintf("/proc/%d/fd/1", pid))

	return err == nil && strings.HasPrefix(l, d.UnitDir(id))
}

// checkTrace: every status rewrite of every unit (the sf_apply observer), plus the lock discipline of every status file
func (r *c13run) checkTrace() (applies int, files []*sftrace.FileTrace) {
	a, f := r.checkTraceFile(r.d.Trace)
	if r.n2 != nil {
		a2, f2 := r.checkTraceFile(r.n2.Trace)
		a, f = a+a2, append(f, f2...)
	}

	return a, f
}

func (r *c13run) checkTraceFile(tracePath string) (applies int, files []*sftrace.FileTrace) {
	evs := traceEvents(tracePath)
	// a runner can die inside an update without any fault injection (a cancel's SIGINT that arrives before the runner
	// has installed its signal handler kills it): the streams carry a "crash" marker after each process's last event
	r.unitTrace = append(r.unitTrace, sftrace.UnitRewrites(evs, true)...)
	for _, e := range evs {
		if e.Str("ev") != "sf_apply" {
			continue
		}
		applies++
		if e.Int("fsize") == 0 {
			continue // nothing was read: old values are the writer's blank object
		}
		os_, ns := e.Int("old_state"), e.Int("new_state")
		osz, nsz := e.Int("old_size"), e.Int("new_size")
		id := filepath.Base(filepath.Dir(e.Str("file")))
		who := fmt.Sprintf("pid %d", e.Int("p"))
		if stage(ns) < stage(os_) {
			r.viol("C13:stage-regressed", fmt.Sprintf("unit %s: record rewritten from State %d to State %d (%q -> %q) by %s", id, os_, ns, e.Str("old_detail"), e.Str("new_detail"), who))
		}
		if os_ == 2 && (ns != 2 || nsz != osz) {
			sig := "C13:succeeded-changed"
			if ns == 4 {
				sig = "C13:succeeded-then-canceled"
			}
			r.viol(sig, fmt.Sprintf("unit %s: record Succeeded/size %d rewritten to State %d/size %d (%q) by %s", id, osz, ns, nsz, e.Str("new_detail"), who))
		}
		if nsz < osz {
			r.viol("C13:size-shrank", fmt.Sprintf("unit %s: StdoutSize rewritten from %d to %d (State %d -> %d) by %s", id, osz, nsz, os_, ns, who))
		}
	}
	for _, what := range releaseOrderProblems(evs) {
		r.viol("C13:release-unregisters-before-removal", what)
	}
	files = sftrace.Split(evs, nil)
	for _, ft := range files {
		ft.Events = sftrace.WithCrashes(ft)
		for _, p := range sftrace.Accept(ft, false) {
			r.viol("C13:status-file-"+strings.TrimPrefix(p.Sig, "C14:"), fmt.Sprintf("%s: %s", filepath.Base(filepath.Dir(ft.File)), p.What))
		}
	}

	return applies, files
}

func (r *c13run) waitQuiet(limit time.Duration) {
	// let running units end (or cancel the long ones) so that all final writes are in the trace
	deadline := time.Now().Add(limit)
	for time.Now().Before(deadline) {
		lr, err := simpleCmd(r.d, "work list", 30*time.Second)
		if err != nil || lr == nil || lr.JSON == nil {
			return
		}
		busy := 0
		for _, v := range lr.JSON {
			if m, ok := v.(map[string]any); ok && daemon.Num(m, "State") < 2 {
				busy++
			}
		}
		if busy == 0 {
			return
		}
		time.Sleep(300 * time.Millisecond)
	}
}

// ---------------------------------------------------------------- scenarios

func history(res *Result, bin, base string, seed int64, clients, nops int, remote, inproc bool) (*c13run, []*sftrace.FileTrace) {
	name := fmt.Sprintf("history-s%d", seed)
	d := daemon.New(bin, filepath.Join(base, name), "n1")
	d.Inproc = inproc
	_ = os.RemoveAll(d.Dir)
	r := &c13run{res: res, d: d, seed: seed, name: name, inproc: inproc}
	defer d.Cleanup()
	if remote {
		n2, err := startExecutor(bin, d.Dir, d)
		if n2 != nil {
			n2.Inproc = false
			defer n2.Cleanup()
		}
		if err != nil {
			res.inconclusive(name + ": " + err.Error())

			return r, nil
		}
		r.n2 = n2
	}
	if err := d.Start(60 * time.Second); err != nil {
		res.inconclusive(name + ": start: " + err.Error())

		return r, nil
	}
	if remote && !waitRoute(d, "n2", 60*time.Second) {
		res.inconclusive(name + ": no route to n2")

		return r, nil
	}
	var wg sync.WaitGroup
	for c := 1; c <= clients; c++ {
		wg.Add(1)
		go r.client(c, nops, &wg)
	}
	wg.Wait()
	r.waitQuiet(30 * time.Second)
	applies, files := r.checkTrace()
	r.publishUnitTrace()
	res.count("status_rewrites_observed", applies)
	res.count("client_operations", len(r.hist))
	res.count("units", len(r.units))
	res.TraceFiles = append(res.TraceFiles, d.Trace)

	return r, files
}

// concurrent submits: ids and directories must be pairwise distinct
func burst(res *Result, bin, base string, seed int64, clients, each int) []*sftrace.FileTrace {
	name := fmt.Sprintf("burst-s%d", seed)
	d := daemon.New(bin, filepath.Join(base, name), "n1")
	_ = os.RemoveAll(d.Dir)
	r := &c13run{res: res, d: d, seed: seed, name: name}
	defer d.Cleanup()
	if err := d.Start(60 * time.Second); err != nil {
		res.inconclusive(name + ": start: " + err.Error())

		return nil
	}
	var wg sync.WaitGroup
	var mu sync.Mutex
	ids := map[string]int{}
	start := make(chan struct{})
	for c := 0; c < clients; c++ {
		wg.Add(1)
		go func() {
			defer wg.Done()
			<-start
			for k := 0; k < each; k++ {
				c, err := d.Dial(30 * time.Second)
				if err != nil {
					continue
				}
				sr, _ := c.Submit("localhost", "sh", "", []byte(instantScript), 120*time.Second, nil)
				c.Close()
				if sr != nil && sr.Acked {
					mu.Lock()
					ids[sr.UnitID]++
					mu.Unlock()
				}
			}
		}()
	}
	close(start)
	wg.Wait()
	total := 0
	for id, n := range ids {
		total += n
		if n > 1 {
			r.viol("C13:duplicate-id", fmt.Sprintf("id %s was acknowledged to %d concurrent submitters", id, n))
		}
	}
	// every wu_mkdir event names a fresh id
	seen := map[string]bool{}
	for _, e := range traceEvents(d.Trace) {
		if e.Str("ev") == "wu_mkdir" {
			if seen[e.Str("id")] {
				r.viol("C13:duplicate-id", fmt.Sprintf("unit directory %s allocated twice", e.Str("id")))
			}
			seen[e.Str("id")] = true
		}
	}
	if len(d.ListUnitDirs()) != len(ids) {
		r.viol("C13:duplicate-id", fmt.Sprintf("%d acknowledged ids but %d unit directories", len(ids), len(d.ListUnitDirs())))
	}
	res.count("concurrent_submits", total)
	r.waitQuiet(60 * time.Second)
	_, files := r.checkTrace()
	r.publishUnitTrace()

	return files
}

// TLC lead (WorkUnit.tla, SucceededIsFinal): Cancel signals the runner while the payload finishes; the runner records
// Succeeded and exits; Cancel's proc.Wait returns and the daemon rewrites the record to Canceled.
// The runner is held with SIGSTOP between "payload started" and "cancel has signalled" (the gate of this replay).
func cancelRace(res *Result, bin, base string, seed int64, attempts int) []*sftrace.FileTrace {
	name := fmt.Sprintf("cancel-vs-completion-s%d", seed)
	d := daemon.New(bin, filepath.Join(base, name), "n1")
	_ = os.RemoveAll(d.Dir)
	r := &c13run{res: res, d: d, seed: seed, name: name}
	defer d.Cleanup()
	if err := d.Start(60 * time.Second); err != nil {
		res.inconclusive(name + ": start: " + err.Error())

		return nil
	}
	completedFirst := 0
	for a := 0; a < attempts && completedFirst < 2; a++ {
		k := &Know{ToldState: -1}
		if !submit(d, k, "sleep 0.6\n"+instantScript, func(string, string) {}) {
			continue
		}
		// wait for the payload to have been started by the runner, then hold the runner
		var runner int
		for t0 := time.Now(); time.Since(t0) < 30*time.Second; time.Sleep(20 * time.Millisecond) {
			rp, ch := r.pidsOf(k.ID)
			if ch != 0 {
				runner = rp

				break
			}
		}
		if runner == 0 {
			continue
		}
		_ = syscall.Kill(runner, syscall.SIGSTOP)
		time.Sleep(900 * time.Millisecond) // the payload (sleep 0.6; echo) is over by now
		done := make(chan *daemon.Reply, 1)
		go func() {
			rep, _ := simpleCmd(d, "work cancel "+k.ID, 60*time.Second)
			done <- rep
		}()
		// wait until Cancel has delivered its signal
		signalled := false
		for t0 := time.Now(); time.Since(t0) < 20*time.Second && !signalled; time.Sleep(5 * time.Millisecond) {
			for _, e := range traceEvents(d.Trace) {
				if e.Str("ev") == "wu_cancel" && e.Str("id") == k.ID {
					signalled = true
				}
			}
		}
		_ = syscall.Kill(runner, syscall.SIGCONT)
		select {
		case <-done:
		case <-time.After(60 * time.Second):
			res.inconclusive(name + ": cancel did not answer in 60 s")
		}
		res.count("cancel_race_attempts", 1)
		for _, e := range traceEvents(d.Trace) {
			if e.Str("ev") == "sf_apply" && strings.Contains(e.Str("file"), "/"+k.ID+"/") && e.Int("new_state") == 2 && e.Int("old_state") != 2 {
				completedFirst++
			}
		}
	}
	res.count("cancel_race_completion_won", completedFirst)
	_, files := r.checkTrace()
	r.publishUnitTrace()

	return files
}

var (
	unitTraceMu  sync.Mutex
	unitTraceAll []map[string]any
)

func (r *c13run) publishUnitTrace() {
	unitTraceMu.Lock()
	unitTraceAll = append(unitTraceAll, r.unitTrace...)
	unitTraceMu.Unlock()
}

func c13Main(args []string) {
	fs := flag.NewFlagSet("c13", flag.ExitOnError)
	out := fs.String("out", "", "result file")
	bin := fs.String("bin", "/verif/.work/bin/receptor", "receptor binary")
	base := fs.String("dir", "/verif/.work/C13/runs", "scratch")
	seed := fs.Int64("seed", 1, "seed")
	histories := fs.Int("histories", 2, "number of seeded histories")
	rsched := fs.String("rsched", "cut-during-monitoring,release-while-disconnected,release-with-executor-gone", "remote fault schedules (RemoteUnit.tla) to run")
	rwTraces := fs.Int("rwtraces", 0, "write the rw_* traces of the first N schedules only (0 = all)")
	stormRounds := fs.Int("storm", 12, "rounds of the status poll storm")
	inprocBin := fs.String("inproc-bin", "", "receptor-inproc binary (histories with odd index use it and its in-process work type)")
	nops := fs.Int("ops", 14, "operations per client")
	clients := fs.Int("clients", 3, "clients per history")
	_ = fs.Parse(args)
	res := &Result{Counters: map[string]int{}, Violations: []Violation{}, Extra: map[string]any{}}
	_ = os.MkdirAll(*base, 0o755)
	var all []*sftrace.FileTrace
	var mu sync.Mutex
	var wg sync.WaitGroup
	var runs []*c13run
	for h := 0; h < *histories; h++ {
		wg.Add(1)
		go func(h int) {
			defer wg.Done()
			hb, inproc := *bin, false
			if *inprocBin != "" && h%2 == 1 {
				hb, inproc = *inprocBin, true
			}
			r, files := history(res, hb, *base, *seed*100+int64(h), *clients, *nops, h%2 == 0, inproc)
			mu.Lock()
			runs = append(runs, r)
			all = append(all, files...)
			mu.Unlock()
		}(h)
	}
	var scheds []*schedResult
	if *rsched != "" {
		wg.Add(1)
		go func() {
			defer wg.Done()
			scheds = remoteSchedules(res, *bin, *base, "C13", strings.Split(*rsched, ","), *seed)
		}()
	}
	wg.Add(1)
	go func() {
		defer wg.Done()
		if *inprocBin != "" {
			pollStorm(res, *inprocBin, *base, *seed, true, *stormRounds, 6)
		} else {
			pollStorm(res, *bin, *base, *seed, false, *stormRounds, 4)
		}
	}()
	wg.Add(1)
	go func() {
		defer wg.Done()
		releaseRequery(res, *bin, *base, *seed)
		listRace(res, *bin, *base, *seed, 3, 3, 12)
	}()
	wg.Add(2)
	go func() {
		defer wg.Done()
		f := burst(res, *bin, *base, *seed, 3, 5)
		mu.Lock()
		all = append(all, f...)
		mu.Unlock()
	}()
	go func() {
		defer wg.Done()
		f := cancelRace(res, *bin, *base, *seed, 8)
		mu.Lock()
		all = append(all, f...)
		mu.Unlock()
	}()
	wg.Wait()
	// normalised status-file traces of all units for TLC (StatusFileTrace.tla), and distinct histories
	const npmax = 6
	var norm []sftrace.Norm
	nfiles := 0
	shapes := map[string]bool{}
	for _, ft := range all {
		if ft.NP > npmax || len(ft.Events) == 0 {
			continue
		}
		nfiles++
		norm = append(norm, sftrace.Norm{Ev: "reset", H: "save", Own: make([]int, npmax)})
		var shape []string
		for _, e := range ft.Raw {
			if e.Str("ev") == "sf_apply" {
				shape = append(shape, fmt.Sprintf("%d>%d", e.Int("old_state"), e.Int("new_state")))
			}
		}
		shapes[strings.Join(dedup(shape), ",")] = true
		for _, n := range ft.Events {
			own := make([]int, npmax)
			n.Own = own
			n.Cnt = 0
			norm = append(norm, n)
		}
	}
	normFile := filepath.Join(*base, "sf_trace.ndjson")
	_ = sftrace.WriteNorm(normFile, norm)
	rwFile := filepath.Join(*base, "rw_trace.ndjson")
	forTLC := scheds
	if *rwTraces > 0 && len(forTLC) > *rwTraces {
		forTLC = forTLC[:*rwTraces]
	}
	res.Extra["rw_trace_file"], res.Extra["rw_trace_events"] = rwFile, writeRWTraces(rwFile, forTLC)
	res.Extra["remote_schedules"] = scheds
	unitFile := filepath.Join(*base, "unit_trace.ndjson")
	if f, err := os.Create(unitFile); err == nil {
		enc := json.NewEncoder(f)
		for _, e := range unitTraceAll {
			_ = enc.Encode(e)
		}
		f.Close()
	}
	res.Extra["unit_trace_file"] = unitFile
	res.Extra["unit_trace_events"] = len(unitTraceAll)
	res.Extra["norm_file"] = normFile
	res.Extra["norm_events"] = len(norm)
	res.Extra["status_files"] = nfiles
	var shapeList []string
	for s := range shapes {
		shapeList = append(shapeList, s)
	}
	sort.Strings(shapeList)
	res.Extra["state_paths"] = shapeList
	res.Distinct = len(shapeList)
	res.Evaluations = res.Counters["client_operations"] + res.Counters["concurrent_submits"] + res.Counters["cancel_race_attempts"]
	for _, r := range runs {
		if r != nil && len(res.Samples) < 3 {
			h := r.hist
			if len(h) > 25 {
				h = h[:25]
			}
			res.Samples = append(res.Samples, map[string]any{"scenario": r.name, "history": h})
		}
	}
	res.write(*out)
}

func dedup(s []string) []string {
	var out []string
	for i, x := range s {
		if i == 0 || s[i-1] != x {
			out = append(out, x)
		}
	}

	return out
}
