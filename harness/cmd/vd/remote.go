package main

import (
	"fmt"
	"net"
	"path/filepath"
	"time"

	"verif/harness/daemon"
)

func freePort() int {
	l, err := net.Listen("tcp", "127.0.0.1:0")
	if err != nil {
		return 0
	}
	defer l.Close()

	return l.Addr().(*net.TCPAddr).Port
}

// startExecutor starts the second node (n2: runs the work, listens on TCP) below dir and points d (n1) at it.
func startExecutor(bin, dir string, d *daemon.Daemon) (*daemon.Daemon, error) {
	n2 := daemon.New(bin, filepath.Join(dir, "n2d"), "n2")
	n2.TCPPort = freePort()
	if n2.TCPPort == 0 {
		return nil, fmt.Errorf("no free port")
	}
	if err := n2.Start(60 * time.Second); err != nil {
		return n2, fmt.Errorf("start n2: %v", err)
	}
	d.Peers = []string{fmt.Sprintf("127.0.0.1:%d", n2.TCPPort)}

	return n2, nil
}

// waitRoute waits until node d can reach node other (control command "ping").
func waitRoute(d *daemon.Daemon, other string, limit time.Duration) bool {
	deadline := time.Now().Add(limit)
	for time.Now().Before(deadline) && d.Alive() {
		r, err := simpleCmd(d, "ping "+other, 10*time.Second)
		if err == nil && r != nil && r.JSON != nil && r.JSON["Success"] == true {
			return true
		}
		time.Sleep(200 * time.Millisecond)
	}

	return false
}

// remoteBinding extracts the remote identity of a unit from a status map (control socket answer or status file).
func remoteBinding(m map[string]any) (node, unit string, started bool) {
	ed, _ := m["ExtraData"].(map[string]any)
	if ed == nil {
		return "", "", false
	}
	node, _ = ed["RemoteNode"].(string)
	unit, _ = ed["RemoteUnitID"].(string)
	started, _ = ed["RemoteStarted"].(bool)

	return node, unit, started
}

// remoteExecutorKill: the node that EXECUTES a remote unit is killed while the unit runs and restarted on the same
// directory; the runner survives, the executor picks the unit up again, and the submitting node's mirror must
// resume and complete with identity and output intact.
func remoteExecutorKill(bin, base string) *outcome {
	cp := crashPoint{Workload: "remote-long", Role: "executor", Name: "sigkill-while-running", K: 1}
	o := &outcome{Point: cp, Know: Know{ToldState: -1, ToldSize: -1, Node: "n2"}, Class: "remote-started"}
	dir := filepath.Join(base, "x_remote_executor_kill")
	o.Dir = dir
	d := daemon.New(bin, dir, "n1")
	_ = removeAll(dir)
	defer d.Cleanup()
	log := func(what, info string) { o.Steps = append(o.Steps, step{what, info}) }
	viol := func(sig, what string) {
		o.Violations = append(o.Violations, Violation{Sig: sig, What: fmt.Sprintf("[%s] %s", cp, what), Replay: map[string]any{"point": cp, "dir": dir}})
	}
	n2, err := startExecutor(bin, dir, d)
	if n2 != nil {
		defer n2.Cleanup()
	}
	if err != nil {
		o.Inconcl = append(o.Inconcl, err.Error())

		return o
	}
	if err := d.Start(60 * time.Second); err != nil || !waitRoute(d, "n2", 60*time.Second) {
		o.Inconcl = append(o.Inconcl, fmt.Sprintf("n1 start/route: %v", err))

		return o
	}
	k := &o.Know
	if !submit(d, k, longScript, log) || !waitState(d, k, func(s int64) bool { return s >= 1 }, 90*time.Second, log) {
		o.Inconcl = append(o.Inconcl, "remote unit did not reach Running")

		return o
	}
	k.Expected = longOutput
	m, _, _ := statusOf(d, k.ID, 20*time.Second)
	_, runit, _ := remoteBinding(m)
	if k.ToldState != 1 || runit == "" {
		o.Inconcl = append(o.Inconcl, fmt.Sprintf("unit already at state %d / no remote unit id", k.ToldState))

		return o
	}
	n2.Kill()
	o.Reached = true
	log("executor-killed", runit)
	time.Sleep(300 * time.Millisecond)
	if err := n2.Start(60 * time.Second); err != nil {
		o.Inconcl = append(o.Inconcl, "restart n2: "+err.Error())

		return o
	}
	// the executor's own unit must be followed (C04 on n2), and the submitter's mirror must complete
	var n2final, n1final int64 = -1, -1
	var n2finalAt time.Time
	deadline := time.Now().Add(120 * time.Second)
	for time.Now().Before(deadline) {
		if n2final < 2 {
			if m2, _, err := statusOf(n2, runit, 20*time.Second); err == nil && m2 != nil {
				if n2final = daemon.Num(m2, "State"); n2final >= 2 {
					n2finalAt = time.Now()
				}
			}
		}
		if m1, _, err := statusOf(d, k.ID, 20*time.Second); err == nil && m1 != nil {
			if s := daemon.Num(m1, "State"); s >= 2 {
				n1final = s
				node, unit, _ := remoteBinding(m1)
				if node != "n2" || unit != runit {
					viol("C04:remote-binding-lost@executor-killed", fmt.Sprintf("unit %s now names %s/%s, was n2/%s", k.ID, node, unit, runit))
				}

				break
			}
		}
		if n2final >= 2 && time.Since(n2finalAt) > 45*time.Second {
			break
		}
		time.Sleep(200 * time.Millisecond)
	}
	o.After = map[string]any{"executor_unit_final": n2final, "submitter_unit_final": n1final}
	switch {
	case n1final == 2:
		checkResults(d, k, viol, &o.Inconcl, "@executor-killed")
	case n1final >= 2:
		viol("C04:remote-unit-failed@executor-killed", fmt.Sprintf("unit %s ends in State %d on the submitting node although the executor restarted and its unit %s ended in State %d", k.ID, n1final, runit, n2final))
	case n2final >= 2:
		viol("C04:remote-not-followed@executor-killed", fmt.Sprintf("the executor's unit %s reached State %d more than 45 s ago, the submitting node still does not report a final state for %s", runit, n2final, k.ID))
	default:
		o.Inconcl = append(o.Inconcl, "neither side reached a final state in 120 s")
	}

	return o
}
