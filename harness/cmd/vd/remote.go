package main

import (
	"errors"
	"fmt"
	"net"
	"os"
	"path/filepath"
	"sync"
	"time"

	"verif/harness/daemon"
	"verif/harness/freeport"
)

// freePort: a loopback port reserved for this process, outside the kernel's ephemeral range (0 = none found).
// Self-test only: with VD_SELFTEST_TAKEN_PORT set, the first call returns a port this process itself listens on, so
// that the daemon told to use it finds it taken and startListening has to recover.
func freePort() int {
	if os.Getenv("VD_SELFTEST_TAKEN_PORT") != "" {
		takenOnce.Do(func() {
			if l, err := net.Listen("tcp", "127.0.0.1:0"); err == nil {
				takenKeep, takenPort = l, l.Addr().(*net.TCPAddr).Port // stays open for the life of the process
			}
		})
		setupMu.Lock()
		p := takenPort
		takenPort = 0
		setupMu.Unlock()
		if p != 0 {
			return p
		}
	}
	p, err := freeport.Get()
	if err != nil {
		return 0
	}

	return p
}

var (
	takenOnce sync.Once
	takenPort int
	takenKeep net.Listener
)

// startListening gives d (a node that has not run yet: nothing of the scenario has happened) a TCP listener port and
// starts it. A process that gives up because the port was taken after all (somebody outside package freeport bound it
// in the meantime) is started again on another port: that death says nothing about receptor. A first start that dies
// for another reason is tried once more; every such retry is recorded with the process's own last words
// (setupNotes, written into the result) and a second death is returned with them.
func startListening(d *daemon.Daemon) error {
	var err error
	other := 0
	for attempt := 0; attempt < 5; attempt++ {
		if d.TCPPort = freePort(); d.TCPPort == 0 {
			return fmt.Errorf("no free port")
		}
		err = d.Start(60 * time.Second)
		var sd *daemon.StartDied
		if err == nil || !errors.As(err, &sd) {
			return err
		}
		if !sd.PortTaken() {
			if other++; other > 1 {
				return err
			}
		}
		setupNote(fmt.Sprintf("first start of %s in %s retried: %v", d.NodeID, d.Dir, err))
	}

	return err
}

var (
	setupMu    sync.Mutex
	setupNotes []string
)

func setupNote(s string) {
	setupMu.Lock()
	setupNotes = append(setupNotes, s)
	setupMu.Unlock()
	fmt.Fprintln(os.Stderr, "setup:", s)
}

// startExecutor starts the second node (n2: runs the work, listens on TCP) below dir and points d (n1) at it.
func startExecutor(bin, dir string, d *daemon.Daemon) (*daemon.Daemon, error) {
	n2 := daemon.New(bin, filepath.Join(dir, "n2d"), "n2")
	if err := startListening(n2); err != nil {
		return n2, fmt.Errorf("start n2: %v", err)
	}
	d.Peers = []string{fmt.Sprintf("127.0.0.1:%d", n2.TCPPort)}

	return n2, nil
}

// waitRoute waits until node d can reach node other (control command "ping").
func waitRoute(d *daemon.Daemon, other string, limit time.Duration) bool {
	deadline := time.Now().Add(limit)
	for time.Now().Before(deadline) && d.Alive() {
		r, err := simpleCmd(d, "ping "+other, 10*time.Second)
		if err == nil && r != nil && r.JSON != nil && r.JSON["Success"] == true {
			return true
		}
		time.Sleep(200 * time.Millisecond)
	}

	return false
}

// remoteBinding extracts the remote identity of a unit from a status map (control socket answer or status file).
func remoteBinding(m map[string]any) (node, unit string, started bool) {
	ed, _ := m["ExtraData"].(map[string]any)
	if ed == nil {
		return "", "", false
	}
	node, _ = ed["RemoteNode"].(string)
	unit, _ = ed["RemoteUnitID"].(string)
	started, _ = ed["RemoteStarted"].(bool)

	return node, unit, started
}

// remoteExecutorKill: the node that EXECUTES a remote unit is killed while the unit runs and restarted on the same
// directory; the runner survives, the executor picks the unit up again, and the submitting node's mirror must
// resume and complete with identity and output intact.
func remoteExecutorKill(bin, base string) *outcome {
	cp := crashPoint{Workload: "remote-long", Role: "executor", Name: "sigkill-while-running", K: 1}
	o := &outcome{Point: cp, Know: Know{ToldState: -1, ToldSize: -1, Node: "n2"}, Class: "remote-started"}
	dir := filepath.Join(base, "x_remote_executor_kill")
	o.Dir = dir
	d := daemon.New(bin, dir, "n1")
	_ = removeAll(dir)
	defer d.Cleanup()
	log := func(what, info string) { o.Steps = append(o.Steps, step{what, info}) }
	viol := func(sig, what string) {
		o.Violations = append(o.Violations, Violation{Sig: sig, What: fmt.Sprintf("[%s] %s", cp, what), Replay: map[string]any{"point": cp, "dir": dir}})
	}
	n2, err := startExecutor(bin, dir, d)
	if n2 != nil {
		defer n2.Cleanup()
	}
	if err != nil {
		o.Inconcl = append(o.Inconcl, err.Error())

		return o
	}
	if err := d.Start(60 * time.Second); err != nil || !waitRoute(d, "n2", 60*time.Second) {
		o.Inconcl = append(o.Inconcl, fmt.Sprintf("n1 start/route: %v", err))

		return o
	}
	k := &o.Know
	if !submit(d, k, longScript, log) || !waitState(d, k, func(s int64) bool { return s >= 1 }, 90*time.Second, log) {
		o.Inconcl = append(o.Inconcl, "remote unit did not reach Running")

		return o
	}
	k.Expected = longOutput
	m, _, _ := statusOf(d, k.ID, 20*time.Second)
	_, runit, _ := remoteBinding(m)
	if k.ToldState != 1 || runit == "" {
		o.Inconcl = append(o.Inconcl, fmt.Sprintf("unit already at state %d / no remote unit id", k.ToldState))

		return o
	}
	n2.Kill()
	o.Reached = true
	log("executor-killed", runit)
	time.Sleep(300 * time.Millisecond)
	if err := n2.Start(60 * time.Second); err != nil {
		o.Inconcl = append(o.Inconcl, "restart n2: "+err.Error())

		return o
	}
	// the executor's own unit must be followed (C04 on n2), and the submitter's mirror must complete
	var n2final, n1final int64 = -1, -1
	var n2finalAt time.Time
	deadline := time.Now().Add(120 * time.Second)
	for time.Now().Before(deadline) {
		if n2final < 2 {
			if m2, _, err := statusOf(n2, runit, 20*time.Second); err == nil && m2 != nil {
				if n2final = daemon.Num(m2, "State"); n2final >= 2 {
					n2finalAt = time.Now()
				}
			}
		}
		if m1, _, err := statusOf(d, k.ID, 20*time.Second); err == nil && m1 != nil {
			if s := daemon.Num(m1, "State"); s >= 2 {
				n1final = s
				node, unit, _ := remoteBinding(m1)
				if node != "n2" || unit != runit {
					viol("C04:remote-binding-lost@executor-killed", fmt.Sprintf("unit %s now names %s/%s, was n2/%s", k.ID, node, unit, runit))
				}

				break
			}
		}
		if n2final >= 2 && time.Since(n2finalAt) > 45*time.Second {
			break
		}
		time.Sleep(200 * time.Millisecond)
	}
	o.After = map[string]any{"executor_unit_final": n2final, "submitter_unit_final": n1final}
	switch {
	case n1final == 2:
		checkResults(d, k, viol, &o.Inconcl, "@executor-killed")
	case n1final >= 2:
		viol("C04:remote-unit-failed@executor-killed", fmt.Sprintf("unit %s ends in State %d on the submitting node although the executor restarted and its unit %s ended in State %d", k.ID, n1final, runit, n2final))
	case n2final >= 2:
		viol("C04:remote-not-followed@executor-killed", fmt.Sprintf("the executor's unit %s reached State %d more than 45 s ago, the submitting node still does not report a final state for %s", runit, n2final, k.ID))
	default:
		o.Inconcl = append(o.Inconcl, "neither side reached a final state in 120 s")
	}

	return o
}
