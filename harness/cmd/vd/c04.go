package main

import (
	"bytes"
	"encoding/json"
	"errors"
	"flag"
	"fmt"
	"math/rand"
	"os"
	"path/filepath"
	"sort"
	"strings"
	"sync"
	"syscall"
	"time"

	"verif/harness/daemon"
	"verif/harness/sftrace"
)

func init() { commands["c04"] = c04Main }

// ---------------------------------------------------------------- workloads

const quickScript = "for i in 1 2 3; do echo chunk-$i-0123456789; sleep 0.15; done\n"
const quickOutput = "chunk-1-0123456789\nchunk-2-0123456789\nchunk-3-0123456789\n"

// the long payload ends by itself after ~4 s so that "followed to completion" is observable; it reacts to SIGINT at once
const longScript = "trap 'exit 130' INT TERM\necho begin-0123456789\nfor i in 1 2 3 4 5 6 7 8; do sleep 0.5 & wait $!; done\necho end-0123456789\n"
const longOutput = "begin-0123456789\nend-0123456789\n"

// Know is what the client side knows about one unit: exactly the inputs of the Durable policy.
type Know struct {
	ID          string `json:"id"`
	Node        string `json:"node,omitempty"` // "" = localhost; else the node that executes the unit
	Acked       bool   `json:"acked"`
	SubmitDone  bool   `json:"submit_done"` // the final JSON answer of submit was received
	Expected    string `json:"-"`
	ToldState   int64  `json:"told_state"` // last state reported before the crash (-1 none)
	ToldSize    int64  `json:"told_size"`
	GotResults  bool   `json:"got_results"`
	CancelAsked bool   `json:"cancel_asked"`
	CancelOK    bool   `json:"cancel_ok"`
	RelAsked    bool   `json:"release_asked"`
	RelOK       bool   `json:"release_ok"`
}

type step struct {
	What string `json:"what"`
	Info string `json:"info,omitempty"`
}

type workload struct {
	remote bool // submitted on n1 for execution on a second daemon n2
	name   string
	script string
	output string
	run    func(d *daemon.Daemon, k *Know, log func(string, string)) // returns when done or when the daemon is gone
}

func statusOf(d *daemon.Daemon, id string, timeout time.Duration) (map[string]any, string, error) {
	c, err := d.Dial(timeout)
	if err != nil {
		return nil, "", err
	}
	defer c.Close()
	r, err := c.Command("work status "+id, timeout)
	if err != nil {
		return nil, "", err
	}

	return r.JSON, r.Err, nil
}

func submit(d *daemon.Daemon, k *Know, script string, log func(string, string)) bool {
	c, err := d.Dial(10 * time.Second)
	if err != nil {
		log("dial-failed", err.Error())

		return false
	}
	defer c.Close()
	node := k.Node
	if node == "" {
		node = "localhost"
	}
	sr, err := c.Submit(node, "sh", "", []byte(script), 60*time.Second, func(id string) {
		k.ID, k.Acked = id, true
		log("acked", id)
	})
	if sr != nil && sr.Final != nil && sr.Final.JSON != nil {
		k.SubmitDone = true
		log("submitted", sr.Final.Raw)

		return true
	}
	log("submit-ended", fmt.Sprint(err))

	return false
}

// waitState polls until the reported state satisfies ok; records what the client was told.
func waitState(d *daemon.Daemon, k *Know, ok func(int64) bool, limit time.Duration, log func(string, string)) bool {
	deadline := time.Now().Add(limit)
	for time.Now().Before(deadline) && d.Alive() {
		m, _, err := statusOf(d, k.ID, 10*time.Second)
		if err == nil && m != nil {
			k.ToldState, k.ToldSize = daemon.Num(m, "State"), daemon.Num(m, "StdoutSize")
			if ok(k.ToldState) {
				log("told", fmt.Sprintf("state=%d size=%d", k.ToldState, k.ToldSize))

				return true
			}
		}
		time.Sleep(60 * time.Millisecond)
	}

	return false
}

func simpleCmd(d *daemon.Daemon, line string, timeout time.Duration) (*daemon.Reply, error) {
	c, err := d.Dial(timeout)
	if err != nil {
		return nil, err
	}
	defer c.Close()

	return c.Command(line, timeout)
}

var workloads = []workload{
	{name: "finish", script: quickScript, output: quickOutput, run: func(d *daemon.Daemon, k *Know, log func(string, string)) {
		if !submit(d, k, quickScript, log) {
			return
		}
		if !waitState(d, k, func(s int64) bool { return s >= 2 }, 60*time.Second, log) {
			return
		}
		c, err := d.Dial(10 * time.Second)
		if err != nil {
			return
		}
		defer c.Close()
		_, data, closed, _ := c.Results(k.ID, 0, 20*time.Second)
		if closed && string(data) == quickOutput {
			k.GotResults = true
			log("results", fmt.Sprintf("%d bytes", len(data)))
		}
	}},
	{name: "long", script: longScript, output: longOutput, run: func(d *daemon.Daemon, k *Know, log func(string, string)) {
		if !submit(d, k, longScript, log) {
			return
		}
		waitState(d, k, func(s int64) bool { return s >= 1 }, 60*time.Second, log)
		// stay around for a few ticks of the runner
		t := time.Now().Add(1500 * time.Millisecond)
		for time.Now().Before(t) && d.Alive() {
			time.Sleep(50 * time.Millisecond)
		}
	}},
	{name: "cancel", script: longScript, output: longOutput, run: func(d *daemon.Daemon, k *Know, log func(string, string)) {
		if !submit(d, k, longScript, log) {
			return
		}
		if !waitState(d, k, func(s int64) bool { return s >= 1 }, 60*time.Second, log) {
			return
		}
		k.CancelAsked = true
		r, err := simpleCmd(d, "work cancel "+k.ID, 60*time.Second)
		if err == nil && r != nil && r.Err == "" {
			k.CancelOK = true
			log("cancelled", r.Raw)
			waitState(d, k, func(s int64) bool { return s >= 2 }, 20*time.Second, log)
		}
	}},
	{name: "remote", remote: true, script: quickScript, output: quickOutput, run: func(d *daemon.Daemon, k *Know, log func(string, string)) {
		k.Node = "n2"
		if !submit(d, k, quickScript, log) {
			return
		}
		if !waitState(d, k, func(s int64) bool { return s >= 2 }, 90*time.Second, log) {
			return
		}
		c, err := d.Dial(10 * time.Second)
		if err != nil {
			return
		}
		defer c.Close()
		_, data, closed, _ := c.Results(k.ID, 0, 30*time.Second)
		if closed && string(data) == quickOutput {
			k.GotResults = true
			log("results", fmt.Sprintf("%d bytes", len(data)))
		}
	}},
	{name: "release", script: quickScript, output: quickOutput, run: func(d *daemon.Daemon, k *Know, log func(string, string)) {
		if !submit(d, k, quickScript, log) {
			return
		}
		if !waitState(d, k, func(s int64) bool { return s >= 2 }, 60*time.Second, log) {
			return
		}
		k.RelAsked = true
		r, err := simpleCmd(d, "work release "+k.ID, 60*time.Second)
		if err == nil && r != nil && r.Err == "" {
			k.RelOK = true
			log("released", r.Raw)
		}
	}},
}

// ---------------------------------------------------------------- one experiment

type crashPoint struct {
	Workload string `json:"workload"`
	Role     string `json:"role"`
	Name     string `json:"name"`
	K        int    `json:"k"`
	Second   string `json:"second,omitempty"`    // crash point armed for the FIRST restart (repeated crash cycle)
	ExecDown bool   `json:"exec_down,omitempty"` // remote workload: the executor node is down when the submitter restarts
	Both     bool   `json:"both,omitempty"`      // the runner is killed together with the daemon (machine-level failure of both processes)
}

func (c crashPoint) String() string {
	s := fmt.Sprintf("%s/%s/%s#%d", c.Workload, c.Role, c.Name, c.K)
	if c.Second != "" {
		s += "+" + c.Second
	}
	if c.Both {
		s += "+runner-too"
	}
	if c.ExecDown {
		s += "+executor-down"
	}

	return s
}

type outcome struct {
	Point      crashPoint  `json:"point"`
	Reached    bool        `json:"reached"` // the selected process died at the point
	Know       Know        `json:"know"`
	Steps      []step      `json:"steps"`
	After      any         `json:"after"` // what the restarted daemon answered
	Violations []Violation `json:"violations"`
	Inconcl    []string    `json:"inconclusive"`
	Class      string      `json:"class"` // crash window per the policy table
	Dir        string      `json:"dir"`
}

func removeAll(dir string) error { return os.RemoveAll(dir) }

func findWorkload(name string) *workload {
	for i := range workloads {
		if workloads[i].name == name {
			return &workloads[i]
		}
	}

	return nil
}

// traceHas reports whether the trace contains an event with the given name (and id, if not empty).
func traceEvents(path string) []sftrace.Event {
	evs, _ := sftrace.ReadTrace(path)

	return evs
}

func runnerPidAlive(evs []sftrace.Event) (spawned bool, pid int) {
	for _, e := range evs {
		if e.Str("ev") == "wu_spawn" {
			spawned, pid = true, int(e.Int("pid"))
		}
	}

	return spawned, pid
}

// wedged: the node still answers commands that do not touch the work-unit index while "work list" does not
func wedged(d *daemon.Daemon) (bool, string) {
	if !d.Alive() {
		return false, "daemon not running"
	}
	if r, err := simpleCmd(d, "ping "+d.NodeID, 15*time.Second); err != nil || r == nil {
		return false, fmt.Sprintf("ping failed too: %v", err)
	}
	if _, err := simpleCmd(d, "work list", 30*time.Second); err == nil {
		return false, "work list answered on retry"
	}
	if r, err := simpleCmd(d, "ping "+d.NodeID, 15*time.Second); err != nil || r == nil {
		return false, "ping failed after work list timeout"
	}

	return true, "ping answers, work list does not (two attempts, 20 s + 30 s)"
}

func experiment(bin, base string, cp crashPoint, idx int) *outcome {
	o := &outcome{Point: cp, Know: Know{ToldState: -1, ToldSize: -1}}
	dir := filepath.Join(base, fmt.Sprintf("x%04d_%s_%s_%s_%d", idx, cp.Workload, cp.Role, cp.Name, cp.K))
	o.Dir = dir
	_ = os.RemoveAll(dir)
	d := daemon.New(bin, dir, "n1")
	defer d.Cleanup()
	log := func(what, info string) { o.Steps = append(o.Steps, step{what, info}) }
	viol := func(sig, what string) {
		o.Violations = append(o.Violations, Violation{Sig: sig, What: fmt.Sprintf("[%s] %s", cp, what),
			Replay: map[string]any{"point": cp, "dir": dir}})
	}
	w := findWorkload(cp.Workload)
	var env []string
	if cp.Name != "" {
		env = []string{fmt.Sprintf("VERIF_CRASH_AT=%s#%d", cp.Name, cp.K), "VERIF_CRASH_WHO=" + cp.Role}
	}
	var n2 *daemon.Daemon
	if w.remote {
		var err error
		n2, err = startExecutor(bin, dir, d)
		if n2 != nil {
			defer n2.Cleanup()
		}
		if err != nil {
			o.Inconcl = append(o.Inconcl, err.Error())

			return o
		}
	}
	if err := d.Start(60*time.Second, env...); err != nil {
		o.Inconcl = append(o.Inconcl, "start: "+err.Error())

		return o
	}
	if w.remote && !waitRoute(d, "n2", 60*time.Second) {
		if d.Alive() {
			o.Inconcl = append(o.Inconcl, "n1 has no route to n2 after 60 s")
		}
		// a crash point hit during start-up: the workload below simply finds the daemon gone
	}
	firstPid := d.Pid()
	done := make(chan struct{})
	go func() { w.run(d, &o.Know, log); close(done) }()
	select {
	case <-done:
	case <-time.After(150 * time.Second):
		o.Inconcl = append(o.Inconcl, "workload did not end in 150 s")

		return o
	}
	o.Know.Expected = w.output
	if cp.Name == "" {
		o.Reached = false

		return o // dry run
	}
	evs := traceEvents(d.Trace)
	spawned, rpid := runnerPidAlive(evs)
	runnerKilled := false
	switch cp.Role {
	case "daemon":
		o.Reached = d.WaitExit(3 * time.Second) // the SIGKILL may be a few ms ahead of our wait4
	case "runner":
		// the runner is the process that died if its last cp event is the selected one and it is gone
		if spawned && !daemon.PidAlive(rpid) {
			n := 0
			for _, e := range evs {
				if e.Str("ev") == "cp" && int(e.Int("p")) == rpid && e.Str("name") == cp.Name {
					n++
				}
			}
			sawExit := false
			for _, e := range evs {
				if e.Str("ev") == "rn_exit" && int(e.Int("p")) == rpid {
					sawExit = true
				}
			}
			o.Reached = n == cp.K && !sawExit
			runnerKilled = o.Reached
		}
	}
	if !o.Reached {
		return o
	}
	_ = firstPid
	// ---- crash window (policy table of DESIGN.md C04)
	k := &o.Know
	switch {
	case !k.Acked:
		o.Class = "before-ack"
	case runnerKilled:
		o.Class = "runner-killed"
	case k.RelAsked:
		o.Class = "release-in-progress"
	case k.CancelAsked:
		o.Class = "cancel-in-progress"
	case k.ToldState == 2 || k.ToldState == 3:
		o.Class = "already-final"
	case !spawned:
		o.Class = "acked-not-started"
	default:
		o.Class = "runner-alive"
	}
	if cp.Both && cp.Role == "daemon" && spawned {
		// daemon AND runner die together: nobody is left to start or to follow the unit
		if daemon.PidAlive(rpid) && strings.Contains(daemon.PidCmdline(rpid), "--command-runner") {
			_ = syscall.Kill(rpid, syscall.SIGKILL)
			for t0 := time.Now(); daemon.PidAlive(rpid) && time.Since(t0) < 5*time.Second; {
				time.Sleep(10 * time.Millisecond)
			}
		}
		if disk := readStatusFile(d, k.ID); disk != nil && daemon.Num(disk, "State") == 0 && k.Acked {
			o.Class = "both-killed-before-running"
		} else if k.Acked {
			o.Class = "runner-killed"
		}
	}
	var preDisk map[string]any
	if w.remote && k.Acked {
		preDisk = readStatusFile(d, k.ID)
		_, _, started := remoteBinding(preDisk)
		switch {
		case k.ToldState == 2 || k.ToldState == 3:
			o.Class = "already-final"
		case preDisk != nil && started:
			o.Class = "remote-started"
		case preDisk != nil:
			o.Class = "acked-not-started"
		default:
			o.Class = "remote-record-unreadable"
		}
	}
	// ---- restart on the same directory (the runner role leaves the daemon alive: kill it too = "also restarted")
	if cp.Role == "runner" {
		time.Sleep(300 * time.Millisecond) // let the daemon notice its child's death first (one more interleaving point)
		d.Kill()
	}
	if cp.ExecDown && n2 != nil {
		n2.Kill() // the executor is unreachable while the submitter recovers
	}
	var env2 []string
	if cp.Second != "" {
		env2 = []string{"VERIF_CRASH_AT=" + cp.Second, "VERIF_CRASH_WHO=daemon"}
	}
	err := d.Start(60*time.Second, env2...)
	if cp.Second != "" {
		// the first restart is expected to die at the second point (if it reaches it); then restart plainly
		if err == nil {
			probeDeadline := time.Now().Add(3 * time.Second)
			for time.Now().Before(probeDeadline) && d.Alive() {
				_, _ = simpleCmd(d, "work list", 5*time.Second)
				time.Sleep(100 * time.Millisecond)
			}
		}
		if d.Alive() {
			d.Kill()
			log("second-point-not-reached", cp.Second)
		} else {
			log("second-crash", cp.Second)
		}
		err = d.Start(60 * time.Second)
	}
	if err != nil {
		var sd *daemon.StartDied
		if errors.As(err, &sd) && sd.PortTaken() {
			o.Inconcl = append(o.Inconcl, "restart: "+err.Error())
		} else if errors.Is(err, daemon.ErrDied) {
			viol("C04:restart-fails", "the daemon exits when started on the directory left by the crash")
		} else {
			o.Inconcl = append(o.Inconcl, "restart: "+err.Error())
		}

		return o
	}
	after := map[string]any{}
	o.After = after
	if w.remote && !cp.ExecDown {
		waitRoute(d, "n2", 60*time.Second)
	}
	// ---- no query blocks: work list
	lr, err := simpleCmd(d, "work list", 20*time.Second)
	if err != nil {
		if w, why := wedged(d); w {
			viol("C04:status-query-blocks", "after restart 'work list' never answers: "+why)
		} else {
			o.Inconcl = append(o.Inconcl, fmt.Sprintf("work list after restart: %v (%s)", err, why))
		}

		return o
	}
	after["list"] = lr.Raw
	if lr.Err != "" {
		viol("C04:list-error", "work list after restart answers ERROR: "+lr.Err)

		return o
	}
	probeDirs := func() bool {
		// every unit directory must be answerable, acked or not (no query blocks)
		for _, id := range d.ListUnitDirs() {
			_, _, err := statusOf(d, id, 20*time.Second)
			if err != nil {
				if w, why := wedged(d); w {
					viol("C04:status-query-blocks", fmt.Sprintf("'work status %s' (directory on disk) never answers: %s", id, why))
				} else {
					o.Inconcl = append(o.Inconcl, fmt.Sprintf("work status %s: %v (%s)", id, err, why))
				}

				return false
			}
		}

		return true
	}
	if !k.Acked {
		probeDirs()

		return o // nothing else is demanded about a unit whose id nobody was given
	}
	if k.RelAsked {
		// release in progress: the unit is either still there (with its type) or gone; both are allowed
		probeDirs()

		return o
	}
	ent, listed := lr.JSON[k.ID].(map[string]any)
	suffix := "@" + cp.Name
	// recovery runs concurrently with the control service (the scan is repeated per registered work type and the
	// unit is briefly dropped from the index in between): Durable is evaluated once recovery has completed, so
	// give it time; only a unit that stays unlisted while the node answers is a definite wrong value
	for t0 := time.Now(); !listed && time.Since(t0) < 15*time.Second; {
		time.Sleep(200 * time.Millisecond)
		if lr2, err := simpleCmd(d, "work list", 20*time.Second); err == nil && lr2.JSON != nil {
			lr = lr2
			ent, listed = lr.JSON[k.ID].(map[string]any)
		}
	}
	if listed && daemon.Str(ent, "WorkType") == "" {
		// an unknown-type placeholder is replaced once the work type is registered: look again shortly
		time.Sleep(500 * time.Millisecond)
		if lr2, err := simpleCmd(d, "work list", 20*time.Second); err == nil && lr2.JSON != nil {
			if e2, ok := lr2.JSON[k.ID].(map[string]any); ok {
				ent = e2
			}
		}
	}
	if !probeDirs() {
		return o
	}
	if !listed {
		viol("C04:acked-unit-not-listed"+suffix, fmt.Sprintf("unit %s had been acknowledged but is not listed after restart (%s)", k.ID, o.Class))

		return o
	}
	wantType := "sh"
	if w.remote {
		wantType = "remote"
	}
	if wt := daemon.Str(ent, "WorkType"); wt != wantType {
		sig := "C04:worktype-lost" + suffix
		if fi, err := os.Stat(filepath.Join(d.UnitDir(k.ID), "status")); err == nil && fi != nil {
			// how did it get lost? an empty status record (truncate done, write not) is the known mechanism
			for _, e := range evs {
				_ = e
			}
		}
		if emptyStatusSeen(traceEvents(d.Trace), d.UnitDir(k.ID)) {
			sig = "C04:empty-status-after-crash" + suffix
		}
		viol(sig, fmt.Sprintf("unit %s is listed with WorkType %q, State %d, Detail %q after restart (%s); ExtraData=%v",
			k.ID, wt, daemon.Num(ent, "State"), daemon.Str(ent, "Detail"), o.Class, ent["ExtraData"]))

		return o
	}
	st := daemon.Num(ent, "State")
	after["state"] = st
	if w.remote {
		// identity of a remote unit = the remote node and (once started) the remote unit it is bound to
		node, unit, _ := remoteBinding(ent)
		pnode, punit, pstarted := remoteBinding(preDisk)
		after["remote"] = fmt.Sprintf("%s/%s", node, unit)
		if node != "n2" {
			viol("C04:remote-binding-lost"+suffix, fmt.Sprintf("unit %s is listed after restart with RemoteNode %q (was n2; record before restart: %s/%s)", k.ID, node, pnode, punit))

			return o
		}
		_ = pstarted
		// ground truth from S's own trace: the id E answered with, and whether the stdin transfer had completed
		// (RemoteUnit.tla, BoundOnceShipped: from then on the record must name E's unit, whatever happens to S)
		xid, shipped := "", false
		for _, e := range evs {
			if e.Str("id") != k.ID {
				continue
			}
			if e.Str("ev") == "rw_submitted" {
				xid = e.Str("remote_id")
			}
			if e.Str("ev") == "rw_stdin_shipped" {
				shipped = true
			}
		}
		if shipped && xid != "" && unit != xid {
			viol("C04:remote-binding-lost"+suffix, fmt.Sprintf("unit %s: E answered the submission with unit %s and had received the whole stdin when S died; after restart the record names %q (the remote unit is orphaned)", k.ID, xid, unit))

			return o
		}
		// once the id of the remote unit is on record the local unit is bound to it - started or not
		checkBinding := func(m map[string]any) bool {
			_, u, _ := remoteBinding(m)
			if punit != "" && u != punit {
				viol("C04:remote-binding-lost"+suffix, fmt.Sprintf("unit %s was bound to remote unit %s on n2 (record at the crash), after restart it names %q", k.ID, punit, u))

				return false
			}

			return true
		}
		if !checkBinding(ent) {
			return o
		}
		if o.Class == "acked-not-started" && !cp.ExecDown && n2 != nil {
			// the submission was not completed before the crash: it must not be made a second time behind the client's back
			time.Sleep(1500 * time.Millisecond)
			if m, _, err := statusOf(d, k.ID, 20*time.Second); err == nil && m != nil {
				st = daemon.Num(m, "State")
				ent = m
				if !checkBinding(m) {
					return o
				}
			}
			if lr2, err := simpleCmd(n2, "work list", 20*time.Second); err == nil && lr2 != nil && lr2.JSON != nil && len(lr2.JSON) > 1 {
				viol("C04:remote-work-submitted-twice"+suffix, fmt.Sprintf("unit %s: the executor node now holds %d units for ONE submission (the restarted submitter sent the work again)", k.ID, len(lr2.JSON)))

				return o
			}
		}
	}
	switch o.Class {
	case "both-killed-before-running":
		// the payload never started and no supervisor is left: "reported as failed rather than left pending"
		for t0 := time.Now(); st == 0 && time.Since(t0) < 15*time.Second; time.Sleep(250 * time.Millisecond) {
			if m, _, err := statusOf(d, k.ID, 20*time.Second); err == nil && m != nil {
				st = daemon.Num(m, "State")
			}
		}
		if st == 0 {
			viol("C04:left-pending"+suffix+"+runner-too", fmt.Sprintf("unit %s: daemon and runner were killed before the payload started (record Pending, Detail %q); after restart no runner is alive and the unit is still reported Pending",
				k.ID, daemon.Str(ent, "Detail")))
		}
	case "acked-not-started":
		if st == 0 {
			// recovery runs next to the control service: between the registration of the built-in "remote" type and that of
			// the unit's own work type the unit is listed through a placeholder that shows the stored (Pending) record.
			// Only a unit that STAYS pending while the node answers is a definite wrong value.
			for t0 := time.Now(); st == 0 && time.Since(t0) < 15*time.Second; time.Sleep(250 * time.Millisecond) {
				if m, _, err := statusOf(d, k.ID, 20*time.Second); err == nil && m != nil {
					st = daemon.Num(m, "State")
				}
			}
		}
		if st == 0 {
			viol("C04:left-pending"+suffix, fmt.Sprintf("unit %s never started but is reported Pending after restart (Detail %q)", k.ID, daemon.Str(ent, "Detail")))
		}
	case "already-final":
		if st != k.ToldState || daemon.Num(ent, "StdoutSize") != k.ToldSize {
			viol("C04:final-state-changed"+suffix, fmt.Sprintf("unit %s had been reported State %d size %d, after restart it reports State %d size %d",
				k.ID, k.ToldState, k.ToldSize, st, daemon.Num(ent, "StdoutSize")))

			break
		}
		if k.ToldState == 2 {
			checkResults(d, k, viol, &o.Inconcl, suffix)
		}
	case "runner-alive", "remote-started":
		// followed to a final state; complete output fetchable
		final := int64(-1)
		deadline := time.Now().Add(90 * time.Second)
		for time.Now().Before(deadline) {
			m, _, err := statusOf(d, k.ID, 20*time.Second)
			if err == nil && m != nil {
				s := daemon.Num(m, "State")
				if s >= 2 {
					final = s
					after["final_detail"] = daemon.Str(m, "Detail")

					break
				}
			}
			time.Sleep(100 * time.Millisecond)
		}
		after["followed_to"] = final
		if final < 0 {
			// definite only if the supervisor is gone and its last record on disk is final while the daemon still says otherwise
			if !daemon.PidAlive(rpid) {
				time.Sleep(3 * time.Second)
				m, _, _ := statusOf(d, k.ID, 20*time.Second)
				disk := readStatusFile(d, k.ID)
				if m != nil && disk != nil && daemon.Num(disk, "State") >= 2 && daemon.Num(m, "State") < 2 {
					viol("C04:not-followed"+suffix, fmt.Sprintf("unit %s: the runner finished with State %d on disk, the daemon still reports State %d",
						k.ID, daemon.Num(disk, "State"), daemon.Num(m, "State")))

					break
				}
			}
			o.Inconcl = append(o.Inconcl, "unit did not reach a final state within 90 s")

			break
		}
		if final == 2 {
			checkResults(d, k, viol, &o.Inconcl, suffix)
		} else if final == 3 && after["final_detail"] == "Pending at restart" {
			viol("C04:live-runner-marked-failed", fmt.Sprintf("unit %s had a live runner (still pending) when the daemon died at %s; the restarted daemon marked it Failed \"Pending at restart\" and stopped following it",
				k.ID, cp.Name))
		} else {
			viol("C04:running-unit-failed"+suffix, fmt.Sprintf("unit %s was running with a live supervisor when the daemon died; after restart it ends in State %d (%v)",
				k.ID, final, after["final_detail"]))
		}
	case "runner-killed", "cancel-in-progress":
		// parseable, listed with its type (checked above); no query blocks (checked above)
	}

	return o
}

func emptyStatusSeen(evs []sftrace.Event, unitdir string) bool {
	f := filepath.Join(unitdir, "status")
	for _, e := range evs {
		if e.Str("file") != f {
			continue
		}
		if (e.Str("ev") == "sf_read" && e.Int("fsize") == 0 && e.Bool("ok")) ||
			(e.Str("ev") == "sf_load" && !e.Bool("ok") && (strings.Contains(e.Str("err"), "unexpected end of JSON") || e.Str("err") == "EOF")) {
			return true
		}
	}

	return false
}

func readStatusFile(d *daemon.Daemon, id string) map[string]any {
	b, err := os.ReadFile(filepath.Join(d.UnitDir(id), "status"))
	if err != nil {
		return nil
	}
	var m map[string]any
	dec := json.NewDecoder(bytes.NewReader(b))
	dec.UseNumber()
	if dec.Decode(&m) != nil {
		return nil
	}

	return m
}

func checkResults(d *daemon.Daemon, k *Know, viol func(string, string), inconcl *[]string, suffix string) {
	m, _, err := statusOf(d, k.ID, 20*time.Second)
	if err != nil || m == nil {
		*inconcl = append(*inconcl, "status before results failed")

		return
	}
	size := daemon.Num(m, "StdoutSize")
	for _, start := range []int64{0, 7} {
		c, err := d.Dial(10 * time.Second)
		if err != nil {
			*inconcl = append(*inconcl, "dial for results: "+err.Error())

			return
		}
		_, data, closed, rerr := c.Results(k.ID, start, 30*time.Second)
		c.Close()
		if !closed {
			*inconcl = append(*inconcl, fmt.Sprintf("results stream from %d not closed within 30 s (%v)", start, rerr))

			return
		}
		want := k.Expected
		if int64(len(want)) >= start {
			want = want[start:]
		}
		if string(data) != want {
			viol("C04:output-incomplete"+suffix, fmt.Sprintf("unit %s Succeeded with StdoutSize %d; results from %d returned %d bytes %q, expected %q",
				k.ID, size, start, len(data), trunc(string(data), 60), trunc(want, 60)))

			return
		}
	}
	if size != int64(len(k.Expected)) {
		viol("C04:size-wrong"+suffix, fmt.Sprintf("unit %s Succeeded with StdoutSize %d but its output has %d bytes", k.ID, size, len(k.Expected)))
	}
}

func trunc(s string, n int) string {
	if len(s) > n {
		return s[:n] + "..."
	}

	return s
}

// ---------------------------------------------------------------- "unit on disk only" scenario (no status query blocks)

func diskOnly(bin, base string) *outcome {
	cp := crashPoint{Workload: "disk-only", Role: "daemon", Name: "sigkill-then-late-directory", K: 1}
	o := &outcome{Point: cp, Know: Know{ToldState: -1, ToldSize: -1}, Class: "already-final", Reached: true}
	dir := filepath.Join(base, "x_diskonly")
	o.Dir = dir
	_ = os.RemoveAll(dir)
	d := daemon.New(bin, dir, "n1")
	defer d.Cleanup()
	log := func(what, info string) { o.Steps = append(o.Steps, step{what, info}) }
	if err := d.Start(60 * time.Second); err != nil {
		o.Inconcl = append(o.Inconcl, "start: "+err.Error())

		return o
	}
	k := &o.Know
	w := findWorkload("finish")
	w.run(d, k, log)
	if k.ToldState != 2 {
		o.Inconcl = append(o.Inconcl, "finish workload did not complete")

		return o
	}
	d.Kill()
	// the unit directory reappears only after the daemon is up again (late mount / restore): it exists on disk only
	hidden := filepath.Join(dir, "hidden_"+k.ID)
	if err := os.Rename(d.UnitDir(k.ID), hidden); err != nil {
		o.Inconcl = append(o.Inconcl, err.Error())

		return o
	}
	if err := d.Start(60 * time.Second); err != nil {
		o.Inconcl = append(o.Inconcl, "restart: "+err.Error())

		return o
	}
	if err := os.Rename(hidden, d.UnitDir(k.ID)); err != nil {
		o.Inconcl = append(o.Inconcl, err.Error())

		return o
	}
	m, errText, err := statusOf(d, k.ID, 20*time.Second)
	if err != nil {
		if w, why := wedged(d); w {
			o.Violations = append(o.Violations, Violation{Sig: "C04:status-query-blocks", What: fmt.Sprintf("'work status %s' for a unit that exists only on disk never answers, and every later 'work list' hangs: %s", k.ID, why),
				Replay: map[string]any{"point": cp, "dir": dir}})
		} else {
			o.Inconcl = append(o.Inconcl, fmt.Sprintf("work status: %v (%s)", err, why))
		}

		return o
	}
	o.After = map[string]any{"status": m, "error": errText}
	if m != nil && (daemon.Num(m, "State") != k.ToldState || daemon.Str(m, "WorkType") != "sh") {
		o.Violations = append(o.Violations, Violation{Sig: "C04:final-state-changed@disk-only", What: fmt.Sprintf("unit %s rediscovered on disk reports State %d WorkType %q, had State %d", k.ID, daemon.Num(m, "State"), daemon.Str(m, "WorkType"), k.ToldState),
			Replay: map[string]any{"point": cp, "dir": dir}})
	}
	if _, err := simpleCmd(d, "work list", 20*time.Second); err != nil {
		if w, why := wedged(d); w {
			o.Violations = append(o.Violations, Violation{Sig: "C04:status-query-blocks", What: "'work list' hangs after a status query for a disk-only unit: " + why, Replay: map[string]any{"point": cp, "dir": dir}})
		} else {
			o.Inconcl = append(o.Inconcl, "work list: "+err.Error())
		}
	}

	return o
}

// ---------------------------------------------------------------- TLC lead: live runner marked "Pending at restart"
// Schedule found by TLC on WorkUnit.tla (2 crashes): the daemon dies right after spawning the runner; it is restarted
// before the runner has written its first "Running" record; Restart() sees Pending and marks the unit Failed; the
// runner then carries on. The runner's slow start is reproduced with SIGSTOP/SIGCONT (the gate of this replay).
func liveRunner(bin, base string) *outcome {
	cp := crashPoint{Workload: "long", Role: "daemon", Name: "start_after_spawn", K: 1, Second: "runner-held-until-recovery-done"}
	o := &outcome{Point: cp, Know: Know{ToldState: -1, ToldSize: -1}, Class: "runner-alive"}
	dir := filepath.Join(base, "x_liverunner")
	o.Dir = dir
	_ = os.RemoveAll(dir)
	d := daemon.New(bin, dir, "n1")
	defer d.Cleanup()
	log := func(what, info string) { o.Steps = append(o.Steps, step{what, info}) }
	if err := d.Start(60*time.Second, "VERIF_CRASH_AT=start_after_spawn#1", "VERIF_CRASH_WHO=daemon"); err != nil {
		o.Inconcl = append(o.Inconcl, "start: "+err.Error())

		return o
	}
	k := &o.Know
	findWorkload("long").run(d, k, log)
	k.Expected = longOutput
	if !d.WaitExit(5*time.Second) || !k.Acked {
		o.Inconcl = append(o.Inconcl, "the daemon did not die at start_after_spawn")

		return o
	}
	spawned, rpid := runnerPidAlive(traceEvents(d.Trace))
	if !spawned || !daemon.PidAlive(rpid) || !strings.Contains(daemon.PidCmdline(rpid), "--command-runner") {
		o.Inconcl = append(o.Inconcl, "no live runner after the crash")

		return o
	}
	_ = syscall.Kill(rpid, syscall.SIGSTOP)
	defer syscall.Kill(rpid, syscall.SIGCONT)
	o.Reached = true
	if disk := readStatusFile(d, k.ID); disk == nil || daemon.Num(disk, "State") != 0 {
		o.Inconcl = append(o.Inconcl, "the runner had already left the pending state")
		o.Reached = false

		return o
	}
	if err := d.Start(60 * time.Second); err != nil {
		o.Inconcl = append(o.Inconcl, "restart: "+err.Error())

		return o
	}
	var first map[string]any
	for t0 := time.Now(); time.Since(t0) < 20*time.Second; time.Sleep(200 * time.Millisecond) {
		if m, _, err := statusOf(d, k.ID, 20*time.Second); err == nil && m != nil && daemon.Str(m, "WorkType") == "sh" {
			first = m

			break
		}
	}
	if first == nil {
		o.Inconcl = append(o.Inconcl, "unit not reported after restart")

		return o
	}
	log("after-restart", fmt.Sprintf("state=%d detail=%q", daemon.Num(first, "State"), daemon.Str(first, "Detail")))
	_ = syscall.Kill(rpid, syscall.SIGCONT)
	// the supervisor is alive: the unit has to be followed to completion
	deadline := time.Now().Add(60 * time.Second)
	var disk map[string]any
	for time.Now().Before(deadline) {
		disk = readStatusFile(d, k.ID)
		if disk != nil && daemon.Num(disk, "State") == 2 && !daemon.PidAlive(rpid) {
			break
		}
		time.Sleep(200 * time.Millisecond)
	}
	if disk == nil || daemon.Num(disk, "State") != 2 {
		o.Inconcl = append(o.Inconcl, "the runner did not finish within 60 s")

		return o
	}
	time.Sleep(4 * time.Second) // several periods of the daemon's 1 s status poll
	m, _, err := statusOf(d, k.ID, 20*time.Second)
	if err != nil || m == nil {
		o.Inconcl = append(o.Inconcl, "status after completion failed")

		return o
	}
	o.After = map[string]any{"reported": m, "on_disk": disk, "first_report_after_restart": first}
	if daemon.Num(m, "State") != 2 {
		o.Violations = append(o.Violations, Violation{Sig: "C04:live-runner-marked-failed",
			What: fmt.Sprintf("unit %s: the daemon died right after spawning the runner and was restarted before the runner's first Running record; the restarted daemon reports State %d Detail %q for good, "+
				"although the (live) runner completed the command: on disk State %d Detail %q StdoutSize %d", k.ID, daemon.Num(m, "State"), daemon.Str(m, "Detail"),
				daemon.Num(disk, "State"), daemon.Str(disk, "Detail"), daemon.Num(disk, "StdoutSize")),
			Replay: map[string]any{"point": cp, "dir": dir}})
	}

	return o
}

// ---------------------------------------------------------------- main

var targeted []crashPoint // points derived from the dry runs that are always run

func c04Main(args []string) {
	fs := flag.NewFlagSet("c04", flag.ExitOnError)
	out := fs.String("out", "", "result file")
	bin := fs.String("bin", "/verif/.work/bin/receptor", "receptor binary")
	base := fs.String("dir", "/verif/.work/C04/runs", "scratch")
	seed := fs.Int64("seed", 1, "seed")
	maxPoints := fs.Int("max", 0, "maximum number of crash experiments (0 = all)")
	par := fs.Int("par", 6, "parallel experiments")
	second := fs.Bool("second", false, "also crash the first restart at recovery points (repeated crash cycle)")
	only := fs.String("only", "", "run a single point workload/role/name#k[+second]")
	rsched := fs.String("rsched", "cancel-then-restart-submitter", "remote fault schedules (RemoteUnit.tla) to run")
	_ = fs.Parse(args)
	res := &Result{Counters: map[string]int{}, Violations: []Violation{}, Extra: map[string]any{}}
	_ = os.MkdirAll(*base, 0o755)
	var points []crashPoint
	if *only != "" {
		var cp crashPoint
		s := *only
		if strings.HasSuffix(s, "+executor-down") {
			cp.ExecDown, s = true, strings.TrimSuffix(s, "+executor-down")
		}
		if strings.HasSuffix(s, "+runner-too") {
			cp.Both, s = true, strings.TrimSuffix(s, "+runner-too")
		}
		if i := strings.IndexByte(s, '+'); i >= 0 {
			cp.Second, s = s[i+1:], s[:i]
		}
		parts := strings.Split(s, "/")
		if len(parts) == 3 {
			cp.Workload, cp.Role = parts[0], parts[1]
			nk := strings.SplitN(parts[2], "#", 2)
			cp.Name = nk[0]
			cp.K = 1
			if len(nk) == 2 {
				fmt.Sscanf(nk[1], "%d", &cp.K)
			}
			if findWorkload(cp.Workload) != nil && !strings.Contains(cp.Second, "runner-held") {
				points = []crashPoint{cp}
			}
		}
	} else {
		// ---- dry runs: which (role, point, k) does each workload reach?
		perWorkload := map[string]int{}
		targeted = nil
		dry := make([]*outcome, len(workloads))
		var dwg sync.WaitGroup
		for wi := range workloads {
			dwg.Add(1)
			go func(wi int) {
				defer dwg.Done()
				dry[wi] = experiment(*bin, *base, crashPoint{Workload: workloads[wi].name}, 9000+wi)
			}(wi)
		}
		dwg.Wait()
		for wi, w := range workloads {
			o := dry[wi]
			if len(o.Inconcl) > 0 || !o.Know.SubmitDone {
				res.Inconclusive = append(res.Inconclusive, fmt.Sprintf("dry run of %s failed: %v %+v", w.name, o.Inconcl, o.Steps))

				continue
			}
			evs := traceEvents(filepath.Join(o.Dir, "trace.ndjson"))
			count := map[string]int{}
			var order []string
			for _, e := range evs {
				if e.Str("ev") != "cp" {
					continue
				}
				role := e.Str("n")
				key := role + "/" + e.Str("name")
				if count[key] == 0 {
					order = append(order, key)
				}
				count[key]++
			}
			if w.remote {
				// the window of startRemoteUnit between "remote unit id stored" and "remote started": the crash points
				// inside the rewrite that stores the id leave exactly that record behind
				nTrunc := 0
				for _, e := range evs {
					if e.Str("ev") == "cp" && e.Str("n") == "daemon" && e.Str("name") == "ufs_after_trunc" {
						nTrunc++
					}
					if e.Str("ev") == "sf_write" && strings.Contains(e.Str("rec"), `"RemoteStarted":false`) &&
						!strings.Contains(e.Str("rec"), `"RemoteUnitID":""`) && strings.Contains(e.Str("rec"), `"RemoteUnitID":"`) {
						targeted = append(targeted,
							crashPoint{Workload: w.name, Role: "daemon", Name: "ufs_after_trunc", K: nTrunc + 1},
							crashPoint{Workload: w.name, Role: "daemon", Name: "ufs_after_trunc", K: nTrunc + 1, ExecDown: true})

						break
					}
				}
			}
			for _, key := range order {
				rn := strings.SplitN(key, "/", 2)
				for k := 1; k <= count[key]; k++ {
					points = append(points, crashPoint{Workload: w.name, Role: rn[0], Name: rn[1], K: k})
					perWorkload[w.name]++
				}
			}
			if len(res.Samples) < 2 {
				res.Samples = append(res.Samples, map[string]any{"dry_run": w.name, "steps": o.Steps, "points": len(order)})
			}
		}
		res.Extra["points_per_workload"] = perWorkload
		res.Extra["points_total"] = len(points)
		if *maxPoints > 0 && len(points) > *maxPoints {
			// keep the first and the last hit of every (workload, role, name), then a seeded sample of the rest
			type key struct{ w, r, n string }
			first, last := map[key]int{}, map[key]int{}
			for i, p := range points {
				kk := key{p.Workload, p.Role, p.Name}
				if _, ok := first[kk]; !ok {
					first[kk] = i
				}
				last[kk] = i
			}
			// the windows named in the property first: truncate/write of status rewrites, unit creation, stdin
			prio := func(p crashPoint) int {
				switch {
				case strings.HasPrefix(p.Name, "ufs_before_write"), strings.HasPrefix(p.Name, "ufs_after_write"), strings.HasPrefix(p.Name, "ufs_after_trunc"), strings.HasPrefix(p.Name, "save_"), strings.HasPrefix(p.Name, "alloc_"):
					return 0
				case strings.HasPrefix(p.Name, "submit_"), strings.HasPrefix(p.Name, "start_"), strings.HasPrefix(p.Name, "runner_"):
					return 1
				}

				return 2
			}
			rng := rand.New(rand.NewSource(*seed))
			chosen := map[int]bool{}
			// one representative of every crash window of the policy table and of every workload comes first
			// ("#0" = the last hit of that point in the dry run)
			for _, want := range []string{
				"finish/daemon/submit_after_stdin_copy#1", "long/daemon/start_after_spawn#1", "finish/daemon/daemon_on_runner_exit#1",
				"finish/daemon/ufs_before_write#0", "finish/daemon/ufs_after_write#0", "finish/runner/ufs_before_write#1", "long/runner/runner_after_child_start#1",
				"remote/daemon/submit_after_stdin_copy#1", "remote/daemon/ufs_after_write#0", "remote/daemon/submit_after_start#1",
				"remote/daemon/remote_after_stdin_shipped#1",
				"cancel/daemon/cancel_after_signal#1", "release/daemon/release_after_rmdir#1", "finish/daemon/save_after_trunc#1", "long/daemon/submit_after_start#1",
			} {
				nk := strings.SplitN(want, "#", 2)
				wk := 0
				fmt.Sscanf(nk[1], "%d", &wk)
				for i, p := range points {
					if p.Workload+"/"+p.Role+"/"+p.Name != nk[0] {
						continue
					}
					kk := key{p.Workload, p.Role, p.Name}
					if (wk > 0 && p.K == wk) || (wk == 0 && last[kk] == i) {
						if len(chosen) < *maxPoints {
							chosen[i] = true
						}
					}
				}
			}
			var must, rest []int
			for i, p := range points {
				kk := key{p.Workload, p.Role, p.Name}
				if (first[kk] == i || last[kk] == i) && prio(p) <= 1 {
					must = append(must, i)
				} else {
					rest = append(rest, i)
				}
			}
			rng.Shuffle(len(must), func(a, b int) { must[a], must[b] = must[b], must[a] })
			sort.SliceStable(must, func(a, b int) bool { return prio(points[must[a]]) < prio(points[must[b]]) })
			rng.Shuffle(len(rest), func(a, b int) { rest[a], rest[b] = rest[b], rest[a] })
			for _, i := range append(must, rest...) {
				if len(chosen) >= *maxPoints {
					break
				}
				chosen[i] = true
			}
			var sel []crashPoint
			for i, p := range points {
				if chosen[i] {
					sel = append(sel, p)
				}
			}
			points = sel
		}
		if *second {
			for _, s := range []string{"scan_after_peek#1", "restart_after_load#1", "scan_after_restart#1", "ufs_after_write#1", "ufs_after_trunc#1", "ufs_after_read#1"} {
				points = append(points,
					crashPoint{Workload: "finish", Role: "daemon", Name: "daemon_on_runner_exit", K: 1, Second: s},
					crashPoint{Workload: "long", Role: "daemon", Name: "submit_after_start", K: 1, Second: s},
					crashPoint{Workload: "finish", Role: "daemon", Name: "submit_after_stdin_copy", K: 1, Second: s})
			}
		}
	}
	if *only == "" {
		points = append(points, targeted...)
		points = append(points,
			crashPoint{Workload: "long", Role: "daemon", Name: "start_after_pid", K: 1, Both: true},
			crashPoint{Workload: "finish", Role: "daemon", Name: "submit_after_start", K: 1, Both: true})
	}
	res.Extra["points_selected"] = len(points)
	// ---- the experiments
	// the two scripted TLC leads run next to the enumeration
	var scripted []*outcome
	var swg sync.WaitGroup
	var smu sync.Mutex
	var scheds []*schedResult
	if *only == "" && *rsched != "" {
		swg.Add(1)
		go func() {
			defer swg.Done()
			scheds = remoteSchedules(res, *bin, *base, "C04", strings.Split(*rsched, ","), *seed)
		}()
	}
	if *only == "" || strings.HasPrefix(*only, "disk-only") {
		swg.Add(1)
		go func() {
			defer swg.Done()
			o := diskOnly(*bin, *base)
			smu.Lock()
			scripted = append(scripted, o)
			smu.Unlock()
		}()
	}
	if *only == "" || strings.Contains(*only, "runner-held") {
		swg.Add(1)
		go func() {
			defer swg.Done()
			o := liveRunner(*bin, *base)
			smu.Lock()
			scripted = append(scripted, o)
			smu.Unlock()
		}()
	}
	if *only == "" || strings.HasPrefix(*only, "remote-long") {
		swg.Add(1)
		go func() {
			defer swg.Done()
			o := remoteExecutorKill(*bin, *base)
			smu.Lock()
			scripted = append(scripted, o)
			smu.Unlock()
		}()
	}
	type job struct {
		i  int
		cp crashPoint
	}
	jobs := make(chan job)
	var mu sync.Mutex
	var outcomes []*outcome
	var wg sync.WaitGroup
	for w := 0; w < *par; w++ {
		wg.Add(1)
		go func() {
			defer wg.Done()
			for j := range jobs {
				o := experiment(*bin, *base, j.cp, j.i)
				mu.Lock()
				outcomes = append(outcomes, o)
				mu.Unlock()
			}
		}()
	}
	for i, p := range points {
		jobs <- job{i, p}
	}
	close(jobs)
	wg.Wait()
	swg.Wait()
	outcomes = append(outcomes, scripted...)
	sort.Slice(outcomes, func(a, b int) bool { return outcomes[a].Dir < outcomes[b].Dir })
	distinct := map[string]bool{}
	classes := map[string]int{}
	var notReached []string
	for _, o := range outcomes {
		res.Evaluations++
		for _, v := range o.Violations {
			res.violate(v.Sig, v.What, v.Replay)
		}
		for _, s := range o.Inconcl {
			res.Inconclusive = append(res.Inconclusive, fmt.Sprintf("[%s] %s", o.Point, s))
		}
		if o.Reached {
			res.count("crashed_at_point", 1)
			distinct[o.Point.String()] = true
			classes[o.Class]++
			res.TraceFiles = append(res.TraceFiles, filepath.Join(o.Dir, "trace.ndjson"))
		} else {
			res.count("point_not_reached", 1)
			notReached = append(notReached, o.Point.String())
		}
		if len(res.Samples) < 8 && o.Reached && (o.Class == "runner-alive" || o.Class == "already-final" || len(o.Violations) > 0) {
			res.Samples = append(res.Samples, o)
		}
	}
	if len(res.Samples) == 0 && len(outcomes) > 0 {
		res.Samples = append(res.Samples, outcomes[0])
	}
	// ---- the file-step events of every crash run, for TLC (all processes of all runs are dead by now):
	// status-file events with a crash marker per process (StatusFileTrace.tla, crash-aware) and the rewrite stream of
	// every unit (WorkUnitTrace.tla, crash-aware); the Go acceptor looks at the same streams
	const npmax = 6
	var norm []sftrace.Norm
	var unitEvs []map[string]any
	nfiles := 0
	for _, o := range outcomes {
		if !o.Reached || len(o.Inconcl) > 0 {
			continue
		}
		for _, tp := range []string{filepath.Join(o.Dir, "trace.ndjson"), filepath.Join(o.Dir, "n2d", "trace.ndjson")} {
			evs := traceEvents(tp)
			if len(evs) == 0 {
				continue
			}
			unitEvs = append(unitEvs, sftrace.UnitRewrites(evs, true)...)
			for _, ft := range sftrace.Split(evs, nil) {
				if ft.NP > npmax {
					res.note(fmt.Sprintf("%s: %d processes on one status file, not validated", o.Point, ft.NP))

					continue
				}
				withCrash := &sftrace.FileTrace{File: ft.File, Events: sftrace.WithCrashes(ft), NP: ft.NP}
				for _, p := range sftrace.Accept(withCrash, false) {
					res.violate("C04:status-file-"+strings.TrimPrefix(p.Sig, "C14:"), fmt.Sprintf("[%s] %s: %s", o.Point, filepath.Base(filepath.Dir(ft.File)), p.What),
						map[string]any{"point": o.Point, "dir": o.Dir})
				}
				nfiles++
				norm = append(norm, sftrace.Norm{Ev: "reset", H: "save", Own: make([]int, npmax)})
				for _, n := range withCrash.Events {
					n.Own = make([]int, npmax)
					n.Cnt = 0
					norm = append(norm, n)
				}
			}
		}
	}
	normFile := filepath.Join(*base, "sf_trace.ndjson")
	_ = sftrace.WriteNorm(normFile, norm)
	unitFile := filepath.Join(*base, "unit_trace.ndjson")
	if f, err := os.Create(unitFile); err == nil {
		enc := json.NewEncoder(f)
		for _, e := range unitEvs {
			_ = enc.Encode(e)
		}
		f.Close()
	}
	res.Extra["norm_file"], res.Extra["norm_events"], res.Extra["status_files"] = normFile, len(norm), nfiles
	res.Extra["unit_trace_file"], res.Extra["unit_trace_events"] = unitFile, len(unitEvs)
	rwFile := filepath.Join(*base, "rw_trace.ndjson")
	res.Extra["rw_trace_file"], res.Extra["rw_trace_events"] = rwFile, writeRWTraces(rwFile, scheds)
	res.Extra["remote_schedules"] = scheds
	res.Distinct = len(distinct)
	res.Extra["classes"] = classes
	res.Extra["not_reached"] = notReached
	res.write(*out)
}
