package main

import (
	"bytes"
	"encoding/json"
	"fmt"
	"os"
	"path/filepath"
	"strings"
	"sync"
	"time"

	"verif/harness/daemon"
	"verif/harness/sftrace"
)

// Fault schedules for the remote-work protocol (specs/RemoteUnit.tla): a submitting node S (n1) and an executing node E
// (n2) joined through a cuttable TCP relay; the environment actions of the specification - LinkDown, LinkUp, CrashS,
// RestartS - and the client operations at S are driven from here, one named schedule per witness / property of the spec.

const slowScript = "trap 'exit 130' INT TERM\nfor i in 1 2 3 4 5 6 7 8 9 10 11 12 13 14 15 16 17 18 19 20 21 22 23 24; do echo chunk-$i-0123456789; sleep 0.4 & wait $!; done\n"

type pair struct {
	s, e  *daemon.Daemon
	relay *daemon.Relay
	name  string
}

func (p *pair) env(ev string) { // environment events go into S's trace, in order with S's own events
	f, err := os.OpenFile(p.s.Trace, os.O_APPEND|os.O_CREATE|os.O_WRONLY, 0o600)
	if err != nil {
		return
	}
	b, _ := json.Marshal(map[string]any{"n": "env", "ev": ev, "p": os.Getpid(), "i": 0})
	_, _ = f.Write(append(b, '\n'))
	f.Close()
}

func (p *pair) cut()  { p.relay.Cut(); p.env("env_cut") }
func (p *pair) heal() { p.relay.Heal(); p.env("env_heal") }
func (p *pair) killS() {
	p.s.Kill()
	p.env("env_kill")
}

func (p *pair) restartS() error {
	p.env("env_restart")

	return p.s.Start(60 * time.Second)
}

func (p *pair) cleanup() {
	p.s.Cleanup()
	p.e.Cleanup()
	p.relay.Close()
}

func newPair(bin, dir, name string) (*pair, error) {
	_ = os.RemoveAll(dir)
	s := daemon.New(bin, dir, "n1")
	e := daemon.New(bin, filepath.Join(dir, "n2d"), "n2")
	if err := startListening(e); err != nil {
		return nil, fmt.Errorf("start n2: %v", err)
	}
	r, err := daemon.NewRelay(fmt.Sprintf("127.0.0.1:%d", e.TCPPort))
	if err != nil {
		e.Cleanup()

		return nil, err
	}
	s.Peers = []string{fmt.Sprintf("127.0.0.1:%d", r.Port)}
	p := &pair{s: s, e: e, relay: r, name: name}
	if err := s.Start(60 * time.Second); err != nil {
		p.cleanup()

		return nil, fmt.Errorf("start n1: %v", err)
	}
	if !waitRoute(s, "n2", 60*time.Second) {
		p.cleanup()

		return nil, fmt.Errorf("no route n1 -> n2")
	}

	return p, nil
}

// statusAt polls a node until pred holds for the unit's status (nil map = unknown unit) or the deadline passes.
func statusUntil(d *daemon.Daemon, id string, limit time.Duration, pred func(m map[string]any, errText string) bool) (map[string]any, string, bool) {
	deadline := time.Now().Add(limit)
	var m map[string]any
	var et string
	for time.Now().Before(deadline) {
		var err error
		m, et, err = statusOf(d, id, 20*time.Second)
		if err == nil && pred(m, et) {
			return m, et, true
		}
		time.Sleep(150 * time.Millisecond)
	}

	return m, et, false
}

func unknownUnit(m map[string]any, et string) bool {
	return m == nil && strings.Contains(et, "unknown work unit")
}

// rwTrace extracts the events RemoteUnitTrace.tla reads for the first remote unit of an S trace (consecutive identical
// polls are collapsed), preceded by a "reset" line.
func rwTrace(tracePath string) []map[string]any {
	blank := func(ev string) map[string]any {
		return map[string]any{"ev": ev, "start": false, "result": "", "state": 0, "for_release": false, "release": false, "force": false, "op": ""}
	}
	out := []map[string]any{blank("reset")}
	uid, xid, idStored := "", "", false
	for _, e := range traceEvents(tracePath) {
		ev := e.Str("ev")
		switch {
		case ev == "sf_write" && uid != "" && xid != "" && !idStored:
			// the first rewrite of the unit's record that carries the id E answered with
			if strings.Contains(e.Str("file"), "/"+uid+"/status") && strings.Contains(e.Str("rec"), `"RemoteUnitID":"`+xid+`"`) {
				idStored = true
				out = append(out, blank("id_stored"))
			}
		case ev == "env_kill" || ev == "env_restart":
			out = append(out, blank(ev))
		case strings.HasPrefix(ev, "rw_"):
			if uid == "" {
				uid = e.Str("id")
			}
			if e.Str("id") != uid || ev == "rw_out_req" || ev == "rw_out_copied" {
				continue
			}
			if ev == "rw_submitted" {
				xid = e.Str("remote_id")
			}
			r := blank(ev)
			r["start"], r["result"], r["state"] = e.Bool("start"), e.Str("result"), e.Int("state")
			r["for_release"], r["release"], r["force"], r["op"] = e.Bool("for_release"), e.Bool("release"), e.Bool("force"), e.Str("op")
			if ev == "rw_poll" && len(out) > 0 {
				p := out[len(out)-1]
				if p["ev"] == "rw_poll" && p["result"] == r["result"] && p["state"] == r["state"] && p["for_release"] == r["for_release"] {
					continue
				}
			}
			out = append(out, r)
		}
	}

	return out
}

// writeRWTraces concatenates the rw traces of the given schedule runs into one NDJSON file.
func writeRWTraces(path string, runs []*schedResult) int {
	f, err := os.Create(path)
	if err != nil {
		return 0
	}
	defer f.Close()
	enc := json.NewEncoder(f)
	n := 0
	for _, r := range runs {
		if r == nil || len(r.Inconc) > 0 {
			continue
		}
		for _, e := range rwTrace(filepath.Join(r.SDir, "trace.ndjson")) {
			_ = enc.Encode(e)
			n++
		}
	}

	return n
}

type schedResult struct {
	Name   string   `json:"schedule"`
	Steps  []string `json:"steps"`
	SDir   string   `json:"dir"`
	Inconc []string `json:"inconclusive,omitempty"`
}

// remoteSchedule runs one named schedule and applies the oracles of RemoteUnit.tla to what the two real daemons did.
// prop is the property id used in signatures ("C13" or "C04").
func remoteSchedule(res *Result, bin, base, name, prop string, seed int64) *schedResult {
	sr := &schedResult{Name: name, SDir: filepath.Join(base, "sched-"+name)}
	step := func(f string, a ...any) { sr.Steps = append(sr.Steps, fmt.Sprintf(f, a...)) }
	inconc := func(f string, a ...any) {
		sr.Inconc = append(sr.Inconc, fmt.Sprintf(f, a...))
		res.inconclusive(fmt.Sprintf("[sched %s] ", name) + fmt.Sprintf(f, a...))
	}
	viol := func(sig, f string, a ...any) {
		res.violate(prop+":"+sig, fmt.Sprintf("[schedule %s] ", name)+fmt.Sprintf(f, a...), map[string]any{"schedule": name, "seed": seed, "dir": sr.SDir})
	}
	p, err := newPair(bin, sr.SDir, name)
	if err != nil {
		// nothing of the schedule has happened yet: build the pair once more before giving up (recorded in the result)
		setupNote(fmt.Sprintf("[sched %s] setup retried: %v", name, err))
		p, err = newPair(bin, sr.SDir, name)
	}
	if err != nil {
		inconc("setup: %v", err)

		return sr
	}
	defer p.cleanup()
	script, expected := slowScript, ""
	for i := 1; i <= 24; i++ {
		expected += fmt.Sprintf("chunk-%d-0123456789\n", i)
	}
	if name == "release-with-executor-gone" {
		script, expected = quickScript, quickOutput
	}
	if name == "kill-submitter-final-status-short-output" {
		// a large burst right before the payload exits: the status mirror (one small round trip a second) reports the
		// final state and size while the stdout copy is still under way
		script = "sleep 1\nhead -c 60000000 /dev/zero | tr '\\0' 'x'\necho\n"
		expected = strings.Repeat("x", 60000000) + "\n"
	}
	// ---- submit at S for execution at E
	k := &Know{Node: "n2", ToldState: -1}
	if !submit(p.s, k, script, func(a, b string) { step("%s %s", a, b) }) {
		inconc("remote submit failed")

		return sr
	}
	id := k.ID
	m, _, ok := statusUntil(p.s, id, 90*time.Second, func(m map[string]any, _ string) bool {
		_, rid, started := remoteBinding(m)

		return m != nil && started && rid != "" && daemon.Num(m, "State") >= 1
	})
	if !ok {
		inconc("the remote unit did not reach Running at S")

		return sr
	}
	_, rid, _ := remoteBinding(m)
	step("running at S, bound to n2/%s", rid)
	eFinal := func(m map[string]any, _ string) bool { return m != nil && daemon.Num(m, "State") >= 2 }
	routeBack := func() bool { return waitRoute(p.s, "n2", 90*time.Second) }
	cancelReachedE := func() bool {
		for _, e := range traceEvents(p.e.Trace) {
			if e.Str("ev") == "wu_cancel" && e.Str("id") == rid {
				return true
			}
		}

		return false
	}
	gaveUp := func() bool {
		for _, e := range traceEvents(p.s.Trace) {
			if e.Str("ev") == "rw_gave_up" && e.Str("id") == id {
				return true
			}
		}

		return false
	}
	switch name {
	case "cut-during-monitoring":
		p.cut()
		step("link cut")
		time.Sleep(2500 * time.Millisecond)
		p.heal()
		step("link healed")
		if !routeBack() {
			inconc("route did not come back")

			return sr
		}
		if _, _, ok := statusUntil(p.e, rid, 120*time.Second, eFinal); !ok {
			inconc("E's unit did not finish")

			return sr
		}
		// the mirror must catch up: complete state and the whole output (OutputEventuallyComplete)
		ms, _, ok := statusUntil(p.s, id, 60*time.Second, func(m map[string]any, _ string) bool {
			return m != nil && daemon.Num(m, "State") == 2 && stdoutLen(p.s, id) == int64(len(expected))
		})
		if !ok {
			if gaveUp() {
				inconc("the code gave up (D1)")
			} else {
				viol("remote-mirror-stalls", "60 s after E's unit %s finished (link up again) S reports State %d StdoutSize %d and has %d of %d output bytes",
					rid, daemon.Num(ms, "State"), daemon.Num(ms, "StdoutSize"), stdoutLen(p.s, id), len(expected))
			}
		}
	case "kill-submitter-final-status-short-output":
		// RemoteUnit.tla: CrashS in the state "status final, output short", then RestartS: the stdout monitor must be back at
		// work (MirrorNeverAbandoned) and the output must become complete (OutputEventuallyComplete)
		caught := false
		for t0 := time.Now(); time.Since(t0) < 120*time.Second; time.Sleep(5 * time.Millisecond) {
			disk := readStatusFile(p.s, id)
			if disk != nil && daemon.Num(disk, "State") == 2 {
				if have := stdoutLen(p.s, id); have < daemon.Num(disk, "StdoutSize") {
					p.killS()
					step("S killed with State 2, StdoutSize %d recorded, %d bytes local", daemon.Num(disk, "StdoutSize"), have)
					caught = true
				}

				break
			}
		}
		if !caught {
			res.note(fmt.Sprintf("[sched %s] the window 'status final, output short' was not hit", name))
			res.count("remote_schedule_window_missed", 1)

			break
		}
		time.Sleep(500 * time.Millisecond)
		if err := p.restartS(); err != nil {
			inconc("restart S: %v", err)

			return sr
		}
		step("S restarted")
		if !routeBack() {
			inconc("route did not come back")

			return sr
		}
		// status and list look right at once; the output has to follow
		ms, _, ok := statusUntil(p.s, id, 90*time.Second, func(m map[string]any, _ string) bool {
			return m != nil && daemon.Num(m, "State") == 2 && stdoutLen(p.s, id) >= daemon.Num(m, "StdoutSize")
		})
		if !ok {
			viol("remote-output-incomplete-after-restart", "unit %s was recorded Succeeded with StdoutSize %d when S died with %s; 90 s after the restart (route to n2 up, E still has unit %s) the local output has %d bytes: the rest is never fetched, 'work results' would deliver a prefix and not end",
				id, daemon.Num(ms, "StdoutSize"), sr.Steps[len(sr.Steps)-2], rid, stdoutLen(p.s, id))
		} else {
			c, err := p.s.Dial(20 * time.Second)
			if err == nil {
				_, data, closed, _ := c.Results(id, 0, 120*time.Second)
				c.Close()
				if !closed || len(data) != len(expected) {
					viol("remote-results-incomplete-after-restart", "work results of %s returned %d of %d bytes (stream closed: %v)", id, len(data), len(expected), closed)
				}
			}
		}
	case "restart-submitter-during-monitoring":
		// S dies while both monitors are at work and part of the output is already local; after the restart the stdout
		// monitor must continue from the local size (RestartS, OMConnect, OMCopy) and the mirror must complete
		for t0 := time.Now(); stdoutLen(p.s, id) == 0 && time.Since(t0) < 30*time.Second; {
			time.Sleep(100 * time.Millisecond)
		}
		step("local stdout has %d bytes", stdoutLen(p.s, id))
		p.killS()
		step("S killed")
		time.Sleep(1500 * time.Millisecond)
		if err := p.restartS(); err != nil {
			inconc("restart S: %v", err)

			return sr
		}
		step("S restarted")
		if !routeBack() {
			inconc("route did not come back")

			return sr
		}
		if _, _, ok := statusUntil(p.e, rid, 120*time.Second, eFinal); !ok {
			inconc("E's unit did not finish")

			return sr
		}
		ms, _, ok := statusUntil(p.s, id, 60*time.Second, func(m map[string]any, _ string) bool {
			return m != nil && daemon.Num(m, "State") == 2 && stdoutLen(p.s, id) >= int64(len(expected))
		})
		if !ok {
			viol("remote-mirror-stalls", "60 s after E's unit %s finished the restarted S reports State %d StdoutSize %d and has %d of %d output bytes",
				rid, daemon.Num(ms, "State"), daemon.Num(ms, "StdoutSize"), stdoutLen(p.s, id), len(expected))
		}
	case "cancel-while-disconnected", "cancel-then-restart-submitter":
		p.cut()
		step("link cut")
		time.Sleep(300 * time.Millisecond)
		r, err := simpleCmd(p.s, "work cancel "+id, 60*time.Second)
		if err != nil || r == nil {
			inconc("cancel at S not answered: %v", err)

			return sr
		}
		step("cancel answered %s", r.Raw)
		if name == "cancel-then-restart-submitter" {
			p.killS()
			step("S killed")
			p.heal()
			if err := p.restartS(); err != nil {
				inconc("restart S: %v", err)

				return sr
			}
			step("S restarted, link healed")
		} else {
			time.Sleep(1500 * time.Millisecond)
			p.heal()
			step("link healed")
		}
		if !routeBack() {
			inconc("route did not come back")

			return sr
		}
		// the cancel must reach E (CancelEventuallyReachesE / CancelSurvivesRestart) unless E's unit ended first
		deadline := time.Now().Add(90 * time.Second)
		reached := false
		for time.Now().Before(deadline) && !reached {
			reached = cancelReachedE()
			if me, _, err := statusOf(p.e, rid, 20*time.Second); err == nil && me != nil && daemon.Num(me, "State") == 2 {
				step("E's unit succeeded before the cancel could arrive")
				reached = true
			}
			time.Sleep(200 * time.Millisecond)
		}
		if !reached {
			if gaveUp() {
				viol("remote-cancel-request-not-retried", "the cancel of %s was accepted at S while the link was down; its single request failed later and nothing retries it (rw_gave_up): E's unit %s keeps running", id, rid)
			} else {
				viol("remote-cancel-lost", "the cancel of %s accepted at S (answer %s) has not reached E's unit %s 90 s after the link came back (route n1->n2 up)", id, r.Raw, rid)
			}
		}
	case "release-while-disconnected":
		p.cut()
		step("link cut")
		time.Sleep(300 * time.Millisecond)
		r, err := simpleCmd(p.s, "work release "+id, 60*time.Second)
		if err != nil || r == nil {
			inconc("release at S not answered: %v", err)

			return sr
		}
		step("release answered %s", r.Raw)
		time.Sleep(1500 * time.Millisecond)
		p.heal()
		step("link healed")
		if !routeBack() {
			inconc("route did not come back")

			return sr
		}
		_, _, goneS := statusUntil(p.s, id, 90*time.Second, unknownUnit)
		_, _, goneE := statusUntil(p.e, rid, 30*time.Second, unknownUnit)
		if goneS && !goneE {
			viol("remote-release-leaves-executor-unit", "unit %s was released at S while the link was down; S has forgotten it but E still knows unit %s 30 s after the link came back", id, rid)
		} else if !goneS {
			if gaveUp() {
				viol("remote-release-request-not-retried", "the release of %s accepted at S while the link was down was sent once, failed, and is not retried: the unit stays at S (and at E)", id)
			} else {
				viol("remote-release-lost", "the release of %s accepted at S (answer %s) has not happened 90 s after the link came back", id, r.Raw)
			}
		} else {
			if _, err := os.Stat(p.s.UnitDir(id)); err == nil {
				viol("release-leaves-files", "remote unit %s released, its directory at S still exists", id)
			}
			if _, err := os.Stat(p.e.UnitDir(rid)); err == nil {
				viol("release-leaves-files", "remote unit %s released, the directory of %s at E still exists", id, rid)
			}
		}
	case "release-with-executor-gone":
		if _, _, ok := statusUntil(p.s, id, 90*time.Second, func(m map[string]any, _ string) bool { return m != nil && daemon.Num(m, "State") == 2 }); !ok {
			inconc("unit did not finish")

			return sr
		}
		if r, err := simpleCmd(p.e, "work release "+rid, 60*time.Second); err != nil || r == nil || r.Err != "" {
			inconc("direct release at E failed")

			return sr
		}
		step("E's unit released behind S's back")
		r, err := simpleCmd(p.s, "work release "+id, 60*time.Second)
		if err != nil || r == nil {
			inconc("release at S not answered: %v", err)

			return sr
		}
		step("release at S answered %s", r.Raw)
		if r.Err == "" && r.JSON["released"] == id {
			// answered released: then S must forget it
			if _, _, gone := statusUntil(p.s, id, 30*time.Second, unknownUnit); !gone {
				viol("released-unit-known", "remote unit %s (E's unit already gone) was answered released but S still knows it", id)
			}
		} else {
			// D3: refused; the unit must still be there, and a forced release must remove it at S
			if ms, _, err := statusOf(p.s, id, 20*time.Second); err == nil && ms == nil {
				viol("remote-release-refused-unit-lost", "release of %s was refused (%s) but the unit is gone at S", id, r.Raw)
			}
			fr, err := simpleCmd(p.s, "work force-release "+id, 60*time.Second)
			if err != nil || fr == nil || fr.Err != "" {
				viol("remote-force-release-fails", "force-release of %s (E's unit gone) answered %v", id, fr)
			} else if _, _, gone := statusUntil(p.s, id, 30*time.Second, unknownUnit); !gone {
				viol("released-unit-known", "remote unit %s force-released but S still knows it", id)
			}
		}
	}
	// ---- oracles common to every schedule (safety properties of RemoteUnit.tla on the two real traces)
	sEvs, eEvs := traceEvents(p.s.Trace), traceEvents(p.e.Trace)
	// SubmittedOnce: E created exactly one unit for this one submission
	n := 0
	for _, e := range eEvs {
		if e.Str("ev") == "wu_mkdir" {
			n++
		}
	}
	if n != 1 {
		viol("remote-work-submitted-twice", "E created %d units for one remote submission", n)
	}
	// ForwardOnly + NeverContradictsE on every rewrite of the local record
	eStates := map[int64]bool{}
	for _, e := range eEvs {
		if e.Str("ev") == "sf_apply" && strings.Contains(e.Str("file"), "/"+rid+"/") {
			eStates[e.Int("new_state")] = true
		}
	}
	for _, e := range sEvs {
		if e.Str("ev") != "sf_apply" || !strings.Contains(e.Str("file"), "/"+id+"/") || e.Int("fsize") == 0 {
			continue
		}
		os_, ns, osz, nsz := e.Int("old_state"), e.Int("new_state"), e.Int("old_size"), e.Int("new_size")
		if stage(ns) < stage(os_) {
			viol("remote-stage-regressed", "local record of %s rewritten from State %d to %d (%q)", id, os_, ns, e.Str("new_detail"))
		}
		if os_ == 2 && (ns != 2 || nsz != osz) {
			viol("remote-succeeded-changed", "local record of %s Succeeded/%d rewritten to %d/%d", id, osz, ns, nsz)
		}
		if nsz < osz {
			viol("remote-size-shrank", "local record of %s: StdoutSize %d -> %d", id, osz, nsz)
		}
		if (ns == 1 || ns == 2 || ns == 4) && ns != os_ && !eStates[ns] {
			viol("remote-state-contradicts-executor", "local record of %s set to State %d which E's unit %s never had", id, ns, rid)
		}
	}
	// LocalOutputIsPrefix: every results request starts at the local size, and the local file is a prefix of E's
	for _, e := range sEvs {
		if e.Str("ev") == "rw_out_req" && e.Str("id") == id {
			res.count("remote_stdout_requests", 1)
		}
	}
	lb, lerr := os.ReadFile(filepath.Join(p.s.UnitDir(id), "stdout"))
	if lerr == nil && !bytes.HasPrefix([]byte(expected), lb) {
		viol("remote-stdout-not-prefix", "the local stdout of %s (%d bytes) is not a prefix of what E's unit wrote: %q...", id, len(lb), trunc(string(lb), 80))
	}
	for _, e := range sEvs {
		if e.Str("ev") == "rw_poll" && e.Str("result") == "error" {
			res.count("remote_monitor_reconnects", 1)
		}
		if e.Str("ev") == "rw_background" {
			res.count("remote_background_retries", 1)
		}
	}
	res.count("remote_schedules", 1)

	return sr
}

func stdoutLen(d *daemon.Daemon, id string) int64 {
	fi, err := os.Stat(filepath.Join(d.UnitDir(id), "stdout"))
	if err != nil {
		return 0
	}

	return fi.Size()
}

var remoteScheduleNames = []string{"cut-during-monitoring", "restart-submitter-during-monitoring", "kill-submitter-final-status-short-output", "cancel-while-disconnected", "cancel-then-restart-submitter", "release-while-disconnected", "release-with-executor-gone"}

// remoteSchedules runs the named schedules in parallel and returns their descriptions and trace files.
func remoteSchedules(res *Result, bin, base, prop string, names []string, seed int64) []*schedResult {
	var wg sync.WaitGroup
	out := make([]*schedResult, len(names))
	for i, n := range names {
		wg.Add(1)
		go func(i int, n string) {
			defer wg.Done()
			out[i] = remoteSchedule(res, bin, base, n, prop, seed)
		}(i, n)
	}
	wg.Wait()

	return out
}

func init() {
	commands["rsched"] = func(args []string) {
		res := &Result{Counters: map[string]int{}, Violations: []Violation{}}
		names := remoteScheduleNames
		if len(args) > 1 {
			names = args[1:]
		}
		for _, s := range remoteSchedules(res, args[0], "/verif/.work/_vd/rsched", "C13", names, 1) {
			b, _ := json.Marshal(s)
			fmt.Println(string(b))
		}
		for _, v := range res.Violations {
			fmt.Println("VIOLATION", v.Sig, v.What)
		}
		fmt.Println(res.Counters, res.Inconclusive)
		_ = sftrace.Event{}
	}
}
