// Command vd drives the real receptor daemon (engine E3, package daemon) for the work-unit properties:
//
//	vd c13   seeded concurrent client histories on local command units (C13)
//	vd c04   crash-point enumeration: dry run, crash at every (point, k, role), restart, compare with Durable (C04)
//	vd try   one small scenario, prints what happened (debugging aid)
package main

import (
	"encoding/json"
	"fmt"
	"os"
	"sync"
)

var resMu sync.Mutex

// Violation is one observed departure of the real code from the specification.
type Violation struct {
	Sig    string `json:"sig"`
	What   string `json:"what"`
	Replay any    `json:"replay"`
}

// Result is what every subcommand writes.
type Result struct {
	Evaluations  int            `json:"evaluations"`
	Distinct     int            `json:"distinct"`
	Violations   []Violation    `json:"violations"`
	Inconclusive []string       `json:"inconclusive"`
	Samples      []any          `json:"samples"`
	Counters     map[string]int `json:"counters"`
	Notes        []string       `json:"notes"`
	TraceFiles   []string       `json:"trace_files"`
	Extra        map[string]any `json:"extra"`
}

func (r *Result) count(k string, n int) {
	resMu.Lock()
	defer resMu.Unlock()
	r.countLocked(k, n)
}

func (r *Result) inconclusive(s string) {
	resMu.Lock()
	r.Inconclusive = append(r.Inconclusive, s)
	resMu.Unlock()
}

func (r *Result) note(s string) {
	resMu.Lock()
	r.Notes = append(r.Notes, s)
	resMu.Unlock()
}

func (r *Result) countLocked(k string, n int) {
	if r.Counters == nil {
		r.Counters = map[string]int{}
	}
	r.Counters[k] += n
}

func (r *Result) violate(sig, what string, replay any) {
	resMu.Lock()
	defer resMu.Unlock()
	if len(r.Violations) < 200 {
		r.Violations = append(r.Violations, Violation{sig, what, replay})
	}
	r.countLocked("violations", 1)
}

func (r *Result) write(path string) {
	if r.Violations == nil {
		r.Violations = []Violation{}
	}
	setupMu.Lock()
	if len(setupNotes) > 0 {
		r.Notes = append(r.Notes, setupNotes...)
		r.countLocked("setup_retries", len(setupNotes))
	}
	setupMu.Unlock()
	b, _ := json.MarshalIndent(r, "", " ")
	if err := os.WriteFile(path, b, 0o644); err != nil {
		fmt.Fprintln(os.Stderr, "cannot write result:", err)
		os.Exit(3)
	}
}

var commands = map[string]func(args []string){}

func main() {
	if len(os.Args) < 2 || commands[os.Args[1]] == nil {
		fmt.Fprintln(os.Stderr, "usage: vd <command> [flags]; commands:")
		for k := range commands {
			fmt.Fprintln(os.Stderr, "  ", k)
		}
		os.Exit(2)
	}
	commands[os.Args[1]](os.Args[2:])
}
