package main

import (
	"flag"
	"fmt"
	"os"
	"path/filepath"
	"strings"
	"sync"
	"sync/atomic"
	"time"

	"verif/harness/daemon"
)

func init() { commands["listrace"] = listRaceMain }

// listRace: "work list" (all units) from some sessions while other sessions submit and release units.
// A well-formed list-all command must be answered with a listing; "ERROR: unknown work unit <id>" means the
// listing tripped over a unit that another session released between ListKnownUnitIDs and the per-unit look-up.
func listRace(res *Result, bin, base string, seed int64, listers, releasers, rounds int) {
	name := fmt.Sprintf("list-vs-release-s%d", seed)
	d := daemon.New(bin, filepath.Join(base, name), "n1")
	_ = os.RemoveAll(d.Dir)
	defer d.Cleanup()
	if err := d.Start(60 * time.Second); err != nil {
		res.inconclusive(name + ": start: " + err.Error())

		return
	}
	// some idle (finished) units make every listing long enough to overlap with a release
	for i := 0; i < 20; i++ {
		k := &Know{ToldState: -1}
		submit(d, k, instantScript, func(string, string) {})
	}
	var lists, errs, other int64
	var firstErr atomic.Value
	stop := make(chan struct{})
	var wg, rwg sync.WaitGroup
	for l := 0; l < listers; l++ {
		wg.Add(1)
		go func() {
			defer wg.Done()
			c, err := d.Dial(20 * time.Second)
			if err != nil {
				return
			}
			defer c.Close()
			for {
				select {
				case <-stop:
					return
				default:
				}
				r, err := c.Command("work list", 30*time.Second)
				if err != nil || r == nil {
					atomic.AddInt64(&other, 1)

					return
				}
				atomic.AddInt64(&lists, 1)
				if r.Err != "" {
					atomic.AddInt64(&errs, 1)
					firstErr.CompareAndSwap(nil, r.Err)
				}
			}
		}()
	}
	for rr := 0; rr < releasers; rr++ {
		rwg.Add(1)
		go func() {
			defer rwg.Done()
			for i := 0; i < rounds; i++ {
				k := &Know{ToldState: -1}
				if !submit(d, k, instantScript, func(string, string) {}) {
					continue
				}
				_, _ = simpleCmd(d, "work release "+k.ID, 60*time.Second)
			}
		}()
	}
	rwg.Wait()
	close(stop)
	wg.Wait()
	res.count("listrace_lists", int(lists))
	res.count("listrace_list_errors", int(errs))
	if errs > 0 {
		fe, _ := firstErr.Load().(string)
		if strings.Contains(fe, "unknown work unit") {
			res.violate("C13:list-error-while-another-session-releases-a-unit",
				fmt.Sprintf("[%s] %d of %d well-formed 'work list' commands were answered %q while other sessions released units", name, errs, lists, fe),
				map[string]any{"scenario": name, "seed": seed})
		} else {
			res.violate("C13:list-error", fmt.Sprintf("[%s] 'work list' answered ERROR: %s", name, fe), map[string]any{"scenario": name, "seed": seed})
		}
	}
	if other > 0 {
		res.note(fmt.Sprintf("%s: %d list sessions ended early", name, other))
	}
}

func listRaceMain(args []string) {
	fs := flag.NewFlagSet("listrace", flag.ExitOnError)
	out := fs.String("out", "", "result file")
	bin := fs.String("bin", "/verif/.work/bin/receptor", "receptor binary")
	base := fs.String("dir", "/verif/.work/_vd/listrace", "scratch")
	_ = fs.Parse(args)
	res := &Result{Counters: map[string]int{}, Violations: []Violation{}}
	listRace(res, *bin, *base, 1, 3, 3, 15)
	for _, v := range res.Violations {
		fmt.Println(v.Sig, v.What)
	}
	fmt.Println(res.Counters, res.Inconclusive)
	if *out != "" {
		res.write(*out)
	}
}
