package main

import (
	"fmt"
	"time"

	"github.com/ansible/receptor/pkg/backends"
	"verif/harness/mesh"
	"verif/harness/trace"
)

// runAdsUDPRelay (C18 over a real datagram backend): owner uO listens on a real UDP socket, relay uR dials it, far node
// uF hangs behind uR. While the relay's writers are slowed (pause at hook point wire_send), the owner closes one
// advertised service and keeps advertising the other. A withdrawal is flooded exactly once, so the relay must pass on
// exactly the bytes it received, however long its onward link makes them wait and whatever arrives meanwhile.
func runAdsUDPRelay(col *trace.Collector, seed int64) (viol []Violation, inconcl string) {
	relayName := ""
	defer func() { col.SetDelayFor("wire_send", relayName, 0) }()
	m := mesh.New(mesh.Opts{RouteUpdate: 300 * time.Millisecond, ServiceAd: 60 * time.Millisecond}, seed+999)
	defer m.StopAll()
	owner, relay, far := m.Start("uO"), m.Start("uR"), m.Start("uF")
	relayName = relay.N.VerifName()
	ul, err := backends.NewUDPListener("127.0.0.1:0", owner.N.Logger)
	if err != nil {
		return nil, "udp listener: " + err.Error()
	}
	if err := owner.N.AddBackend(ul); err != nil {
		return nil, err.Error()
	}
	ud, err := backends.NewUDPDialer(ul.LocalAddr().String(), false, relay.N.Logger)
	if err != nil {
		return nil, "udp dialer: " + err.Error()
	}
	if err := relay.N.AddBackend(ud); err != nil {
		return nil, err.Error()
	}
	if _, err := m.Connect("uR", "uF", 1, 1); err != nil {
		return nil, err.Error()
	}
	waitFor := func(cond func() bool, d time.Duration) bool {
		dl := time.Now().Add(d)
		for !cond() {
			if time.Now().After(dl) {
				return false
			}
			time.Sleep(2 * time.Millisecond)
		}

		return true
	}
	listed := func(s string) bool { _, ok := far.N.GetServiceInfo("uO", s); return ok }
	pcs := map[string]interface{ Close() error }{}
	for _, s := range []string{"u1", "u2", "u3"} {
		pc, err := owner.N.ListenPacketAndAdvertise(s, map[string]string{"k": s})
		if err != nil {
			return nil, "listen: " + err.Error()
		}
		pcs[s] = pc
	}
	for _, s := range []string{"u1", "u2", "u3"} {
		if !waitFor(func() bool { return listed(s) }, 20*time.Second) {
			return nil, "far node never learnt " + s + " through the UDP relay"
		}
	}
	for round, s := range []string{"u1", "u2"} {
		// only the relay's writers are slow: 40 ms per message in the first round; in the second round 450 ms, longer
		// than the route-update period, so whatever is flooded meanwhile waits that long for the link
		pause := 40 * time.Millisecond
		if round == 1 {
			pause = 450 * time.Millisecond
		}
		col.SetDelayFor("wire_send", relayName, pause)
		time.Sleep(100 * time.Millisecond)
		_ = pcs[s].Close()
		time.Sleep(1200 * time.Millisecond) // the owner keeps advertising its other services meanwhile
		col.SetDelayFor("wire_send", relayName, 0)
		if !waitFor(func() bool { return !listed(s) }, 15*time.Second) {
			viol = append(viol, Violation{"C18:withdrawal-lost-at-datagram-relay",
				fmt.Sprintf("the owner closed service %s; its withdrawal was relayed by a node that reaches the owner through a UDP dialer while its onward link was slow; 15 s later the node behind the relay still lists the service (round %d)", s, round),
				map[string]any{"scenario": "ads-udp-relay", "service": s}})

			return viol, ""
		}
	}
	if !listed("u3") {
		viol = append(viol, Violation{"C18:open-service-not-listed-behind-datagram-relay", "the service that stayed open is not listed behind the relay", map[string]any{"scenario": "ads-udp-relay"}})
	}

	return viol, ""
}
