package main

import (
	"encoding/json"
	"flag"
	"fmt"
	"math/rand"
	"net"
	"sort"
	"strings"
	"sync"
	"time"

	"github.com/ansible/receptor/pkg/netceptor"
	"github.com/ansible/receptor/pkg/verifhook"
	"verif/harness/e1"
	"verif/harness/peer"
	"verif/harness/trace"
)

// C12: vectors enumerated by TLC from specs/Firewall.tla are pushed through the real rule parser
// and through a real node (origin, transit and destination positions) with a scripted peer.

type fwRule struct {
	Action      string `json:"action"`
	FromNode    string `json:"fromnode"`
	ToNode      string `json:"tonode"`
	FromService string `json:"fromservice"`
	ToService   string `json:"toservice"`
	Extra       string `json:"extra"`
	KeyCase     string `json:"keycase"`
}

type fwPkt struct {
	FromNode    string `json:"fromnode"`
	ToNode      string `json:"tonode"`
	FromService string `json:"fromservice"`
	ToService   string `json:"toservice"`
}

type fwVec struct {
	Fam    string   `json:"fam"`
	Rules  []fwRule `json:"rules"`
	Pkt    fwPkt    `json:"pkt"`
	Expect struct {
		Parse    string `json:"parse"`
		Decision string `json:"decision"`
		Outcome  string `json:"outcome"`
		Outcome0 string `json:"outcome0"` // the same packet with no hops left
	} `json:"expect"`
}

func keyName(base, kc string) string {
	switch kc {
	case "upper":
		return strings.ToUpper(base)
	case "mixed":
		if base == "action" {
			return "Action"
		}

		return strings.ToUpper(base[:1]) + base[1:len(base)-1] + strings.ToUpper(base[len(base)-1:])
	}

	return base
}

func concretiseRule(r fwRule) netceptor.FirewallRuleData {
	d := netceptor.FirewallRuleData{}
	if r.Action != "" {
		d[keyName("action", r.KeyCase)] = r.Action
	}
	for k, v := range map[string]string{"fromnode": r.FromNode, "tonode": r.ToNode, "fromservice": r.FromService, "toservice": r.ToService} {
		if v != "" {
			d[keyName(k, r.KeyCase)] = v
		}
	}
	nonString := map[string]any{"int": 5, "bool": false, "nil": nil, "list": []any{"a"}, "map": map[any]any{"a": "b"}, "float": 1.5}
	switch {
	case r.Extra == "unknownkey":
		d["bogus"] = "x"
	case r.Extra == "unknownkey_nil":
		d["tonoed"] = nil
	case strings.HasPrefix(r.Extra, "nonstring_field_"):
		d[keyName("tonode", r.KeyCase)] = nonString[strings.TrimPrefix(r.Extra, "nonstring_field_")]
	case r.Extra == "nonstring_action":
		d[keyName("action", r.KeyCase)] = true
	case r.Extra == "nonstring_action_nil":
		d[keyName("action", r.KeyCase)] = nil
	}

	return d
}

func parseRules(rs []fwRule) (fns []netceptor.FirewallRuleFunc, err error, panicked any) {
	defer func() {
		if p := recover(); p != nil {
			panicked = p
		}
	}()
	data := make([]netceptor.FirewallRuleData, len(rs))
	for i := range rs {
		data[i] = concretiseRule(rs[i])
	}
	fns, err = netceptor.ParseFirewallRules(data)

	return fns, err, nil
}

type localRead struct {
	svc     string
	from    string
	payload string
}

type localNote struct {
	svc string
	n   netceptor.UnreachableNotification
}

func init() { commands["firewall"] = cmdFirewall }

func cmdFirewall(args []string) {
	fs := flag.NewFlagSet("firewall", flag.ExitOnError)
	vecFile := fs.String("vectors", "", "NDJSON vectors from TLC")
	out := fs.String("out", "result.json", "result file")
	seed := fs.Int64("seed", 1, "seed")
	limit := fs.Int("limit", 0, "max vectors run through the node (0 = all); parsing is always checked for all")
	_ = fs.Parse(args)
	res := &Result{}
	defer res.write(*out)

	vecs, err := readNDJSON[fwVec](*vecFile)
	if err != nil {
		res.Inconclusive = append(res.Inconclusive, "cannot read vectors: "+err.Error())

		return
	}
	rng := rand.New(rand.NewSource(*seed))
	rng.Shuffle(len(vecs), func(i, j int) { vecs[i], vecs[j] = vecs[j], vecs[i] })

	col := trace.Install()
	const self = "a"
	names := []string{"b", "ab", "aXb", "A", "axx", "xxb"}
	services := []string{"a", "b", "ab", wireSvc("aXb"), "A", "axx", "xxb"}
	n, err := e1.NewNode(self, e1.Opts{})
	if err != nil {
		res.Inconclusive = append(res.Inconclusive, err.Error())

		return
	}
	defer n.Stop()
	p, err := n.Attach("P9")
	if err != nil {
		res.Inconclusive = append(res.Inconclusive, err.Error())

		return
	}
	extra := map[string]float64{}
	for _, nm := range names {
		extra[nm] = 1
	}
	if err := p.Handshake(self, 1, extra); err != nil {
		res.Inconclusive = append(res.Inconclusive, "handshake: "+err.Error())

		return
	}
	want := map[string]string{"P9": "P9"}
	for i, nm := range names {
		_ = p.SendRoute(peer.RoutingUpdate{NodeID: nm, UpdateID: fmt.Sprintf("init-%d", i), UpdateEpoch: 5, UpdateSequence: 1,
			Connections: map[string]float64{"P9": 1}, ForwardingNode: "P9"})
		want[nm] = "P9"
	}
	if !n.WaitTable(want, 10*time.Second) {
		res.Inconclusive = append(res.Inconclusive, fmt.Sprintf("routing table did not settle: %v", n.N.Status().RoutingTable))

		return
	}

	// local sockets with readers and unreachable subscriptions
	var mu sync.Mutex
	var reads []localRead
	var notes []localNote
	socks := map[string]netceptor.PacketConner{}
	for _, svc := range services {
		pc, err := n.N.ListenPacket(svc)
		if err != nil {
			res.Inconclusive = append(res.Inconclusive, "listen: "+err.Error())

			return
		}
		socks[svc] = pc
		go func(svc string, pc netceptor.PacketConner) {
			buf := make([]byte, 65536)
			for {
				k, addr, err := pc.ReadFrom(buf)
				if err != nil {
					return
				}
				mu.Lock()
				reads = append(reads, localRead{svc, addr.String(), string(buf[:k])})
				mu.Unlock()
			}
		}(svc, pc)
		ch := pc.SubscribeUnreachable(make(chan struct{}))
		go func(svc string) {
			for m := range ch {
				mu.Lock()
				notes = append(notes, localNote{svc, m})
				mu.Unlock()
			}
		}(svc)
	}
	waitCount := func(get func() int, atLeast int) bool {
		deadline := time.Now().Add(5 * time.Second)
		for get() < atLeast {
			if time.Now().After(deadline) {
				return false
			}
			time.Sleep(200 * time.Microsecond)
		}

		return true
	}
	nReads := func() int { mu.Lock(); defer mu.Unlock(); return len(reads) }
	nNotes := func() int { mu.Lock(); defer mu.Unlock(); return len(notes) }

	distinct := map[string]bool{}
	ran := 0
	for vi, v := range vecs {
		if len(res.Violations) >= 12 {
			// enough distinct wrong outcomes to report; every further mismatch costs a retry
			res.Notes = append(res.Notes, fmt.Sprintf("stopped after %d wrong outcomes at vector %d of %d", len(res.Violations), vi, len(vecs)))

			break
		}
		// on the wire and at the sockets the service name the spec writes "aXb" is "a\x00b": service names are 8 raw
		// bytes, an inner zero byte is part of the name (rules see it: /a.*b/ and /.*/ match it, "a" and "ab" do not)
		v.Pkt.FromService, v.Pkt.ToService = wireSvc(v.Pkt.FromService), wireSvc(v.Pkt.ToService)
		res.Evaluations++
		fns, perr, panicked := parseRules(v.Rules)
		rulesJSON, _ := json.Marshal(v.Rules)
		if panicked != nil {
			res.violate("C12:parse-panic", fmt.Sprintf("ParseFirewallRules panicked on %s: %v", rulesJSON, panicked), v)

			continue
		}
		if v.Expect.Parse == "refused" {
			distinct["refused:"+string(rulesJSON)] = true
			res.count("refused_expected")
			if perr == nil {
				res.violate("C12:malformed-accepted", fmt.Sprintf("rule list %s must be refused but ParseFirewallRules returned %d rules and no error", rulesJSON, len(fns)), v)
			}

			continue
		}
		if perr != nil {
			res.violate("C12:valid-refused", fmt.Sprintf("rule list %s is well-formed but was refused: %v", rulesJSON, perr), v)

			continue
		}
		if *limit > 0 && ran >= *limit {
			continue
		}
		ran++
		if err := n.N.AddFirewallRules(fns, true); err != nil {
			res.Inconclusive = append(res.Inconclusive, err.Error())

			return
		}
		modes := []string{"peer"}
		if v.Pkt.FromNode == self {
			modes = append(modes, "origin")
		}
		// the same packet with no hops left (only where that can matter: the packet is for another node)
		if v.Pkt.ToNode != self && v.Expect.Outcome0 != "" {
			modes = append(modes, "peer-ttl0")
			if v.Pkt.FromNode == self {
				modes = append(modes, "origin-ttl0")
			}
		}
		for _, mode := range modes {
			expect, problem, ttl := v.Expect.Outcome, netceptor.ProblemRejected, byte(5)
			if strings.HasSuffix(mode, "-ttl0") {
				expect, ttl = v.Expect.Outcome0, 0
				if expect == "expired" {
					problem = netceptor.ProblemExpiredInTransit
				}
			}
			noticeName := "notice"
			if problem == netceptor.ProblemExpiredInTransit {
				noticeName = "expired"
			}
			obs, detail := "", ""
			for attempt := 0; attempt < 2; attempt++ {
				payload := []byte(fmt.Sprintf("v%d-%s-%d", vi, mode, attempt))
				ev0, f0, r0, n0 := col.Len(), p.Count(), nReads(), nNotes()
				var sendErr error
				if strings.HasPrefix(mode, "peer") {
					_ = p.SendRaw(peer.EncodeData(ttl, v.Pkt.FromNode, v.Pkt.ToNode, v.Pkt.FromService, v.Pkt.ToService, payload))
					if err := e1.Barrier(col, p, 10*time.Second); err != nil {
						res.Inconclusive = append(res.Inconclusive, "barrier: "+err.Error())

						return
					}
				} else {
					sendErr = n.N.SendMessageWithHopsToLive(v.Pkt.FromService, v.Pkt.ToNode, v.Pkt.ToService, payload, ttl)
				}
				observe := func() (string, string, bool) {
					evs := col.Since(ev0)
					nf, nd, nu := 0, 0, 0
					for _, e := range evs {
						switch e["ev"] {
						case "dp_forward":
							nf++
						case "dp_deliver":
							nd++
						case "unr_publish":
							nu++
						}
					}
					// wait for everything the hooks announce to materialise at the observers
					if !waitCount(p.Count, f0+nf+boolInt(mode == "peer")*0) || !waitCount(nReads, r0+nd) {
						return "", "", true
					}
					frames := p.Frames()[f0:]
					var dataFrames []peer.Frame
					for _, f := range frames {
						if f.Type == netceptor.MsgTypeData {
							dataFrames = append(dataFrames, f)
						}
					}
					mu.Lock()
					newReads := append([]localRead(nil), reads[r0:]...)
					mu.Unlock()
					obs := "silent"
					detail := ""
					ttlIn := ttl
					switch {
					case len(dataFrames) == 0 && len(newReads) == 0 && nu == 0:
						obs = "silent"
					case len(dataFrames) == 1 && len(newReads) == 0 && nu == 0 && dataFrames[0].Data != nil:
						d := dataFrames[0].Data
						if d.FromService == "unreach" && d.ToService == "unreach" {
							var um netceptor.UnreachableMessage
							_ = json.Unmarshal(d.Payload, &um)
							if d.FromHash == peer.Hash(self) && d.ToHash == peer.Hash(v.Pkt.FromNode) && um.Problem == problem &&
								um.FromNode == v.Pkt.FromNode && um.ToNode == v.Pkt.ToNode && um.FromService == v.Pkt.FromService && um.ToService == v.Pkt.ToService {
								obs = noticeName
							} else {
								obs, detail = "bad-notice", printable(fmt.Sprintf("%+v %+v", d, um))
							}
						} else if d.FromHash == peer.Hash(v.Pkt.FromNode) && d.ToHash == peer.Hash(v.Pkt.ToNode) && d.FromService == v.Pkt.FromService &&
							d.ToService == v.Pkt.ToService && string(d.Payload) == string(payload) && ttlIn > 0 && d.TTL == ttlIn-1 && v.Pkt.ToNode != self {
							obs = "pass"
						} else {
							obs, detail = "bad-forward", printable(fmt.Sprintf("%+v", d))
						}
					case len(dataFrames) == 0 && len(newReads) == 1 && nu == 0:
						rd := newReads[0]
						if v.Pkt.ToNode == self && rd.svc == v.Pkt.ToService && rd.payload == string(payload) && rd.from == v.Pkt.FromNode+":"+v.Pkt.FromService {
							obs = "pass"
						} else {
							obs, detail = "bad-delivery", printable(fmt.Sprintf("%+v", rd))
						}
					case len(dataFrames) == 0 && len(newReads) == 0 && nu == 1:
						// a notice dispatched locally (the packet claims this node as its source)
						if !waitCount(nNotes, n0+1) {
							obs, detail = "bad-notice", "published locally but no socket received it"

							break
						}
						mu.Lock()
						nt := notes[n0]
						extraNotes := len(notes) - n0
						mu.Unlock()
						if extraNotes == 1 && nt.svc == v.Pkt.FromService && v.Pkt.FromNode == self && nt.n.Problem == problem &&
							nt.n.ToNode == v.Pkt.ToNode && nt.n.ToService == v.Pkt.ToService && nt.n.FromService == v.Pkt.FromService {
							obs = noticeName
						} else {
							obs, detail = "bad-notice", printable(fmt.Sprintf("%+v (%d notifications)", nt, extraNotes))
						}
					default:
						obs, detail = "multiple", fmt.Sprintf("frames=%d reads=%d publishes=%d", len(dataFrames), len(newReads), nu)
					}

					return obs, detail, false
				}
				var stuck bool
				obs, detail, stuck = observe()
				if !stuck && obs != expect {
					// What was observed is not what the specification says. Before that counts, look again a little later
					// (everything since the packet was sent is considered again): a frame or a local notice that is still on
					// its way must neither be missed here nor be taken for an effect of the next packet.
					time.Sleep(300 * time.Millisecond)
					obs, detail, stuck = observe()
					res.count("reobserved")
				}
				if stuck {
					res.Inconclusive = append(res.Inconclusive, "announced frame or delivery did not arrive")

					return
				}
				if strings.HasPrefix(mode, "origin") && sendErr != nil {
					obs, detail = "send-error", sendErr.Error()
				}
				key := fmt.Sprintf("%s|%s|%+v|%s", mode, rulesJSON, v.Pkt, expect)
				distinct[key] = true
				res.count("outcome_" + expect)
				res.count("mode_" + mode)
				if obs == expect || attempt == 1 {
					break
				}
				// the rules and the packet decide the outcome, nothing else does: a genuine wrong outcome shows again when the
				// same packet is sent again; anything that does not is not counted
				res.count("retried_after_mismatch")
				time.Sleep(300 * time.Millisecond)
			}
			if obs != expect {
				pos := "transit"
				if v.Pkt.ToNode == self {
					pos = "destination"
				}
				if strings.HasPrefix(mode, "origin") {
					pos = "origin"
				}
				if ttl == 0 {
					pos += ", no hops left"
				}
				res.violate(fmt.Sprintf("C12:%s-instead-of-%s", obs, expect),
					printable(fmt.Sprintf("rules %s packet %+v at %s: spec says %s (decision %s), node did %s %s", rulesJSON, v.Pkt, pos, expect, v.Expect.Decision, obs, detail)),
					map[string]any{"vector": v, "mode": mode})
			}
			if len(res.Samples) < 6 && (vi%97 == 0 || obs != expect) {
				res.Samples = append(res.Samples, map[string]any{"vector": v, "mode": mode, "observed": obs})
			}
		}
	}
	res.Distinct = len(distinct)
	keys := make([]string, 0, len(res.Counters))
	for k := range res.Counters {
		keys = append(keys, k)
	}
	sort.Strings(keys)
	_ = verifhook.On
	_ = net.IPv4len
}

func boolInt(b bool) int {
	if b {
		return 1
	}

	return 0
}

// wireSvc gives the concrete service name for the spec's name: "aXb" is the three bytes a, 0, b.
func wireSvc(s string) string {
	if s == "aXb" {
		return "a\x00b"
	}

	return s
}

// printable replaces control bytes (the zero byte inside a service name) by a visible escape.
func printable(s string) string {
	var b strings.Builder
	for _, r := range s {
		if r < 0x20 || r == 0x7f {
			fmt.Fprintf(&b, "\\x%02x", r)
		} else {
			b.WriteRune(r)
		}
	}

	return b.String()
}
