package main

import (
	"encoding/json"
	"flag"
	"fmt"
	"math/rand"
	"os"
	"sort"
	"strings"
	"sync"
	"sync/atomic"
	"time"

	"github.com/ansible/receptor/pkg/logger"
	"github.com/ansible/receptor/pkg/netceptor"
	"verif/harness/mesh"
	"verif/harness/trace"
)

// C18 at mesh level: advertised listeners are opened and closed on real nodes of small meshes (lines, triangles,
// squares - cycles included), nodes join late or stop; after the last operation every node's advertisement
// table is recorded with the real topology and the set of open advertised services, and TLC (AdsConverged.tla)
// checks that each node lists exactly the services open on the live nodes it can reach, with type and tags.

func init() { commands["adsmesh"] = cmdAdsMesh }

type adsFinal struct {
	Ev   string                         `json:"ev"`
	Sc   int                            `json:"sc"`
	Real map[string]map[string]float64  `json:"real"`
	Open map[string]map[string][]string `json:"open"` // node -> svc -> [ctype, tag]
	Ads  map[string][][]string          `json:"ads"`  // node -> rows [owner, svc, ctype, tag]
	Ops  []string                       `json:"ops"`
}

func cmdAdsMesh(args []string) {
	fs := flag.NewFlagSet("adsmesh", flag.ExitOnError)
	out := fs.String("out", "result.json", "result file")
	traceOut := fs.String("trace", "trace.ndjson", "final-state trace for TLC")
	seed := fs.Int64("seed", 1, "seed")
	scenarios := fs.Int("scenarios", 12, "scenarios")
	par := fs.Int("par", 6, "parallel scenarios")
	hookOut := fs.String("hooktrace", "", "raw hook events of all nodes")
	_ = fs.Parse(args)
	res := &Result{}
	defer res.write(*out)
	col := trace.Install()
	defer func() {
		if *hookOut != "" {
			_ = trace.WriteNDJSON(*hookOut, col.Since(0))
		}
	}()
	// race between an advertisement round and Close: advertisement rounds are slowed down through the public
	// logger hook so that a Close can land between the listener snapshot and the sending of that service's ad
	if viol, n, inconcl := runAdsChurn(col, *seed, *scenarios); inconcl != "" {
		res.Inconclusive = append(res.Inconclusive, inconcl)
	} else {
		for _, v := range viol {
			res.violate(v.Sig, v.What, v.Replay)
		}
		res.count("churn_closes")
		res.Counters["churn_closes"] = n
	}
	// a relay that reaches the owner through a real UDP dialer, with slowed writers
	if viol, inconcl := runAdsUDPRelay(col, *seed); inconcl != "" {
		res.Inconclusive = append(res.Inconclusive, inconcl)
	} else {
		for _, v := range viol {
			res.violate(v.Sig, v.What, v.Replay)
		}
		res.count("udp_relay_runs")
	}
	finals := make([]*adsFinal, *scenarios)
	errs := make([]string, *scenarios)
	sem := make(chan struct{}, *par)
	var wg sync.WaitGroup
	for i := 0; i < *scenarios; i++ {
		wg.Add(1)
		sem <- struct{}{}
		go func(i int) {
			defer wg.Done()
			defer func() { <-sem }()
			finals[i], errs[i] = runAdsMeshScenario(rand.New(rand.NewSource(*seed*32452843+int64(i))), i)
		}(i)
	}
	wg.Wait()
	f, err := os.Create(*traceOut)
	if err != nil {
		res.Inconclusive = append(res.Inconclusive, err.Error())

		return
	}
	enc := json.NewEncoder(f)
	distinct := map[string]bool{}
	for i, fin := range finals {
		if errs[i] != "" {
			res.Inconclusive = append(res.Inconclusive, fmt.Sprintf("scenario %d: %s", i, errs[i]))

			continue
		}
		_ = enc.Encode(fin)
		res.Evaluations++
		distinct[fmt.Sprint(fin.Ops)] = true
		if len(res.Samples) < 2 {
			res.Samples = append(res.Samples, fin)
		}
	}
	f.Close()
	res.Distinct = len(distinct)
}

func runAdsMeshScenario(rng *rand.Rand, idx int) (*adsFinal, string) {
	adPeriod := 400 * time.Millisecond
	m := mesh.New(mesh.Opts{RouteUpdate: 300 * time.Millisecond, ServiceAd: adPeriod}, int64(idx)*777)
	defer m.StopAll()
	nn := 3 + rng.Intn(2)
	ids := []string{}
	for i := 0; i < nn; i++ {
		ids = append(ids, fmt.Sprintf("a%dn%d", idx, i))
	}
	late := ids[nn-1] // joins after the first operations
	for _, id := range ids[:nn-1] {
		m.Start(id)
	}
	ops := []string{}
	link := func(a, b string) {
		if _, err := m.Connect(a, b, 1, 1); err == nil {
			ops = append(ops, "link "+a+" "+b)
		}
	}
	for i := 1; i < nn-1; i++ {
		link(ids[i-1], ids[i])
	}
	if nn-1 >= 3 && rng.Intn(2) == 0 {
		link(ids[0], ids[nn-2]) // close a cycle
	}
	type openT struct {
		pc    netceptor.PacketConner
		ctype string
		tag   string
	}
	open := map[string]map[string]*openT{}
	svcs := []string{"s1", "s2", "s3"}
	running := func() []string { return m.SortedIDs() }
	nops := 4 + rng.Intn(8)
	joined := false
	stopped := ""
	if idx == 0 {
		// directed history: a service is advertised, learnt by the others, and its owner then stops without withdrawing it
		owner := ids[1]
		if pc, err := m.Nodes[owner].N.ListenPacketAndAdvertise("s1", map[string]string{"k": "dead"}); err == nil {
			_ = pc
			ops = append(ops, "open "+owner+" s1")
			deadline := time.Now().Add(20 * adPeriod)
			for time.Now().Before(deadline) {
				if _, ok := m.Nodes[ids[0]].N.GetServiceInfo(owner, "s1"); ok {
					break
				}
				time.Sleep(adPeriod / 4)
			}
			m.Stop(owner)
			stopped = owner
			ops = append(ops, "stop "+owner)
		}
		nops = 0
	}
	for k := 0; k < nops; k++ {
		time.Sleep(time.Duration(rng.Intn(int(adPeriod/time.Millisecond))) * time.Millisecond)
		if !joined && k >= nops/3 {
			m.Start(late)
			link(late, ids[rng.Intn(nn-1)])
			if rng.Intn(2) == 0 {
				link(late, ids[rng.Intn(nn-1)])
			}
			joined = true
			ops = append(ops, "join "+late)

			continue
		}
		r := running()
		node := r[rng.Intn(len(r))]
		svc := svcs[rng.Intn(len(svcs))]
		switch x := rng.Intn(10); {
		case x < 5: // open
			if open[node] != nil && open[node][svc] != nil {
				continue
			}
			tag := fmt.Sprintf("t%d", k)
			pc, err := m.Nodes[node].N.ListenPacketAndAdvertise(svc, map[string]string{"k": tag})
			if err != nil {
				continue
			}
			if open[node] == nil {
				open[node] = map[string]*openT{}
			}
			open[node][svc] = &openT{pc, "0", tag}
			ops = append(ops, "open "+node+" "+svc)
		case x < 9: // close
			if open[node] == nil || open[node][svc] == nil {
				continue
			}
			_ = open[node][svc].pc.Close()
			delete(open[node], svc)
			ops = append(ops, "close "+node+" "+svc)
		default: // stop a node (its services go with it, without any withdrawal being sent)
			if stopped != "" || len(r) <= 2 {
				continue
			}
			m.Stop(node)
			stopped = node
			delete(open, node)
			ops = append(ops, "stop "+node)
		}
	}
	// expected table per node, for the wait heuristic only (the verdict is TLC's)
	looks := func() bool {
		g := m.RealGraph()
		for n := range g {
			d := mesh.Dist(g, n)
			want := map[string]bool{}
			for o, sv := range open {
				if c, ok := d[o]; ok && c < 1e300 {
					for s, ot := range sv {
						want[o+"|"+s+"|"+ot.tag] = true
					}
				}
			}
			got := map[string]bool{}
			for _, ad := range m.Nodes[n].N.Status().Advertisements {
				got[ad.NodeID+"|"+ad.Service+"|"+ad.Tags["k"]] = true
			}
			if len(got) != len(want) {
				return false
			}
			for k := range want {
				if !got[k] {
					return false
				}
			}
		}

		return true
	}
	start := time.Now()
	streak := 0
	for time.Since(start) < 40*adPeriod {
		if looks() {
			streak++
			if streak >= 3 {
				break
			}
		} else {
			streak = 0
		}
		time.Sleep(adPeriod / 2)
	}
	fin := &adsFinal{Ev: "final", Sc: idx, Real: m.RealGraph(), Open: map[string]map[string][]string{}, Ads: map[string][][]string{}, Ops: ops}
	for _, n := range m.SortedIDs() {
		fin.Open[n] = map[string][]string{}
		for s, ot := range open[n] {
			fin.Open[n][s] = []string{ot.ctype, ot.tag}
		}
		rows := [][]string{}
		for _, ad := range m.Nodes[n].N.Status().Advertisements {
			rows = append(rows, []string{ad.NodeID, ad.Service, fmt.Sprint(ad.ConnType), ad.Tags["k"]})
		}
		sort.Slice(rows, func(i, j int) bool { return fmt.Sprint(rows[i]) < fmt.Sprint(rows[j]) })
		fin.Ads[n] = rows
	}

	return fin, ""
}

// runAdsChurn: two real nodes; the owner has four advertised listeners and re-advertises every 30 ms; every
// "Sending service advertisement" is slowed by 3 ms (logger hook), so a round lasts >= 12 ms. One listener at
// a time is closed at a random moment; once the peer has dropped it, it must not be listed again while closed.
func runAdsChurn(col *trace.Collector, seed int64, scale int) (viol []Violation, closes int, inconcl string) {
	defer col.SetDelay("ad_withdraw", 0)
	var slow int32 = 1
	logger.RegisterLogger(func(_ int, format string, _ ...interface{}) {
		if atomic.LoadInt32(&slow) == 1 && strings.HasPrefix(format, "Sending service advertisement") {
			time.Sleep(3 * time.Millisecond)
		}
	})
	defer func() { atomic.StoreInt32(&slow, 0) }()
	rng := rand.New(rand.NewSource(seed * 2654435761))
	m := mesh.New(mesh.Opts{RouteUpdate: 300 * time.Millisecond, ServiceAd: 30 * time.Millisecond}, seed+4242)
	defer m.StopAll()
	owner, peerN := m.Start("chO"), m.Start("chP")
	if _, err := m.Connect("chO", "chP", 1, 1); err != nil {
		return nil, 0, err.Error()
	}
	svcs := []string{"c1", "c2", "c3", "c4"}
	open := map[string]netceptor.PacketConner{}
	listen := func(s string) bool {
		pc, err := owner.N.ListenPacketAndAdvertise(s, map[string]string{"k": s})
		if err != nil {
			return false
		}
		open[s] = pc

		return true
	}
	for _, s := range svcs {
		if !listen(s) {
			return nil, 0, "listen failed"
		}
	}
	listed := func(s string) bool { _, ok := peerN.N.GetServiceInfo("chO", s); return ok }
	waitFor := func(cond func() bool, d time.Duration) bool {
		dl := time.Now().Add(d)
		for !cond() {
			if time.Now().After(dl) {
				return false
			}
			time.Sleep(time.Millisecond)
		}

		return true
	}
	for _, s := range svcs {
		if !waitFor(func() bool { return listed(s) }, 20*time.Second) {
			return nil, 0, "peer never learnt " + s
		}
	}
	total := 40
	if scale > 50 {
		total = 300
	}
	for i := 0; i < total; i++ {
		s := svcs[rng.Intn(len(svcs))]
		time.Sleep(time.Duration(rng.Intn(30000)) * time.Microsecond)
		// every other close: the closing goroutine pauses right after it has stamped the withdrawal (hook point
		// ad_withdraw, before the cancel is flooded), so that an advertisement round can run at that very moment
		if i%2 == 1 {
			col.SetDelay("ad_withdraw", 5*time.Millisecond)
		} else {
			col.SetDelay("ad_withdraw", 0)
		}
		_ = open[s].Close()
		closes++
		if !waitFor(func() bool { return !listed(s) }, 20*time.Second) {
			return viol, closes, "peer never dropped the withdrawn service"
		}
		// it must stay withdrawn: several advertisement rounds pass
		if waitFor(func() bool { return listed(s) }, 120*time.Millisecond) {
			viol = append(viol, Violation{"C18:closed-service-listed-again", fmt.Sprintf("service %s of the owner was closed, the peer dropped it, and %d closes into the run the peer lists it again although it is still closed", s, closes),
				map[string]any{"scenario": "ads-churn", "close_number": closes}})

			return viol, closes, ""
		}
		if !listen(s) {
			return viol, closes, "re-listen failed"
		}
		if !waitFor(func() bool { return listed(s) }, 20*time.Second) {
			return viol, closes, "peer never re-learnt " + s
		}
	}

	return viol, closes, ""
}
