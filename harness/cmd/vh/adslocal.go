package main

import (
	"encoding/json"
	"flag"
	"fmt"
	"math/rand"
	"os"
	"sort"
	"sync"
	"time"

	"github.com/ansible/receptor/pkg/netceptor"
	"github.com/ansible/receptor/pkg/verifhook"
	"verif/harness/e1"
	"verif/harness/peer"
	"verif/harness/trace"
)

// C18 at one node: advertisements/withdrawals from scripted neighbours and local open/close of advertised
// listeners; the recorded trace is validated by TLC against specs/AdsLocalTrace.tla.

type adMsg struct {
	Owner  string `json:"owner"`
	Svc    string `json:"svc"`
	Time   int64  `json:"time"` // microseconds since segment start
	Cancel bool   `json:"cancel"`
	CType  int    `json:"ctype"`
	Tag    string `json:"tag"`
}

type adRow struct {
	Owner string `json:"owner"`
	Svc   string `json:"svc"`
	Time  int64  `json:"time"`
	CType int    `json:"ctype"`
	Tag   string `json:"tag"`
}

type adObs struct {
	RelayTo []string `json:"relayTo"`
	Ads     []adRow  `json:"ads"`
}

type adLine struct {
	Ev    string `json:"ev"`
	Via   string `json:"via,omitempty"`
	M     *adMsg `json:"m,omitempty"`
	Svc   string `json:"svc,omitempty"`
	Time  int64  `json:"time,omitempty"`
	CType int    `json:"ctype"`
	Tag   string `json:"tag"`
	Obs   *adObs `json:"obs,omitempty"`
}

func init() { commands["adslocal"] = cmdAdsLocal }

func cmdAdsLocal(args []string) {
	fs := flag.NewFlagSet("adslocal", flag.ExitOnError)
	out := fs.String("out", "result.json", "result file")
	traceOut := fs.String("trace", "trace.ndjson", "trace file for TLC")
	seed := fs.Int64("seed", 1, "seed")
	segments := fs.Int("segments", 40, "segments")
	steps := fs.Int("steps", 14, "steps per segment")
	par := fs.Int("par", 8, "parallel segments")
	_ = fs.Parse(args)
	res := &Result{}
	defer res.write(*out)
	col := trace.Install()
	type segT struct {
		lines   []adLine
		inconcl string
		viol    []Violation
	}
	segs := make([]*segT, *segments)
	sem := make(chan struct{}, *par)
	var wg sync.WaitGroup
	for i := 0; i < *segments; i++ {
		wg.Add(1)
		sem <- struct{}{}
		go func(i int) {
			defer wg.Done()
			defer func() { <-sem }()
			sg := &segT{}
			segs[i] = sg
			sg.lines, sg.viol, sg.inconcl = runAdsSegment(col, rand.New(rand.NewSource(*seed*7919+int64(i))), *steps)
		}(i)
	}
	wg.Wait()
	f, err := os.Create(*traceOut)
	if err != nil {
		res.Inconclusive = append(res.Inconclusive, err.Error())

		return
	}
	enc := json.NewEncoder(f)
	distinct := map[string]bool{}
	for _, s := range segs {
		if s.inconcl != "" {
			res.Inconclusive = append(res.Inconclusive, s.inconcl)

			continue
		}
		for _, v := range s.viol {
			res.violate(v.Sig, v.What, v.Replay)
		}
		prefix := ""
		for _, l := range s.lines {
			_ = enc.Encode(l)
			if l.Ev != "reset" {
				res.Evaluations++
				b, _ := json.Marshal([]any{l.Ev, l.Via, l.M, l.Svc})
				prefix += string(b)
				distinct[prefix] = true
			}
		}
	}
	f.Close()
	res.Distinct = len(distinct)
	if len(segs) > 0 && len(segs[0].lines) > 4 {
		res.Samples = append(res.Samples, segs[0].lines[1:5])
	}
}

func runAdsSegment(col *trace.Collector, rng *rand.Rand, steps int) (lines []adLine, viol []Violation, inconcl string) {
	n, err := e1.NewNode("n1", e1.Opts{})
	if err != nil {
		return nil, nil, err.Error()
	}
	defer n.Stop()
	vn := n.N.VerifName()
	names := []string{"p1", "p2"}
	peers := map[string]*peer.Peer{}
	for _, pn := range names {
		p, err := n.Attach(pn)
		if err != nil {
			return nil, nil, "attach: " + err.Error()
		}
		peers[pn] = p
		_ = p.SendRoute(peer.RoutingUpdate{NodeID: pn, UpdateID: "hs0-" + pn, UpdateEpoch: 1, UpdateSequence: 0, Connections: map[string]float64{}, ForwardingNode: pn})
		_ = p.SendRoute(peer.RoutingUpdate{NodeID: pn, UpdateID: "hs-" + pn, UpdateEpoch: 1, UpdateSequence: 1, Connections: map[string]float64{"n1": 1}, ForwardingNode: pn})
		if e := nlBarrier(col, vn, p, 20*time.Second); e != "" {
			return nil, nil, "setup barrier: " + e
		}
	}
	base := time.Now().Truncate(time.Second)
	abs := func(t time.Time) int64 { return t.Sub(base).Microseconds() }
	lines = append(lines, adLine{Ev: "reset"})
	snapshot := func() []adRow {
		rows := []adRow{}
		for _, ad := range n.N.Status().Advertisements {
			t := ad.Time
			if ad.NodeID == "n1" { // Status() stamps own entries with the current time; read the stored one
				if si, ok := n.N.GetServiceInfo(ad.NodeID, ad.Service); ok {
					t = si.Time
				}
			}
			rows = append(rows, adRow{ad.NodeID, ad.Service, abs(t), int(ad.ConnType), ad.Tags["k"]})
		}
		sort.Slice(rows, func(i, j int) bool { return rows[i].Owner+rows[i].Svc < rows[j].Owner+rows[j].Svc })

		return rows
	}
	matchAd := func(m adMsg) func(peer.Frame) bool {
		return func(f peer.Frame) bool {
			return f.Ad != nil && f.Ad.NodeID == m.Owner && f.Ad.Service == m.Svc && f.Ad.Cancel == m.Cancel && abs(f.Ad.Time) == m.Time
		}
	}
	collectRelays := func(ev0 int, f0 map[string]int, m adMsg) ([]string, string) {
		announced := map[string]bool{}
		for _, e := range col.Since(ev0) {
			if e["n"] == vn && e["ev"] == "flood" && e["mtype"] == 2 {
				b := msgBody(e)
				if b != nil && b["NodeID"] == m.Owner && b["Service"] == m.Svc {
					for _, t := range e["targets"].([]string) {
						announced[t] = true
					}
				}
			}
		}
		for t := range announced {
			if _, f := peers[t].WaitFrame(f0[t], 15*time.Second, matchAd(m)); f == nil {
				return nil, "announced advertisement relay did not arrive"
			}
		}
		got := []string{}
		for _, pn := range names {
			for _, f := range peers[pn].Frames()[f0[pn]:] {
				if matchAd(m)(f) {
					got = append(got, pn)
				}
			}
		}
		sort.Strings(got)

		return got, ""
	}
	localOpen := map[string]netceptor.PacketConner{}
	var sent []adMsg
	owners := []string{"o1", "o2", "n1"}
	svcs := []string{"s1", "s2", "s3"}
	for s := 0; s < steps; s++ {
		ev0 := col.Len()
		f0 := map[string]int{}
		for _, pn := range names {
			f0[pn] = peers[pn].Count()
		}
		k := rng.Intn(100)
		switch {
		case k < 12: // open a local advertised listener
			svc := svcs[rng.Intn(len(svcs))]
			if _, ok := localOpen[svc]; ok {
				continue
			}
			tag := fmt.Sprintf("L%d", s)
			time.Sleep(2 * time.Millisecond)
			pc, err := n.N.ListenPacketAndAdvertise(svc, map[string]string{"k": tag})
			if err != nil {
				return nil, nil, "listen: " + err.Error()
			}
			localOpen[svc] = pc
			si, _ := n.N.GetServiceInfo("n1", svc)
			lines = append(lines, adLine{Ev: "open", Svc: svc, Time: abs(si.Time), CType: int(si.ConnType), Tag: tag, Obs: &adObs{RelayTo: []string{}, Ads: snapshot()}})
		case k < 24: // close one
			if len(localOpen) == 0 {
				continue
			}
			var svc string
			for sv := range localOpen {
				if svc == "" || sv < svc {
					svc = sv
				}
			}
			time.Sleep(2 * time.Millisecond)
			_ = localOpen[svc].Close()
			delete(localOpen, svc)
			var wt int64 = -1
			for _, e := range col.Since(ev0) {
				if e["n"] == vn && e["ev"] == "ad_withdraw" && e["svc"] == svc {
					wt = (e["time"].(int64) - base.UnixNano()) / 1000
				}
			}
			if wt < 0 {
				return nil, nil, "no ad_withdraw event"
			}
			m := adMsg{Owner: "n1", Svc: svc, Time: wt, Cancel: true}
			got, e := collectRelays(ev0, f0, m)
			if e != "" {
				return nil, nil, e
			}
			lines = append(lines, adLine{Ev: "close", Svc: svc, Time: wt, Obs: &adObs{RelayTo: got, Ads: snapshot()}})
		default:
			via := names[rng.Intn(len(names))]
			var m adMsg
			if len(sent) > 0 && rng.Intn(4) == 0 { // exact duplicate of an earlier message, maybe on the other link
				m = sent[rng.Intn(len(sent))]
			} else {
				m = adMsg{Owner: owners[rng.Intn(len(owners))], Svc: svcs[rng.Intn(len(svcs))], Time: int64(1+rng.Intn(6))*1000000 + 500,
					Cancel: rng.Intn(3) == 0, CType: rng.Intn(3), Tag: fmt.Sprintf("T%d", rng.Intn(3))}
				if m.Owner == "n1" && rng.Intn(2) == 0 {
					m.Time = abs(time.Now()) - int64(rng.Intn(3))*1000000 // around "now": older than a fresh local open/close or not
					m.Time = m.Time/1000*1000 + 501
				}
			}
			if m.Cancel {
				m.Tag, m.CType = "", 0
			}
			sent = append(sent, m)
			ad := peer.ServiceAd{NodeID: m.Owner, Service: m.Svc, Time: base.Add(time.Duration(m.Time) * time.Microsecond), ConnType: byte(m.CType), Cancel: m.Cancel}
			if !m.Cancel {
				ad.Tags = map[string]string{"k": m.Tag}
			}
			_ = peers[via].SendAd(ad)
			if e := nlBarrier(col, vn, peers[via], 20*time.Second); e != "" {
				return nil, nil, "barrier: " + e
			}
			got, e := collectRelays(ev0, f0, m)
			if e != "" {
				return nil, nil, e
			}
			mm := m
			lines = append(lines, adLine{Ev: "recv", Via: via, M: &mm, Obs: &adObs{RelayTo: got, Ads: snapshot()}})
		}
	}
	_ = verifhook.On

	return lines, viol, ""
}
