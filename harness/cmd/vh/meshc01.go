package main

import (
	"encoding/json"
	"flag"
	"fmt"
	"math/rand"
	"os"
	"sync"
	"time"

	"github.com/ansible/receptor/pkg/verifhook"
	"verif/harness/memnet"
	"verif/harness/mesh"
	"verif/harness/peer"
	"verif/harness/trace"
)

// C01: seeded topology/event scenarios on meshes of real nodes; after the last event the final routing tables,
// path costs and connection sets of all nodes are recorded together with the real topology and validated by
// TLC (Converged.tla, NetCore's independent shortest-path oracle). All hook events are kept for NodeTrace.tla.

func init() { commands["mesh"] = cmdMesh }

type meshEvent struct {
	Kind string  `json:"kind"` // cut, silence, heal, stop, restart
	A    string  `json:"a"`
	B    string  `json:"b,omitempty"`
	Cost float64 `json:"cost,omitempty"`
	Wait int     `json:"wait_ms"`
}

type meshScenario struct {
	Index  int         `json:"index"`
	Nodes  []string    `json:"nodes"`
	Links  [][3]any    `json:"links"`
	Events []meshEvent `json:"events"`
	Silent bool        `json:"silent"`
}

type meshFinal struct {
	Ev     string                        `json:"ev"`
	Sc     int                           `json:"sc"`
	Late   bool                          `json:"late"`
	Real   map[string]map[string]float64 `json:"real"`
	Tables map[string]map[string]string  `json:"tables"`
	Costs  map[string]map[string]float64 `json:"costs"`
	Conns  map[string]map[string]float64 `json:"conns"`
	Tag    string                        `json:"tag,omitempty"`
}

func cmdMesh(args []string) {
	fs := flag.NewFlagSet("mesh", flag.ExitOnError)
	out := fs.String("out", "result.json", "result file")
	traceOut := fs.String("trace", "trace.ndjson", "final-state trace for TLC (Converged.tla)")
	hookOut := fs.String("hooktrace", "", "raw hook events")
	seed := fs.Int64("seed", 1, "seed")
	scenarios := fs.Int("scenarios", 24, "scenarios")
	silentEvery := fs.Int("silent-every", 6, "every k-th scenario uses a short idle limit and silent link failures (0 = never)")
	maxNodes := fs.Int("max-nodes", 5, "largest mesh")
	par := fs.Int("par", 8, "parallel scenarios")
	_ = fs.Parse(args)
	res := &Result{}
	defer res.write(*out)
	col := trace.Install()
	installPerturbation(*seed, 6, 400*time.Microsecond)
	type scT struct {
		sc      meshScenario
		final   *meshFinal
		inconcl string
		names   map[string]bool
	}
	scs := make([]*scT, *scenarios)
	// first, alone (the gate is process-wide): a link comes up and its peer dies while the node is between the
	// flood request and the rebuild request of the establishment; afterwards the mesh must converge without it
	gate := &scT{}
	gate.sc, gate.final, gate.names, gate.inconcl = runMeshGateScenario(*scenarios)
	defer func() {
		if gate.inconcl != "" {
			res.Inconclusive = append(res.Inconclusive, "gate scenario: "+gate.inconcl)
		}
	}()
	// also alone (sub-second timing): a transit node is restarted again and again, each instance living well under
	// a second, with different links each time
	fast := &scT{}
	fast.sc, fast.final, fast.names, fast.inconcl = runMeshFastRestartScenario(*scenarios + 1)
	defer func() {
		if fast.inconcl != "" {
			res.Inconclusive = append(res.Inconclusive, "fast-restart scenario: "+fast.inconcl)
		}
	}()
	// also alone (process-wide gate): a link is lost and comes back while the old session's teardown sits between the
	// two critical sections of removeConnection
	tear := &scT{}
	tear.sc, tear.final, tear.names, tear.inconcl = runMeshTeardownGateScenario(*scenarios + 2)
	defer func() {
		if tear.inconcl != "" {
			res.Inconclusive = append(res.Inconclusive, "teardown-reconnect scenario: "+tear.inconcl)
		}
	}()
	sem := make(chan struct{}, *par)
	var wg sync.WaitGroup
	for i := 0; i < *scenarios; i++ {
		wg.Add(1)
		sem <- struct{}{}
		go func(i int) {
			defer wg.Done()
			defer func() { <-sem }()
			s := &scT{}
			scs[i] = s
			silent := *silentEvery > 0 && i%*silentEvery == *silentEvery-1
			s.sc, s.final, s.names, s.inconcl = runMeshScenario(rand.New(rand.NewSource(*seed*15485863+int64(i))), i, silent, *maxNodes)
		}(i)
	}
	wg.Wait()
	f, err := os.Create(*traceOut)
	if err != nil {
		res.Inconclusive = append(res.Inconclusive, err.Error())

		return
	}
	enc := json.NewEncoder(f)
	distinct := map[string]bool{}
	keep := map[string]bool{}
	if gate.inconcl == "" {
		scs = append(scs, gate)
	}
	if fast.inconcl == "" {
		scs = append(scs, fast)
	}
	if tear.inconcl == "" {
		scs = append(scs, tear)
	}
	for _, s := range scs {
		if s.inconcl != "" {
			res.Inconclusive = append(res.Inconclusive, fmt.Sprintf("scenario %d: %s", s.sc.Index, s.inconcl))

			continue
		}
		_ = enc.Encode(s.final)
		res.Evaluations++
		b, _ := json.Marshal([]any{s.sc.Links, s.sc.Events})
		distinct[string(b)] = true
		if s.final.Late {
			res.count("late")
		}
		for k := range s.names {
			keep[k] = true
		}
		if len(res.Samples) < 3 {
			res.Samples = append(res.Samples, s.sc)
		}
	}
	f.Close()
	res.Distinct = len(distinct)
	if *hookOut != "" {
		var sel []verifhook.Record
		for _, r := range col.Since(0) {
			if n, _ := r["n"].(string); keep[n] {
				sel = append(sel, r)
			}
		}
		_ = trace.WriteNDJSON(*hookOut, sel)
	}
}

func runMeshScenario(rng *rand.Rand, idx int, silent bool, maxNodes int) (sc meshScenario, final *meshFinal, names map[string]bool, inconcl string) {
	sc.Index, sc.Silent = idx, silent
	names = map[string]bool{}
	o := mesh.Opts{RouteUpdate: 300 * time.Millisecond}
	if silent {
		o.MaxIdle = 2 * time.Second
	}
	m := mesh.New(o, int64(idx)*1000)
	defer m.StopAll()
	nn := 3 + rng.Intn(maxNodes-2)
	for i := 0; i < nn; i++ {
		// node ids are unique per scenario so that concurrently running scenarios never share a label
		id := fmt.Sprintf("s%dn%d", idx, i)
		sc.Nodes = append(sc.Nodes, id)
		names[m.Start(id).N.VerifName()] = true
	}
	costs := []float64{1, 1, 2, 3, 5}
	linked := map[string]bool{}
	key := func(a, b string) string {
		if a > b {
			a, b = b, a
		}

		return a + "|" + b
	}
	connect := func(a, b string, c float64) bool {
		if a == b || linked[key(a, b)] {
			return false
		}
		if _, err := m.Connect(a, b, c, c); err != nil {
			return false
		}
		linked[key(a, b)] = true

		return true
	}
	// a random spanning tree plus extra edges
	for i := 1; i < nn; i++ {
		a, b := sc.Nodes[rng.Intn(i)], sc.Nodes[i]
		c := costs[rng.Intn(len(costs))]
		if connect(a, b, c) {
			sc.Links = append(sc.Links, [3]any{a, b, c})
		}
	}
	for k := rng.Intn(nn + 2); k > 0; k-- {
		a, b := sc.Nodes[rng.Intn(nn)], sc.Nodes[rng.Intn(nn)]
		c := costs[rng.Intn(len(costs))]
		if connect(a, b, c) {
			sc.Links = append(sc.Links, [3]any{a, b, c})
		}
	}
	period := o.RouteUpdate
	stopped := map[string]bool{}
	nev := 1 + rng.Intn(4)
	for e, tries := 0, 0; e < nev && tries < 40; tries++ {
		wait := rng.Intn(3 * int(period/time.Millisecond))
		if tries > 0 && len(sc.Events) > 0 && sc.Events[len(sc.Events)-1].Wait >= 0 {
			wait = 0 // a candidate event that did not apply costs no time
		}
		time.Sleep(time.Duration(wait) * time.Millisecond)
		ev := meshEvent{Wait: wait}
		switch k := rng.Intn(100); {
		case k < 30: // cut a live link
			var live []*mesh.Link
			for _, l := range m.Links {
				if !l.Cut && !l.Silent {
					live = append(live, l)
				}
			}
			if len(live) == 0 {
				continue
			}
			l := live[rng.Intn(len(live))]
			ev.Kind, ev.A, ev.B = "cut", l.A, l.B
			m.CutLink(l)
			delete(linked, key(l.A, l.B))
		case k < 45 && silent:
			var live []*mesh.Link
			for _, l := range m.Links {
				if !l.Cut && !l.Silent {
					live = append(live, l)
				}
			}
			if len(live) == 0 {
				continue
			}
			l := live[rng.Intn(len(live))]
			ev.Kind, ev.A, ev.B = "silence", l.A, l.B
			m.SilenceLink(l)
		case k < 70: // heal / add a link between two running nodes
			a, b := sc.Nodes[rng.Intn(nn)], sc.Nodes[rng.Intn(nn)]
			if stopped[a] || stopped[b] || a == b || linked[key(a, b)] {
				continue
			}
			// a silent link still occupies the id on both sides until it times out: do not heal over it
			busy := false
			for _, l := range m.Links {
				if l.Silent && !l.Cut && key(l.A, l.B) == key(a, b) {
					busy = true
				}
			}
			if busy {
				continue
			}
			c := costs[rng.Intn(len(costs))]
			ev.Kind, ev.A, ev.B, ev.Cost = "heal", a, b, c
			if !connect(a, b, c) {
				continue
			}
		case k < 85: // stop a node
			a := sc.Nodes[rng.Intn(nn)]
			if stopped[a] {
				continue
			}
			ev.Kind, ev.A = "stop", a
			m.Stop(a)
			stopped[a] = true
			for kk := range linked {
				if len(kk) > 0 {
					var x, y string
					fmt.Sscanf(replaceBar(kk), "%s %s", &x, &y)
					if x == a || y == a {
						delete(linked, kk)
					}
				}
			}
		default: // restart a stopped node and reconnect it to one or two running nodes
			var cand []string
			for s := range stopped {
				cand = append(cand, s)
			}
			if len(cand) == 0 {
				continue
			}
			sortStrings(cand)
			a := cand[rng.Intn(len(cand))]
			// no waiting for the next wall-clock second: the epoch must order instances started at any distance
			names[m.Start(a).N.VerifName()] = true
			delete(stopped, a)
			ev.Kind, ev.A = "restart", a
			for tries := 0; tries < 2; tries++ {
				b := sc.Nodes[rng.Intn(nn)]
				if stopped[b] || b == a {
					continue
				}
				c := costs[rng.Intn(len(costs))]
				if connect(a, b, c) {
					sc.Events = append(sc.Events, meshEvent{Kind: "heal", A: a, B: b, Cost: c})
				}
			}
		}
		if ev.Kind != "" {
			sc.Events = append(sc.Events, ev)
			e++
		}
	}
	// convergence wait: a bounded number of update periods (plus the ageing poll when links failed silently)
	d1 := 20 * period
	if silent {
		d1 += 8 * time.Second
	}
	start := time.Now()
	okStreak := 0
	late := false
	for {
		if m.LooksConverged() {
			okStreak++
			if okStreak >= 3 {
				break
			}
		} else {
			okStreak = 0
		}
		el := time.Since(start)
		if el > d1 {
			late = true
		}
		if el > 6*d1 {
			break
		}
		time.Sleep(period / 2)
	}
	final = &meshFinal{Ev: "final", Sc: idx, Late: late, Real: m.RealGraph(), Tables: map[string]map[string]string{},
		Costs: map[string]map[string]float64{}, Conns: map[string]map[string]float64{}}
	for _, id := range m.SortedIDs() {
		nd := m.Nodes[id]
		st := nd.N.Status()
		final.Tables[id] = st.RoutingTable
		final.Costs[id] = map[string]float64{}
		for dst := range st.RoutingTable {
			if c, err := nd.N.PathCost(dst); err == nil {
				final.Costs[id][dst] = c
			}
		}
		final.Conns[id] = map[string]float64{}
		for _, c := range st.Connections {
			final.Conns[id][c.NodeID] = c.Cost
		}
	}

	return sc, final, names, ""
}

func replaceBar(s string) string {
	b := []byte(s)
	for i := range b {
		if b[i] == '|' {
			b[i] = ' '
		}
	}

	return string(b)
}

func sortStrings(s []string) {
	for i := 1; i < len(s); i++ {
		for j := i; j > 0 && s[j] < s[j-1]; j-- {
			s[j], s[j-1] = s[j-1], s[j]
		}
	}
}

// runMeshGateScenario: nodes A-C are linked; a neighbour B of A announces itself and disappears exactly while A's
// session goroutine is parked between the two requests that end the establishment (gate). Repeated a few times
// because which branch of the final select wins is a coin flip. The final state must not contain B anywhere.
func runMeshGateScenario(idx int) (sc meshScenario, final *meshFinal, names map[string]bool, inconcl string) {
	names = map[string]bool{}
	sc.Index = idx
	m := mesh.New(mesh.Opts{RouteUpdate: 300 * time.Millisecond}, 99)
	defer m.StopAll()
	a, c := "gA", "gC"
	sc.Nodes = []string{a, c}
	names[m.Start(a).N.VerifName()] = true
	names[m.Start(c).N.VerifName()] = true
	if _, err := m.Connect(a, c, 1, 1); err != nil {
		return sc, nil, names, err.Error()
	}
	sc.Links = append(sc.Links, [3]any{a, c, 1.0})
	deadline := time.Now().Add(20 * time.Second)
	for len(m.Nodes[a].N.Status().Connections) == 0 || len(m.Nodes[c].N.Status().Connections) == 0 {
		if time.Now().After(deadline) {
			return sc, nil, names, "A-C link did not come up"
		}
		time.Sleep(10 * time.Millisecond)
	}
	for k := 0; k < 6; k++ {
		// the previous round's connection must have been forgotten; if it is still listed 3 s later the next
		// session would only be refused as "already connected": stop here and let the final state show it
		stale := true
		for dl := time.Now().Add(3 * time.Second); time.Now().Before(dl); time.Sleep(10 * time.Millisecond) {
			still := false
			for _, cn := range m.Nodes[a].N.Status().Connections {
				if cn.NodeID == "gB" {
					still = true
				}
			}
			if !still {
				stale = false

				break
			}
		}
		if stale {
			break
		}
		hit, release := verifhook.HoldGate("establish_before_rebuild_req")
		be := memnet.NewBackend()
		if err := m.Nodes[a].N.AddBackend(be); err != nil {
			release()

			return sc, nil, names, err.Error()
		}
		p, err := peer.Attach(be, "gB", int64(1000+k))
		if err != nil {
			release()

			return sc, nil, names, err.Error()
		}
		_ = p.SendRoute(peer.RoutingUpdate{NodeID: "gB", UpdateID: fmt.Sprintf("gate-%d", k), UpdateEpoch: 3, UpdateSequence: 1, Connections: map[string]float64{}, ForwardingNode: "gB"})
		select {
		case <-hit:
		case <-time.After(20 * time.Second):
			release()

			return sc, nil, names, "gate not reached"
		}
		if k%2 == 1 {
			// while A is parked (B already in its adjacency picture), something else changes the topology, so
			// that A rebuilds its table with B in it; then B dies
			d := fmt.Sprintf("gD%d", k)
			names[m.Start(d).N.VerifName()] = true
			if _, err := m.Connect(c, d, 1, 1); err == nil {
				sc.Events = append(sc.Events, meshEvent{Kind: "heal", A: c, B: d, Cost: 1})
			}
			dl := time.Now().Add(10 * time.Second)
			for time.Now().Before(dl) {
				if _, ok := m.Nodes[a].N.Status().RoutingTable[d]; ok {
					break
				}
				time.Sleep(10 * time.Millisecond)
			}
		}
		p.Close()
		time.Sleep(150 * time.Millisecond)
		release()
		sc.Events = append(sc.Events, meshEvent{Kind: "up-then-peer-dies-at-gate", A: a, B: "gB"})
		time.Sleep(50 * time.Millisecond)
	}
	period := 300 * time.Millisecond
	start := time.Now()
	streak := 0
	late := false
	for {
		if m.LooksConverged() {
			streak++
			if streak >= 3 {
				break
			}
		} else {
			streak = 0
		}
		if time.Since(start) > 20*period {
			late = true
		}
		if time.Since(start) > 120*period {
			break
		}
		time.Sleep(period / 2)
	}
	final = &meshFinal{Ev: "final", Sc: idx, Late: late, Real: m.RealGraph(), Tables: map[string]map[string]string{},
		Costs: map[string]map[string]float64{}, Conns: map[string]map[string]float64{}}
	for _, id := range m.SortedIDs() {
		nd := m.Nodes[id]
		st := nd.N.Status()
		final.Tables[id] = st.RoutingTable
		final.Costs[id] = map[string]float64{}
		for dst := range st.RoutingTable {
			if cst, err := nd.N.PathCost(dst); err == nil {
				final.Costs[id][dst] = cst
			}
		}
		final.Conns[id] = map[string]float64{}
		for _, cn := range st.Connections {
			final.Conns[id][cn.NodeID] = cn.Cost
		}
	}

	return sc, final, names, ""
}

// runMeshFastRestartScenario: line fD - fA - fB - fC. The transit node fB is stopped and restarted ten times; every
// instance lives only until the mesh has converged on it (well under a second) and comes back with different links
// (fA only / fA and fC). C01 quantifies over every sequence of stop and restart events, so the instances of one node
// must be ordered by their epochs whatever the time between two starts. Stops at the first round that does not
// converge within 120 update periods (the final state then shows it).
func runMeshFastRestartScenario(idx int) (sc meshScenario, final *meshFinal, names map[string]bool, inconcl string) {
	names = map[string]bool{}
	sc.Index = idx
	period := 300 * time.Millisecond
	m := mesh.New(mesh.Opts{RouteUpdate: period}, 777)
	defer m.StopAll()
	d, a, b, c := "fD", "fA", "fB", "fC"
	sc.Nodes = []string{d, a, b, c}
	for _, id := range []string{d, a, c} {
		names[m.Start(id).N.VerifName()] = true
	}
	if _, err := m.Connect(d, a, 1, 1); err != nil {
		return sc, nil, names, err.Error()
	}
	sc.Links = append(sc.Links, [3]any{d, a, 1.0})
	late := false
	for k := 0; k < 10 && !late; k++ {
		if nd := m.Nodes[b]; nd != nil && !nd.Stopped {
			m.Stop(b)
			sc.Events = append(sc.Events, meshEvent{Kind: "stop", A: b})
		}
		names[m.Start(b).N.VerifName()] = true
		sc.Events = append(sc.Events, meshEvent{Kind: "restart", A: b})
		if _, err := m.Connect(a, b, 1, 1); err != nil {
			return sc, nil, names, err.Error()
		}
		sc.Events = append(sc.Events, meshEvent{Kind: "heal", A: a, B: b, Cost: 1})
		if k%2 == 1 {
			if _, err := m.Connect(b, c, 1, 1); err != nil {
				return sc, nil, names, err.Error()
			}
			sc.Events = append(sc.Events, meshEvent{Kind: "heal", A: b, B: c, Cost: 1})
		}
		start := time.Now()
		streak := 0
		for {
			if m.LooksConverged() {
				streak++
				if streak >= 2 {
					break
				}
			} else {
				streak = 0
			}
			if time.Since(start) > 120*period {
				late = true

				break
			}
			time.Sleep(5 * time.Millisecond)
		}
	}
	final = &meshFinal{Ev: "final", Sc: idx, Late: late, Real: m.RealGraph(), Tables: map[string]map[string]string{},
		Costs: map[string]map[string]float64{}, Conns: map[string]map[string]float64{}, Tag: "fast-restart"}
	for _, id := range m.SortedIDs() {
		nd := m.Nodes[id]
		st := nd.N.Status()
		final.Tables[id] = st.RoutingTable
		final.Costs[id] = map[string]float64{}
		for dst := range st.RoutingTable {
			if cst, err := nd.N.PathCost(dst); err == nil {
				final.Costs[id][dst] = cst
			}
		}
		final.Conns[id] = map[string]float64{}
		for _, cn := range st.Connections {
			final.Conns[id][cn.NodeID] = cn.Cost
		}
	}

	return sc, final, names, ""
}

// runMeshTeardownGateScenario: line tA - tB - tC. Three times the link tA-tB is cut and comes back while the teardown of
// the old session (of whichever end reaches it first) is parked between the two critical sections of removeConnection
// (gate remove_between_sections): the connection entry is gone, the adjacency edge not yet. The returning peer is
// admitted in that window. Afterwards a node tD joins at tB; every node must converge on the real topology.
func runMeshTeardownGateScenario(idx int) (sc meshScenario, final *meshFinal, names map[string]bool, inconcl string) {
	names = map[string]bool{}
	sc.Index = idx
	period := 300 * time.Millisecond
	m := mesh.New(mesh.Opts{RouteUpdate: period}, 4242)
	defer m.StopAll()
	a, b, c, d := "tA", "tB", "tC", "tD"
	sc.Nodes = []string{a, b, c, d}
	for _, id := range []string{a, b, c} {
		names[m.Start(id).N.VerifName()] = true
	}
	if _, err := m.Connect(a, b, 1, 1); err != nil {
		return sc, nil, names, err.Error()
	}
	if _, err := m.Connect(b, c, 1, 1); err != nil {
		return sc, nil, names, err.Error()
	}
	sc.Links = append(sc.Links, [3]any{a, b, 1.0}, [3]any{b, c, 1.0})
	// Status() of a node whose tables are locked for good never returns: ask with a time limit
	looks := func() bool {
		ch := make(chan bool, 1)
		go func() { ch <- m.LooksConverged() }()
		select {
		case v := <-ch:
			return v
		case <-time.After(5 * time.Second):
			return false
		}
	}
	waitConv := func(limit time.Duration) bool {
		start := time.Now()
		streak := 0
		for time.Since(start) < limit {
			if looks() {
				streak++
				if streak >= 3 {
					return true
				}
			} else {
				streak = 0
			}
			time.Sleep(period / 4)
		}

		return false
	}
	if !waitConv(20 * time.Second) {
		return sc, nil, names, "initial line did not converge"
	}
	connected := func(x, y string) bool {
		ch := make(chan bool, 1)
		go func() {
			for _, cn := range m.Nodes[x].N.Status().Connections {
				if cn.NodeID == y {
					ch <- true

					return
				}
			}
			ch <- false
		}()
		select {
		case v := <-ch:
			return v
		case <-time.After(3 * time.Second):
			return false
		}
	}
	for k := 0; k < 3; k++ {
		l := m.FindLink(a, b)
		if l == nil {
			return sc, nil, names, "no live tA-tB link"
		}
		hit, release := verifhook.HoldGate("remove_between_sections")
		m.CutLink(l)
		sc.Events = append(sc.Events, meshEvent{Kind: "cut", A: a, B: b})
		select {
		case <-hit:
		case <-time.After(20 * time.Second):
			release()

			return sc, nil, names, "gate remove_between_sections not reached"
		}
		// the other end's teardown is not parked: let it finish, then bring the link back
		time.Sleep(100 * time.Millisecond)
		if _, err := m.Connect(a, b, 1, 1); err != nil {
			release()

			return sc, nil, names, err.Error()
		}
		sc.Events = append(sc.Events, meshEvent{Kind: "heal-while-teardown-parked", A: a, B: b, Cost: 1})
		dl := time.Now().Add(10 * time.Second)
		for !(connected(a, b) && connected(b, a)) && time.Now().Before(dl) {
			time.Sleep(5 * time.Millisecond)
		}
		release()
		time.Sleep(200 * time.Millisecond)
	}
	names[m.Start(d).N.VerifName()] = true
	if _, err := m.Connect(b, d, 1, 1); err == nil {
		sc.Events = append(sc.Events, meshEvent{Kind: "heal", A: b, B: d, Cost: 1})
	}
	late := !waitConv(20 * period)
	if late {
		waitConv(100 * period)
	}
	final = &meshFinal{Ev: "final", Sc: idx, Late: late, Real: m.RealGraph(), Tables: map[string]map[string]string{},
		Costs: map[string]map[string]float64{}, Conns: map[string]map[string]float64{}, Tag: "teardown-reconnect"}
	type snap struct {
		table map[string]string
		conns map[string]float64
		costs map[string]float64
	}
	for _, id := range m.SortedIDs() {
		nd := m.Nodes[id]
		ch := make(chan snap, 1)
		go func() {
			st := nd.N.Status()
			sn := snap{st.RoutingTable, map[string]float64{}, map[string]float64{}}
			for dst := range st.RoutingTable {
				if cst, err := nd.N.PathCost(dst); err == nil {
					sn.costs[dst] = cst
				}
			}
			for _, cn := range st.Connections {
				sn.conns[cn.NodeID] = cn.Cost
			}
			ch <- sn
		}()
		select {
		case sn := <-ch:
			final.Tables[id], final.Costs[id], final.Conns[id] = sn.table, sn.costs, sn.conns
		case <-time.After(10 * time.Second):
			// Status() itself does not return: the node's tables are locked for good
			final.Tables[id], final.Costs[id], final.Conns[id] = map[string]string{}, map[string]float64{}, map[string]float64{}
		}
	}

	return sc, final, names, ""
}
