package main

import (
	"flag"
	"fmt"
	"math/rand"
	"sync"
	"time"

	"github.com/ansible/receptor/pkg/verifhook"
	"verif/harness/mesh"
	"verif/harness/trace"
)

// C11, last clause: two running nodes claim one ID (started in different wall-clock seconds, attached at
// different points of a small mesh). The later one must shut itself down; the earlier one keeps working.

func init() { commands["dupnode"] = cmdDupNode }

func cmdDupNode(args []string) {
	fs := flag.NewFlagSet("dupnode", flag.ExitOnError)
	out := fs.String("out", "result.json", "result file")
	hookOut := fs.String("hooktrace", "", "raw hook events")
	seed := fs.Int64("seed", 1, "seed")
	scenarios := fs.Int("scenarios", 6, "scenarios")
	_ = fs.Parse(args)
	res := &Result{}
	defer res.write(*out)
	col := trace.Install()
	var wg sync.WaitGroup
	var mu sync.Mutex
	keep := map[string]bool{}
	distinct := map[string]bool{}
	for i := 0; i < *scenarios; i++ {
		wg.Add(1)
		go func(i int) {
			defer wg.Done()
			rng := rand.New(rand.NewSource(*seed*49979687 + int64(i)))
			m := mesh.New(mesh.Opts{RouteUpdate: 300 * time.Millisecond}, int64(i)*31)
			defer m.StopAll()
			nn := 2 + rng.Intn(3)
			ids := []string{}
			for k := 0; k < nn; k++ {
				id := fmt.Sprintf("d%dn%d", i, k)
				ids = append(ids, id)
				nd := m.Start(id)
				mu.Lock()
				keep[nd.N.VerifName()] = true
				mu.Unlock()
			}
			for k := 1; k < nn; k++ {
				_, _ = m.Connect(ids[k-1], ids[k], 1, 1)
			}
			dupID := fmt.Sprintf("d%ddup", i)
			first := m.Start(dupID)
			attachA := ids[rng.Intn(nn)]
			if _, err := m.Connect(dupID, attachA, 1, 1); err != nil {
				mu.Lock()
				res.Inconclusive = append(res.Inconclusive, err.Error())
				mu.Unlock()

				return
			}
			// the second instance starts in a later wall-clock second (the property's one-second granularity)
			wait := time.Duration(rng.Intn(1500)) * time.Millisecond
			time.Sleep(wait)
			time.Sleep(time.Until(time.Now().Truncate(time.Second).Add(1100 * time.Millisecond)))
			// mesh.Start replaces the map entry; keep our own handle on the first instance
			second := m.Start(dupID)
			mu.Lock()
			keep[first.N.VerifName()] = true
			keep[second.N.VerifName()] = true
			mu.Unlock()
			// a different attachment point: at the same neighbour the second session is simply refused
			// ("already connected") and the second instance never becomes part of the mesh
			attachB := ids[rng.Intn(nn)]
			for attachB == attachA {
				attachB = ids[rng.Intn(nn)]
			}
			desc := fmt.Sprintf("%d nodes in a line; first %s instance at %s, second after %v at %s", nn, dupID, attachA, wait, attachB)
			// attach the second instance by hand: mesh.Connect would address the map entry (the second instance) - which is what we want
			if _, err := m.Connect(dupID, attachB, 1, 1); err != nil {
				mu.Lock()
				res.Inconclusive = append(res.Inconclusive, err.Error())
				mu.Unlock()

				return
			}
			// Duplicates can only be told apart while both instances are part of the mesh. A link can be lost for
			// reasons of its own (e.g. a neighbour's own updates overtaking each other on their way to the instance make
			// it refuse the neighbour as "dropped_us"; memnet links are not re-dialled), so the verdict needs both
			// instances connected for 10 s in a row; otherwise the scenario is void.
			deadline := time.After(30 * time.Second)
			laterDown := false
			var bothSince time.Time
			bothLong := false
		waitLoop:
			for {
				select {
				case <-second.N.NetceptorDone():
					laterDown = true

					break waitLoop
				case <-deadline:
					break waitLoop
				case <-time.After(50 * time.Millisecond):
				}
				if len(first.N.Status().Connections) > 0 && len(second.N.Status().Connections) > 0 {
					if bothSince.IsZero() {
						bothSince = time.Now()
					}
					if time.Since(bothSince) >= 10*time.Second {
						bothLong = true
					}
				} else {
					bothSince = time.Time{}
				}
			}
			if !laterDown && !bothLong {
				mu.Lock()
				res.count("void_an_instance_lost_its_link")
				mu.Unlock()
				first.N.Shutdown()

				return
			}
			time.Sleep(300 * time.Millisecond)
			earlierAlive := true
			select {
			case <-first.N.NetceptorDone():
				earlierAlive = false
			default:
			}
			mu.Lock()
			defer mu.Unlock()
			res.Evaluations++
			distinct[fmt.Sprintf("%d|%s|%s", nn, attachA, attachB)] = true
			if !laterDown {
				res.violate("C11:later-duplicate-survives", "two nodes with one ID: the one that started later did not shut down within 30 s ("+desc+")", desc)
			}
			if !earlierAlive {
				res.violate("C11:earlier-duplicate-shut-down", "two nodes with one ID: the one that started earlier shut itself down ("+desc+")", desc)
			} else if laterDown && len(first.N.Status().Connections) == 0 {
				res.violate("C11:earlier-duplicate-lost-its-connection", "the earlier node lost its connection while the duplicate was being resolved ("+desc+")", desc)
			}
			if len(res.Samples) < 3 {
				res.Samples = append(res.Samples, desc)
			}
			first.N.Shutdown()
		}(i)
	}
	wg.Wait()
	res.Distinct = len(distinct)
	if *hookOut != "" {
		var sel []verifhook.Record
		for _, r := range col.Since(0) {
			if n, _ := r["n"].(string); keep[n] {
				sel = append(sel, r)
			}
		}
		_ = trace.WriteNDJSON(*hookOut, sel)
	}
}
