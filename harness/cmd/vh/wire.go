package main

import (
	"bufio"
	"context"
	"crypto/ecdsa"
	"crypto/elliptic"
	crand "crypto/rand"
	"crypto/tls"
	"crypto/x509"
	"crypto/x509/pkix"
	"encoding/binary"
	"encoding/json"
	"flag"
	"fmt"
	"io"
	"math/big"
	"math/rand"
	"net"
	"net/http"
	"os"
	"os/exec"
	"runtime"
	"runtime/debug"
	"strings"
	"sync"
	"time"

	"github.com/ansible/receptor/pkg/backends"
	"github.com/ansible/receptor/pkg/netceptor"
	"github.com/gorilla/websocket"
	"verif/harness/peer"
)

// C07: class sequences enumerated by TLC from specs/Wire.tla are concretised into bytes and played against a
// real node running in a CHILD process (a panic in any goroutine kills the process) over TCP, UDP, websocket
// and an embedded (ExternalBackend) listener. After every sequence a well-behaved peer must still get its
// ping answered.

func init() {
	commands["wirechild"] = cmdWireChild
	commands["wire"] = cmdWire
}

type wirePorts struct {
	TCP, UDP, WS, Ext int
	TLS               int // a TCP listener with a TLS server configuration (self-signed certificate, no client certificates)
}

func cmdWireChild(_ []string) {
	// a runaway recursion ends in the runtime's fatal "stack overflow" at 1 GB, tens of seconds after the message that
	// started it; with a 32 MB limit (far more than any legitimate call chain needs) the same fatal error comes at once,
	// so the crash is seen by the probe that follows the culprit
	debug.SetMaxStack(32 << 20)
	n := netceptor.NewWithConsts(context.Background(), "victim", 16384, time.Hour, 0, time.Hour, 30, time.Hour)
	ports := wirePorts{}
	tl, err := backends.NewTCPListener("127.0.0.1:0", nil, n.Logger)
	if err != nil {
		panic(err)
	}
	if err := n.AddBackend(tl); err != nil {
		panic(err)
	}
	_, p, _ := net.SplitHostPort(tl.GetAddr())
	fmt.Sscanf(p, "%d", &ports.TCP)
	if tlscfg := selfSignedServerTLS(); tlscfg != nil {
		if ttl, err := backends.NewTCPListener("127.0.0.1:0", tlscfg, n.Logger); err == nil {
			if err := n.AddBackend(ttl); err == nil {
				_, tp, _ := net.SplitHostPort(ttl.GetAddr())
				fmt.Sscanf(tp, "%d", &ports.TLS)
			}
		}
	}
	ul, err := backends.NewUDPListener("127.0.0.1:0", n.Logger)
	if err != nil {
		panic(err)
	}
	if err := n.AddBackend(ul); err != nil {
		panic(err)
	}
	ports.UDP = ul.LocalAddr().(*net.UDPAddr).Port
	wl, err := backends.NewWebsocketListener("127.0.0.1:0", nil, n.Logger, nil, nil)
	if err != nil {
		panic(err)
	}
	if err := n.AddBackend(wl); err != nil {
		panic(err)
	}
	ports.WS = wl.Addr().(*net.TCPAddr).Port
	eb, _ := netceptor.NewExternalBackend()
	if err := n.AddBackend(eb); err != nil {
		panic(err)
	}
	el, err := net.Listen("tcp", "127.0.0.1:0")
	if err != nil {
		panic(err)
	}
	ports.Ext = el.Addr().(*net.TCPAddr).Port
	go func() {
		for {
			c, err := el.Accept()
			if err != nil {
				return
			}
			eb.NewConnection(netceptor.MessageConnFromNetConn(c), true)
		}
	}()
	// the node is not idle: an application keeps opening a datagram socket "probe", follows the unreachable notices
	// for it for a moment (as Ping, Traceroute and every stream connection do) and closes it again
	go func() {
		for {
			pc, err := n.ListenPacket("probe")
			if err != nil {
				time.Sleep(5 * time.Millisecond)

				continue
			}
			done := make(chan struct{})
			u := pc.SubscribeUnreachable(done)
			select {
			case <-u:
			case <-time.After(8 * time.Millisecond):
			}
			close(done)
			_ = pc.Close()
			time.Sleep(2 * time.Millisecond)
		}
	}()
	// ... and it keeps one stream connection open (to a stream service of its own), as the work and proxy services do;
	// the connection follows the unreachable notices for its own socket (conn.go monitorUnreachable)
	connAddr := ""
	if li, err := n.Listen("echo", nil); err == nil {
		go func() {
			for {
				c, err := li.Accept()
				if err != nil {
					return
				}
				go func() { _, _ = io.Copy(io.Discard, c) }()
			}
		}()
		if c, err := n.Dial("victim", "echo", nil); err == nil {
			connAddr = c.LocalAddr().String()
			go func() {
				for {
					if _, err := c.Write([]byte("x")); err != nil {
						return
					}
					time.Sleep(200 * time.Millisecond)
				}
			}()
		}
	}
	b, _ := json.Marshal(ports)
	fmt.Println("CONN " + connAddr)
	fmt.Println("PORTS " + string(b))
	// "g" on stdin: report the number of goroutines; exit when the parent goes away
	in := bufio.NewScanner(os.Stdin)
	for in.Scan() {
		if in.Text() == "g" {
			fmt.Printf("GOROUTINES %d\n", runtime.NumGoroutine())
		}
	}
	os.Exit(0)
}

// ---- transports

type wireConn interface {
	Send([]byte) error
	Closed(wait time.Duration) bool
	Close()
}

type framedConn struct {
	c      net.Conn
	mu     sync.Mutex
	closed bool
	frames chan []byte
}

func dialFramed(port int) (*framedConn, error) {
	c, err := net.DialTimeout("tcp", fmt.Sprintf("127.0.0.1:%d", port), 5*time.Second)
	if err != nil {
		return nil, err
	}

	return framedOver(c), nil
}

// dialFramedTLS: the same over TLS (the child's certificate is self-signed; the peer does not verify it), the TLS
// handshake bounded by d.
func dialFramedTLS(port int, d time.Duration) (*framedConn, error) {
	c, err := net.DialTimeout("tcp", fmt.Sprintf("127.0.0.1:%d", port), 5*time.Second)
	if err != nil {
		return nil, err
	}
	tc := tls.Client(c, &tls.Config{InsecureSkipVerify: true}) //nolint:gosec
	_ = c.SetDeadline(time.Now().Add(d))
	if err := tc.Handshake(); err != nil {
		_ = c.Close()

		return nil, err
	}
	_ = c.SetDeadline(time.Time{})

	return framedOver(tc), nil
}

func framedOver(c net.Conn) *framedConn {
	fc := &framedConn{c: c, frames: make(chan []byte, 1024)}
	go func() {
		r := bufio.NewReader(c)
		for {
			var hdr [2]byte
			if _, err := io.ReadFull(r, hdr[:]); err != nil {
				break
			}
			buf := make([]byte, binary.LittleEndian.Uint16(hdr[:]))
			if _, err := io.ReadFull(r, buf); err != nil {
				break
			}
			select {
			case fc.frames <- buf:
			default:
			}
		}
		fc.mu.Lock()
		fc.closed = true
		fc.mu.Unlock()
		close(fc.frames)
	}()

	return fc
}

func (f *framedConn) Send(b []byte) error {
	buf := make([]byte, len(b)+2)
	binary.LittleEndian.PutUint16(buf, uint16(len(b)))
	copy(buf[2:], b)
	_, err := f.c.Write(buf)

	return err
}

func (f *framedConn) Closed(wait time.Duration) bool {
	deadline := time.Now().Add(wait)
	for {
		f.mu.Lock()
		c := f.closed
		f.mu.Unlock()
		if c || time.Now().After(deadline) {
			return c
		}
		time.Sleep(2 * time.Millisecond)
	}
}
func (f *framedConn) Close() { _ = f.c.Close() }

type udpConn struct{ c *net.UDPConn }

func (u *udpConn) Send(b []byte) error         { _, err := u.c.Write(b); return err }
func (u *udpConn) Closed(_ time.Duration) bool { return false }
func (u *udpConn) Close()                      { _ = u.c.Close() }

type wsConn struct {
	c      *websocket.Conn
	mu     sync.Mutex
	closed bool
}

func (w *wsConn) Send(b []byte) error { return w.c.WriteMessage(websocket.BinaryMessage, b) }
func (w *wsConn) Closed(wait time.Duration) bool {
	deadline := time.Now().Add(wait)
	for {
		w.mu.Lock()
		c := w.closed
		w.mu.Unlock()
		if c || time.Now().After(deadline) {
			return c
		}
		time.Sleep(2 * time.Millisecond)
	}
}
func (w *wsConn) Close() { _ = w.c.Close() }

func dialTransport(tr string, ports wirePorts) (wireConn, error) {
	switch tr {
	case "tcp":
		return dialFramed(ports.TCP)
	case "ext":
		return dialFramed(ports.Ext)
	case "udp":
		c, err := net.DialUDP("udp", nil, &net.UDPAddr{IP: net.IPv4(127, 0, 0, 1), Port: ports.UDP})
		if err != nil {
			return nil, err
		}

		return &udpConn{c}, nil
	case "ws":
		d := websocket.Dialer{HandshakeTimeout: 5 * time.Second}
		c, _, err := d.Dial(fmt.Sprintf("ws://127.0.0.1:%d/", ports.WS), http.Header{"Origin": []string{fmt.Sprintf("http://127.0.0.1:%d", ports.WS)}})
		if err != nil {
			return nil, err
		}
		w := &wsConn{c: c}
		go func() {
			for {
				if _, _, err := c.ReadMessage(); err != nil {
					w.mu.Lock()
					w.closed = true
					w.mu.Unlock()

					return
				}
			}
		}()

		return w, nil
	}

	return nil, fmt.Errorf("unknown transport")
}

// ---- concretiser

var jsonSubst = map[string]string{"string": `"zz"`, "number": `7`, "float": `1.5`, "negative": `-3`, "huge": `1e400`, "bool": `true`,
	"null": `null`, "array": `[1]`, "object": `{"a":1}`}

func ruJSON(me string, seq int, id string, over map[string]string) []byte {
	f := map[string]string{"NodeID": fmt.Sprintf("%q", me), "UpdateID": fmt.Sprintf("%q", id), "UpdateEpoch": "5",
		"UpdateSequence": fmt.Sprint(seq), "Connections": `{"victim":1}`, "ForwardingNode": fmt.Sprintf("%q", me), "SuspectedDuplicate": "0"}
	for k, v := range over {
		f[k] = v
	}
	parts := []string{}
	for _, k := range []string{"NodeID", "UpdateID", "UpdateEpoch", "UpdateSequence", "Connections", "ForwardingNode", "SuspectedDuplicate"} {
		parts = append(parts, fmt.Sprintf("%q:%s", k, f[k]))
	}

	return append([]byte{1}, []byte("{"+strings.Join(parts, ",")+"}")...)
}

func adJSON(me string, over map[string]string) []byte {
	f := map[string]string{"NodeID": fmt.Sprintf("%q", me), "Service": `"svc1"`, "Time": `"2030-01-02T03:04:05Z"`, "ConnType": "1",
		"Tags": `{"k":"v"}`, "WorkCommands": `null`, "Cancel": "false"}
	for k, v := range over {
		f[k] = v
	}
	parts := []string{}
	for _, k := range []string{"NodeID", "Service", "Time", "ConnType", "Tags", "WorkCommands", "Cancel"} {
		parts = append(parts, fmt.Sprintf("%q:%s", k, f[k]))
	}

	return append([]byte{2}, []byte("{"+strings.Join(parts, ",")+"}")...)
}

func concretise(class string, me string, seq int, rng *rand.Rand) []byte {
	id := fmt.Sprintf("%s-%d-%d", me, seq, rng.Intn(1000000))
	rb := func(n int) []byte { b := make([]byte, n); rng.Read(b); return b }
	switch class {
	case "empty":
		return []byte{}
	case "data_1byte":
		return []byte{0}
	case "data_short":
		return append([]byte{0}, rb(1+rng.Intn(10))...)
	case "data_35":
		return append([]byte{0}, rb(34)...)
	case "data_unknown_hashes":
		return append([]byte{0, 5, 0, 0}, rb(32+rng.Intn(64))...)
	case "data_ping_valid":
		return peer.EncodeData(5, me, "victim", "prb", "ping", nil)
	case "data_to_unreach_garbage":
		return peer.EncodeData(5, me, "victim", "x", "unreach", rb(20))
	case "data_to_unreach_wrongtypes":
		return peer.EncodeData(5, me, "victim", "x", "unreach", []byte(`{"FromNode":5,"ToNode":[],"Problem":{}}`))
	case "data_to_unreach_valid":
		return peer.EncodeData(5, me, "victim", "unreach", "unreach", []byte(`{"FromNode":"victim","ToNode":"q","FromService":"zz","ToService":"a","Problem":"service unknown"}`))
	case "data_truncated_known_hashes":
		// a data message cut inside its fixed 36-byte header, with node hashes the receiver knows
		b := peer.EncodeData(5, me, "victim", "src", "ping", nil)
		return b[:28+rng.Intn(8)]
	case "data_header_only_known_hashes":
		return peer.EncodeData(5, me, "victim", "src", "ping", nil)[:36]
	case "data_to_unreach_for_live_socket":
		return peer.EncodeData(5, me, "victim", "unreach", "unreach", []byte(`{"FromNode":"victim","ToNode":"q","FromService":"probe","ToService":"a","Problem":"service unknown"}`))
	case "data_to_unreach_null":
		return peer.EncodeData(5, me, "victim", "x", "unreach", []byte(" null "))
	case "data_to_unreach_array":
		return peer.EncodeData(5, me, "victim", "x", "unreach", []byte(`[1,{"a":null}]`))
	case "data_to_unreach_emptyobj":
		return peer.EncodeData(5, me, "victim", "x", "unreach", []byte(`{}`))
	case "data_to_unreach_string":
		return peer.EncodeData(5, me, "victim", "x", "unreach", []byte(`"service unknown"`))
	case "data_to_unreach_number":
		return peer.EncodeData(5, me, "victim", "x", "unreach", []byte(`-1.5e3`))
	case "data_to_unreach_bool":
		return peer.EncodeData(5, me, "victim", "x", "unreach", []byte(`true`))
	case "data_to_unreach_deep":
		return peer.EncodeData(5, me, "victim", "x", "unreach", []byte(strings.Repeat(`{"FromNode":`, 3000)))
	case "data_to_unreach_empty":
		return peer.EncodeData(5, me, "victim", "x", "unreach", nil)
	case "data_to_ping_payload":
		return peer.EncodeData(5, me, "victim", "x", "ping", rb(200))
	case "data_from_unreach_to_unbound":
		return peer.EncodeData(5, me, "victim", "unreach", "nosuch", rb(10))
	case "data_to_unbound":
		return peer.EncodeData(5, me, "victim", "x", "nosuch", rb(10))
	case "data_empty_service":
		return peer.EncodeData(5, me, "victim", "", "", rb(3))
	case "data_ttl0_elsewhere":
		return peer.EncodeData(0, me, "good", "x", "y", rb(3))
	case "data_max":
		return peer.EncodeData(30, me, "victim", "x", "nosuch", rb(16384))
	case "route_notjson":
		return append([]byte{1}, rb(40)...)
	case "route_null":
		return []byte("\x01null")
	case "route_array":
		return []byte("\x01[1,2]")
	case "route_emptyobj":
		return []byte("\x01{}")
	case "route_string":
		return []byte("\x01\"x\"")
	case "route_number":
		return []byte("\x0112")
	case "route_deep":
		return []byte("\x01" + strings.Repeat("[", 20000))
	case "route_big":
		return ruJSON(me, seq, strings.Repeat("A", 50000), map[string]string{"NodeID": `"elsewhere"`})
	case "route_trailing_garbage":
		return append(ruJSON(me, seq, id, nil), []byte("}}x")...)
	case "route_init":
		return ruJSON(me, seq, id, map[string]string{"Connections": "{}"})
	case "route_lists":
		return ruJSON(me, seq, id, nil)
	case "route_wrongcost":
		return ruJSON(me, seq, id, map[string]string{"Connections": `{"victim":7}`})
	case "route_other_origin":
		return ruJSON(me, seq, id, map[string]string{"NodeID": `"elsewhere"`})
	case "route_victim_origin":
		return ruJSON(me, seq, id, map[string]string{"NodeID": `"victim"`, "UpdateEpoch": "1"})
	case "route_victim_fwd":
		return ruJSON(me, seq, id, map[string]string{"ForwardingNode": `"victim"`})
	case "route_other_fwd":
		return ruJSON(me, seq, id, map[string]string{"ForwardingNode": fmt.Sprintf("%q", me+"x")})
	case "data_ping_from_own_ping":
		// a ping that claims to come from the node's own ping service: the answer is addressed to the answering service
		return peer.EncodeData(5, "victim", "victim", "ping", "ping", nil)
	case "data_ping_from_own_unreach":
		return peer.EncodeData(5, "victim", "victim", "unreach", "ping", nil)
	case "route_negative_selfloop":
		return ruJSON(me, seq, id, map[string]string{"Connections": fmt.Sprintf(`{"victim":1,%q:-1}`, me)})
	case "route_negative_edge":
		return ruJSON(me, seq, id, map[string]string{"Connections": `{"victim":1,"good":-4}`})
	case "route_zero_costs":
		return ruJSON(me, seq, id, map[string]string{"Connections": fmt.Sprintf(`{"victim":1,%q:0,"zz":0}`, me)})
	case "route_huge_costs":
		return ruJSON(me, seq, id, map[string]string{"Connections": `{"victim":1,"hh":1.7e308,"hi":1e999}`})
	case "route_good_fwd":
		return ruJSON("good", seq+50, id, nil)
	case "route_good_fwd_me":
		return ruJSON(me, seq, id, map[string]string{"ForwardingNode": `"good"`})
	case "route_good_origin":
		return ruJSON(me, seq, id, map[string]string{"NodeID": `"good"`, "Connections": "{}", "UpdateSequence": fmt.Sprint(seq + 50)})
	case "ad_notjson":
		return append([]byte{2}, rb(30)...)
	case "ad_null":
		return []byte("\x02null")
	case "ad_emptyobj":
		return []byte("\x02{}")
	case "ad_array":
		return []byte("\x02[]")
	case "ad_valid":
		return adJSON(me, nil)
	case "ad_cancel_unknown":
		return adJSON(me, map[string]string{"Cancel": "true", "Service": `"never"`})
	case "ad_1byte":
		return []byte{2}
	case "reject_bare":
		return []byte{3}
	case "reject_body":
		return []byte("\x03[]")
	case "unknown_7e":
		return append([]byte{0x7e}, rb(5)...)
	case "unknown_ff":
		return []byte{0xff}
	}
	if strings.HasPrefix(class, "ru_") || strings.HasPrefix(class, "ad_") {
		i := strings.LastIndex(class, "_")
		field, typ := class[3:i], class[i+1:]
		val := jsonSubst[typ]
		if strings.HasPrefix(class, "ru_") {
			if field == "ForwardingNode" && typ == "string" {
				val = fmt.Sprintf("%q", me+"x")
			}
			if field == "NodeID" && typ == "string" {
				val = `"elsewhere"`
			}

			return ruJSON(me, seq, id, map[string]string{field: val})
		}

		return adJSON(me, map[string]string{field: val})
	}

	return []byte{0x7f}
}

type wireVec struct {
	Start   string   `json:"start"`
	Classes []string `json:"classes"`
	Final   string   `json:"final"`
}

type wireChild struct {
	cmd   *exec.Cmd
	ports wirePorts
	done  chan struct{}
	stdin io.WriteCloser
	good  *framedConn
	gseq  int // sequence number of the well-behaved peers' own periodic updates
	gor   chan int
	// local address ("victim:<ephemeral service>") of the stream connection the child's application keeps open
	connAddr string
	goodu    *net.UDPConn // a second well-behaved peer, on the UDP listener (one receive goroutine serves all UDP peers)
	uin      chan []byte
}

func startWireChild() (*wireChild, error) { return startWireChildBin(false) }

// startWireChildBin: race selects the race-detector build of the child (VERIF_WIRE_CHILD_BIN) if there is one.
func startWireChildBin(race bool) (*wireChild, error) {
	bin := os.Args[0]
	if b := os.Getenv("VERIF_WIRE_CHILD_BIN"); b != "" && race {
		bin = b // the same program built with the race detector
	}
	cmd := exec.Command(bin, "wirechild")
	cmd.Env = append(os.Environ(), "VERIF_DEBUG=")
	if p := os.Getenv("VERIF_WIRE_RACELOG"); p != "" && race {
		cmd.Env = append(cmd.Env, "GORACE=halt_on_error=0 log_path="+p)
	}
	stdin, _ := cmd.StdinPipe()
	stdout, _ := cmd.StdoutPipe()
	errf, _ := os.CreateTemp("", "wirechild-*.log")
	if p := os.Getenv("VERIF_WIRE_LOG"); p != "" {
		errf, _ = os.OpenFile(p, os.O_APPEND|os.O_CREATE|os.O_WRONLY, 0o644)
	}
	cmd.Stderr = errf
	if err := cmd.Start(); err != nil {
		return nil, err
	}
	wc := &wireChild{cmd: cmd, done: make(chan struct{}), stdin: stdin, gor: make(chan int, 4)}
	sc := bufio.NewScanner(stdout)
	sc.Buffer(make([]byte, 1<<20), 1<<20)
	got := make(chan bool, 1)
	go func() {
		for sc.Scan() {
			if strings.HasPrefix(sc.Text(), "PORTS ") {
				_ = json.Unmarshal([]byte(sc.Text()[6:]), &wc.ports)
				got <- true
			}
			if strings.HasPrefix(sc.Text(), "CONN ") {
				wc.connAddr = strings.TrimPrefix(sc.Text(), "CONN ")
			}
			if strings.HasPrefix(sc.Text(), "GOROUTINES ") {
				var n int
				_, _ = fmt.Sscanf(sc.Text(), "GOROUTINES %d", &n)
				select {
				case wc.gor <- n:
				default:
				}
			}
		}
	}()
	go func() {
		_ = cmd.Wait()
		close(wc.done)
		if os.Getenv("VERIF_WIRE_LOG") == "" {
			os.Remove(errf.Name())
		}
	}()
	select {
	case <-got:
	case <-wc.done:
		return nil, fmt.Errorf("child exited during start-up")
	case <-time.After(30 * time.Second):
		return nil, fmt.Errorf("child did not report its ports")
	}
	g, err := dialFramed(wc.ports.TCP)
	if err != nil {
		return nil, err
	}
	wc.good = g
	_ = g.Send(ruJSON("good", 1, "good-hs0", map[string]string{"Connections": "{}"}))
	_ = g.Send(ruJSON("good", 2, "good-hs1", nil))
	u, err := net.DialUDP("udp", nil, &net.UDPAddr{IP: net.IPv4(127, 0, 0, 1), Port: wc.ports.UDP})
	if err != nil {
		return nil, err
	}
	wc.goodu, wc.uin = u, make(chan []byte, 1024)
	go func(in chan []byte) {
		buf := make([]byte, 65536)
		for {
			n, err := u.Read(buf)
			if err != nil {
				close(in)

				return
			}
			select {
			case in <- append([]byte(nil), buf[:n]...):
			default:
			}
		}
	}(wc.uin)
	_, _ = u.Write(ruJSON("goodu", 1, "goodu-hs0", map[string]string{"Connections": "{}"}))
	_, _ = u.Write(ruJSON("goodu", 2, "goodu-hs1", nil))
	if !wc.probe(20 * time.Second) {
		return nil, fmt.Errorf("well-behaved peers cannot ping the fresh child")
	}

	return wc, nil
}

func (wc *wireChild) alive() bool {
	select {
	case <-wc.done:
		return false
	default:
		return true
	}
}

// probe: the well-behaved peer pings the node (re-sending every 250 ms) and waits for an answer.
func (wc *wireChild) probe(timeout time.Duration) bool {
	return wc.probeTCP(timeout) && (wc.goodu == nil || wc.probeUDP(timeout))
}

func (wc *wireChild) probeTCP(timeout time.Duration) bool {
	for len(wc.good.frames) > 0 {
		<-wc.good.frames
	}
	deadline := time.After(timeout)
	for {
		// like every real node, the well-behaved peer keeps sending its own routing update; the node has to take it
		// (a session goroutine stuck in the routing code stops reading its link)
		wc.gseq++
		if err := wc.good.Send(ruJSON("good", 1000+wc.gseq, fmt.Sprintf("good-p%d", wc.gseq), nil)); err != nil {
			return false
		}
		// ... and, like any node on a path, it relays an unreachable notice now and then (for a service nobody has)
		if err := wc.good.Send(peer.EncodeData(5, "good", "victim", "unreach", "unreach", []byte(`{"FromNode":"victim","ToNode":"far","FromService":"nobody","ToService":"nosvc","Problem":"service unknown"}`))); err != nil {
			return false
		}
		if err := wc.good.Send(peer.EncodeData(5, "good", "victim", "prb", "ping", nil)); err != nil {
			return false
		}
		resend := time.After(250 * time.Millisecond)
	wait:
		for {
			select {
			case f, ok := <-wc.good.frames:
				if !ok {
					return false
				}
				d := peer.Decode(f)
				if d.Data != nil && d.Data.FromService == "ping" && d.Data.ToService == "prb" {
					return true
				}
			case <-resend:
				break wait
			case <-deadline:
				return false
			case <-wc.done:
				return false
			}
		}
	}
}

// probeUDP: the same through the UDP listener.
func (wc *wireChild) probeUDP(timeout time.Duration) bool {
	for len(wc.uin) > 0 {
		<-wc.uin
	}
	deadline := time.After(timeout)
	for {
		wc.gseq++
		if _, err := wc.goodu.Write(ruJSON("goodu", 1000+wc.gseq, fmt.Sprintf("goodu-p%d", wc.gseq), nil)); err != nil {
			return false
		}
		if _, err := wc.goodu.Write(peer.EncodeData(5, "goodu", "victim", "prb", "ping", nil)); err != nil {
			return false
		}
		resend := time.After(250 * time.Millisecond)
	wait:
		for {
			select {
			case f, ok := <-wc.uin:
				if !ok {
					return false
				}
				d := peer.Decode(f)
				if d.Data != nil && d.Data.FromService == "ping" && d.Data.ToService == "prb" {
					return true
				}
			case <-resend:
				break wait
			case <-deadline:
				return false
			case <-wc.done:
				return false
			}
		}
	}
}

// goroutines asks the child for its current number of goroutines (-1: no answer).
func (wc *wireChild) goroutines() int {
	for len(wc.gor) > 0 {
		<-wc.gor
	}
	if _, err := io.WriteString(wc.stdin, "g\n"); err != nil {
		return -1
	}
	select {
	case n := <-wc.gor:
		return n
	case <-time.After(5 * time.Second):
		return -1
	}
}

func (wc *wireChild) stop() {
	if wc.goodu != nil {
		_ = wc.goodu.Close()
	}
	if wc.good != nil {
		wc.good.Close()
	}
	_ = wc.stdin.Close()
	select {
	case <-wc.done:
	case <-time.After(3 * time.Second):
		_ = wc.cmd.Process.Kill()
		<-wc.done
	}
}

func cmdWire(args []string) {
	fs := flag.NewFlagSet("wire", flag.ExitOnError)
	vecFile := fs.String("vectors", "", "NDJSON vectors from TLC")
	out := fs.String("out", "result.json", "result file")
	seed := fs.Int64("seed", 1, "seed")
	limit := fs.Int("limit", 0, "max number of vectors of length > 1 (0 = all); length-1 vectors always run")
	transports := fs.String("transports", "tcp,udp,ws,ext", "transports")
	inst := fs.Int("instances", 1, "concrete instances per vector and transport")
	storm := fs.Duration("storm", 2*time.Second, "duration of the concurrent well-formed traffic phase (0 = skip)")
	_ = fs.Parse(args)
	res := &Result{}
	defer res.write(*out)
	vecs, err := readNDJSON[wireVec](*vecFile)
	if err != nil {
		res.Inconclusive = append(res.Inconclusive, err.Error())

		return
	}
	rng := rand.New(rand.NewSource(*seed))
	var run []wireVec
	var long []wireVec
	for _, v := range vecs {
		if len(v.Classes) == 1 {
			run = append(run, v)
		} else {
			long = append(long, v)
		}
	}
	rng.Shuffle(len(long), func(i, j int) { long[i], long[j] = long[j], long[i] })
	if *limit > 0 && len(long) > *limit {
		long = long[:*limit]
	}
	run = append(run, long...)
	wc, err := startWireChild()
	if err != nil {
		res.Inconclusive = append(res.Inconclusive, "child: "+err.Error())

		return
	}
	defer func() { wc.stop() }()
	distinct := map[string]bool{}
	sess := 0
	restarts := 0
	sessSince := 0
	type played struct {
		v    wireVec
		tr   string
		all  [][]byte // every message of the session, handshake included
		sent [][]byte
		at   time.Time
	}
	var recent []played
	for _, v := range run {
		for _, tr := range strings.Split(*transports, ",") {
			for k := 0; k < *inst; k++ {
				sess++
				sessSince++
				me := fmt.Sprintf("bad%d", sess)
				c, err := dialTransport(tr, wc.ports)
				if err != nil {
					res.Inconclusive = append(res.Inconclusive, "dial "+tr+": "+err.Error())

					return
				}
				seq := 1
				if v.Start == "est" {
					_ = c.Send(ruJSON(me, seq, me+"-hs0", map[string]string{"Connections": "{}"}))
					seq++
					_ = c.Send(ruJSON(me, seq, me+"-hs1", nil))
					seq++
				}
				var sent, all [][]byte
				if v.Start == "est" {
					all = append(all, ruJSON(me, 1, me+"-hs0", map[string]string{"Connections": "{}"}), ruJSON(me, 2, me+"-hs1", nil))
				}
				for _, cl := range v.Classes {
					b := concretise(cl, me, seq, rng)
					seq++
					sent = append(sent, b)
					_ = c.Send(b)
				}
				if tr == "udp" {
					// a UDP peer has no connection to lose: it keeps talking from the same address after the node has
					// ended its session. The vector is extended by <<unknown_7e, unknown_7e>> (identity in Wire.tla).
					for k := 0; k < 2; k++ {
						b := []byte{0x7e, byte(k)}
						sent = append(sent, b)
						_ = c.Send(b)
					}
				}
				all = append(all, sent...)
				res.Evaluations++
				distinct[fmt.Sprintf("%s|%s|%v", tr, v.Start, v.Classes)] = true
				res.count("transport_" + tr)
				recent = append(recent, played{v, tr, all, sent, time.Now()})
				// the node must survive and keep serving its other peer
				time.Sleep(15 * time.Millisecond) // let the session goroutine consume the sequence
				probeStart := time.Now()
				ok := wc.probe(10 * time.Second)
				if !ok && wc.alive() {
					ok = wc.probe(20 * time.Second) // confirm once before calling it wedged
				}
				replay := map[string]any{"transport": tr, "vector": v, "bytes_hex": hexAll(sent)}
				crashed := !wc.alive()
				if tr == "tcp" && wc.alive() && ok {
					want := v.Final == "closed"
					got := c.Closed(map[bool]time.Duration{true: 5 * time.Second, false: 30 * time.Millisecond}[want])
					if got != want {
						res.count("closure_mismatch")
						if len(res.Notes) < 20 {
							res.Notes = append(res.Notes, fmt.Sprintf("session closure differs from Wire.tla: %s %v expected final %s, closed=%v", v.Start, v.Classes, v.Final, got))
						}
					}
				}
				c.Close()
				if crashed || !ok {
					// The effect of a routing message can show up later than the probe that follows it (the table is rebuilt
					// 100 ms after the change), so the culprit may be one of the sessions played just before this one: each
					// recent session is played again, alone, against a fresh node, with time to take effect.
					blamed := 0
					for _, cand := range recent {
						if probeStart.Sub(cand.at) > 1500*time.Millisecond {
							continue
						}
						wc.stop()
						restarts++
						wc, err = startWireChild()
						if err != nil {
							res.Inconclusive = append(res.Inconclusive, "child restart: "+err.Error())

							return
						}
						cc, err := dialTransport(cand.tr, wc.ports)
						if err != nil {
							res.Inconclusive = append(res.Inconclusive, "dial "+cand.tr+": "+err.Error())

							return
						}
						for _, b := range cand.all {
							_ = cc.Send(b)
						}
						time.Sleep(1200 * time.Millisecond)
						ok2 := wc.probe(10 * time.Second)
						if !ok2 && wc.alive() {
							ok2 = wc.probe(20 * time.Second)
						}
						cc.Close()
						rp := map[string]any{"transport": cand.tr, "vector": cand.v, "bytes_hex": hexAll(cand.sent), "confirmed_alone": true}
						if !wc.alive() {
							blamed++
							res.violate("C07:crash:"+strings.Join(cand.v.Classes, ","), fmt.Sprintf("node process exited after %v (start %s) on %s", cand.v.Classes, cand.v.Start, cand.tr), rp)
						} else if !ok2 {
							blamed++
							res.violate("C07:wedged:"+strings.Join(cand.v.Classes, ","), fmt.Sprintf("well-behaved peer's ping unanswered after %v (start %s) on %s", cand.v.Classes, cand.v.Start, cand.tr), rp)
						}
					}
					if blamed == 0 {
						// not reproduced by any single recent session: report what was seen
						if crashed {
							res.violate("C07:crash:"+strings.Join(v.Classes, ","), fmt.Sprintf("node process exited after %v (start %s) on %s (not reproduced by one session alone)", v.Classes, v.Start, tr), replay)
						} else {
							res.violate("C07:wedged:"+strings.Join(v.Classes, ","), fmt.Sprintf("well-behaved peer's ping unanswered after %v (start %s) on %s (not reproduced by one session alone)", v.Classes, v.Start, tr), replay)
						}
					}
					recent = nil
					wc.stop()
					restarts++
					if restarts > 60 {
						res.Notes = append(res.Notes, "too many restarts; stopping early")

						goto done
					}
					wc, err = startWireChild()
					if err != nil {
						res.Inconclusive = append(res.Inconclusive, "child restart: "+err.Error())

						return
					}
				}
				if len(recent) > 64 {
					recent = recent[len(recent)-32:]
				}
				if len(res.Samples) < 4 && sess%97 == 1 {
					res.Samples = append(res.Samples, replay)
				}
			}
		}
	}
done:
	if wc != nil && wc.alive() {
		if sig, what, rp := runWireCrossSession(wc); sig != "" {
			res.violate(sig, what, rp)
			wc.stop()
			wc, err = startWireChild()
			if err != nil {
				res.Inconclusive = append(res.Inconclusive, "child restart: "+err.Error())

				return
			}
		}
		res.count("cross_session_runs")
	}
	if wc != nil && wc.alive() {
		if sig, what, rp := runWireSilentTLS(wc); sig != "" {
			res.violate(sig, what, rp)
		}
		res.count("silent_tls_runs")
		res.Counters["tls_listener_port_known"] = boolInt(wc.ports.TLS != 0)
	}
	if *storm > 0 && wc != nil && wc.alive() {
		// the concurrent phase runs against a fresh child, the race-detector build if there is one
		gor := wc.goroutines()
		wc.stop()
		res.Counters["goroutines_after_vectors"] = gor
		wc, err = startWireChildBin(true)
		if err != nil {
			res.Inconclusive = append(res.Inconclusive, "storm child: "+err.Error())

			return
		}
		sessSince = 0
		if sig, what := runWireStorm(wc, *storm); sig != "" {
			res.violate(sig, what, map[string]any{"phase": "storm"})
		}
		res.count("storm_runs")
	}
	if wc != nil && wc.alive() {
		time.Sleep(1500 * time.Millisecond) // Recv time-outs of ended sessions are 1 s
		res.Counters["goroutines_at_end"] = wc.goroutines()
		res.Counters["sessions_since_last_restart"] = sessSince
	}
	res.Distinct = len(distinct)
	res.count("restarts")
	res.Counters["restarts"] = restarts
}

func hexAll(bs [][]byte) []string {
	out := []string{}
	for _, b := range bs {
		if len(b) > 64 {
			out = append(out, fmt.Sprintf("%x...(%d bytes)", b[:64], len(b)))
		} else {
			out = append(out, fmt.Sprintf("%x", b))
		}
	}

	return out
}

// runWireStorm: several established sessions send well-formed traffic about the same things at the same time for a
// while (Wire.tla judges one session; the sessions of a node run as concurrent goroutines over shared tables, so the
// property "no bytes from a peer can crash the node" also covers what two peers send at the same instant):
// ever newer withdrawals of one service against late copies of its old advertisement and re-advertisements, ever newer
// routing updates of one origin against stale ones, pings. Afterwards the node must be alive and answer its
// well-behaved peers. With a race-detector build of the child (VERIF_WIRE_CHILD_BIN + VERIF_WIRE_RACELOG) the caller
// also learns about unsynchronised accesses that did not happen to collide this time.
func runWireStorm(wc *wireChild, d time.Duration) (sig, what string) {
	type role struct {
		id   string
		make func(k int) []byte
	}
	t0 := time.Date(2031, 1, 1, 0, 0, 0, 0, time.UTC)
	ts := func(k int) string {
		return fmt.Sprintf("%q", t0.Add(time.Duration(k)*time.Millisecond).Format(time.RFC3339Nano))
	}
	roles := []role{
		{"stw", func(k int) []byte {
			return adJSON("ghost", map[string]string{"Service": `"gsvc"`, "Cancel": "true", "Time": ts(2 * k)})
		}},
		{"str1", func(k int) []byte { return adJSON("ghost", map[string]string{"Service": `"gsvc"`, "Time": ts(0)}) }},
		{"str2", func(k int) []byte {
			return adJSON("ghost", map[string]string{"Service": `"gsvc"`, "Time": ts(2*k + 1)})
		}},
		{"str3", func(k int) []byte {
			return adJSON("ghost", map[string]string{"Service": fmt.Sprintf("%q", fmt.Sprintf("g%d", k%5)), "Time": ts(k), "Cancel": fmt.Sprint(k%2 == 0)})
		}},
		{"stu1", func(k int) []byte {
			return ruJSON("stu1", 0, fmt.Sprintf("stu1-%d", k), map[string]string{"NodeID": `"storig"`, "UpdateSequence": fmt.Sprint(10 + k), "Connections": fmt.Sprintf(`{"q%d":1}`, k%3)})
		}},
		{"stu2", func(k int) []byte {
			return ruJSON("stu2", 0, fmt.Sprintf("stu2-%d", k), map[string]string{"NodeID": `"storig"`, "UpdateSequence": fmt.Sprint(5 + k/2), "Connections": `{"q9":1}`})
		}},
		{"stp", func(k int) []byte { return peer.EncodeData(5, "stp", "victim", "prb", "ping", nil) }},
		// bursts of well-formed unreachable notices that name the socket the node's application keeps opening and closing
		{"stn", func(k int) []byte {
			return peer.EncodeData(5, "stn", "victim", "unreach", "unreach", []byte(`{"FromNode":"victim","ToNode":"stn","FromService":"probe","ToService":"nosuch","Problem":"service unknown"}`))
		}},
	}
	if i := strings.LastIndex(wc.connAddr, ":"); i > 0 {
		// forged "service unknown" notices that name the application's stream connection (its remote end knows both names)
		eph := wc.connAddr[i+1:]
		roles = append(roles, role{"sts", func(k int) []byte {
			return peer.EncodeData(5, "sts", "victim", "unreach", "unreach", []byte(fmt.Sprintf(`{"FromNode":"victim","ToNode":"victim","FromService":%q,"ToService":"echo","Problem":"service unknown"}`, eph)))
		}})
	}
	var wg sync.WaitGroup
	stop := time.Now().Add(d)
	for _, r := range roles {
		c, err := dialFramed(wc.ports.TCP)
		if err != nil {
			return "", ""
		}
		_ = c.Send(ruJSON(r.id, 1, r.id+"-hs0", map[string]string{"Connections": "{}"}))
		_ = c.Send(ruJSON(r.id, 2, r.id+"-hs1", nil))
		wg.Add(1)
		go func(r role, c *framedConn) {
			defer wg.Done()
			defer c.Close()
			// a node that stops reading this session must not hold the sender for ever
			_ = c.c.SetWriteDeadline(stop.Add(2 * time.Second))
			for k := 1; time.Now().Before(stop); k++ {
				if c.Send(r.make(k)) != nil {
					return
				}
				for len(c.frames) > 0 {
					<-c.frames
				}
			}
		}(r, c)
	}
	wg.Wait()
	time.Sleep(100 * time.Millisecond)
	ok := wc.probe(10 * time.Second)
	if !ok && wc.alive() {
		ok = wc.probe(20 * time.Second)
	}
	if !wc.alive() {
		return "C07:crash:concurrent-wellformed-traffic", "the node process exited while several peers sent well-formed advertisements, withdrawals and routing updates about the same service / origin at the same time"
	}
	if !ok {
		return "C07:wedged:concurrent-wellformed-traffic", "the well-behaved peers' pings went unanswered after several peers had sent well-formed advertisements, withdrawals and routing updates at the same time"
	}

	return "", ""
}

// runWireCrossSession: what one session tells the node about a third node X, followed by a session that announces
// itself AS X (Wire.tla judges one session at a time; the node's picture of X is shared by all sessions). For each
// shape of X's connection list in the relayed update (a list, then null / absent / empty with a newer sequence
// number) a second session connects as X, completes its handshake and pings. The node must survive and answer.
func runWireCrossSession(wc *wireChild) (sig, what string, replay any) {
	shapes := []struct{ name, conns string }{{"null", "null"}, {"absent", ""}, {"empty", "{}"}, {"self_only", `{"victim":1}`}}
	for i, sh := range shapes {
		x := fmt.Sprintf("gx%d", i)
		rel, err := dialFramed(wc.ports.TCP)
		if err != nil {
			return "", "", nil
		}
		me := fmt.Sprintf("xrel%d", i)
		_ = rel.Send(ruJSON(me, 1, me+"-hs0", map[string]string{"Connections": "{}"}))
		_ = rel.Send(ruJSON(me, 2, me+"-hs1", nil))
		_ = rel.Send(ruJSON(me, 0, me+"-x1", map[string]string{"NodeID": fmt.Sprintf("%q", x), "UpdateSequence": "10", "Connections": `{"q":1,"r":2}`}))
		over := map[string]string{"NodeID": fmt.Sprintf("%q", x), "UpdateSequence": "11", "Connections": sh.conns}
		b := ruJSON(me, 0, me+"-x2", over)
		if sh.conns == "" {
			b = []byte(strings.Replace(string(b), `"Connections":,`, "", 1))
		}
		_ = rel.Send(b)
		time.Sleep(150 * time.Millisecond) // the table rebuild the change asks for
		dir, err := dialFramed(wc.ports.TCP)
		if err != nil {
			rel.Close()

			return "", "", nil
		}
		_ = dir.Send(ruJSON(x, 20, x+"-hs0", map[string]string{"Connections": "{}"}))
		_ = dir.Send(ruJSON(x, 21, x+"-hs1", nil))
		_ = dir.Send(peer.EncodeData(5, x, "victim", "prb", "ping", nil))
		time.Sleep(100 * time.Millisecond)
		ok := wc.probe(10 * time.Second)
		if !ok && wc.alive() {
			ok = wc.probe(20 * time.Second)
		}
		rel.Close()
		dir.Close()
		rp := map[string]any{"phase": "cross-session", "shape": sh.name}
		if !wc.alive() {
			return "C07:crash:relayed-" + sh.name + "-connections-then-direct-session", fmt.Sprintf("the node process exited: one session relayed an update of node %s with a connection list and then one with Connections %s; then a session announcing itself as %s completed its handshake", x, sh.name, x), rp
		}
		if !ok {
			return "C07:wedged:relayed-" + sh.name + "-connections-then-direct-session", fmt.Sprintf("the well-behaved peers' pings went unanswered after a relayed update of node %s with Connections %s followed by a direct session of %s", x, sh.name, x), rp
		}
	}

	return "", "", nil
}

// selfSignedServerTLS makes a TLS server configuration with a fresh self-signed certificate (nil if that fails).
func selfSignedServerTLS() *tls.Config {
	key, err := ecdsa.GenerateKey(elliptic.P256(), crand.Reader)
	if err != nil {
		return nil
	}
	tmpl := &x509.Certificate{SerialNumber: big.NewInt(1), Subject: pkix.Name{CommonName: "victim"}, NotBefore: time.Now().Add(-time.Hour),
		NotAfter: time.Now().Add(24 * time.Hour), KeyUsage: x509.KeyUsageDigitalSignature, ExtKeyUsage: []x509.ExtKeyUsage{x509.ExtKeyUsageServerAuth}, DNSNames: []string{"victim"}}
	der, err := x509.CreateCertificate(crand.Reader, tmpl, tmpl, &key.PublicKey, key)
	if err != nil {
		return nil
	}

	return &tls.Config{Certificates: []tls.Certificate{{Certificate: [][]byte{der}, PrivateKey: key}}, MinVersion: tls.VersionTLS12}
}

// runWireSilentTLS: clients of the TLS listener that stall inside the TLS handshake (connect and say nothing; send the
// first bytes of a record and stop; send a truncated ClientHello) and keep their connections open. Afterwards a
// well-behaved peer must still be able to connect through the same listener, complete both handshakes and be answered.
func runWireSilentTLS(wc *wireChild) (sig, what string, replay any) {
	if wc.ports.TLS == 0 {
		return "", "", nil
	}
	var held []net.Conn
	defer func() {
		for _, c := range held {
			_ = c.Close()
		}
	}()
	for _, first := range [][]byte{nil, {0x16, 0x03, 0x01}, {0x16, 0x03, 0x01, 0x02, 0x00, 0x01, 0x00, 0x01, 0xfc, 0x03, 0x03}} {
		c, err := net.DialTimeout("tcp", fmt.Sprintf("127.0.0.1:%d", wc.ports.TLS), 5*time.Second)
		if err != nil {
			return "", "", nil
		}
		held = append(held, c)
		if first != nil {
			_, _ = c.Write(first)
		}
	}
	time.Sleep(300 * time.Millisecond)
	g, err := dialFramedTLS(wc.ports.TLS, 15*time.Second)
	if err != nil {
		if !wc.alive() {
			return "C07:crash:stalled-tls-clients", "the node process exited after three clients stalled inside the TLS handshake of its TLS listener", map[string]any{"phase": "silent-tls"}
		}

		return "C07:wedged:stalled-tls-clients-block-listener", "three clients stalled inside the TLS handshake of the node's TLS listener and kept their connections open; 15 s later a well-behaved peer still cannot complete a TLS handshake with that listener: " + err.Error(), map[string]any{"phase": "silent-tls"}
	}
	defer g.Close()
	_ = g.Send(ruJSON("goodt", 1, "goodt-hs0", map[string]string{"Connections": "{}"}))
	_ = g.Send(ruJSON("goodt", 2, "goodt-hs1", nil))
	deadline := time.After(15 * time.Second)
	for {
		_ = g.Send(peer.EncodeData(5, "goodt", "victim", "prb", "ping", nil))
		resend := time.After(300 * time.Millisecond)
	wait:
		for {
			select {
			case f, ok := <-g.frames:
				if !ok {
					return "C07:wedged:tls-peer-not-served", "a well-behaved peer connected through the TLS listener after three stalled clients, but its session was closed", map[string]any{"phase": "silent-tls"}
				}
				if d := peer.Decode(f); d.Data != nil && d.Data.FromService == "ping" && d.Data.ToService == "prb" {
					return "", "", nil
				}
			case <-resend:
				break wait
			case <-deadline:
				return "C07:wedged:tls-peer-not-served", "a well-behaved peer connected through the TLS listener after three stalled clients, but its ping was not answered within 15 s", map[string]any{"phase": "silent-tls"}
			}
		}
	}
}
