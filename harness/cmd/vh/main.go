// Command vh is the conformance harness: each subcommand drives real receptor code with
// inputs generated from the TLA+ specifications and reports what it observed as JSON.
package main

import (
	"encoding/json"
	"fmt"
	"os"

	"github.com/ansible/receptor/pkg/logger"
)

// Violation is one observed departure of the real code from the specification.
type Violation struct {
	Sig    string `json:"sig"`
	What   string `json:"what"`
	Replay any    `json:"replay"`
}

// Result is what every subcommand writes.
type Result struct {
	Evaluations  int            `json:"evaluations"`
	Distinct     int            `json:"distinct"`
	Violations   []Violation    `json:"violations"`
	Inconclusive []string       `json:"inconclusive"`
	Samples      []any          `json:"samples"`
	Counters     map[string]int `json:"counters"`
	Notes        []string       `json:"notes"`
	TraceFiles   []string       `json:"trace_files"`
}

func (r *Result) count(k string) {
	if r.Counters == nil {
		r.Counters = map[string]int{}
	}
	r.Counters[k]++
}

func (r *Result) violate(sig, what string, replay any) {
	if len(r.Violations) < 200 {
		r.Violations = append(r.Violations, Violation{sig, what, replay})
	}
	r.count("violations")
}

func (r *Result) write(path string) {
	if r.Violations == nil {
		r.Violations = []Violation{}
	}
	b, _ := json.MarshalIndent(r, "", " ")
	if err := os.WriteFile(path, b, 0o644); err != nil {
		fmt.Fprintln(os.Stderr, "cannot write result:", err)
		os.Exit(3)
	}
}

var commands = map[string]func(args []string){}

func main() {
	if os.Getenv("VERIF_DEBUG") == "" {
		logger.SetGlobalQuietMode()
	} else {
		logger.SetGlobalLogLevel(logger.DebugLevel)
	}
	if len(os.Args) < 2 || commands[os.Args[1]] == nil {
		fmt.Fprintln(os.Stderr, "usage: vh <command> [flags]; commands:")
		for k := range commands {
			fmt.Fprintln(os.Stderr, "  ", k)
		}
		os.Exit(2)
	}
	commands[os.Args[1]](os.Args[2:])
}

func readNDJSON[T any](path string) ([]T, error) {
	f, err := os.Open(path)
	if err != nil {
		return nil, err
	}
	defer f.Close()
	dec := json.NewDecoder(f)
	var out []T
	for dec.More() {
		var v T
		if err := dec.Decode(&v); err != nil {
			return nil, err
		}
		out = append(out, v)
	}

	return out, nil
}
