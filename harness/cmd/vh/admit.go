package main

import (
	"flag"
	"fmt"
	"math/rand"
	"sync"
	"sync/atomic"
	"time"

	"github.com/ansible/receptor/pkg/netceptor"
	"github.com/ansible/receptor/pkg/verifhook"
	"verif/harness/e1"
	"verif/harness/memnet"
	"verif/harness/peer"
	"verif/harness/trace"
)

// C11: admission of backend sessions. Seeded scenarios over the product of allow-list x per-node cost x
// announced id x later behaviour x concurrent sessions are played by scripted peers against a real node.
// The node's hook events are validated by TLC against NodeTrace.tla (admission verdicts, rejection reasons,
// one connection per id); this command additionally checks what only a peer can see: the type-3 reject
// frame, closure of rejected sessions, and that an admitted session stays open.

func init() { commands["admit"] = cmdAdmit }

type admitSess struct {
	ID       string // announced ForwardingNode
	NodeID   string // NodeID field of the first message
	Backend  int
	Follow   string // "", "list_ok", "list_wrong_cost", "late_then_list", "list_then_drop", "fwd_changed", "reject_frame", "close"
	Parallel bool   // handshake concurrently with the previous session
}

func cmdAdmit(args []string) {
	fs := flag.NewFlagSet("admit", flag.ExitOnError)
	out := fs.String("out", "result.json", "result file")
	hookOut := fs.String("hooktrace", "hooks.ndjson", "raw hook events")
	seed := fs.Int64("seed", 1, "seed")
	scenarios := fs.Int("scenarios", 60, "number of scenarios")
	par := fs.Int("par", 8, "parallel scenarios")
	_ = fs.Parse(args)
	res := &Result{}
	defer res.write(*out)
	col := trace.Install()
	type scT struct {
		hooks   []verifhook.Record
		viol    []Violation
		inconcl string
		desc    any
		n       int
	}
	scs := make([]*scT, *scenarios)
	sem := make(chan struct{}, *par)
	var wg sync.WaitGroup
	for i := 0; i < *scenarios; i++ {
		wg.Add(1)
		sem <- struct{}{}
		go func(i int) {
			defer wg.Done()
			defer func() { <-sem }()
			sc := &scT{}
			scs[i] = sc
			sc.hooks, sc.viol, sc.inconcl, sc.desc, sc.n = runAdmitScenario(col, rand.New(rand.NewSource(*seed*104729+int64(i))), i)
		}(i)
	}
	wg.Wait()
	var all []verifhook.Record
	distinct := map[string]bool{}
	// many sessions announcing ONE id complete their handshake at the same instant, on a node with many connections
	{
		hooks, viol, inconcl, rounds := runAdmitStorm(col, *seed, *scenarios)
		if inconcl != "" {
			res.Inconclusive = append(res.Inconclusive, inconcl)
		} else {
			for _, v := range viol {
				res.violate(v.Sig, v.What, v.Replay)
			}
			res.Evaluations += rounds
			distinct["same-id-storm"] = true
			all = append(all, hooks...)
		}
	}
	// one session per ID across an idle time-out of a session whose loop is blocked (takes two ticks of the 5 s monitor)
	{
		hooks, viol, inconcl := runAdmitIdleScenario(col)
		for _, v := range viol {
			res.violate(v.Sig, v.What, v.Replay)
		}
		if inconcl != "" {
			res.Inconclusive = append(res.Inconclusive, inconcl)
		} else {
			res.Evaluations++
			distinct["idle-blocked-loop"] = true
			all = append(all, hooks...)
		}
	}
	// the node's only neighbour is rejected / goes away: nothing of it may stay behind
	for variant := 0; variant < 3; variant++ {
		hooks, viol, inconcl := runAdmitLastPeerScenario(col, variant)
		for _, v := range viol {
			res.violate(v.Sig, v.What, v.Replay)
		}
		if inconcl != "" {
			res.Inconclusive = append(res.Inconclusive, inconcl)
		} else {
			res.Evaluations++
			distinct[fmt.Sprintf("last-peer-%d", variant)] = true
			all = append(all, hooks...)
		}
	}
	// the peer disappears while the node is between the two requests that end the establishment (needs a gate)
	for k := 0; k < 18; k++ {
		hooks, viol, inconcl := runAdmitGateScenario(col, k)
		if inconcl != "" {
			res.Inconclusive = append(res.Inconclusive, inconcl)

			continue
		}
		for _, v := range viol {
			res.violate(v.Sig, v.What, v.Replay)
		}
		res.Evaluations++
		distinct["gate-establish"] = true
		all = append(all, hooks...)
	}
	for _, sc := range scs {
		if sc.inconcl != "" {
			// a definite wrong value seen before the scenario got stuck is still a wrong value
			for _, v := range sc.viol {
				res.violate(v.Sig, v.What, v.Replay)
			}
			res.Inconclusive = append(res.Inconclusive, sc.inconcl)

			continue
		}
		for _, v := range sc.viol {
			res.violate(v.Sig, v.What, v.Replay)
		}
		res.Evaluations += sc.n
		distinct[fmt.Sprintf("%v", sc.desc)] = true
		all = append(all, sc.hooks...)
		if len(res.Samples) < 3 {
			res.Samples = append(res.Samples, sc.desc)
		}
	}
	res.Distinct = len(distinct)
	if err := trace.WriteNDJSON(*hookOut, all); err != nil {
		res.Inconclusive = append(res.Inconclusive, err.Error())
	}
}

func runAdmitScenario(col *trace.Collector, rng *rand.Rand, idx int) (hooks []verifhook.Record, viol []Violation, inconcl string, desc any, nsess int) {
	const self = "n1"
	allowOpts := [][]string{nil, {"pa", "pb"}, {"pb"}}
	allow := allowOpts[rng.Intn(len(allowOpts))]
	var nodeCost map[string]float64
	if rng.Intn(2) == 0 {
		nodeCost = map[string]float64{"pa": 2}
	}
	baseCost := float64(1 + 2*rng.Intn(2))
	mods := []func(*netceptor.BackendInfo){netceptor.BackendConnectionCost(baseCost)}
	if allow != nil {
		mods = append(mods, netceptor.BackendAllowedPeers(allow))
	}
	if nodeCost != nil {
		mods = append(mods, netceptor.BackendNodeCost(nodeCost))
	}
	n, err := e1.NewNode(self, e1.Opts{Backend: mods})
	if err != nil {
		return nil, nil, err.Error(), nil, 0
	}
	defer n.Stop()
	vn := n.N.VerifName()
	h0 := col.Len()
	defer func() {
		for _, r := range col.Since(h0) {
			if r["n"] == vn {
				hooks = append(hooks, r)
			}
		}
	}()
	// a second backend with no restrictions, so that "already connected" can also arise across backends
	b2, err := n.AddBackend(netceptor.BackendConnectionCost(baseCost))
	if err != nil {
		return nil, nil, err.Error(), nil, 0
	}
	ids := []string{"", self, "pa", "pb", "pc", "pa"}
	follows := []string{"", "list_ok", "list_ok", "list_wrong_cost", "late_then_list", "list_then_drop", "fwd_changed", "reject_frame", "close",
		"listok_then_wrong_cost", "late_then_wrong_cost", "random", "random", "random"}
	ns := 2 + rng.Intn(3)
	sessions := make([]admitSess, ns)
	for i := range sessions {
		s := admitSess{ID: ids[rng.Intn(len(ids))], Backend: rng.Intn(3) / 2, Follow: follows[rng.Intn(len(follows))], Parallel: i > 0 && rng.Intn(2) == 0}
		s.NodeID = s.ID
		if rng.Intn(5) == 0 {
			s.NodeID = "zz"
		}
		sessions[i] = s
	}
	desc = map[string]any{"allow": allow, "nodecost": nodeCost, "cost": baseCost, "sessions": sessions}
	expCost := func(s admitSess) float64 {
		if c, ok := nodeCost[s.ID]; ok && s.Backend == 0 {
			return c
		}

		return baseCost
	}
	// outcome of a session's handshake as the node's own events report it
	outcome := func(p *peer.Peer) string {
		label := fmt.Sprintf("%p", p.Pipe.A)
		o := ""
		for _, r := range col.Since(h0) {
			if r["n"] == vn && r["sess"] == label {
				switch r["ev"] {
				case "reject":
					o = "rejected"
				case "conn_add":
					o = "admitted"
				}
			}
		}

		return o
	}
	type live struct {
		p  *peer.Peer
		s  admitSess
		ok bool // established as far as the peer can tell
	}
	lives := make([]*live, ns)
	handshake := func(i int) string {
		s := sessions[i]
		var be *memnet.Backend = n.B
		if s.Backend == 1 {
			be = b2
		}
		p, err := peer.Attach(be, fmt.Sprintf("sess%d", i), int64(idx*100+i))
		if err != nil {
			return "attach: " + err.Error()
		}
		lives[i] = &live{p: p, s: s}
		_ = p.SendRoute(peer.RoutingUpdate{NodeID: s.NodeID, UpdateID: fmt.Sprintf("a%d-%d-0", idx, i), UpdateEpoch: 7, UpdateSequence: 1,
			Connections: map[string]float64{}, ForwardingNode: s.ID})
		if e := nlBarrier(col, vn, p, 20*time.Second); e != "" {
			return "barrier: " + e
		}

		return ""
	}
	for i := 0; i < ns; {
		j := i + 1
		for j < ns && sessions[j].Parallel {
			j++
		}
		var wg sync.WaitGroup
		errs := make([]string, j-i)
		for k := i; k < j; k++ {
			wg.Add(1)
			go func(k int) { defer wg.Done(); errs[k-i] = handshake(k) }(k)
		}
		wg.Wait()
		for _, e := range errs {
			if e != "" {
				return nil, nil, e, desc, 0
			}
		}
		i = j
	}
	// what the peers can see after the handshake
	conns := n.N.VerifSnapshot().Conns
	established := map[string]int{}
	for i, lv := range lives {
		switch outcome(lv.p) {
		case "rejected":
			if !lv.p.WaitEOF(20 * time.Second) {
				viol = append(viol, Violation{"C11:rejected-session-not-closed", fmt.Sprintf("session %d (%+v) was rejected but is still open", i, lv.s), desc})
			}
		case "admitted":
			lv.ok = true
			established[lv.s.ID]++
			if c, ok := conns[lv.s.ID]; !ok {
				viol = append(viol, Violation{"C11:admitted-session-not-a-connection", fmt.Sprintf("session %d (%+v) was admitted but is not listed as a connection", i, lv.s), desc})
			} else if c != expCost(lv.s) {
				viol = append(viol, Violation{"C11:connection-cost", fmt.Sprintf("connection %s has cost %v, configured %v", lv.s.ID, c, expCost(lv.s)), desc})
			}
			if lv.p.EOF() {
				viol = append(viol, Violation{"C11:admitted-session-closed", fmt.Sprintf("session %d (%+v) was admitted and then closed at once", i, lv.s), desc})
			}
		default:
			viol = append(viol, Violation{"C11:handshake-without-outcome", fmt.Sprintf("session %d (%+v): the first routing message led neither to admission nor to rejection", i, lv.s), desc})
		}
	}
	for id, k := range established {
		if k > 1 {
			viol = append(viol, Violation{"C11:two-admitted-sessions-one-id", fmt.Sprintf("%d sessions announcing %q were admitted at the same time", k, id), desc})
		}
	}
	// follow-up behaviour of the admitted sessions
	for i, lv := range lives {
		if !lv.ok {
			continue
		}
		p, s := lv.p, lv.s
		c := expCost(s)
		send := func(seq uint64, conns map[string]float64, fwd string) {
			_ = p.SendRoute(peer.RoutingUpdate{NodeID: s.ID, UpdateID: fmt.Sprintf("a%d-%d-%d", idx, i, seq), UpdateEpoch: 7, UpdateSequence: seq, Connections: conns, ForwardingNode: fwd})
			_ = nlBarrier(col, vn, p, 20*time.Second)
		}
		expectClosed := false
		switch s.Follow {
		case "list_ok":
			send(2, map[string]float64{self: c}, s.ID)
		case "list_wrong_cost":
			send(2, map[string]float64{self: c + 1}, s.ID)
			expectClosed = true
		case "late_then_list":
			send(2, map[string]float64{}, s.ID)
			send(3, map[string]float64{self: c}, s.ID)
		case "list_then_drop":
			send(2, map[string]float64{self: c}, s.ID)
			send(3, map[string]float64{"other": 1}, s.ID)
			expectClosed = true
		case "fwd_changed":
			send(2, map[string]float64{self: c}, s.ID)
			send(3, map[string]float64{self: c}, s.ID+"x")
			expectClosed = true
		case "listok_then_wrong_cost":
			send(2, map[string]float64{self: c}, s.ID)
			send(3, map[string]float64{self: c, "other": 1}, s.ID)
			send(4, map[string]float64{self: c + 1}, s.ID)
			expectClosed = true
		case "late_then_wrong_cost":
			send(2, map[string]float64{}, s.ID)
			send(3, map[string]float64{self: c + 2}, s.ID)
			expectClosed = true
		case "random":
			// Admit.tla's PeerUpdate parameter space, several steps on one session; the session must be closed at the
			// first step that Admit.tla's PeerUpdate closes it and not before
			listed := false
			for step, k := 0, 2+rng.Intn(4); step < k && !expectClosed; step++ {
				lists, wrong, otherFwd := rng.Intn(4) != 0, rng.Intn(4) == 0, rng.Intn(8) == 0
				conns := map[string]float64{"other": float64(1 + rng.Intn(3))}
				if lists {
					conns[self] = c
					if wrong {
						conns[self] = c + float64(1+rng.Intn(2))
					}
				}
				fwd := s.ID
				if otherFwd {
					fwd = s.ID + "y"
				}
				send(uint64(2+step), conns, fwd)
				switch {
				case otherFwd:
					expectClosed = true
				case lists && wrong:
					expectClosed = true
				case !lists && listed:
					expectClosed = true
				case lists:
					listed = true
				}
				if !expectClosed && p.WaitEOF(20*time.Millisecond) {
					viol = append(viol, Violation{"C11:admissible-session-closed", fmt.Sprintf("session %d (%+v) was closed at step %d of a behaving follow-up", i, s, step), desc})
				}
			}
		case "reject_frame":
			_ = p.SendRaw([]byte{netceptor.MsgTypeReject, '[', ']'})
			_ = nlBarrier(col, vn, p, 20*time.Second)
			expectClosed = true
		case "close":
			p.Close()
			expectClosed = true
		}
		if s.NodeID != s.ID && s.Follow != "" && s.Follow != "reject_frame" && s.Follow != "close" {
			// the follow-ups speak as s.ID; nothing else to adjust
			_ = s
		}
		if expectClosed {
			if !p.WaitEOF(20 * time.Second) {
				viol = append(viol, Violation{"C11:session-survives-" + s.Follow, fmt.Sprintf("session %d (%+v) still open after %s", i, s, s.Follow), desc})
			}
		} else if p.WaitEOF(50 * time.Millisecond) {
			viol = append(viol, Violation{"C11:admissible-session-closed", fmt.Sprintf("session %d (%+v) was closed although it behaved (%s)", i, s, s.Follow), desc})
		}
	}
	// quiescence, in this order: (1) every session whose link is cut has been ended by the node (its sess_end event
	// comes after the connection and adjacency have been cleaned up and before the rebuild is requested);
	// (2) no stale connection is listed; (3) a rebuild newer than the last adjacency change has been done.
	for i, lv := range lives {
		if !lv.p.EOF() {
			continue
		}
		label := fmt.Sprintf("%p", lv.p.Pipe.A)
		if _, ok := col.WaitFor(h0, 20*time.Second, func(r verifhook.Record) bool {
			return r["n"] == vn && r["ev"] == "sess_end" && r["sess"] == label
		}); !ok {
			return nil, viol, fmt.Sprintf("session %d: link cut but the node never ended the session", i), desc, 0
		}
	}
	deadline := time.Now().Add(10 * time.Second)
	for {
		snap := n.N.VerifSnapshot()
		open := map[string]bool{}
		for _, lv := range lives {
			if !lv.p.EOF() {
				open[lv.s.ID] = true
			}
		}
		stale := ""
		for id := range snap.Conns {
			if !open[id] {
				stale = id
			}
		}
		if stale == "" {
			break
		}
		if time.Now().After(deadline) {
			viol = append(viol, Violation{"C11:connection-not-forgotten", fmt.Sprintf("connection %q is still listed although its session has ended", stale), desc})

			break
		}
		time.Sleep(5 * time.Millisecond)
	}
	lastChange := h0
	for k, r := range col.Since(h0) {
		if r["n"] == vn && (r["ev"] == "known_del" || r["ev"] == "known_add" || r["ev"] == "conn_del") {
			lastChange = h0 + k + 1
		}
	}
	if lastChange > h0 {
		if _, ok := col.WaitFor(lastChange, 20*time.Second, evForNode(vn, "rebuild")); !ok {
			// no rebuild in 20 s (the debounce is 100 ms): if the table still routes through a node that is no longer
			// a connection, a route was left behind - a definite wrong value, not a timing matter
			st := n.N.Status()
			cn := map[string]bool{}
			for _, c := range st.Connections {
				cn[c.NodeID] = true
			}
			for dst, hop := range st.RoutingTable {
				if !cn[hop] {
					viol = append(viol, Violation{"C11:route-left-behind-without-rebuild",
						fmt.Sprintf("20 s after the last connection change no table rebuild has happened and the table still routes %s via %s, which is not a connection (connections: %v)", dst, hop, st.Connections), desc})

					break
				}
			}
			if len(viol) > 0 {
				return nil, viol, "no rebuild after the last connection change", desc, 0
			}
			// the table agrees with the connections although no rebuild was seen: go on, the final status is judged below
		}
	}
	st := n.N.Status()
	costs := map[string]float64{}
	for d := range st.RoutingTable {
		if c, err := n.N.PathCost(d); err == nil {
			costs[d] = c
		}
	}
	cm := map[string]float64{}
	for _, c := range st.Connections {
		cm[c.NodeID] = c.Cost
	}
	verifhook.Emit(vn, "h_status", "conns", cm, "table", st.RoutingTable, "costs", costs, "known", st.KnownConnectionCosts)

	return nil, viol, "", desc, ns
}

// runAdmitGateScenario parks the session goroutine just before the last step of the establishment, cuts the
// link, lets the node notice, and releases it: whatever the node does then, the connection must be forgotten.
func runAdmitGateScenario(col *trace.Collector, k int) (hooks []verifhook.Record, viol []Violation, inconcl string) {
	n, err := e1.NewNode("n1", e1.Opts{})
	if err != nil {
		return nil, nil, err.Error()
	}
	defer n.Stop()
	vn := n.N.VerifName()
	h0 := col.Len()
	defer func() {
		for _, r := range col.Since(h0) {
			if r["n"] == vn {
				hooks = append(hooks, r)
			}
		}
	}()
	hit, release := verifhook.HoldGate("establish_before_rebuild_req")
	defer release()
	p, err := n.Attach("pg")
	if err != nil {
		return nil, nil, err.Error()
	}
	_ = p.SendRoute(peer.RoutingUpdate{NodeID: "pg", UpdateID: fmt.Sprintf("g%d", k), UpdateEpoch: 7, UpdateSequence: 1, Connections: map[string]float64{}, ForwardingNode: "pg"})
	select {
	case <-hit:
	case <-time.After(20 * time.Second):
		return nil, nil, "gate not reached"
	}
	cancelBackends := k >= 6
	var cancelDone chan struct{} // closed when CancelBackends (which waits for every session of the backends) has returned
	what := "the peer disconnected"
	if cancelBackends {
		// the BACKEND goes away (CancelBackends, as a configuration reload does) while the node keeps running: the
		// session is registered but not established; which ready branch of the select wins is a coin flip, hence
		// the repetitions
		what = "the backends were cancelled"
		cancelDone = make(chan struct{})
		go func() { defer close(cancelDone); n.N.CancelBackends() }()
	} else {
		p.Close() // the peer goes away
	}
	time.Sleep(150 * time.Millisecond) // let the node's reader notice and cancel the session context
	release()
	label := fmt.Sprintf("%p", p.Pipe.A)
	if _, ok := col.WaitFor(h0, 20*time.Second, func(r verifhook.Record) bool {
		return r["n"] == vn && r["ev"] == "sess_end" && r["sess"] == label
	}); !ok {
		return nil, nil, "session did not end after the peer went away"
	}
	deadline := time.Now().Add(3 * time.Second)
	for {
		if _, still := n.N.VerifSnapshot().Conns["pg"]; !still {
			break
		}
		if time.Now().After(deadline) {
			viol = append(viol, Violation{"C11:connection-not-forgotten@establish_before_rebuild_req",
				what+" between the flood request and the rebuild request of the establishment; the session ended but the connection is still listed", map[string]any{"cancel_backends": cancelBackends, "scenario": "gate-establish"}})

			break
		}
		time.Sleep(10 * time.Millisecond)
	}
	if cancelBackends && len(viol) == 0 {
		// the same peer returns through a new backend: it must be admitted (nothing of the dead session is left).
		// CancelBackends must have returned first (AddBackend re-uses the node-wide wait group it is waiting on).
		select {
		case <-cancelDone:
		case <-time.After(20 * time.Second):
			return nil, nil, "CancelBackends did not return within 20 s after the session had ended"
		}
		be := memnet.NewBackend()
		if err := n.N.AddBackend(be); err != nil {
			return nil, nil, "AddBackend after CancelBackends: " + err.Error()
		}
		p2, err := peer.Attach(be, "pg", int64(5000+k))
		if err != nil {
			return nil, nil, err.Error()
		}
		_ = p2.SendRoute(peer.RoutingUpdate{NodeID: "pg", UpdateID: fmt.Sprintf("g%d-back", k), UpdateEpoch: 7, UpdateSequence: 2, Connections: map[string]float64{}, ForwardingNode: "pg"})
		dl := time.Now().Add(10 * time.Second)
		for {
			if _, ok := n.N.VerifSnapshot().Conns["pg"]; ok {
				break
			}
			if p2.EOF() || time.Now().After(dl) {
				viol = append(viol, Violation{"C11:returning-peer-refused-after-backend-cancel",
					"after the backends were cancelled during an establishment, the same peer coming back through a new backend is not admitted", map[string]any{"scenario": "gate+cancel", "k": k}})

				break
			}
			time.Sleep(10 * time.Millisecond)
		}
	}

	return nil, viol, ""
}

// runAdmitStorm: a node that already has many neighbours (the already-connected test scans the whole table)
// receives, round after round, eight sessions that announce the same id and are released at the same instant
// by a spinning barrier. At most one of them may be admitted; the node's events go to NodeTrace as well.
func runAdmitStorm(col *trace.Collector, seed int64, scale int) (hooks []verifhook.Record, viol []Violation, inconcl string, rounds int) {
	n, err := e1.NewNode("n1", e1.Opts{})
	if err != nil {
		return nil, nil, err.Error(), 0
	}
	defer n.Stop()
	vn := n.N.VerifName()
	h0 := col.Len()
	// only the admission events of this node go to NodeTrace: with 200 neighbours every adjacency event carries a
	// 200x200 picture and every rebuild would cost TLC a 200-node Bellman-Ford
	keepEv := map[any]bool{"sess_start": true, "recv": true, "reject": true, "conn_add": true, "established": true, "conn_del": true, "sess_end": true}
	defer func() {
		for _, r := range col.Since(h0) {
			if r["n"] == vn && keepEv[r["ev"]] {
				hooks = append(hooks, r)
			}
		}
	}()
	const filler = 200
	for i := 0; i < filler; i++ {
		p, err := n.Attach(fmt.Sprintf("f%d", i))
		if err != nil {
			return nil, nil, "attach: " + err.Error(), 0
		}
		_ = p.SendRoute(peer.RoutingUpdate{NodeID: p.ID, UpdateID: fmt.Sprintf("st-f%d", i), UpdateEpoch: 7, UpdateSequence: 1, Connections: map[string]float64{}, ForwardingNode: p.ID})
	}
	deadline := time.Now().Add(60 * time.Second)
	for len(n.N.VerifSnapshot().Conns) < filler {
		if time.Now().After(deadline) {
			return nil, nil, "filler connections were not established", 0
		}
		time.Sleep(20 * time.Millisecond)
	}
	total := 25
	if scale > 200 {
		total = 200
	}
	const width = 8
	for r := 0; r < total; r++ {
		id := fmt.Sprintf("storm%d", r)
		var flag int32
		var ready, done sync.WaitGroup
		ps := make([]*peer.Peer, width)
		for k := 0; k < width; k++ {
			p, err := n.Attach(id)
			if err != nil {
				return nil, nil, "attach: " + err.Error(), rounds
			}
			ps[k] = p
			ready.Add(1)
			done.Add(1)
			go func(p *peer.Peer, k int) {
				defer done.Done()
				ready.Done()
				for atomic.LoadInt32(&flag) == 0 { // spin: release all senders within nanoseconds of each other
				}
				_ = p.SendRoute(peer.RoutingUpdate{NodeID: id, UpdateID: fmt.Sprintf("st-%d-%d", r, k), UpdateEpoch: 7, UpdateSequence: 1, Connections: map[string]float64{}, ForwardingNode: id})
			}(p, k)
		}
		ready.Wait()
		ev0 := col.Len()
		atomic.StoreInt32(&flag, 1)
		done.Wait()
		for _, p := range ps {
			if e := nlBarrier(col, vn, p, 120*time.Second); e != "" {
				return nil, nil, "storm barrier: " + e, rounds
			}
		}
		admitted := 0
		for _, e := range col.Since(ev0) {
			if e["n"] == vn && e["ev"] == "conn_add" && e["peer"] == id {
				admitted++
			}
		}
		rounds++
		if admitted > 1 {
			viol = append(viol, Violation{"C11:two-admitted-sessions-one-id", fmt.Sprintf("%d of %d sessions announcing %q at the same instant were admitted (node with %d connections)", admitted, width, id, filler),
				map[string]any{"scenario": "same-id-storm", "round": r}})
		}
		for _, p := range ps {
			p.Close()
		}
		dl := time.Now().Add(20 * time.Second)
		for {
			if _, still := n.N.VerifSnapshot().Conns[id]; !still {
				break
			}
			if time.Now().After(dl) {
				viol = append(viol, Violation{"C11:connection-not-forgotten", fmt.Sprintf("connection %q still listed after all of its sessions were closed", id), map[string]any{"scenario": "same-id-storm", "round": r}})

				break
			}
			time.Sleep(5 * time.Millisecond)
		}
	}

	return nil, viol, "", rounds
}
