package main

import (
	"fmt"
	"reflect"
	"sync"
	"sync/atomic"
	"time"

	"github.com/ansible/receptor/pkg/verifhook"
	"verif/harness/e1"
	"verif/harness/peer"
	"verif/harness/trace"
)

// runNLRace (C06): two different updates of one origin - sequence n through neighbour p1, n+1 through neighbour p2 -
// are released at the same instant, round after round, for eight origins. The staleness test and the write it guards
// are one critical section per update (NetCore's StaleWhy/Accept), so whatever order the two session goroutines take,
// afterwards the node holds n+1; the older one may be applied first or dropped as stale, never applied second.
// Only the adjacency and ru_apply/ru_dupnotice events of this node go to NodeTrace (one line per update).
func runNLRace(col *trace.Collector, seed int64, rounds int) (hooks []verifhook.Record, viol []Violation, inconcl string, done int) {
	h0 := col.Len()
	n, err := e1.NewNode("n1", e1.Opts{Quiet: true})
	if err != nil {
		return nil, nil, err.Error(), 0
	}
	defer n.Stop()
	vn := n.N.VerifName()
	raceFrom := -1 // collector index at which the rounds begin; everything before (the two establishments) is kept
	raceEnd := -1  // ... and everything after the rounds again (the replay of an old notice)
	defer func() {
		keep := map[string]bool{"ru_apply": true, "ru_dupnotice": true, "conn_del": true, "known_del": true, "sess_end": true, "shutdown": true}
		for i, r := range col.Since(h0) {
			if r["n"] != vn {
				continue
			}
			if ev, _ := r["ev"].(string); raceFrom < 0 || h0+i < raceFrom || (raceEnd >= 0 && h0+i >= raceEnd) || keep[ev] {
				hooks = append(hooks, r)
			}
		}
	}()
	var ps [2]*peer.Peer
	for i, id := range []string{"p1", "p2"} {
		p, err := n.Attach(id)
		if err != nil {
			return nil, nil, err.Error(), 0
		}
		if err := p.Handshake("n1", 1, nil); err != nil {
			return nil, nil, "handshake: " + err.Error(), 0
		}
		ps[i] = p
	}
	dl := time.Now().Add(10 * time.Second)
	for len(n.N.VerifSnapshot().Conns) < 2 {
		if time.Now().After(dl) {
			return nil, nil, "race node: neighbours not established", 0
		}
		time.Sleep(time.Millisecond)
	}
	// both establishments must be complete (and their events recorded) before the rounds begin
	for _, p := range ps {
		if w := nlBarrier(col, vn, p, 20*time.Second); w != "" {
			return nil, nil, "race node: barrier after the handshake: " + w, 0
		}
	}
	// a duplicate-node notice is handled once before the rounds; thousands of distinct updates later the very same
	// message comes again: the id is still in the seen table (expiry 1 h), so it is neither adopted nor relayed again
	notice := peer.RoutingUpdate{NodeID: "ox", UpdateID: fmt.Sprintf("race-notice-%d", seed), UpdateEpoch: 5, UpdateSequence: 10, SuspectedDuplicate: 9,
		Connections: map[string]float64{}, ForwardingNode: ps[0].ID}
	_ = ps[0].SendRoute(peer.RoutingUpdate{NodeID: "ox", UpdateID: fmt.Sprintf("race-ox-%d", seed), UpdateEpoch: 9, UpdateSequence: 3, Connections: map[string]float64{"q": 1}, ForwardingNode: ps[0].ID})
	_ = ps[0].SendRoute(notice)
	if w := nlBarrier(col, vn, ps[0], 20*time.Second); w != "" {
		return nil, nil, "race node: barrier after the notice: " + w, 0
	}
	// what the node has learnt about a node through a neighbour stays when that node connects directly: establishing
	// the session ADDS the edge to the peer's row (NetCore EstKnown), it does not replace the row
	_ = ps[1].SendRoute(peer.RoutingUpdate{NodeID: "pz", UpdateID: fmt.Sprintf("race-pz-%d", seed), UpdateEpoch: 1000, UpdateSequence: 5,
		Connections: map[string]float64{"q": 1, "r": 2}, ForwardingNode: ps[1].ID})
	if w := nlBarrier(col, vn, ps[1], 20*time.Second); w != "" {
		return nil, nil, "race node: barrier after the relayed row: " + w, 0
	}
	pz, err := n.Attach("pz")
	if err != nil {
		return nil, nil, err.Error(), 0
	}
	pz.Seq = 5
	if err := pz.Handshake("n1", 1, map[string]float64{"q": 1, "r": 2}); err != nil {
		return nil, nil, "race node: handshake of the known node: " + err.Error(), 0
	}
	if w := nlBarrier(col, vn, pz, 20*time.Second); w != "" {
		return nil, nil, "race node: barrier after the known node connected: " + w, 0
	}
	const burst = 8
	raceFrom = col.Len()
	for r := 0; r < rounds; r++ {
		// one round: for each of the eight origins the older update goes through one neighbour and the newer one
		// through the other (which neighbour alternates per origin); each neighbour sends its eight updates back to
		// back, so the two session goroutines work through the same origins side by side
		type upd struct {
			origin string
			id     string
			seq    uint64
			conns  map[string]float64
		}
		var lists [2][]upd
		want := map[string]upd{}
		for o := 0; o < burst; o++ {
			origin := fmt.Sprintf("o%d", o)
			seqA, seqB := uint64(2*r+2), uint64(2*r+3)
			cA := map[string]float64{"x": float64(1 + (r+o)%5)}
			cB := map[string]float64{"x": float64(1 + (r+o)%5), fmt.Sprintf("y%d", (r+o)%3): 1}
			older := upd{origin, fmt.Sprintf("rc%d-%d-%d-a", seed, r, o), seqA, cA}
			newer := upd{origin, fmt.Sprintf("rc%d-%d-%d-b", seed, r, o), seqB, cB}
			k := (r + o) % 2
			lists[k] = append(lists[k], older)
			lists[1-k] = append(lists[1-k], newer)
			want[origin] = newer
		}
		from := col.Len()
		var gate int32
		var wg sync.WaitGroup
		for i := 0; i < 2; i++ {
			wg.Add(1)
			go func(p *peer.Peer, us []upd) {
				defer wg.Done()
				for atomic.LoadInt32(&gate) == 0 {
				}
				for _, u := range us {
					_ = p.SendRoute(peer.RoutingUpdate{NodeID: u.origin, UpdateID: u.id, UpdateEpoch: 9, UpdateSequence: u.seq, Connections: u.conns, ForwardingNode: p.ID})
				}
			}(ps[i], lists[i])
		}
		time.Sleep(20 * time.Microsecond)
		atomic.StoreInt32(&gate, 1)
		wg.Wait()
		pending := map[string]bool{}
		for i := 0; i < 2; i++ {
			for _, u := range lists[i] {
				pending[u.id] = true
			}
		}
		if _, ok := col.WaitFor(from, 20*time.Second, func(rec verifhook.Record) bool {
			if rec["n"] == vn && rec["ev"] == "ru_apply" {
				if id, _ := rec["id"].(string); pending[id] {
					delete(pending, id)
				}
			}

			return len(pending) == 0
		}); !ok {
			return nil, viol, fmt.Sprintf("race round %d: %d updates were never handled", r, len(pending)), r
		}
		snap := n.N.VerifSnapshot()
		for origin, u := range want {
			if got := snap.Info[origin]; got != [2]uint64{9, u.seq} {
				viol = append(viol, Violation{"C06:concurrent-updates-regress-info",
					fmt.Sprintf("updates %d and %d of %s arrived at the same time through two neighbours; afterwards the node holds {epoch,seq} %v instead of {9 %d}", u.seq-1, u.seq, origin, got, u.seq),
					map[string]any{"round": r, "origin": origin}})

				return nil, viol, "", r
			}
			if got := snap.Known[origin]; !reflect.DeepEqual(got, u.conns) {
				viol = append(viol, Violation{"C06:concurrent-updates-regress-picture",
					fmt.Sprintf("updates %d and %d of %s arrived at the same time through two neighbours; afterwards the node's picture of %s is %v instead of %v", u.seq-1, u.seq, origin, origin, got, u.conns),
					map[string]any{"round": r, "origin": origin}})

				return nil, viol, "", r
			}
		}
	}

	raceEnd = col.Len()
	_ = ps[0].SendRoute(notice)
	if w := nlBarrier(col, vn, ps[0], 20*time.Second); w != "" {
		return nil, viol, "race node: barrier after the replayed notice: " + w, rounds
	}
	time.Sleep(50 * time.Millisecond)
	relayed := 0
	for _, f := range ps[1].Frames() {
		if f.RU != nil && f.RU.UpdateID == notice.UpdateID {
			relayed++
		}
	}
	if relayed != 1 {
		viol = append(viol, Violation{"C06:notice-relayed-again-after-many-updates",
			fmt.Sprintf("a duplicate-node notice handled before %d distinct updates was delivered again afterwards: the other neighbour received it %d times (once expected)", rounds*2*burst, relayed),
			map[string]any{"rounds": rounds}})
	}

	return nil, viol, "", rounds
}
