package main

import (
	"runtime"
	"sync/atomic"
	"time"

	"github.com/ansible/receptor/pkg/logger"
)

// Schedule perturbation without touching the code under test: pkg/logger calls a registered function at every
// log statement (whatever the level), i.e. at dozens of points inside the protocol goroutines. The function
// below yields or sleeps for a pseudo-random, seed-derived time at a fraction of those points, which widens
// the windows between critical sections (e.g. between an adjacency change and the flood that announces it).
var perturbCtr uint64

func installPerturbation(seed int64, every uint64, maxSleep time.Duration) {
	s := uint64(seed)*0x9E3779B97F4A7C15 + 1
	logger.RegisterLogger(func(_ int, _ string, _ ...interface{}) {
		n := atomic.AddUint64(&perturbCtr, 1)
		x := (n + s) * 0xBF58476D1CE4E5B9
		x ^= x >> 31
		if x%every != 0 {
			return
		}
		if (x>>8)%3 == 0 {
			runtime.Gosched()

			return
		}
		time.Sleep(time.Duration((x >> 16) % uint64(maxSleep)))
	})
}
