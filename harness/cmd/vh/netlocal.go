package main

import (
	"encoding/json"
	"flag"
	"fmt"
	"math/rand"
	"os"
	"sort"
	"sync"
	"time"

	"github.com/ansible/receptor/pkg/netceptor"
	"github.com/ansible/receptor/pkg/verifhook"
	"verif/harness/e1"
	"verif/harness/peer"
	"verif/harness/trace"
)

// C06 / C11 (post-establishment): a real node is driven by adversarial routing updates from scripted
// neighbours; what it does after every update is recorded as a trace that TLC validates against
// specs/NetLocalTrace.tla.

const nlSelf = "n1"
const nlSelfEpoch = 5 // symbolic epoch of the node in the spec

type nlUpdate struct {
	Node  string             `json:"node"`
	ID    string             `json:"id"`
	Epoch int64              `json:"epoch"`
	Seq   int64              `json:"seq"`
	Conns map[string]float64 `json:"conns"`
	Fwd   string             `json:"fwd"`
	Susp  int64              `json:"susp"`
}

type nlObs struct {
	RelayTo []string                      `json:"relayTo"`
	Known   map[string]map[string]float64 `json:"known"`
	Info    map[string][2]int64           `json:"info"`
	Conn    map[string]float64            `json:"conn"`
	Alive   bool                          `json:"alive"`
	Reject  bool                          `json:"reject"`
	DupOwn  int                           `json:"dupown"`
}

type nlEnd struct {
	OwnPlain       int                `json:"ownPlain"`
	OwnDup         int                `json:"ownDup"`
	Rebuilds       int                `json:"rebuilds"`
	Table          map[string]string  `json:"table"`
	Costs          map[string]float64 `json:"costs"`
	LastOwnConns   map[string]float64 `json:"lastOwnConns"`
	SessionsClosed int                `json:"sessionsClosed"`
}

type nlLine struct {
	Ev  string    `json:"ev"`
	Via string    `json:"via,omitempty"`
	U   *nlUpdate `json:"u,omitempty"`
	Obs any       `json:"obs,omitempty"`
}

type nlSegment struct {
	lines   []nlLine
	hook    []verifhook.Record
	viol    []Violation
	inconcl string
}

func init() { commands["netlocal"] = cmdNetLocal }

func evForNode(vn string, name string) func(verifhook.Record) bool {
	return func(r verifhook.Record) bool { return r["n"] == vn && r["ev"] == name }
}

func msgBody(r verifhook.Record) map[string]any {
	m, _ := r["msg"].(map[string]any)
	if m == nil {
		return nil
	}
	b, _ := m["body"].(map[string]any)

	return b
}

func cmdNetLocal(args []string) {
	fs := flag.NewFlagSet("netlocal", flag.ExitOnError)
	out := fs.String("out", "result.json", "result file")
	traceOut := fs.String("trace", "trace.ndjson", "trace file for TLC")
	hookOut := fs.String("hooktrace", "", "optional file for the raw hook events of all nodes")
	seed := fs.Int64("seed", 1, "seed")
	segments := fs.Int("segments", 40, "number of segments")
	steps := fs.Int("steps", 12, "steps per segment")
	par := fs.Int("par", 8, "segments run concurrently")
	raceRounds := fs.Int("race-rounds", 600, "rounds of the concurrent-updates scenario (0 = skip)")
	_ = fs.Parse(args)
	res := &Result{}
	defer res.write(*out)
	col := trace.Install()
	// first, alone and without schedule perturbation (it needs two session goroutines to run truly side by side)
	var raceHooks []verifhook.Record
	if *raceRounds > 0 {
		hooks, viol, inconcl, done := runNLRace(col, *seed, *raceRounds)
		if inconcl != "" {
			res.Inconclusive = append(res.Inconclusive, inconcl)
		}
		for _, v := range viol {
			res.violate(v.Sig, v.What, v.Replay)
		}
		raceHooks = hooks
		res.count("race_rounds")
		res.Counters["race_rounds"] = done
	}
	installPerturbation(*seed, 8, 300*time.Microsecond)

	segs := make([]*nlSegment, *segments)
	sem := make(chan struct{}, *par)
	var wg sync.WaitGroup
	for i := 0; i < *segments; i++ {
		wg.Add(1)
		sem <- struct{}{}
		go func(i int) {
			defer wg.Done()
			defer func() { <-sem }()
			segs[i] = runNLSegment(col, rand.New(rand.NewSource(*seed*100003+int64(i))), *steps, i)
		}(i)
	}
	wg.Wait()
	f, err := os.Create(*traceOut)
	if err != nil {
		res.Inconclusive = append(res.Inconclusive, err.Error())

		return
	}
	enc := json.NewEncoder(f)
	distinct := map[string]bool{}
	allHooks := raceHooks
	for _, s := range segs {
		if s.inconcl != "" {
			res.Inconclusive = append(res.Inconclusive, s.inconcl)

			continue
		}
		for _, v := range s.viol {
			res.violate(v.Sig, v.What, v.Replay)
		}
		for _, l := range s.lines {
			_ = enc.Encode(l)
			if l.Ev == "step" {
				res.Evaluations++
				b, _ := json.Marshal(l.U)
				distinct[l.Via+string(b)] = true
			}
		}
		allHooks = append(allHooks, s.hook...)
	}
	f.Close()
	res.Distinct = len(distinct)
	if *hookOut != "" {
		_ = trace.WriteNDJSON(*hookOut, allHooks)
	}
	if len(segs) > 0 && len(segs[0].lines) > 3 {
		res.Samples = append(res.Samples, segs[0].lines[1:4])
	}
	res.TraceFiles = []string{*traceOut}
}

var nlConnPool = []map[string]float64{
	{}, {"n1": 1}, {"n1": 1, "x": 1}, {"p1": 1}, {"p1": 1, "p2": 1}, {"x": 1}, {"n1": 1, "p2": 1, "x": 1},
	{"n1": 2}, {"n1": 1, "x": 3}, {"y": 1, "x": 2}, {"p3": 1, "y": 1},
}

func copyConns(m map[string]float64) map[string]float64 {
	c := map[string]float64{}
	for k, v := range m {
		c[k] = v
	}

	return c
}

func runNLSegment(col *trace.Collector, rng *rand.Rand, steps int, idx int) *nlSegment {
	seg := &nlSegment{}
	opts := e1.Opts{}
	expiring := idx%3 == 2 // every third segment: ids age out of the seen table quickly
	if expiring {
		opts.SeenExpire = 200 * time.Millisecond
	}
	n, err := e1.NewNode(nlSelf, opts)
	if err != nil {
		seg.inconcl = err.Error()

		return seg
	}
	defer n.Stop()
	vn := n.N.VerifName()
	realEpoch := n.N.VerifSnapshot().Epoch
	hookStart := col.Len()
	defer func() {
		for _, r := range col.Since(hookStart) {
			if r["n"] == vn {
				seg.hook = append(seg.hook, r)
			}
		}
	}()
	toReal := func(e int64) uint64 { // symbolic -> real epoch for values that refer to the node's own epoch
		return uint64(int64(realEpoch) + (e - nlSelfEpoch))
	}
	peers := map[string]*peer.Peer{}
	names := []string{"p1", "p2", "p3"}
	for _, pn := range names {
		p, err := n.Attach(pn)
		if err != nil {
			seg.inconcl = "attach: " + err.Error()

			return seg
		}
		peers[pn] = p
		_ = p.SendRoute(peer.RoutingUpdate{NodeID: pn, UpdateID: "hs0-" + pn, UpdateEpoch: 1, UpdateSequence: 0, Connections: map[string]float64{}, ForwardingNode: pn})
		_ = p.SendRoute(peer.RoutingUpdate{NodeID: pn, UpdateID: "hs-" + pn, UpdateEpoch: 1, UpdateSequence: 1, Connections: map[string]float64{nlSelf: 1}, ForwardingNode: pn})
		if err := nlBarrier(col, vn, p, 20*time.Second); err != "" {
			seg.inconcl = "setup barrier: " + err

			return seg
		}
	}
	seg.lines = append(seg.lines, nlLine{Ev: "reset"})
	live := func() []string {
		var l []string
		for _, pn := range names {
			if !peers[pn].EOF() && n.N.VerifSnapshot().Conns[pn] != 0 {
				l = append(l, pn)
			}
		}

		return l
	}
	var history []struct {
		via string
		u   nlUpdate
	}
	idn := 0
	freshID := func() string { idn++; return fmt.Sprintf("s%d-%d", idx, idn) }
	baseline := -1

	barrierIdx := 0 // collector index just after the last step's barrier
	doStep := func(via string, u nlUpdate) bool {
		p := peers[via]
		ev0 := col.Len()
		f0 := map[string]int{}
		for _, pn := range names {
			f0[pn] = peers[pn].Count()
		}
		ru := peer.RoutingUpdate{NodeID: u.Node, UpdateID: u.ID, UpdateEpoch: uint64(u.Epoch), UpdateSequence: uint64(u.Seq),
			Connections: u.Conns, ForwardingNode: u.Fwd, SuspectedDuplicate: uint64(u.Susp)}
		if u.Node == nlSelf {
			ru.UpdateEpoch = toReal(u.Epoch)
		}
		if u.Susp == nlSelfEpoch {
			ru.SuspectedDuplicate = realEpoch
		}
		_ = p.SendRoute(ru)
		if err := nlBarrier(col, vn, p, 20*time.Second); err != "" {
			seg.inconcl = "barrier: " + err

			return false
		}
		barrierIdx = col.Len()
		evs := col.Since(ev0)
		announced := map[string]bool{}
		dupown := 0
		rejected := false
		for _, e := range evs {
			if e["n"] != vn {
				continue
			}
			switch e["ev"] {
			case "flood":
				b := msgBody(e)
				if e["mtype"] == 1 && b != nil && b["NodeID"] == u.Node && b["UpdateID"] == u.ID && u.Node != nlSelf {
					for _, t := range e["targets"].([]string) {
						announced[t] = true
					}
				}
			case "mk_update":
				if s, _ := e["susp"].(uint64); s != 0 {
					dupown++
				}
			case "reject":
				rejected = true
			}
		}
		match := func(f peer.Frame) bool {
			return f.RU != nil && f.RU.NodeID == u.Node && f.RU.UpdateID == u.ID && f.RU.NodeID != nlSelf
		}
		for t := range announced {
			if _, f := peers[t].WaitFrame(f0[t], 15*time.Second, match); f == nil && !peers[t].EOF() {
				seg.inconcl = "announced relay frame did not arrive"

				return false
			}
		}
		if rejected {
			if !p.WaitEOF(15 * time.Second) {
				seg.inconcl = "rejected session did not close"

				return false
			}
		}
		obs := nlObs{RelayTo: []string{}, Alive: true, Reject: rejected, DupOwn: dupown}
		for _, pn := range names {
			for _, f := range peers[pn].Frames()[f0[pn]:] {
				if match(f) {
					obs.RelayTo = append(obs.RelayTo, pn)
					want := ru
					want.ForwardingNode = nlSelf
					gb, _ := json.Marshal(f.RU)
					wb, _ := json.Marshal(want)
					if string(gb) != string(wb) {
						seg.viol = append(seg.viol, Violation{"C06:relay-frame-altered",
							fmt.Sprintf("update relayed to %s differs from the received one beyond ForwardingNode: got %s want %s", pn, gb, wb),
							map[string]any{"via": via, "u": u}})
					}
				}
			}
		}
		sort.Strings(obs.RelayTo)
		select {
		case <-n.N.NetceptorDone():
			obs.Alive = false
		default:
		}
		snap := n.N.VerifSnapshot()
		obs.Conn = snap.Conns
		obs.Known = snap.Known
		obs.Info = map[string][2]int64{}
		for k, v := range snap.Info {
			obs.Info[k] = [2]int64{int64(v[0]), int64(v[1])}
		}
		uu := u
		seg.lines = append(seg.lines, nlLine{Ev: "step", Via: via, U: &uu, Obs: obs})
		history = append(history, struct {
			via string
			u   nlUpdate
		}{via, u})

		return true
	}
	waitOwnAndRebuild := func(from int, d time.Duration) bool {
		_, ok1 := col.WaitFor(from, d, func(r verifhook.Record) bool {
			s, _ := r["susp"].(uint64)

			return r["n"] == vn && r["ev"] == "mk_update" && s == 0
		})
		_, ok2 := col.WaitFor(from, d, evForNode(vn, "rebuild"))

		return ok1 && ok2
	}
	// settle: a sentinel update from a fresh origin requests one own update and one rebuild; once BOTH have been
	// seen after the sentinel's barrier, everything requested earlier has been flushed too. The run that serves
	// the request can, rarely, start between the request and the barrier; then nothing follows the barrier and
	// another sentinel is sent (each sentinel is an ordinary step of the trace).
	sentinels := 0
	settle := func(tag string) (int, bool) {
		for try := 0; try < 20; try++ {
			l := live()
			if len(l) == 0 {
				return 0, false
			}
			sentinels++
			if !doStep(l[0], nlUpdate{Node: fmt.Sprintf("%s%d", tag, sentinels), ID: freshID(), Epoch: 1, Seq: 1, Conns: map[string]float64{"p1": 1}, Fwd: l[0]}) {
				return 0, false
			}
			at := barrierIdx
			if waitOwnAndRebuild(at, 1500*time.Millisecond) {
				return at, true
			}
		}
		seg.inconcl = "no own update / rebuild after 20 sentinels (" + tag + ")"

		return 0, false
	}
	{
		if len(live()) == 0 {
			seg.inconcl = "no live session after set-up"

			return seg
		}
		at, ok := settle("zza")
		if !ok {
			if seg.inconcl == "" {
				seg.inconcl = "set-up did not settle"
			}

			return seg
		}
		baseline = at
	}
	for s := 0; s < steps; s++ {
		select {
		case <-n.N.NetceptorDone():
			s = steps

			continue
		default:
		}
		l := live()
		if len(l) == 0 {
			break
		}
		if expiring && rng.Intn(4) == 0 {
			// wait until every id has aged out, then go on (replays of already relayed updates follow)
			dl := time.Now().Add(30 * time.Second)
			for n.N.VerifSnapshot().SeenCount > 0 {
				if time.Now().After(dl) {
					seg.inconcl = "seen table did not expire"

					return seg
				}
				time.Sleep(20 * time.Millisecond)
			}
			seg.lines = append(seg.lines, nlLine{Ev: "expire"})
		}
		via := l[rng.Intn(len(l))]
		u := nlUpdate{Fwd: via, ID: freshID(), Epoch: int64(1 + rng.Intn(2)), Seq: int64(1 + rng.Intn(3)), Conns: copyConns(nlConnPool[rng.Intn(len(nlConnPool))])}
		k := rng.Intn(100)
		switch {
		case k < 35: // remote origin
			u.Node = []string{"x", "y", "zk"}[rng.Intn(3)]
		case k < 55: // neighbour origin
			u.Node = via
			switch r := rng.Intn(10); {
			case r < 6:
				u.Conns = copyConns(nlConnPool[rng.Intn(len(nlConnPool))])
				u.Conns[nlSelf] = 1
			case r < 7:
				delete(u.Conns, nlSelf)
			case r < 8:
				u.Conns[nlSelf] = 2
			default:
				u.Node = names[rng.Intn(3)]
			}
		case k < 70: // self origin
			u.Node = nlSelf
			u.Epoch = int64(4 + rng.Intn(3))
			u.Susp = []int64{0, 0, nlSelfEpoch, 1}[rng.Intn(4)]
		case k < 83: // suspected-duplicate notice
			u.Node = []string{"x", "y", via, "zk"}[rng.Intn(4)]
			u.Susp = []int64{1, 2, nlSelfEpoch}[rng.Intn(3)]
			if u.Node == via {
				u.Conns[nlSelf] = 1
			}
		case k < 95 && len(history) > 0: // replay or stale variant of an earlier update
			h := history[rng.Intn(len(history))]
			u = h.u
			u.Conns = copyConns(h.u.Conns)
			u.Fwd = via
			switch rng.Intn(4) {
			case 0: // exact replay (same id)
			case 1: // same content, fresh id
				u.ID = freshID()
			case 2: // fresh id, older sequence
				u.ID = freshID()
				if u.Seq > 1 {
					u.Seq--
				}
			case 3: // fresh id, newer sequence, different adjacency
				u.ID = freshID()
				u.Seq++
				u.Conns = copyConns(nlConnPool[rng.Intn(len(nlConnPool))])
				if u.Node == via {
					u.Conns[nlSelf] = 1
				}
			}
			if u.Node == via {
				if _, ok := u.Conns[nlSelf]; !ok && rng.Intn(3) > 0 {
					u.Conns[nlSelf] = 1
				}
			}
		default: // forged forwarder
			u.Node = []string{"x", via}[rng.Intn(2)]
			others := []string{}
			for _, pn := range names {
				if pn != via {
					others = append(others, pn)
				}
			}
			u.Fwd = others[rng.Intn(len(others))]
		}
		if !doStep(via, u) {
			return seg
		}
	}
	// closing sentinel(s)
	select {
	case <-n.N.NetceptorDone():
		return seg
	default:
	}
	if len(live()) == 0 {
		return seg
	}
	if _, ok := settle("zzb"); !ok {
		if seg.inconcl == "" { // the last session went away meanwhile: no end line for this segment
			return seg
		}

		return seg
	}
	time.Sleep(20 * time.Millisecond)
	end := nlEnd{Table: n.N.Status().RoutingTable, Costs: map[string]float64{}, LastOwnConns: map[string]float64{}}
	lastSeq := uint64(0)
	for _, e := range col.Since(baseline) {
		if e["n"] != vn {
			continue
		}
		switch e["ev"] {
		case "mk_update":
			if s, _ := e["susp"].(uint64); s == 0 {
				end.OwnPlain++
				end.LastOwnConns = e["conns"].(map[string]float64)
			} else {
				end.OwnDup++
			}
			sq, _ := e["seq"].(uint64)
			if lastSeq != 0 && sq != lastSeq+1 {
				seg.viol = append(seg.viol, Violation{"C06:own-sequence-not-consecutive", fmt.Sprintf("own update sequence went from %d to %d", lastSeq, sq), nil})
			}
			lastSeq = sq
		case "rebuild":
			end.Rebuilds++
		}
	}
	for d := range end.Table {
		c, err := n.N.PathCost(d)
		if err == nil {
			end.Costs[d] = c
		}
	}
	for _, pn := range names {
		if peers[pn].EOF() {
			end.SessionsClosed++
		}
	}
	seg.lines = append(seg.lines, nlLine{Ev: "end", Obs: end})
	_ = netceptor.MsgTypeRoute

	return seg
}

// nlBarrier sends the marker on p's session and waits until the node has taken it from the session's
// read channel or the session has ended; returns "" on success.
// The end-of-session event may already be in the past (the node emits it just before it closes the link, so
// a marker can still be pushed successfully into a session that will never read it): every sess_end of this
// session since its own sess_start counts, while only a marker received after this call counts.
func nlBarrier(col *trace.Collector, vn string, p *peer.Peer, timeout time.Duration) string {
	label := fmt.Sprintf("%p", p.Pipe.A)
	markerFrom := col.Len()
	start := col.SessStart(vn, label)
	_ = p.SendRaw(peer.Marker)
	idx := start - 1
	_, ok := col.WaitFor(start, timeout, func(r verifhook.Record) bool {
		idx++
		if r["n"] != vn || r["sess"] != label {
			return false
		}
		if r["ev"] == "sess_end" {
			return true
		}
		if r["ev"] != "recv" || idx < markerFrom {
			return false
		}
		m, _ := r["msg"].(map[string]any)
		t, _ := m["type"].(int)

		return m != nil && t == 0x7F && m["len"] == 1
	})
	if !ok {
		return "timeout"
	}

	return ""
}
