package main

import (
	"fmt"
	"time"

	"github.com/ansible/receptor/pkg/verifhook"
	"verif/harness/e1"
	"verif/harness/peer"
	"verif/harness/trace"
)

// runAdmitIdleScenario (C11, one session per ID across an idle time-out): an established session's protocol loop is
// blocked (it is handing a datagram to a local socket nobody reads), so nothing is received from the peer any more and
// the idle monitor cancels the session - which cannot end before the loop is released. Admit.tla: the connection is
// listed exactly as long as its session is open (ConnIffOpenSession), so a second session announcing the same ID in
// that window is refused as already connected; once the first has ended, the ID is admitted again and listed.
func runAdmitIdleScenario(col *trace.Collector) (hooks []verifhook.Record, viol []Violation, inconcl string) {
	h0 := col.Len()
	n, err := e1.NewNode("n1", e1.Opts{MaxIdle: 1200 * time.Millisecond})
	if err != nil {
		return nil, nil, err.Error()
	}
	defer n.Stop()
	vn := n.N.VerifName()
	defer func() {
		for _, r := range col.Since(h0) {
			if r["n"] == vn {
				hooks = append(hooks, r)
			}
		}
	}()
	sink, err := n.N.ListenPacket("sink")
	if err != nil {
		return nil, nil, err.Error()
	}
	defer sink.Close()
	outcome := func(p *peer.Peer, wait time.Duration) string {
		label := fmt.Sprintf("%p", p.Pipe.A)
		o := ""
		_, _ = col.WaitFor(col.SessStart(vn, label), wait, func(r verifhook.Record) bool {
			if r["n"] != vn || r["sess"] != label {
				return false
			}
			switch r["ev"] {
			case "reject":
				o = "rejected"
			case "conn_add":
				o = "admitted"
			}

			return o != ""
		})

		return o
	}
	hello := func(p *peer.Peer, k int) {
		_ = p.SendRoute(peer.RoutingUpdate{NodeID: "pI", UpdateID: fmt.Sprintf("idle-%d-0", k), UpdateEpoch: 7, UpdateSequence: uint64(10 * k), Connections: map[string]float64{}, ForwardingNode: "pI"})
	}
	listed := func() bool { _, ok := n.N.VerifSnapshot().Conns["pI"]; return ok }
	p1, err := n.Attach("pI")
	if err != nil {
		return nil, nil, err.Error()
	}
	hello(p1, 1)
	if outcome(p1, 20*time.Second) != "admitted" {
		return nil, nil, "idle scenario: first session not admitted"
	}
	_ = p1.SendRoute(peer.RoutingUpdate{NodeID: "pI", UpdateID: "idle-1-1", UpdateEpoch: 7, UpdateSequence: 11, Connections: map[string]float64{"n1": 1}, ForwardingNode: "pI"})
	if w := nlBarrier(col, vn, p1, 20*time.Second); w != "" {
		return nil, nil, "idle scenario: barrier: " + w
	}
	// the loop blocks: a datagram for a local socket that nobody reads
	from := col.Len()
	_ = p1.SendRaw(peer.EncodeData(5, "pI", "n1", "src", "sink", []byte("x")))
	if _, ok := col.WaitFor(from, 20*time.Second, func(r verifhook.Record) bool { return r["n"] == vn && r["ev"] == "dp_begin" }); !ok {
		return nil, nil, "idle scenario: the datagram never reached the hand-over"
	}
	if _, ok := col.WaitFor(from, 25*time.Second, func(r verifhook.Record) bool {
		return r["n"] == vn && r["ev"] == "idle_timeout" && r["peer"] == "pI"
	}); !ok {
		return nil, nil, "idle scenario: the idle monitor never cancelled the blocked session"
	}
	time.Sleep(50 * time.Millisecond)
	// the same ID knocks while the first session has not ended
	p2, err := n.Attach("pI")
	if err != nil {
		return nil, nil, err.Error()
	}
	hello(p2, 2)
	o2 := outcome(p2, 10*time.Second)
	if o2 == "admitted" {
		viol = append(viol, Violation{"C11:second-session-admitted-while-first-open",
			"a session announcing an ID was admitted while the earlier session of that ID had not ended (its loop was blocked and the idle monitor had cancelled it)", map[string]any{"scenario": "idle"}})
	} else if o2 != "rejected" {
		return nil, viol, "idle scenario: second session neither admitted nor rejected"
	}
	// release the first loop: the socket's owner finally reads
	go func() {
		buf := make([]byte, 64)
		_, _, _ = sink.ReadFrom(buf)
	}()
	l1 := fmt.Sprintf("%p", p1.Pipe.A)
	if _, ok := col.WaitFor(h0, 20*time.Second, func(r verifhook.Record) bool { return r["n"] == vn && r["ev"] == "sess_end" && r["sess"] == l1 }); !ok {
		return nil, viol, "idle scenario: the first session did not end after its loop was released"
	}
	time.Sleep(100 * time.Millisecond)
	if o2 == "admitted" && !p2.EOF() {
		_ = p2.SendRoute(peer.RoutingUpdate{NodeID: "pI", UpdateID: "idle-2-1", UpdateEpoch: 7, UpdateSequence: 21, Connections: map[string]float64{"n1": 1}, ForwardingNode: "pI"})
		_ = nlBarrier(col, vn, p2, 10*time.Second)
		if !p2.EOF() && !listed() {
			viol = append(viol, Violation{"C11:established-session-not-listed",
				"a session is open and established but the node lists no connection for its ID (an earlier session of that ID removed the entry when it ended)", map[string]any{"scenario": "idle"}})
		}
	}
	// now the ID must be admissible again, exactly once
	p3, err := n.Attach("pI")
	if err != nil {
		return nil, viol, err.Error()
	}
	hello(p3, 3)
	o3 := outcome(p3, 10*time.Second)
	switch {
	case o3 == "admitted" && o2 == "admitted" && !p2.EOF():
		viol = append(viol, Violation{"C11:two-admitted-sessions-one-id", "two sessions announcing one ID are open and admitted at the same time (after an idle time-out of a blocked session)", map[string]any{"scenario": "idle"}})
	case o3 != "admitted" && (o2 != "admitted" || p2.EOF()):
		viol = append(viol, Violation{"C11:returning-peer-refused-after-idle-timeout", "after the timed-out session had ended, a new session of the same ID was not admitted (" + o3 + ")", map[string]any{"scenario": "idle"}})
	}
	if o3 == "admitted" {
		_ = p3.SendRoute(peer.RoutingUpdate{NodeID: "pI", UpdateID: "idle-3-1", UpdateEpoch: 7, UpdateSequence: 31, Connections: map[string]float64{"n1": 1}, ForwardingNode: "pI"})
		_ = nlBarrier(col, vn, p3, 10*time.Second)
	}
	if _, ok := col.WaitFor(col.Len()-1, 3*time.Second, evForNode(vn, "rebuild")); !ok {
		_ = ok
	}
	time.Sleep(300 * time.Millisecond)
	st := n.N.Status()
	costs := map[string]float64{}
	for d := range st.RoutingTable {
		if c, err := n.N.PathCost(d); err == nil {
			costs[d] = c
		}
	}
	cm := map[string]float64{}
	for _, c := range st.Connections {
		cm[c.NodeID] = c.Cost
	}
	verifhook.Emit(vn, "h_status", "conns", cm, "table", st.RoutingTable, "costs", costs, "known", st.KnownConnectionCosts)

	return nil, viol, ""
}

// runAdmitLastPeerScenario (C11): the node's ONLY neighbour is established and routed to, then disagrees about the
// link cost (variant 0) or simply goes away (variant 1). Admit.tla NoEdgeLeftBehind: the rejected / ended session leaves
// no connection, no adjacency edge and hence no route behind - also when nothing else is connected.
func runAdmitLastPeerScenario(col *trace.Collector, variant int) (hooks []verifhook.Record, viol []Violation, inconcl string) {
	h0 := col.Len()
	n, err := e1.NewNode("n1", e1.Opts{})
	if err != nil {
		return nil, nil, err.Error()
	}
	defer n.Stop()
	vn := n.N.VerifName()
	defer func() {
		for _, r := range col.Since(h0) {
			if r["n"] == vn {
				hooks = append(hooks, r)
			}
		}
	}()
	p, err := n.Attach("pl")
	if err != nil {
		return nil, nil, err.Error()
	}
	if err := p.Handshake("n1", 1, nil); err != nil {
		return nil, nil, "last-peer scenario: handshake: " + err.Error()
	}
	if !n.WaitTable(map[string]string{"pl": "pl"}, 20*time.Second) {
		return nil, nil, "last-peer scenario: the only neighbour never became a route"
	}
	what := "was rejected (cost mismatch)"
	if variant == 2 {
		// a one-way transport fault: everything the node sends on this session fails, the peer keeps talking. A
		// session that can no longer send is over (protoWriter cancels it), so it must end and leave nothing behind.
		what = "could no longer be sent to (every Send fails, receives still work)"
		p.Pipe.AB.SetSendError(true)
		px, err := n.Attach("px")
		if err != nil {
			return nil, nil, err.Error()
		}
		if err := px.Handshake("n1", 1, nil); err != nil { // makes the node flood an own update to every neighbour
			return nil, nil, "last-peer scenario: second handshake: " + err.Error()
		}
		_ = p.SendRoute(peer.RoutingUpdate{NodeID: "pl", UpdateID: "last-2-keepalive", UpdateEpoch: p.Epoch, UpdateSequence: 60, Connections: map[string]float64{"n1": 1}, ForwardingNode: "pl"})
		if !p.WaitEOF(20 * time.Second) {
			viol = append(viol, Violation{"C11:session-survives-send-failure",
				"every Send on an established session fails (the peer still sends), the node had to flood an update to it, and 20 s later the session is still open and listed", map[string]any{"scenario": "last-peer", "variant": variant}})

			return nil, viol, ""
		}
		dl := time.Now().Add(15 * time.Second)
		for {
			_, still := n.N.VerifSnapshot().Conns["pl"]
			_, routed := n.N.Status().RoutingTable["pl"]
			if !still && !routed {
				break
			}
			if time.Now().After(dl) {
				viol = append(viol, Violation{"C11:route-left-behind-after-send-failure", "the session that could no longer send ended, but its peer is still listed or routed 15 s later", map[string]any{"scenario": "last-peer", "variant": variant}})

				break
			}
			time.Sleep(10 * time.Millisecond)
		}

		return nil, viol, ""
	}
	if variant == 0 {
		_ = p.SendRoute(peer.RoutingUpdate{NodeID: "pl", UpdateID: fmt.Sprintf("last-%d", variant), UpdateEpoch: p.Epoch, UpdateSequence: 50, Connections: map[string]float64{"n1": 3}, ForwardingNode: "pl"})
	} else {
		what = "went away"
		p.Close()
	}
	if !p.WaitEOF(20 * time.Second) {
		return nil, nil, "last-peer scenario: the session did not end"
	}
	dl := time.Now().Add(15 * time.Second)
	for {
		st := n.N.Status()
		if len(st.RoutingTable) == 0 && len(st.Connections) == 0 {
			break
		}
		if time.Now().After(dl) {
			viol = append(viol, Violation{"C11:route-left-behind-after-last-connection",
				fmt.Sprintf("the node's only neighbour %s; 15 s later the node still has connections %v and routes %v", what, st.Connections, st.RoutingTable),
				map[string]any{"scenario": "last-peer", "variant": variant}})

			break
		}
		time.Sleep(10 * time.Millisecond)
	}
	st := n.N.Status()
	costs := map[string]float64{}
	for d := range st.RoutingTable {
		if c, err := n.N.PathCost(d); err == nil {
			costs[d] = c
		}
	}
	cm := map[string]float64{}
	for _, c := range st.Connections {
		cm[c.NodeID] = c.Cost
	}
	verifhook.Emit(vn, "h_status", "conns", cm, "table", st.RoutingTable, "costs", costs, "known", st.KnownConnectionCosts)

	return nil, viol, ""
}
