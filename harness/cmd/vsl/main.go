// Command vsl drives REAL Netceptor nodes through the life of backend sessions (establishment, initial-connect
// re-sends, keep-alive, silent links, idle cuts, closes, redials with backoff, listener restarts, Shutdown and
// CancelBackends in every phase) and records their verifhook events, which checks/x_sessionlife.py validates with
// TLC against specs/SessionLifeTrace.tla.  The driver itself only reports what no node trace can show (a wait whose
// ceiling was hit is inconclusive, never a violation).
package main

import (
	"encoding/json"
	"flag"
	"fmt"
	"math/rand"
	"os"
	"sort"
	"strings"
	"sync"
	"time"

	"github.com/ansible/receptor/pkg/logger"
	"github.com/ansible/receptor/pkg/verifhook"
)

// Violation is one observed departure of the real code from the specification.
type Violation struct {
	Sig    string `json:"sig"`
	What   string `json:"what"`
	Replay any    `json:"replay"`
}

// Result is what the command writes.
type Result struct {
	Evaluations  int            `json:"evaluations"`
	Distinct     int            `json:"distinct"`
	Violations   []Violation    `json:"violations"`
	Inconclusive []string       `json:"inconclusive"`
	Samples      []any          `json:"samples"`
	Counters     map[string]int `json:"counters"`
	Notes        []string       `json:"notes"`
}

func (r *Result) write(path string) {
	if r.Violations == nil {
		r.Violations = []Violation{}
	}
	b, _ := json.MarshalIndent(r, "", " ")
	if err := os.WriteFile(path, b, 0o644); err != nil {
		fmt.Fprintln(os.Stderr, "cannot write result:", err)
		os.Exit(3)
	}
}

// ---------------------------------------------------------------- event collector (time-stamping sink)

type collector struct {
	mu     sync.Mutex
	cond   *sync.Cond
	recs   []verifhook.Record
	start  time.Time
	wgOf   map[string]string // dialer/listener label -> wait-group label
	nodeOf map[string]string // wait-group label -> node instance label
}

func install() *collector {
	c := &collector{start: time.Now(), wgOf: map[string]string{}, nodeOf: map[string]string{}}
	c.cond = sync.NewCond(&c.mu)
	verifhook.SetSink(func(r verifhook.Record) {
		c.mu.Lock()
		r["t"] = time.Since(c.start).Milliseconds()
		ev, _ := r["ev"].(string)
		switch ev {
		case "node_wg":
			wg, _ := r["wg"].(string)
			n, _ := r["n"].(string)
			c.nodeOf[wg] = n
		case "dialer_start", "listener_start":
			d, _ := r["d"].(string)
			wg, _ := r["wg"].(string)
			c.wgOf[d] = wg
		}
		if r["n"] == "backend" {
			d, _ := r["d"].(string)
			r["owner"] = c.nodeOf[c.wgOf[d]]
		}
		c.recs = append(c.recs, r)
		c.cond.Broadcast()
		c.mu.Unlock()
	})

	return c
}

func (c *collector) length() int {
	c.mu.Lock()
	defer c.mu.Unlock()

	return len(c.recs)
}

func (c *collector) since(from int) []verifhook.Record {
	c.mu.Lock()
	defer c.mu.Unlock()
	if from > len(c.recs) {
		from = len(c.recs)
	}

	return append([]verifhook.Record(nil), c.recs[from:]...)
}

// waitFor blocks until an event at index >= from satisfies pred (returns its index+1, the event, true) or the timeout expires.
func (c *collector) waitFor(from int, timeout time.Duration, pred func(verifhook.Record) bool) (int, verifhook.Record, bool) {
	deadline := time.Now().Add(timeout)
	c.mu.Lock()
	defer c.mu.Unlock()
	i := from
	for {
		for ; i < len(c.recs); i++ {
			if pred(c.recs[i]) {
				return i + 1, c.recs[i], true
			}
		}
		rem := time.Until(deadline)
		if rem <= 0 {
			return len(c.recs), nil, false
		}
		t := time.AfterFunc(rem, func() {
			c.mu.Lock()
			c.cond.Broadcast()
			c.mu.Unlock()
		})
		c.cond.Wait()
		t.Stop()
	}
}

func str(r verifhook.Record, k string) string {
	s, _ := r[k].(string)

	return s
}

func num(r verifhook.Record, k string) int64 {
	switch v := r[k].(type) {
	case int:
		return int64(v)
	case int64:
		return v
	case uint64:
		return int64(v)
	case float64:
		return int64(v)
	}

	return 0
}

// owner returns the node instance an event belongs to (backend-loop events carry it in "owner").
func owner(r verifhook.Record) string {
	if r["n"] == "backend" {
		return str(r, "owner")
	}

	return str(r, "n")
}

// ---------------------------------------------------------------- main

var allKinds = []string{"tcp_silent", "tcp_cut", "tcp_shutdown", "tcp_cancel", "tcp_listener_restart", "tcp_two_links",
	"mem_silent_start", "mem_reject_trailing", "mem_pair_silent", "mem_pair_oneway", "mem_pair_hold", "mem_phase_cancel"}

func main() {
	out := flag.String("out", "result.json", "result file")
	hookOut := flag.String("hooktrace", "hooks.ndjson", "raw hook events of all scenarios")
	seed := flag.Int64("seed", 1, "seed")
	scenarios := flag.Int("scenarios", 16, "number of scenarios")
	par := flag.Int("par", 16, "parallel scenarios")
	kinds := flag.String("kinds", "", "comma separated scenario kinds (default: all, round robin)")
	flag.String("serial", "gate_remove_race", "comma separated scenario kinds run one by one after the others (they hold process-wide gates)")
	flag.Parse()
	if os.Getenv("VERIF_DEBUG") == "" {
		logger.SetGlobalQuietMode()
	}
	res := &Result{Counters: map[string]int{}}
	defer res.write(*out)
	col := install()
	ks := allKinds
	if *kinds != "" {
		ks = strings.Split(*kinds, ",")
	}
	serial := flag.Lookup("serial").Value.String()
	var sk []string
	if serial != "" {
		sk = strings.Split(serial, ",")
	}
	scs := make([]*scen, *scenarios+len(sk))
	sem := make(chan struct{}, *par)
	var wg sync.WaitGroup
	for i := 0; i < *scenarios; i++ {
		wg.Add(1)
		sem <- struct{}{}
		go func(i int) {
			defer wg.Done()
			defer func() { <-sem }()
			sc := &scen{kind: ks[i%len(ks)], idx: i, col: col, rng: rand.New(rand.NewSource(*seed*7919 + int64(i))), desc: map[string]any{}, labels: map[string]bool{}}
			sc.desc["kind"] = sc.kind
			sc.desc["idx"] = i
			scs[i] = sc
			func() {
				defer func() {
					if p := recover(); p != nil {
						if _, ok := p.(stop); !ok {
							panic(p)
						}
					}
					sc.finish()
				}()
				sc.run()
			}()
		}(i)
	}
	wg.Wait()
	for k, kind := range sk {
		i := *scenarios + k
		sc := &scen{kind: kind, idx: i, col: col, rng: rand.New(rand.NewSource(*seed*7919 + int64(i))), desc: map[string]any{"kind": kind, "idx": i}, labels: map[string]bool{}}
		scs[i] = sc
		func() {
			defer func() {
				if p := recover(); p != nil {
					if _, ok := p.(stop); !ok {
						panic(p)
					}
				}
				sc.finish()
			}()
			sc.run()
		}()
	}
	f, err := os.Create(*hookOut)
	if err != nil {
		res.Inconclusive = append(res.Inconclusive, err.Error())

		return
	}
	defer f.Close()
	enc := json.NewEncoder(f)
	distinct := map[string]bool{}
	for _, sc := range scs {
		for _, v := range sc.viol {
			if len(res.Violations) < 100 {
				res.Violations = append(res.Violations, v)
			}
		}
		if sc.inconcl != "" {
			// its trace is still a valid prefix (the end-of-scenario obligations hang on h_quiet / h_end, which it lacks)
			res.Inconclusive = append(res.Inconclusive, fmt.Sprintf("scenario %d (%s): %s", sc.idx, sc.kind, sc.inconcl))
			res.Counters["inconclusive:"+sc.kind]++
			for _, r := range sc.events() {
				r["sc"] = sc.idx
				_ = enc.Encode(r)
			}

			continue
		}
		res.Evaluations++
		res.Counters["kind:"+sc.kind]++
		keys := []string{}
		for k, v := range sc.desc {
			if k != "idx" && k != "ms" {
				keys = append(keys, fmt.Sprintf("%s=%v", k, v))
			}
		}
		sort.Strings(keys)
		distinct[strings.Join(keys, ",")] = true
		if len(res.Samples) < 4 {
			res.Samples = append(res.Samples, sc.desc)
		}
		for _, r := range sc.events() {
			r["sc"] = sc.idx
			_ = enc.Encode(r)
		}
		for k, n := range sc.counters {
			res.Counters[k] += n
		}
	}
	res.Distinct = len(distinct)
}
