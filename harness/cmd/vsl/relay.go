package main

import (
	"fmt"
	"net"
	"sync"
	"time"
)

// relay is a harness-owned TCP forwarder between a real TCP dialer backend and a real TCP listener backend.
// It can go silent (a black hole: both directions are read and discarded, closes are not passed on), cut every
// connection, refuse connections (listening socket closed) and come back on the same address.
type relay struct {
	mu       sync.Mutex
	ln       net.Listener
	addr     string
	target   string
	silent   bool
	pairs    []*pair
	closed   bool
	Accepted int
}

type pair struct {
	r        *relay
	cl, up   net.Conn
	silenced bool
	once     sync.Once
}

func newRelay(target string) (*relay, error) {
	r := &relay{target: target}
	ln, err := net.Listen("tcp", "127.0.0.1:0")
	if err != nil {
		return nil, err
	}
	r.ln = ln
	r.addr = ln.Addr().String()
	go r.serve(ln)

	return r, nil
}

func (r *relay) serve(ln net.Listener) {
	for {
		c, err := ln.Accept()
		if err != nil {
			return
		}
		r.mu.Lock()
		r.Accepted++
		p := &pair{r: r, cl: c, silenced: r.silent}
		target := r.target
		r.pairs = append(r.pairs, p)
		r.mu.Unlock()
		if p.silenced {
			go p.pump(c, nil)

			continue
		}
		up, err := net.DialTimeout("tcp", target, 2*time.Second)
		if err != nil {
			_ = c.Close()

			continue
		}
		r.mu.Lock()
		p.up = up
		r.mu.Unlock()
		go p.pump(c, up)
		go p.pump(up, c)
	}
}

func (p *pair) isSilenced() bool {
	p.r.mu.Lock()
	defer p.r.mu.Unlock()

	return p.silenced
}

func (p *pair) pump(from, to net.Conn) {
	buf := make([]byte, 32768)
	for {
		n, err := from.Read(buf)
		if n > 0 && to != nil && !p.isSilenced() {
			if _, werr := to.Write(buf[:n]); werr != nil {
				err = werr
			}
		}
		if err != nil {
			if !p.isSilenced() {
				p.closeBoth()
			}

			return
		}
	}
}

func (p *pair) closeBoth() {
	p.once.Do(func() {
		_ = p.cl.Close()
		p.r.mu.Lock()
		up := p.up
		p.r.mu.Unlock()
		if up != nil {
			_ = up.Close()
		}
	})
}

// Silence turns the link into a black hole for present and future connections.
func (r *relay) Silence() {
	r.mu.Lock()
	r.silent = true
	for _, p := range r.pairs {
		p.silenced = true
	}
	r.mu.Unlock()
}

// Heal makes new connections work again; the connections that were black-holed are closed (their stream is
// damaged beyond repair), which is when a close that happened meanwhile becomes visible.
func (r *relay) Heal() {
	r.mu.Lock()
	r.silent = false
	ps := append([]*pair(nil), r.pairs...)
	r.mu.Unlock()
	for _, p := range ps {
		if p.isSilenced() {
			p.closeBoth()
		}
	}
}

// CutAll closes every connection (both sides see the close).
func (r *relay) CutAll() {
	r.mu.Lock()
	ps := append([]*pair(nil), r.pairs...)
	r.mu.Unlock()
	for _, p := range ps {
		p.closeBoth()
	}
}

// Refuse closes the listening socket (dials fail) and cuts the connections.
func (r *relay) Refuse() {
	r.mu.Lock()
	ln := r.ln
	r.ln = nil
	r.mu.Unlock()
	if ln != nil {
		_ = ln.Close()
	}
	r.CutAll()
}

// Listen re-opens the listening socket on the same address, forwarding to target.
func (r *relay) Listen(target string) error {
	var ln net.Listener
	var err error
	for i := 0; i < 50; i++ {
		ln, err = net.Listen("tcp", r.addr)
		if err == nil {
			break
		}
		time.Sleep(100 * time.Millisecond)
	}
	if err != nil {
		return fmt.Errorf("relay cannot listen again on %s: %w", r.addr, err)
	}
	r.mu.Lock()
	r.ln = ln
	r.target = target
	r.mu.Unlock()
	go r.serve(ln)

	return nil
}

// Close ends the relay.
func (r *relay) Close() {
	r.Refuse()
}
