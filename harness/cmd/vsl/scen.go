package main

import (
	"context"
	"fmt"
	"math/rand"
	"regexp"
	"runtime"
	"strings"
	"time"

	"github.com/ansible/receptor/pkg/backends"
	"github.com/ansible/receptor/pkg/netceptor"
	"github.com/ansible/receptor/pkg/verifhook"
	"verif/harness/memnet"
	"verif/harness/peer"
)

const (
	routeUpdate = 200 * time.Millisecond
	maxIdle     = 1200 * time.Millisecond
	agePoll     = 5 * time.Second // fixed in monitorConnectionAging
	estCeiling  = 20 * time.Second
)

type stop struct{}

type nodeH struct {
	id, vn string
	n      *netceptor.Netceptor
	down   bool // Shutdown called
}

type scen struct {
	kind     string
	idx      int
	col      *collector
	rng      *rand.Rand
	desc     map[string]any
	labels   map[string]bool
	nodes    []*nodeH
	relays   []*relay
	viol     []Violation
	inconcl  string
	counters map[string]int
	from     int
	t0       time.Time
}

func (sc *scen) count(k string) {
	if sc.counters == nil {
		sc.counters = map[string]int{}
	}
	sc.counters[k]++
}

func (sc *scen) violate(sig, what string) {
	sc.viol = append(sc.viol, Violation{Sig: sig, What: what, Replay: map[string]any{"scenario": sc.desc, "events": tail(sc.events(), 60)}})
}

func tail(r []verifhook.Record, n int) []verifhook.Record {
	if len(r) > n {
		return r[len(r)-n:]
	}

	return r
}

// giveUp marks the scenario inconclusive (a ceiling was hit without a definite wrong value) and unwinds it.
func (sc *scen) giveUp(format string, a ...any) {
	if sc.inconcl == "" {
		sc.inconcl = fmt.Sprintf(format, a...)
	}
	panic(stop{})
}

func (sc *scen) events() []verifhook.Record {
	var out []verifhook.Record
	for _, r := range sc.col.since(sc.from) {
		if sc.labels[owner(r)] {
			out = append(out, r)
		}
	}

	return out
}

func (sc *scen) poll(ceiling time.Duration, f func() bool) bool {
	deadline := time.Now().Add(ceiling)
	for {
		if f() {
			return true
		}
		if time.Now().After(deadline) {
			return false
		}
		time.Sleep(20 * time.Millisecond)
	}
}

// waitEv waits for an event of node h (nil: any node of the scenario) at index >= from.
func (sc *scen) waitEv(h *nodeH, from int, ceiling time.Duration, ev string, pred func(verifhook.Record) bool) (int, verifhook.Record, bool) {
	return sc.col.waitFor(from, ceiling, func(r verifhook.Record) bool {
		if str(r, "ev") != ev {
			return false
		}
		o := owner(r)
		if h != nil && o != h.vn {
			return false
		}
		if h == nil && !sc.labels[o] {
			return false
		}

		return pred == nil || pred(r)
	})
}

func (sc *scen) newNode(id string) *nodeH {
	id = fmt.Sprintf("%s%d", id, sc.idx)
	from := sc.col.length()
	n := netceptor.NewWithConsts(context.Background(), id, 16384, routeUpdate, 0, time.Hour, 8, maxIdle)
	_, r, ok := sc.col.waitFor(from, 5*time.Second, func(r verifhook.Record) bool { return str(r, "ev") == "node_new" && str(r, "id") == id })
	if !ok {
		n.Shutdown()
		sc.giveUp("no node_new event for %s (hooks not compiled in?)", id)
	}
	h := &nodeH{id: id, vn: str(r, "n"), n: n}
	sc.labels[h.vn] = true
	sc.nodes = append(sc.nodes, h)
	verifhook.Emit(h.vn, "h_node", "maxidle_ms", maxIdle.Milliseconds(), "route_ms", routeUpdate.Milliseconds(), "poll_ms", agePoll.Milliseconds())

	return h
}

func (h *nodeH) connected(peerID string) bool {
	st := h.n.Status()
	ok := false
	for _, c := range st.Connections {
		if c.NodeID == peerID {
			ok = true
		}
	}
	_, adj := st.KnownConnectionCosts[h.id][peerID]

	return ok && adj && st.RoutingTable[peerID] == peerID
}

func (h *nodeH) gone(peerID string) bool {
	st := h.n.Status()
	for _, c := range st.Connections {
		if c.NodeID == peerID {
			return false
		}
	}
	_, adj := st.KnownConnectionCosts[h.id][peerID]
	_, rt := st.RoutingTable[peerID]

	return !adj && !rt
}

func (sc *scen) mustConnect(a, b *nodeH, ceiling time.Duration, what string) {
	if !sc.poll(ceiling, func() bool { return a.connected(b.id) && b.connected(a.id) }) {
		sc.giveUp("%s: %s and %s not established with each other within %s", what, a.id, b.id, ceiling)
	}
	sc.count("established")
}

func (sc *scen) shutdown(h *nodeH) {
	if h.down {
		return
	}
	h.down = true
	h.n.Shutdown()
}

// backendWait: BackendWait must return after Shutdown / CancelBackends.
func (sc *scen) backendWait(h *nodeH, ceiling time.Duration) {
	done := make(chan struct{})
	go func() { h.n.BackendWait(); close(done) }()
	select {
	case <-done:
		verifhook.Emit(h.vn, "h_waitdone")
	case <-time.After(ceiling):
		sc.giveUp("BackendWait of %s did not return within %s\n%s", h.id, ceiling, goroutineSummary())
	}
}

func (sc *scen) cancelBackends(h *nodeH, ceiling time.Duration) {
	verifhook.Emit(h.vn, "h_cancel")
	done := make(chan struct{})
	go func() { h.n.CancelBackends(); close(done) }()
	select {
	case <-done:
		verifhook.Emit(h.vn, "h_waitdone")
	case <-time.After(ceiling):
		sc.giveUp("CancelBackends of %s did not return within %s\n%s", h.id, ceiling, goroutineSummary())
	}
}

var reReader = regexp.MustCompile(`(?s)goroutine \d+ \[select[^\]]*\]:\n[^\n]*\(\*connInfo\)\.protoReader`)

func goroutineSummary() string {
	buf := make([]byte, 1<<22)
	buf = buf[:runtime.Stack(buf, true)]
	n := map[string]int{}
	for _, g := range strings.Split(string(buf), "\n\n") {
		for _, f := range []string{"protoReader", "protoWriter", "sendInitialConnectMessage", "runProtocol", "dialerSession", "listenerSession"} {
			if strings.Contains(g, f) {
				n[f]++
			}
		}
	}

	return fmt.Sprintf("goroutines: %v", n)
}

func readersParkedOnReadChan() int {
	buf := make([]byte, 1<<22)
	buf = buf[:runtime.Stack(buf, true)]

	return len(reReader.FindAll(buf, -1))
}

// quiesce waits until every session of the scenario that has ended has also lost its goroutines, then marks the
// point in each live node's trace (h_quiet) where SessionLifeTrace checks that nothing of an ended session is left.
func (sc *scen) quiesce() {
	settled := func() (bool, string) {
		ended := map[string]bool{}
		exits := map[string]int{}
		starts := map[string]int{}
		for _, r := range sc.events() {
			k := owner(r) + "|" + str(r, "sess")
			switch str(r, "ev") {
			case "sess_start":
				starts[k]++
				delete(ended, k)
				exits[k] = 0
			case "sess_end":
				ended[k] = true
			case "reader_exit", "writer_exit", "init_exit":
				exits[k]++
			}
		}
		for k := range ended {
			if exits[k] < 3 {
				return false, k
			}
		}

		return true, ""
	}
	var last string
	if !sc.poll(6*time.Second, func() bool { ok, k := settled(); last = k; return ok }) {
		// definite only if a reader is parked for good on ReadChan (two looks, apart)
		n1 := readersParkedOnReadChan()
		time.Sleep(300 * time.Millisecond)
		n2 := readersParkedOnReadChan()
		if ok, _ := settled(); !ok && (n1 == 0 || n2 == 0) {
			sc.giveUp("goroutines of ended session %s still running after 6 s, but none is parked on ReadChan (%s)", last, goroutineSummary())
		}
		sc.count("orphan_goroutines_seen")
	}
	for _, h := range sc.nodes {
		verifhook.Emit(h.vn, "h_quiet")
	}
}

// finish: quiesce, stop every node, BackendWait must return, nothing may move afterwards.
func (sc *scen) finish() {
	defer func() {
		if p := recover(); p != nil {
			if _, ok := p.(stop); !ok {
				panic(p)
			}
		}
		for _, r := range sc.relays {
			r.Close()
		}
		for _, h := range sc.nodes {
			sc.shutdown(h)
		}
		sc.desc["ms"] = time.Since(sc.t0).Milliseconds()
	}()
	if sc.inconcl != "" {
		return
	}
	sc.quiesce()
	for _, h := range sc.nodes {
		sc.shutdown(h)
	}
	for _, h := range sc.nodes {
		sc.backendWait(h, 20*time.Second)
	}
	time.Sleep(300 * time.Millisecond)
	for _, h := range sc.nodes {
		verifhook.Emit(h.vn, "h_end")
	}
}

// ---------------------------------------------------------------- TCP: real dialerSession / listenerSession

type tcpPair struct {
	a, b *nodeH
	lis  *backends.TCPListener
	rl   *relay
}

func (sc *scen) addListener(b *nodeH) *backends.TCPListener {
	lis, err := backends.NewTCPListener("127.0.0.1:0", nil, b.n.Logger)
	if err != nil {
		sc.giveUp("NewTCPListener: %v", err)
	}
	if err := b.n.AddBackend(lis); err != nil {
		sc.giveUp("AddBackend(listener): %v", err)
	}

	return lis
}

func (sc *scen) addDialer(a *nodeH, addr string) {
	d, err := backends.NewTCPDialer(addr, true, nil, a.n.Logger)
	if err != nil {
		sc.giveUp("NewTCPDialer: %v", err)
	}
	if err := a.n.AddBackend(d); err != nil {
		sc.giveUp("AddBackend(dialer): %v", err)
	}
}

func (sc *scen) tcpPair() *tcpPair {
	p := &tcpPair{a: sc.newNode("a"), b: sc.newNode("b")}
	p.lis = sc.addListener(p.b)
	rl, err := newRelay(p.lis.GetAddr())
	if err != nil {
		sc.giveUp("relay: %v", err)
	}
	p.rl = rl
	sc.relays = append(sc.relays, rl)
	sc.addDialer(p.a, rl.addr)
	sc.mustConnect(p.a, p.b, estCeiling, "first establishment")

	return p
}

// the idle cut of node h on its connection to peerID: observed idle time within (max, max + poll + slack]
func (sc *scen) expectIdleCut(h *nodeH, peerID string, from int) {
	_, r, ok := sc.waitEv(h, from, maxIdle+agePoll+10*time.Second, "idle_cut", func(r verifhook.Record) bool { return str(r, "peer") == peerID })
	if !ok {
		if h.gone(peerID) {
			return // ended some other way (the close got through first)
		}
		sc.giveUp("%s did not cut its silent connection to %s within max idle + poll + 10 s", h.id, peerID)
	}
	sc.count("idle_cut")
	idle, mx := num(r, "idle_ms"), num(r, "max_ms")
	if idle < mx { // whole milliseconds: equality is not early
		sc.violate("X-SESSIONLIFE:idle_cut:before-max-idle", fmt.Sprintf("%s cut %s after only %d ms of silence (max idle %d ms)", h.id, peerID, idle, mx))
	}
	if !sc.poll(10*time.Second, func() bool { return h.gone(peerID) }) {
		sc.giveUp("%s still lists %s (connection, adjacency or route) 10 s after the idle cut", h.id, peerID)
	}
	sc.count("withdrawn_after_cut")
}

// alignToPoll returns when the next ageing poll of node h is `before` away (the poll period is a constant of the code).
func (sc *scen) alignToPoll(h *nodeH, before time.Duration) {
	if _, _, ok := sc.waitEv(h, sc.col.length(), agePoll+10*time.Second, "idle_tick", nil); !ok {
		sc.giveUp("no ageing poll of %s within %s", h.id, agePoll+10*time.Second)
	}
	time.Sleep(agePoll - before)
}

// silenceAt chooses when a link goes silent: at a random moment, or so that the next poll finds a silence that is
// shorter than the idle limit (no cut may happen at that poll; the one after it must cut).
func (sc *scen) silenceAt(h *nodeH) {
	if sc.rng.Intn(2) == 0 {
		sc.desc["silence"] = "random_phase"
		time.Sleep(time.Duration(sc.rng.Intn(1500)) * time.Millisecond)

		return
	}
	sc.desc["silence"] = "short_before_poll"
	sc.alignToPoll(h, time.Duration(500+sc.rng.Intn(300))*time.Millisecond)
}

func (sc *scen) runTCPSilent() {
	p := sc.tcpPair()
	sc.silenceAt(p.a)
	from := sc.col.length()
	p.rl.Silence()
	sc.expectIdleCut(p.a, p.b.id, from)
	sc.expectIdleCut(p.b, p.a.id, from)
	// the dialer waits its delay, dials again (into the black hole), and once the link is healed re-establishes
	if _, _, ok := sc.waitEv(p.a, from, 15*time.Second, "redial", nil); !ok {
		sc.giveUp("dialer of %s did not re-dial within 15 s of the idle cut", p.a.id)
	}
	sc.count("redial")
	healAfter := sc.rng.Intn(2500)
	sc.desc["heal_after_ms"] = healAfter / 500 * 500
	time.Sleep(time.Duration(healAfter) * time.Millisecond)
	p.rl.Heal()
	sc.mustConnect(p.a, p.b, 40*time.Second, "re-establishment after the link healed")
	sc.count("reestablished")
}

func (sc *scen) runTCPCut() {
	p := sc.tcpPair()
	time.Sleep(time.Duration(sc.rng.Intn(700)) * time.Millisecond)
	from := sc.col.length()
	p.rl.CutAll()
	for _, x := range [][2]*nodeH{{p.a, p.b}, {p.b, p.a}} {
		if !sc.poll(10*time.Second, func() bool { return x[0].gone(x[1].id) }) {
			sc.giveUp("%s still lists %s 10 s after the link was closed", x[0].id, x[1].id)
		}
	}
	sc.count("withdrawn_after_close")
	if _, _, ok := sc.waitEv(p.a, from, 15*time.Second, "redial", nil); !ok {
		sc.giveUp("dialer of %s did not re-dial within 15 s of the close", p.a.id)
	}
	sc.count("redial")
	sc.mustConnect(p.a, p.b, 30*time.Second, "re-establishment after the close")
	sc.count("reestablished")
}

// Shutdown of one node while established (or right after the dial): the other side's session ends, a dialer re-dials.
func (sc *scen) runTCPShutdown() {
	p := sc.tcpPair()
	who := sc.rng.Intn(2)
	sc.desc["shutdown"] = []string{"dialer", "listener"}[who]
	time.Sleep(time.Duration(sc.rng.Intn(600)) * time.Millisecond)
	from := sc.col.length()
	if who == 0 {
		sc.shutdown(p.a)
		sc.backendWait(p.a, 20*time.Second)
		if !sc.poll(15*time.Second, func() bool { return p.b.gone(p.a.id) }) {
			sc.giveUp("%s still lists %s 15 s after its Shutdown", p.b.id, p.a.id)
		}
	} else {
		sc.shutdown(p.b)
		sc.backendWait(p.b, 20*time.Second)
		if !sc.poll(15*time.Second, func() bool { return p.a.gone(p.b.id) }) {
			sc.giveUp("%s still lists %s 15 s after its Shutdown", p.a.id, p.b.id)
		}
		if _, _, ok := sc.waitEv(p.a, from, 10*time.Second, "redial_wait", nil); !ok {
			sc.giveUp("dialer of %s did not schedule a re-dial within 10 s of the listener's Shutdown", p.a.id)
		}
		sc.count("redial_scheduled")
	}
}

// CancelBackends on a node that lives on.
func (sc *scen) runTCPCancel() {
	p := sc.tcpPair()
	who := sc.rng.Intn(2)
	sc.desc["cancel"] = []string{"dialer", "listener"}[who]
	time.Sleep(time.Duration(sc.rng.Intn(600)) * time.Millisecond)
	x, y := p.a, p.b
	if who == 1 {
		x, y = p.b, p.a
	}
	// more registered sessions on the node whose backends are cancelled: every one of them owes the two requests
	mb := memnet.NewBackend()
	if err := x.n.AddBackend(mb); err != nil {
		sc.giveUp("AddBackend(memnet): %v", err)
	}
	for k := 0; k < 3; k++ {
		q, err := peer.Attach(mb, fmt.Sprintf("q%d", k), int64(sc.idx)*10+int64(k)+1)
		if err != nil {
			sc.giveUp("attach: %v", err)
		}
		if err := q.Handshake(x.id, 1, nil); err != nil {
			sc.giveUp("handshake: %v", err)
		}
		if !sc.poll(10*time.Second, func() bool { return x.connected(q.ID) }) {
			sc.giveUp("%s not established with scripted peer %s within 10 s", x.id, q.ID)
		}
	}
	sc.cancelBackends(x, 20*time.Second)
	st := x.n.Status()
	if len(st.Connections) != 0 {
		sc.violate("X-SESSIONLIFE:cancel:connection-left", fmt.Sprintf("%s lists %d connection(s) after CancelBackends returned", x.id, len(st.Connections)))
	}
	if _, adj := st.KnownConnectionCosts[x.id][y.id]; adj {
		sc.violate("X-SESSIONLIFE:cancel:adjacency-left", fmt.Sprintf("%s keeps the adjacency edge to %s after CancelBackends returned", x.id, y.id))
	}
	// the node lives on: does its routing table follow? (the deferred requests are skipped when the backend context is done)
	if !sc.poll(1500*time.Millisecond, func() bool { _, rt := x.n.Status().RoutingTable[y.id]; return !rt }) {
		sc.count("route_kept_after_cancel")
		sc.violate("X-SESSIONLIFE:cancel:route-kept-without-rebuild", fmt.Sprintf(
			"%s still routes to %s via %s 1.5 s after CancelBackends returned although connection and adjacency are gone (no rebuild was requested)", x.id, y.id, y.id))
	}
	if !sc.poll(15*time.Second, func() bool { return y.gone(x.id) }) {
		sc.giveUp("%s still lists %s 15 s after its CancelBackends", y.id, x.id)
	}
}

// The listener goes away (dials are refused: growing delays), then a new instance with the same id comes back.
func (sc *scen) runTCPListenerRestart() {
	p := sc.tcpPair()
	time.Sleep(time.Duration(sc.rng.Intn(500)) * time.Millisecond)
	from := sc.col.length()
	p.rl.Refuse()
	sc.shutdown(p.b)
	sc.backendWait(p.b, 20*time.Second)
	nfail := 1 + sc.rng.Intn(2)
	sc.desc["failed_dials"] = nfail
	at := from
	for i := 0; i < nfail; i++ {
		var ok bool
		at, _, ok = sc.waitEv(p.a, at, 30*time.Second, "dial", func(r verifhook.Record) bool { b, _ := r["ok"].(bool); return !b })
		if !ok {
			sc.giveUp("dialer of %s did not report failed dial #%d within 30 s", p.a.id, i+1)
		}
		sc.count("dial_failed")
	}
	b2 := sc.newNodeSameID(p.b)
	lis := sc.addListener(b2)
	if err := p.rl.Listen(lis.GetAddr()); err != nil {
		sc.giveUp("%v", err)
	}
	sc.mustConnect(p.a, b2, 45*time.Second, "re-establishment with the restarted listener")
	sc.count("reestablished")
}

func (sc *scen) newNodeSameID(old *nodeH) *nodeH {
	time.Sleep(1100 * time.Millisecond) // the epoch has a granularity of one second
	from := sc.col.length()
	n := netceptor.NewWithConsts(context.Background(), old.id, 16384, routeUpdate, 0, time.Hour, 8, maxIdle)
	_, r, ok := sc.col.waitFor(from, 5*time.Second, func(r verifhook.Record) bool { return str(r, "ev") == "node_new" && str(r, "id") == old.id })
	if !ok {
		n.Shutdown()
		sc.giveUp("no node_new event for the second instance of %s", old.id)
	}
	h := &nodeH{id: old.id, vn: str(r, "n"), n: n}
	sc.labels[h.vn] = true
	sc.nodes = append(sc.nodes, h)
	verifhook.Emit(h.vn, "h_node", "maxidle_ms", maxIdle.Milliseconds(), "route_ms", routeUpdate.Milliseconds(), "poll_ms", agePoll.Milliseconds())

	return h
}

// Two dialer backends of one node reach the same listener: one connection per peer id, the other session is refused
// ("already connected") and its dialer keeps re-dialling.
func (sc *scen) runTCPTwoLinks() {
	a, b := sc.newNode("a"), sc.newNode("b")
	lis := sc.addListener(b)
	for i := 0; i < 2; i++ {
		rl, err := newRelay(lis.GetAddr())
		if err != nil {
			sc.giveUp("relay: %v", err)
		}
		sc.relays = append(sc.relays, rl)
		sc.addDialer(a, rl.addr)
	}
	sc.mustConnect(a, b, 45*time.Second, "establishment over one of two links")
	if _, _, ok := sc.waitEv(nil, sc.from, 20*time.Second, "reject", func(r verifhook.Record) bool { return str(r, "why") == "already_connected" }); !ok {
		sc.giveUp("no session was refused as already connected within 20 s")
	}
	sc.count("refused_second_link")
	time.Sleep(time.Duration(300+sc.rng.Intn(700)) * time.Millisecond)
	for _, h := range []*nodeH{a, b} {
		if n := len(h.n.Status().Connections); n != 1 {
			sc.giveUp("%s lists %d connections at the end of the two-link scenario", h.id, n)
		}
	}
}

// ---------------------------------------------------------------- memnet: scripted peers and controllable pipes

func (sc *scen) memNode(id string) (*nodeH, *memnet.Backend) {
	h := sc.newNode(id)
	b := memnet.NewBackend()
	if err := h.n.AddBackend(b); err != nil {
		sc.giveUp("AddBackend(memnet): %v", err)
	}

	return h, b
}

// The peer never says anything: the initial-connect message is re-sent every second, 11 times, then the node gives up
// (it is NOT the idle monitor that ends such a session: it is not a listed connection).  Variants stop the node or its
// backends somewhere in the middle.
func (sc *scen) runMemSilentStart() {
	h, b := sc.memNode("n")
	p, err := peer.Attach(b, "px", int64(sc.idx)+1)
	if err != nil {
		sc.giveUp("attach: %v", err)
	}
	v := sc.rng.Intn(3)
	sc.desc["end"] = []string{"give_up", "shutdown", "cancel_backends"}[v]
	if v == 0 {
		if _, _, ok := sc.waitEv(h, sc.from, 25*time.Second, "init_giveup", nil); !ok {
			sc.giveUp("no init_giveup within 25 s")
		}
		sc.count("init_giveup")
		if !p.WaitEOF(10 * time.Second) {
			sc.giveUp("session not closed within 10 s of the give-up")
		}
	} else {
		k := 3 + sc.rng.Intn(3)
		sc.desc["after_inits"] = k
		if _, _, ok := sc.waitEv(h, sc.from, 20*time.Second, "init_send", func(r verifhook.Record) bool { return num(r, "count") >= int64(k) }); !ok {
			sc.giveUp("no init_send #%d within 20 s", k)
		}
		time.Sleep(time.Duration(sc.rng.Intn(900)) * time.Millisecond)
		if v == 1 {
			sc.shutdown(h)
			sc.backendWait(h, 20*time.Second)
		} else {
			sc.cancelBackends(h, 20*time.Second)
		}
		if !p.WaitEOF(10 * time.Second) {
			sc.giveUp("session not closed within 10 s of the stop")
		}
	}
	ninit := 0
	for _, f := range p.Frames() {
		if f.RU != nil && f.RU.ForwardingNode == h.id {
			ninit++
		}
	}
	sent := 0
	for _, r := range sc.events() {
		if str(r, "ev") == "init_send" {
			sent++
		}
	}
	sc.count("init_resent_3plus")
	// a message handed to the writer right before the session is cancelled may be lost (best effort), nothing else
	if ninit > sent || ninit < sent-1 {
		sc.violate("X-SESSIONLIFE:init:frames-differ-from-sends", fmt.Sprintf("the peer received %d initial-connect messages, the node reports %d handed to its writer", ninit, sent))
	}
	if sent < 3 {
		sc.giveUp("only %d init sends", sent)
	}
}

// After establishment the peer sends a reject frame with another frame right behind it and keeps the link open:
// the session must end AND its reader / writer goroutines with it.
func (sc *scen) runMemRejectTrailing() {
	h, b := sc.memNode("n")
	order := sc.rng.Perm(3)
	sc.desc["order"] = fmt.Sprint(order)
	ntrail := 1 + sc.rng.Intn(3)
	sc.desc["trailing"] = ntrail
	for k, v := range order {
		p, err := peer.Attach(b, fmt.Sprintf("p%c", 'x'+k), int64(sc.idx)*10+int64(k)+1)
		if err != nil {
			sc.giveUp("attach: %v", err)
		}
		if err := p.Handshake(h.id, 1, nil); err != nil {
			sc.giveUp("handshake: %v", err)
		}
		if !sc.poll(10*time.Second, func() bool { return h.connected(p.ID) }) {
			sc.giveUp("not established with the scripted peer %s within 10 s", p.ID)
		}
		from := sc.col.length()
		p.Pipe.BA.SetHold(true) // the frames arrive back to back: the reader has the next one before the main loop is done
		switch v {
		case 0: // type-3 reject frame
			_ = p.SendRaw([]byte{netceptor.MsgTypeReject, '[', ']'})
		case 1: // we disagree about the cost
			_ = p.OwnUpdate(map[string]float64{h.id: 7})
		case 2: // the peer no longer lists us
			_ = p.OwnUpdate(map[string]float64{})
		}
		for i := 0; i < ntrail; i++ {
			_ = p.OwnUpdate(map[string]float64{h.id: 1})
		}
		p.Pipe.BA.SetHold(false)
		if _, _, ok := sc.waitEv(h, from, 10*time.Second, "sess_end", nil); !ok {
			sc.giveUp("session did not end within 10 s of the rejection")
		}
		if !sc.poll(5*time.Second, func() bool { return h.gone(p.ID) }) {
			// the session has ended; what is still listed is left to the trace (it may be a definite wrong value there)
			sc.count("listed_after_rejection")
		}
		sc.count("ended_by_rejection")
	}
}

type memPair struct {
	a, b   *nodeH
	ba, bb *memnet.Backend
	pipe   *memnet.Pipe
}

func (sc *scen) memPair(hold bool) *memPair {
	m := &memPair{}
	m.a, m.ba = sc.memNode("a")
	m.b, m.bb = sc.memNode("b")
	m.link(sc, hold)

	return m
}

func (m *memPair) link(sc *scen, hold bool) {
	m.pipe = memnet.NewPipe(int64(sc.idx)*17 + int64(sc.rng.Intn(1000)))
	if hold {
		m.pipe.AB.SetHold(true)
		m.pipe.BA.SetHold(true)
	}
	if !m.ba.Attach(m.pipe.A) || !m.bb.Attach(m.pipe.B) {
		sc.giveUp("memnet backend did not take the session")
	}
}

// Both directions go silent after establishment: both nodes cut, the harness links them again, they re-establish.
func (sc *scen) runMemPairSilent() {
	m := sc.memPair(false)
	sc.mustConnect(m.a, m.b, estCeiling, "first establishment")
	sc.silenceAt(m.a)
	from := sc.col.length()
	m.pipe.Silence()
	sc.expectIdleCut(m.a, m.b.id, from)
	sc.expectIdleCut(m.b, m.a.id, from)
	m.link(sc, false)
	sc.mustConnect(m.a, m.b, estCeiling, "re-establishment over a new link")
	sc.count("reestablished")
}

// Only one direction goes silent: the deaf side cuts, the other side sees the close.
func (sc *scen) runMemPairOneWay() {
	m := sc.memPair(false)
	sc.mustConnect(m.a, m.b, estCeiling, "first establishment")
	sc.silenceAt(m.b)
	from := sc.col.length()
	m.pipe.AB.SetBlackhole(true) // b hears nothing any more
	sc.expectIdleCut(m.b, m.a.id, from)
	if !sc.poll(10*time.Second, func() bool { return m.a.gone(m.b.id) }) {
		sc.giveUp("%s still lists %s 10 s after the peer cut the link", m.a.id, m.b.id)
	}
	sc.count("withdrawn_after_close")
}

// The link stalls for less than the idle limit and recovers: the keep-alive (periodic routing update) keeps the
// connection; no idle cut may happen although several ageing polls pass.
func (sc *scen) runMemPairHold() {
	m := sc.memPair(false)
	sc.mustConnect(m.a, m.b, estCeiling, "first establishment")
	from := sc.col.length()
	for k := 0; k < 2; k++ {
		sc.alignToPoll(m.a, time.Duration(400+sc.rng.Intn(300))*time.Millisecond)
		m.pipe.AB.SetHold(true)
		m.pipe.BA.SetHold(true)
		time.Sleep(900 * time.Millisecond) // the poll falls into the stall, which stays below the idle limit
		m.pipe.AB.SetHold(false)
		m.pipe.BA.SetHold(false)
	}
	polls := 0
	for _, r := range sc.col.since(from) {
		if str(r, "ev") == "idle_scan_end" && owner(r) == m.a.vn {
			polls++
		}
	}
	sc.desc["polls"] = polls >= 2
	sc.count("kept_alive_over_polls")
	if !m.a.connected(m.b.id) || !m.b.connected(m.a.id) {
		// a stall is shorter than the idle limit, but a loaded machine may stretch it: the trace decides
		sc.count("lost_during_stall")
	}
}

// Shutdown / CancelBackends in an early phase: nothing has arrived yet (fresh), or the first message is under way.
func (sc *scen) runMemPhaseCancel() {
	hold := sc.rng.Intn(2) == 0
	m := sc.memPair(hold)
	v := sc.rng.Intn(2)
	who := sc.rng.Intn(2)
	sc.desc["phase"] = map[bool]string{true: "fresh_held", false: "racing_establishment"}[hold]
	sc.desc["how"] = []string{"shutdown", "cancel_backends"}[v]
	x := []*nodeH{m.a, m.b}[who]
	if hold {
		time.Sleep(time.Duration(200+sc.rng.Intn(1800)) * time.Millisecond)
	} else {
		time.Sleep(time.Duration(sc.rng.Intn(4)) * time.Millisecond)
	}
	if v == 0 {
		sc.shutdown(x)
		sc.backendWait(x, 20*time.Second)
	} else {
		sc.cancelBackends(x, 20*time.Second)
	}
	m.pipe.AB.SetHold(false)
	m.pipe.BA.SetHold(false)
	y := []*nodeH{m.b, m.a}[who]
	if !sc.poll(15*time.Second, func() bool { return y.gone(x.id) && len(x.n.Status().Connections) == 0 }) {
		sc.giveUp("%s / %s still list each other 15 s after the stop", x.id, y.id)
	}
}

// A schedule TLC found on SessionLife.tla (SessionLife_race.cfg), replayed with a gate: session S1 of peer px is being
// removed and is parked between the two critical sections of removeConnection (connection entry deleted, adjacency
// edge not yet); a new session S2 of px is admitted and enters its edge; S1 goes on and deletes "the" edge by peer id.
// Runs alone (the gate is process-wide).
func (sc *scen) runGateRemoveRace() {
	h, b := sc.memNode("g")
	p1, err := peer.Attach(b, "px", int64(sc.idx)*10+1)
	if err != nil {
		sc.giveUp("attach: %v", err)
	}
	if err := p1.Handshake(h.id, 1, nil); err != nil {
		sc.giveUp("handshake: %v", err)
	}
	if !sc.poll(10*time.Second, func() bool { return h.connected("px") }) {
		sc.giveUp("not established with the scripted peer within 10 s")
	}
	hit, release := verifhook.HoldGate("remove_between_sections")
	defer release()
	v := sc.rng.Intn(2)
	sc.desc["removal_by"] = []string{"reject_frame", "peer_close"}[v]
	if v == 0 {
		_ = p1.SendRaw([]byte{netceptor.MsgTypeReject, '[', ']'})
	} else {
		p1.Close()
	}
	select {
	case <-hit:
	case <-time.After(10 * time.Second):
		sc.giveUp("the removal did not reach the gate within 10 s")
	}
	from := sc.col.length()
	p2, err := peer.Attach(b, "px", int64(sc.idx)*10+2)
	if err != nil {
		sc.giveUp("attach 2: %v", err)
	}
	if err := p2.Handshake(h.id, 1, nil); err != nil {
		sc.giveUp("handshake 2: %v", err)
	}
	if _, _, ok := sc.waitEv(h, from, 10*time.Second, "established", nil); !ok {
		sc.giveUp("second session of px not established within 10 s while the first is parked")
	}
	release()
	if _, _, ok := sc.waitEv(h, from, 10*time.Second, "sess_end", nil); !ok {
		sc.giveUp("first session did not end within 10 s of the release")
	}
	time.Sleep(500 * time.Millisecond)
	st := h.n.Status()
	_, adj := st.KnownConnectionCosts[h.id]["px"]
	_, rt := st.RoutingTable["px"]
	sc.desc["connected"], sc.desc["adjacency"], sc.desc["route"] = len(st.Connections) == 1, adj, rt
	if len(st.Connections) == 1 && !adj {
		sc.count("connected_without_adjacency")
	}
}

func (sc *scen) run() {
	sc.t0 = time.Now()
	sc.from = sc.col.length()
	switch sc.kind {
	case "tcp_silent":
		sc.runTCPSilent()
	case "tcp_cut":
		sc.runTCPCut()
	case "tcp_shutdown":
		sc.runTCPShutdown()
	case "tcp_cancel":
		sc.runTCPCancel()
	case "tcp_listener_restart":
		sc.runTCPListenerRestart()
	case "tcp_two_links":
		sc.runTCPTwoLinks()
	case "mem_silent_start":
		sc.runMemSilentStart()
	case "mem_reject_trailing":
		sc.runMemRejectTrailing()
	case "mem_pair_silent":
		sc.runMemPairSilent()
	case "mem_pair_oneway":
		sc.runMemPairOneWay()
	case "mem_pair_hold":
		sc.runMemPairHold()
	case "mem_phase_cancel":
		sc.runMemPhaseCancel()
	case "gate_remove_race":
		sc.runGateRemoveRace()
	default:
		sc.giveUp("unknown scenario kind %q", sc.kind)
	}
}
