package main

import (
	"bytes"
	"encoding/json"
	"flag"
	"fmt"
	"math/rand"
	"os"
	"path/filepath"
	"strings"
	"sync"
	"sync/atomic"
	"time"

	"verif/harness/resd"
)

// ---------------------------------------------------------------- fault schedules (written by TLC from Results.tla)

type faultStep struct {
	Kind string `json:"kind"` // cut | relay | remote | submitter
	When int    `json:"when"` // number of remote chunks on disk when the fault strikes
}

type schedule struct {
	Faults []faultStep `json:"faults"`
	Link   string      `json:"link"` // plain | bursty (the relay in front of the submitting node delivers in bursts)
}

func (s schedule) key() string {
	var p []string
	for _, f := range s.Faults {
		p = append(p, fmt.Sprintf("%s@%d", f.Kind, f.When))
	}
	k := strings.Join(p, ",")
	if len(p) == 0 {
		k = "nofault"
	}
	if s.Link == "bursty" {
		k += "+bursty"
	}

	return k
}

type faultLog struct {
	Kind     string `json:"kind"`
	When     int    `json:"when"`
	Target   string `json:"target"`
	AtMs     int64  `json:"at_ms"`
	HoldMs   int64  `json:"hold_ms"`
	LocalAt  int64  `json:"local_size_at_fault"`
	RemoteAt int64  `json:"remote_size_at_fault"`
}

type remoteRec struct {
	Schedule     string     `json:"schedule"`
	Seed         int64      `json:"seed"`
	Chunks       []int64    `json:"chunk_bytes"`
	Faults       []faultLog `json:"faults"`
	Observations int64      `json:"observations"`
	GrowthSteps  int64      `json:"local_growth_steps"`
	StatusAhead  int64      `json:"observations_final_status_ahead_of_output"`
	HeldTillDone bool       `json:"last_fault_held_until_remote_finished"`
	BurstMs      int64      `json:"burst_period_ms"`
	Bursts       int64      `json:"bursts_delivered"`
	KilledShort  bool       `json:"submitter_killed_with_final_record_and_short_output"`
	RemoteSize   int64      `json:"remote_size"`
	LocalSize    int64      `json:"local_size"`
	RemoteState  int        `json:"remote_state"`
	LocalState   int        `json:"local_state"`
	LocalRecSize int64      `json:"local_stdoutsize"`
	ConvergedMs  int64      `json:"converged_after_last_repair_ms"`
	ClientBytes  int64      `json:"client_bytes"`
	ClientEnded  bool       `json:"client_ended"`
	Resumes      int        `json:"resumed_from_nonzero_offset"`
}

func init() { commands["remote"] = cmdRemote }

func cmdRemote(args []string) {
	fs := flag.NewFlagSet("remote", flag.ExitOnError)
	bin := fs.String("bin", "", "receptor binary")
	work := fs.String("work", "", "scratch directory")
	schedules := fs.String("schedules", "", "NDJSON fault schedules from TLC")
	seed := fs.Int64("seed", 1, "seed")
	out := fs.String("out", "", "result file")
	maxScen := fs.Int("scenarios", 6, "number of schedules to replay (0 = all)")
	par := fs.Int("par", 6, "scenarios run concurrently")
	only := fs.String("only", "", "replay only the schedule with this key")
	deadline := fs.Duration("deadline", 240*time.Second, "convergence deadline after the last repair")
	_ = fs.Parse(args)
	res := &Result{}
	defer res.write(*out)
	root := filepath.Join(*work, "remote")
	_ = os.RemoveAll(root)
	if err := os.MkdirAll(root, 0o700); err != nil {
		res.inconclusive(err.Error())

		return
	}
	defer func() { res.count("reaped", resd.ReapAll(root, *bin)) }()
	all, err := readNDJSON[schedule](*schedules)
	if err != nil || len(all) == 0 {
		res.inconclusive(fmt.Sprintf("cannot read schedules: %v (%d)", err, len(all)))

		return
	}
	res.count("schedules_total", len(all))
	maxWhen := 1
	for _, s := range all {
		for _, f := range s.Faults {
			if f.When > maxWhen {
				maxWhen = f.When
			}
		}
	}
	rng := rand.New(rand.NewSource(*seed))
	var chosen []schedule
	switch {
	case *only != "":
		for _, s := range all {
			if s.key() == *only {
				chosen = append(chosen, s)
			}
		}
		if len(chosen) == 0 {
			res.inconclusive("replay schedule not found: " + *only)

			return
		}
	case *maxScen <= 0 || *maxScen >= len(all):
		chosen = all
	default:
		// one schedule per fault kind first (seeded choice among those ending with that kind while output is being copied), the rest seeded
		used := map[string]bool{}
		pick := func(f func(schedule) bool) {
			var c []schedule
			for _, s := range all {
				if f(s) && !used[s.key()] {
					c = append(c, s)
				}
			}
			if len(c) > 0 && len(chosen) < *maxScen {
				s := c[rng.Intn(len(c))]
				used[s.key()] = true
				chosen = append(chosen, s)
			}
		}
		last := func(s schedule) faultStep {
			if len(s.Faults) == 0 {
				return faultStep{}
			}

			return s.Faults[len(s.Faults)-1]
		}
		for _, kind := range []string{"cut", "relay", "remote"} {
			k := kind
			pick(func(s schedule) bool { return s.Link != "bursty" && last(s).Kind == k && last(s).When >= 1 })
		}
		// the submitting daemon dies while its record is final and its copy is not (last chunk, see run)
		pick(func(s schedule) bool {
			return s.Link != "bursty" && last(s).Kind == "submitter" && last(s).When == maxWhen
		})
		// a link that delivers in bursts: once undisturbed, once with a fault that makes the mirror ask again
		pick(func(s schedule) bool { return s.Link == "bursty" && len(s.Faults) == 0 })
		pick(func(s schedule) bool {
			return s.Link == "bursty" && last(s).When >= 1 && (last(s).Kind == "cut" || last(s).Kind == "relay")
		})
		// at least one schedule whose last fault strikes while the LAST chunk is on its way: held until the remote unit
		// has finished, it produces "final status mirrored before the tail of the output" (status ahead of output)
		lastChunk := func(s schedule) bool { return len(s.Faults) > 0 && s.Faults[len(s.Faults)-1].When == maxWhen }
		have := false
		for _, s := range chosen {
			have = have || lastChunk(s)
		}
		if !have && len(chosen) < *maxScen {
			var c []schedule
			for _, s := range all {
				if lastChunk(s) && !used[s.key()] {
					c = append(c, s)
				}
			}
			if len(c) > 0 {
				s := c[rng.Intn(len(c))]
				used[s.key()] = true
				chosen = append(chosen, s)
			}
		}
		for _, i := range rng.Perm(len(all)) {
			if len(chosen) >= *maxScen {
				break
			}
			if !used[all[i].key()] {
				used[all[i].key()] = true
				chosen = append(chosen, all[i])
			}
		}
	}
	pat := makePattern()
	pf := filepath.Join(root, "pattern.bin")
	if err := os.WriteFile(pf, pat, 0o600); err != nil {
		res.inconclusive(err.Error())

		return
	}
	sem := make(chan struct{}, *par)
	var wg sync.WaitGroup
	for i, s := range chosen {
		wg.Add(1)
		sem <- struct{}{}
		go func(i int, s schedule) {
			defer wg.Done()
			defer func() { <-sem }()
			sc := &scenario{res: res, bin: *bin, root: filepath.Join(root, fmt.Sprintf("s%03d", i)), sched: s,
				seed: *seed, idx: i, pattern: pat, patternFile: pf, nChunks: maxWhen, deadline: *deadline}
			sc.run()
		}(i, s)
	}
	wg.Wait()
	res.count("scenarios_run", len(chosen))
}

type scenario struct {
	res         *Result
	bin, root   string
	sched       schedule
	seed        int64
	idx         int
	pattern     []byte
	patternFile string
	nChunks     int
	deadline    time.Duration

	a, b, c *resd.Daemon
	ra, rc  *resd.Relay
	rec     remoteRec

	localOut, remoteOut string
	localDir            string
	verified            int64 // bytes of the local copy already compared
	obsMu               sync.Mutex
	lastLocal           int64
	lastGrowth          atomic.Int64 // unix nanos of the last growth of the local copy
	violated            atomic.Bool
}

func (sc *scenario) replay() map[string]any {
	return map[string]any{"part": "remote", "seed": sc.seed, "schedule": sc.sched.key(), "record": sc.rec}
}

func (sc *scenario) fail(msg string) {
	sc.res.inconclusive(fmt.Sprintf("remote scenario %s: %s", sc.sched.key(), msg))
}

// observe reads the local copy first and the remote output second (the remote output only grows, so a
// local copy that is a prefix at its own instant is a prefix of what is read afterwards).
func (sc *scenario) observe(where string) {
	sc.obsMu.Lock()
	defer sc.obsMu.Unlock()
	if sc.violated.Load() {
		return
	}
	local, err := os.ReadFile(sc.localOut)
	if err != nil {
		local = nil
	}
	remote, err := os.ReadFile(sc.remoteOut)
	if err != nil {
		remote = nil
	}
	sc.rec.Observations++
	// the interleaving "final status mirrored, tail of the output not yet": the two monitors are independent
	if st, err := resd.ReadStatusFile(sc.localDir); err == nil && terminal(st.State) && int64(len(local)) < st.StdoutSize {
		sc.rec.StatusAhead++
	}
	n := int64(len(local))
	if n < sc.lastLocal {
		sc.violated.Store(true)
		sc.res.violate("C05:mirror-shrank", fmt.Sprintf("schedule %s, %s: the local copy shrank from %d to %d bytes", sc.sched.key(), where, sc.lastLocal, n), sc.replay())

		return
	}
	if n > sc.lastLocal {
		sc.rec.GrowthSteps++
		sc.lastGrowth.Store(time.Now().UnixNano())
	}
	sc.lastLocal = n
	if n > int64(len(remote)) {
		sc.violated.Store(true)
		sc.res.violate("C05:mirror-not-prefix", fmt.Sprintf("schedule %s, %s: the local copy has %d bytes, the remote output only %d", sc.sched.key(), where, n, len(remote)), sc.replay())

		return
	}
	// compare everything (cheap at these sizes): a rewritten earlier part would be seen too
	if !bytes.Equal(local, remote[:n]) {
		i := int64(0)
		for i < n && local[i] == remote[i] {
			i++
		}
		sc.violated.Store(true)
		sc.res.violate("C05:mirror-not-prefix", fmt.Sprintf("schedule %s, %s: the local copy (%d bytes) differs from the remote output (%d bytes) at offset %d: local %q remote %q",
			sc.sched.key(), where, n, len(remote), i, clip(local, i), clip(remote, i)), sc.replay())

		return
	}
	if n > sc.verified {
		sc.verified = n
	}
}

func clip(b []byte, i int64) string {
	j := i + 24
	if j > int64(len(b)) {
		j = int64(len(b))
	}

	return string(b[i:j])
}

func (sc *scenario) run() {
	res := sc.res
	if err := os.MkdirAll(sc.root, 0o700); err != nil {
		sc.fail(err.Error())

		return
	}
	rng := rand.New(rand.NewSource(sc.seed*7919 + int64(sc.idx)*104729 + 17))
	sc.rec.Schedule, sc.rec.Seed = sc.sched.key(), sc.seed
	// set-up (ports, relays, three daemons); a failed start (port taken in the meantime, ...) is retried on fresh ports
	var setupErr error
	for attempt := 0; attempt < 3; attempt++ {
		if setupErr = sc.setup(attempt); setupErr == nil {
			break
		}
		sc.teardown()
	}
	defer sc.teardown()
	if setupErr != nil {
		sc.fail("set-up failed three times: " + setupErr.Error())

		return
	}
	if !sc.waitRoute(90 * time.Second) {
		sc.fail("node a never learned a route to c; a.log: " + resd.Tail(sc.a.LogFile, 600))

		return
	}
	// producer on c
	n := sc.nChunks
	periodic := sc.sched.Link == "bursty" && rng.Intn(4) == 0 // see below; a link that is bursty all the time is slow
	cum := make([]int64, n+1)
	var sb strings.Builder
	sb.WriteString("#!/bin/bash\ntrap 'exit 130' INT TERM\n")
	fmt.Fprintf(&sb, "P=%s\no=0\n", sc.patternFile)
	sb.WriteString("emit() { tail -c +$((o+1)) \"$P\" | head -c \"$1\"; o=$((o+$1)); }\n")
	sb.WriteString("nap() { sleep \"$1\" & wait $!; }\n")
	fmt.Fprintf(&sb, "nap %.2f\n", 0.8+rng.Float64()*0.8)
	for i := 0; i < n; i++ {
		var sz int64
		big := rng.Intn(2) == 0
		for _, f := range sc.sched.Faults {
			if f.When == i+1 {
				big = true // a fault is to strike while this chunk is being copied
			}
		}
		if big && periodic {
			sz = 20*1024 + rng.Int63n(40*1024)
		} else if big {
			sz = 150*1024 + rng.Int63n(250*1024)
		} else {
			sz = 50 + rng.Int63n(3000)
		}
		napAfter := 1.2 + rng.Float64()*1.8
		if nf := len(sc.sched.Faults); i == n-1 && nf > 0 && sc.sched.Faults[nf-1].Kind == "submitter" && sc.sched.Faults[nf-1].When >= n {
			// the submitting daemon is to die when its record is already final but the copy is not: a last chunk that
			// takes seconds to copy, the unit finishing right behind it
			sz = 2500*1024 + rng.Int63n(600*1024)
			napAfter = 0.05
		}
		sc.rec.Chunks = append(sc.rec.Chunks, sz)
		cum[i+1] = cum[i] + sz
		fmt.Fprintf(&sb, "emit %d\nnap %.2f\n", sz, napAfter)
	}
	sb.WriteString("exit 0\n")
	total := cum[n]
	script := filepath.Join(sc.root, "prod.sh")
	if err := os.WriteFile(script, []byte(sb.String()), 0o700); err != nil {
		sc.fail(err.Error())

		return
	}
	stopBurst := make(chan struct{})
	defer close(stopBurst)
	if sc.sched.Link == "bursty" {
		// what travels towards the submitting node arrives in bursts, so that a reply line and the data written a little
		// later become readable in the same instant.  Two variants (seeded): periodic bursts, or a stall of 300-700 ms
		// that begins whenever the output mirror issues a request (hook event rw_out_req in a's trace file).
		sc.ra.NewestFirst.Store(true) // within a burst the data messages arrive newest first (loss + retransmission)
		if periodic {
			p := time.Duration(600+rng.Intn(500)) * time.Millisecond
			sc.rec.BurstMs = p.Milliseconds()
			sc.ra.SetBurst(p)
		} else {
			sc.rec.BurstMs = -1
			seedHold := rng.Int63()
			go sc.holdOnRequests(stopBurst, seedHold)
		}
	}
	sub, err := resd.SubmitBegin(sc.a.Sock, "c", "sh", script, 30*time.Second)
	if err != nil {
		sc.fail("submit: " + err.Error())

		return
	}
	localID := sub.ID
	if _, err := sub.Finish(nil, 60*time.Second); err != nil {
		sc.fail("submit finish: " + err.Error())

		return
	}
	tStart := time.Now()
	// the remote unit's id, once the remote submit has been acknowledged
	remoteID := ""
	for time.Since(tStart) < 90*time.Second {
		if b, err := os.ReadFile(filepath.Join(sc.a.UnitDir(localID), "status")); err == nil {
			var st struct {
				ExtraData struct {
					RemoteUnitID  string
					RemoteStarted bool
				}
			}
			if json.Unmarshal(b, &st) == nil && st.ExtraData.RemoteStarted && st.ExtraData.RemoteUnitID != "" {
				remoteID = st.ExtraData.RemoteUnitID

				break
			}
		}
		time.Sleep(10 * time.Millisecond)
	}
	if remoteID == "" {
		sc.fail("remote unit was not started within 90 s; a.log: " + resd.Tail(sc.a.LogFile, 800))

		return
	}
	remoteDir := sc.c.UnitDir(remoteID)
	sc.localDir = sc.a.UnitDir(localID)
	sc.localOut = filepath.Join(sc.localDir, "stdout")
	sc.remoteOut = filepath.Join(remoteDir, "stdout")
	sc.lastGrowth.Store(time.Now().UnixNano())
	stopObs := make(chan struct{})
	var owg sync.WaitGroup
	owg.Add(1)
	go func() {
		defer owg.Done()
		for {
			select {
			case <-stopObs:
				return
			default:
			}
			sc.observe("poll")
			time.Sleep(20 * time.Millisecond)
		}
	}()
	// a client on a reads the results of the (remote) unit from the start
	type clientOut struct {
		n        int64
		mismatch int64
		ended    bool
		err      string
	}
	clientCh := make(chan clientOut, 1)
	clientStop := make(chan struct{})
	var runClient func(ch chan clientOut, stop chan struct{})
	runClient = func(clientCh chan clientOut, clientStop chan struct{}) {
		co := clientOut{mismatch: -1}
		rs, err := resd.OpenResults(sc.a.Sock, localID, 0, 60*time.Second)
		if err != nil {
			co.err = err.Error()
			clientCh <- co

			return
		}
		defer rs.Close()
		buf := make([]byte, 128*1024)
		for {
			nr, err := rs.Read(buf, time.Now().Add(250*time.Millisecond))
			if nr > 0 {
				exp := sc.pattern[co.n:]
				if co.mismatch < 0 && !bytes.Equal(buf[:nr], exp[:nr]) {
					for i := 0; i < nr; i++ {
						if buf[i] != exp[i] {
							co.mismatch = co.n + int64(i)

							break
						}
					}
				}
				co.n += int64(nr)
			}
			if err != nil && !resd.IsTimeout(err) {
				co.ended = true
				clientCh <- co

				return
			}
			select {
			case <-clientStop:
				clientCh <- co

				return
			default:
			}
		}
	}
	go runClient(clientCh, clientStop)

	// faults
	remoteSize := func() int64 {
		s := resd.FileSize(sc.remoteOut)
		if s < 0 {
			return 0
		}

		return s
	}
	lastRepair := time.Now()
	for fi, f := range sc.sched.Faults {
		dl := time.Now().Add(120 * time.Second)
		w := f.When
		if w > n {
			w = n
		}
		for remoteSize() < cum[w] && time.Now().Before(dl) {
			time.Sleep(5 * time.Millisecond)
		}
		if f.Kind == "remote" {
			// assumption RestartWhilePending of the spec: the record must no longer say Pending
			for time.Now().Before(dl) {
				if st, err := resd.ReadStatusFile(remoteDir); err == nil && st.State != 0 {
					break
				}
				time.Sleep(10 * time.Millisecond)
			}
		}
		if w >= 1 && rng.Intn(4) != 0 {
			// strike while chunk w is on its way: part of it has arrived, the rest has not
			for time.Now().Before(dl) {
				l := resd.FileSize(sc.localOut)
				if l > cum[w-1] || l >= cum[w] {
					break
				}
				time.Sleep(time.Millisecond)
			}
		} else {
			time.Sleep(time.Duration(rng.Intn(900)) * time.Millisecond)
		}
		if f.Kind == "submitter" && fi == len(sc.sched.Faults)-1 && w >= n {
			// wait for "local record final, local copy shorter than its StdoutSize"
			for time.Now().Before(dl) {
				if st, err := resd.ReadStatusFile(sc.localDir); err == nil && terminal(st.State) {
					if l := resd.FileSize(sc.localOut); l < st.StdoutSize {
						sc.rec.KilledShort = true
					}

					break
				}
				time.Sleep(2 * time.Millisecond)
			}
		}
		hold := time.Duration(500+rng.Intn(2500)) * time.Millisecond
		// a fault on the last chunk is (mostly) held until the remote unit has finished: after the repair the status
		// monitor needs one round trip, the stdout monitor a retry sleep and a new request - status ahead of output
		tillDone := fi == len(sc.sched.Faults)-1 && w >= n && rng.Intn(5) != 0
		sleepHold := func() {
			time.Sleep(hold)
			if !tillDone {
				return
			}
			sc.rec.HeldTillDone = true
			dl := time.Now().Add(60 * time.Second)
			for time.Now().Before(dl) {
				if st, err := resd.ReadStatusFile(remoteDir); err == nil && terminal(st.State) {
					break
				}
				time.Sleep(10 * time.Millisecond)
			}
			time.Sleep(time.Duration(rng.Intn(400)) * time.Millisecond)
		}
		fl := faultLog{Kind: f.Kind, When: f.When, AtMs: time.Since(tStart).Milliseconds(), HoldMs: hold.Milliseconds(),
			LocalAt: resd.FileSize(sc.localOut), RemoteAt: remoteSize()}
		switch f.Kind {
		case "cut":
			r := sc.ra
			if rng.Intn(2) == 0 {
				r = sc.rc
			}
			fl.Target = r.Name
			r.Cut()
			sc.observe("after cut")
			sleepHold()
			r.Heal()
		case "relay":
			fl.Target = "b"
			sc.b.Kill()
			sc.observe("after relay kill")
			sleepHold()
			if err := sc.b.Start(60 * time.Second); err != nil {
				sc.fail("restart b: " + err.Error())
				close(stopObs)
				close(clientStop)

				return
			}
		case "submitter":
			// the submitting daemon dies and comes back on its data directory; its clients die with it
			fl.Target = "a"
			sc.a.Kill()
			sc.observe("after submitter kill")
			time.Sleep(hold / 2)
			if err := sc.a.Start(60 * time.Second); err != nil {
				sc.fail("restart a: " + err.Error())
				close(stopObs)
				close(clientStop)

				return
			}
			<-clientCh // the old stream ended with the daemon: not judged
			clientCh = make(chan clientOut, 1)
			go runClient(clientCh, clientStop)
			res.count("clients_reopened_after_submitter_restart", 1)
		case "remote":
			fl.Target = "c"
			sc.c.Kill()
			sc.observe("after remote kill")
			sleepHold()
			if err := sc.c.Start(60 * time.Second); err != nil {
				sc.fail("restart c: " + err.Error())
				close(stopObs)
				close(clientStop)

				return
			}
		}
		sc.observe("after repair")
		lastRepair = time.Now()
		sc.rec.Faults = append(sc.rec.Faults, fl)
		res.count("fault_"+f.Kind, 1)
		if fl.LocalAt > 0 && fl.LocalAt < fl.RemoteAt {
			res.count("fault_while_partly_copied", 1)
			sc.rec.Resumes++
		}
		time.Sleep(time.Duration(rng.Intn(1500)) * time.Millisecond)
	}
	// convergence: local record final, local copy as long as its recorded size, client stream ended
	var co clientOut
	haveClient := false
	converged := false
	stallViolation := false
	pingOKAt := time.Time{}
	for time.Since(lastRepair) < sc.deadline {
		if sc.violated.Load() {
			break
		}
		if !haveClient {
			select {
			case co = <-clientCh:
				haveClient = true
			default:
			}
		}
		rst, rerr := resd.ReadStatusFile(remoteDir)
		lst, lerr := resd.ReadStatusFile(sc.a.UnitDir(localID))
		if rerr == nil && lerr == nil && terminal(rst.State) && terminal(lst.State) &&
			resd.FileSize(sc.localOut) >= lst.StdoutSize && haveClient {
			converged = true

			break
		}
		// stall: the remote unit is finished and the local record says so, yet nothing has arrived for 90 s although a
		// reaches c all the time
		if rerr == nil && terminal(rst.State) && lerr == nil && terminal(lst.State) && time.Since(lastRepair) > 100*time.Second &&
			time.Since(time.Unix(0, sc.lastGrowth.Load())) > 90*time.Second {
			if sc.ping() {
				if pingOKAt.IsZero() {
					pingOKAt = time.Now()
				} else if time.Since(pingOKAt) > 60*time.Second {
					stallViolation = true

					break
				}
			} else {
				pingOKAt = time.Time{}
			}
		}
		time.Sleep(50 * time.Millisecond)
	}
	sc.rec.ConvergedMs = time.Since(lastRepair).Milliseconds()
	close(stopObs)
	owg.Wait()
	sc.observe("final")
	if !haveClient {
		close(clientStop)
		co = <-clientCh
	}
	sc.rec.ClientBytes, sc.rec.ClientEnded = co.n, co.ended
	remote, _ := os.ReadFile(sc.remoteOut)
	local, _ := os.ReadFile(sc.localOut)
	sc.rec.RemoteSize, sc.rec.LocalSize = int64(len(remote)), int64(len(local))
	rst, rerr := resd.ReadStatusFile(remoteDir)
	lst, lerr := resd.ReadStatusFile(sc.a.UnitDir(localID))
	if rerr == nil {
		sc.rec.RemoteState = rst.State
	}
	if lerr == nil {
		sc.rec.LocalState, sc.rec.LocalRecSize = lst.State, lst.StdoutSize
	}
	res.mu.Lock()
	res.Evaluations++
	res.mu.Unlock()
	res.seen(sc.sched.key())
	res.count("observations", int(sc.rec.Observations))
	res.count("local_growth_steps", int(sc.rec.GrowthSteps))
	if sc.rec.StatusAhead > 0 {
		res.count("scenarios_final_status_ahead_of_output", 1)
	}
	if sc.rec.HeldTillDone {
		res.count("scenarios_last_fault_held_until_remote_finished", 1)
	}
	if sc.rec.KilledShort {
		res.count("scenarios_submitter_killed_with_final_record_and_short_output", 1)
	}
	if sc.sched.Link == "bursty" {
		sc.rec.Bursts = sc.ra.Flushes.Load()
		res.count("scenarios_bursty_link", 1)
		res.count("bursts_delivered", int(sc.rec.Bursts))
		res.count("bursts_reordered", int(sc.ra.Reordered.Load()))
	}
	res.sample(sc.rec, 6)
	if sc.violated.Load() {
		return
	}
	if co.mismatch >= 0 {
		res.violate("C05:remote-results-bytes-differ", fmt.Sprintf("schedule %s: work results of the remote unit on the submitting node: byte %d differs from the remote output", sc.sched.key(), co.mismatch), sc.replay())

		return
	}
	if stallViolation {
		res.violate("C05:mirror-not-converged", fmt.Sprintf("schedule %s: the remote unit finished with %d bytes; the local copy has stayed at %d bytes for more than 150 s although the remote node answered pings from the submitting node all the time (local record: state %d size %d)",
			sc.sched.key(), len(remote), len(local), sc.rec.LocalState, sc.rec.LocalRecSize), sc.replay())

		return
	}
	if !converged {
		sc.fail(fmt.Sprintf("no convergence within %s after the last repair (remote %d bytes state %d, local %d bytes state %d recorded %d, client %d bytes ended=%v); a.log: %s",
			sc.deadline, len(remote), sc.rec.RemoteState, len(local), sc.rec.LocalState, sc.rec.LocalRecSize, co.n, co.ended, resd.Tail(sc.a.LogFile, 700)))

		return
	}
	if int64(len(remote)) != total || !bytes.Equal(remote, sc.pattern[:total]) {
		sc.fail(fmt.Sprintf("remote producer wrote %d bytes, expected %d patterned bytes", len(remote), total))

		return
	}
	switch {
	case !bytes.Equal(local, remote):
		res.violate("C05:mirror-not-equal-at-end", fmt.Sprintf("schedule %s: the local record is final (state %d, StdoutSize %d) but the local copy has %d bytes and the remote output %d",
			sc.sched.key(), lst.State, lst.StdoutSize, len(local), len(remote)), sc.replay())
	case lst.State != rst.State || lst.StdoutSize != rst.StdoutSize || rst.StdoutSize != int64(len(remote)):
		res.violate("C05:mirror-final-status-differs", fmt.Sprintf("schedule %s: remote record state %d size %d (file %d), local record state %d size %d",
			sc.sched.key(), rst.State, rst.StdoutSize, len(remote), lst.State, lst.StdoutSize), sc.replay())
	case co.err != "":
		sc.fail("client on a: " + co.err)
	case !co.ended:
		res.violate("C05:remote-results-never-end", fmt.Sprintf("schedule %s: the results stream on the submitting node is still open after convergence (%d bytes)", sc.sched.key(), co.n), sc.replay())
	case co.n != int64(len(remote)):
		res.violate("C05:remote-results-ended-before-all-output-sent", fmt.Sprintf("schedule %s: the results stream on the submitting node ended after %d of %d bytes", sc.sched.key(), co.n, len(remote)), sc.replay())
	default:
		res.count("scenarios_ok", 1)
	}
}

func (sc *scenario) setup(attempt int) error {
	pa, err1 := resd.FreePort()
	pc, err2 := resd.FreePort()
	if err1 != nil || err2 != nil || pa == pc {
		return fmt.Errorf("no free ports: %v %v", err1, err2)
	}
	var err error
	if sc.ra, err = resd.NewRelay("ra", fmt.Sprintf("127.0.0.1:%d", pa)); err != nil {
		return err
	}
	if sc.rc, err = resd.NewRelay("rc", fmt.Sprintf("127.0.0.1:%d", pc)); err != nil {
		return err
	}
	if attempt > 0 {
		for _, n := range []string{"a", "b", "c"} {
			_ = os.RemoveAll(filepath.Join(sc.root, n+".data"))
		}
	}
	if sc.a, err = resd.NewDaemon(sc.bin, sc.root, "a", resd.NodeCfg{ListenPort: pa}); err != nil {
		return err
	}
	if sc.sched.Link == "bursty" {
		sc.a.Trace = filepath.Join(sc.root, "a.trace")
		_ = os.Remove(sc.a.Trace)
	}
	if sc.c, err = resd.NewDaemon(sc.bin, sc.root, "c", resd.NodeCfg{ListenPort: pc, WorkTypes: []string{"sh"}}); err != nil {
		return err
	}
	if sc.b, err = resd.NewDaemon(sc.bin, sc.root, "b", resd.NodeCfg{Peers: []string{sc.ra.Addr(), sc.rc.Addr()}}); err != nil {
		return err
	}
	for _, d := range []*resd.Daemon{sc.a, sc.c, sc.b} {
		if err := d.Start(60 * time.Second); err != nil {
			return fmt.Errorf("%v; log: %s", err, resd.Tail(d.LogFile, 400))
		}
	}

	return nil
}

func (sc *scenario) teardown() {
	for _, d := range []*resd.Daemon{sc.a, sc.b, sc.c} {
		if d != nil {
			d.Kill()
		}
	}
	for _, r := range []*resd.Relay{sc.ra, sc.rc} {
		if r != nil {
			r.Close()
		}
	}
	resd.ReapAll(sc.root, sc.bin)
}

// holdOnRequests follows a's hook trace; at every "work results" request of the output mirror it stalls the
// direction towards a for 300-700 ms (the remote side writes the header at once and the first data 250 ms later).
func (sc *scenario) holdOnRequests(stop chan struct{}, seed int64) {
	rng := rand.New(rand.NewSource(seed))
	var off int64
	var carry []byte
	for {
		select {
		case <-stop:
			return
		default:
		}
		f, err := os.Open(sc.a.Trace)
		if err == nil {
			if _, err = f.Seek(off, 0); err == nil {
				b := make([]byte, 256*1024)
				n, _ := f.Read(b)
				if n > 0 {
					off += int64(n)
					data := append(carry, b[:n]...)
					if i := bytes.LastIndexByte(data, '\n'); i >= 0 {
						if bytes.Contains(data[:i], []byte(`"rw_out_req"`)) {
							sc.ra.HoldFor(time.Duration(300+rng.Intn(400)) * time.Millisecond)
							sc.res.count("holds_on_request", 1)
						}
						carry = append([]byte{}, data[i+1:]...)
					} else {
						carry = data
					}
				}
			}
			f.Close()
		}
		time.Sleep(300 * time.Microsecond)
	}
}

// waitRoute waits until a's routing table knows c.
func (sc *scenario) waitRoute(d time.Duration) bool {
	t0 := time.Now()
	for time.Since(t0) < d {
		m, err := resd.Once(sc.a.Sock, "status", 5*time.Second)
		if err == nil {
			if rt, ok := m["RoutingTable"].(map[string]any); ok {
				if _, ok := rt["c"]; ok {
					return true
				}
			}
		}
		time.Sleep(100 * time.Millisecond)
	}

	return false
}

func (sc *scenario) ping() bool {
	m, err := resd.Once(sc.a.Sock, "ping c", 10*time.Second)
	if err != nil {
		return false
	}
	ok, _ := m["Success"].(bool)

	return ok
}
