package main

import (
	"bytes"
	"flag"
	"fmt"
	"hash/fnv"
	"math/rand"
	"os"
	"path/filepath"
	"sort"
	"strings"
	"sync"
	"sync/atomic"
	"time"

	"verif/harness/resd"
)

// ---------------------------------------------------------------- pattern

// The producers' output is a prefix of one fixed pattern in which every 16-byte record carries its own
// index, so the content is a function of the byte offset and any window can be checked on its own.
const patternSize = 4 << 20

func makePattern() []byte {
	b := make([]byte, 0, patternSize)
	for i := 0; len(b) < patternSize; i++ {
		b = append(b, []byte(fmt.Sprintf("%015x\n", i))...)
	}

	return b[:patternSize]
}

// ---------------------------------------------------------------- vectors (written by TLC from Results.tla)

type localVec struct {
	Chunks []int  `json:"chunks"` // abstract chunk sizes in units (read buffer = 2 units)
	Final  string `json:"final"`  // ok | fail | cancel
	P      int    `json:"p"`      // abstract start offset 0..sum(chunks)
	Moment int    `json:"moment"` // 0 = before start, k = after chunk k is on disk, n+1 = after finish
	Expect int    `json:"expect"` // abstract number of bytes the stream must deliver
}

type group struct {
	Chunks []int
	Final  string
	Kind   string // small | boundary | huge
	Vecs   []localVec
}

func (g *group) key() string {
	return fmt.Sprintf("%s|%v|%s", g.Kind, g.Chunks, g.Final)
}

type clientRec struct {
	Group      string `json:"group"`
	Unit       int64  `json:"unit_bytes"`
	AbstractP  int    `json:"abstract_p"`
	Delta      string `json:"delta"`
	Offset     int64  `json:"offset"`
	Moment     int    `json:"moment"`
	Received   int64  `json:"received"`
	Expected   int64  `json:"expected"`
	Ended      bool   `json:"ended"`
	EndAfterMs int64  `json:"end_after_completion_ms"`
	StateAtEnd int    `json:"state_at_end"`
	FinalState int    `json:"final_state"`
	FinalSize  int64  `json:"final_size"`
	Mismatch   int64  `json:"first_mismatch"`
	Err        string `json:"err,omitempty"`
}

func terminal(s int) bool { return s == 2 || s == 3 || s == 4 }

type localRun struct {
	res         *Result
	d           *resd.Daemon
	pattern     []byte
	patternFile string
	root        string
	seed        int64
	endDeadline time.Duration
	hardLimit   time.Duration
}

func init() { commands["local"] = cmdLocal }

func cmdLocal(args []string) {
	fs := flag.NewFlagSet("local", flag.ExitOnError)
	bin := fs.String("bin", "", "receptor binary")
	work := fs.String("work", "", "scratch directory")
	vectors := fs.String("vectors", "", "NDJSON vectors from TLC")
	seed := fs.Int64("seed", 1, "seed")
	out := fs.String("out", "", "result file")
	maxGroups := fs.Int("groups", 12, "number of (chunking, final, kind) groups to run (0 = all)")
	cancelGroups := fs.Int("cancel-groups", 1, "how many of the groups may be cancel groups (-1 = no limit)")
	par := fs.Int("par", 6, "groups run concurrently")
	only := fs.String("only", "", "run only the group with this key (replay)")
	endDeadline := fs.Duration("end-deadline", 30*time.Second, "stream must end this long after completion")
	_ = fs.Parse(args)
	res := &Result{}
	defer res.write(*out)
	root := filepath.Join(*work, "local")
	_ = os.RemoveAll(root)
	if err := os.MkdirAll(root, 0o700); err != nil {
		res.inconclusive(err.Error())

		return
	}
	vecs, err := readNDJSON[localVec](*vectors)
	if err != nil || len(vecs) == 0 {
		res.inconclusive(fmt.Sprintf("cannot read vectors: %v (%d)", err, len(vecs)))

		return
	}
	res.count("vectors_total", len(vecs))
	// group by (chunks, final)
	byKey := map[string]*group{}
	var keys []string
	for _, v := range vecs {
		k := fmt.Sprintf("%v|%s", v.Chunks, v.Final)
		g := byKey[k]
		if g == nil {
			g = &group{Chunks: v.Chunks, Final: v.Final}
			byKey[k] = g
			keys = append(keys, k)
		}
		g.Vecs = append(g.Vecs, v)
	}
	sort.Strings(keys)
	kinds := []string{"small", "boundary", "huge"}
	var all []*group
	for _, k := range keys {
		for _, kind := range kinds {
			g := *byKey[k]
			g.Kind = kind
			all = append(all, &g)
		}
	}
	res.count("groups_total", len(all))
	rng := rand.New(rand.NewSource(*seed))
	var chosen []*group
	switch {
	case *only != "":
		for _, g := range all {
			if g.key() == *only {
				chosen = append(chosen, g)
			}
		}
		if len(chosen) == 0 {
			res.inconclusive("replay group not found: " + *only)

			return
		}
	case *maxGroups <= 0 || *maxGroups >= len(all):
		chosen = all
	default:
		// mandatory classes first (empty output; one huge chunk; output ending at a read boundary;
		// cancelled unit), the rest seeded
		pick := func(f func(*group) bool) {
			var c []*group
			for _, g := range all {
				if f(g) {
					c = append(c, g)
				}
			}
			if len(c) > 0 {
				chosen = append(chosen, c[rng.Intn(len(c))])
			}
		}
		sum := func(g *group) int {
			s := 0
			for _, c := range g.Chunks {
				s += c
			}

			return s
		}
		pick(func(g *group) bool { return len(g.Chunks) == 0 && g.Final != "cancel" })
		pick(func(g *group) bool {
			return g.Kind == "huge" && len(g.Chunks) == 1 && g.Chunks[0] == 3 && g.Final == "ok"
		})
		pick(func(g *group) bool {
			return g.Kind == "boundary" && len(g.Chunks) >= 2 && sum(g)%2 == 0 && g.Final == "ok"
		})
		pick(func(g *group) bool { return g.Kind == "boundary" && len(g.Chunks) >= 2 && g.Final == "fail" })
		ncancel := 0
		if *cancelGroups != 0 {
			pick(func(g *group) bool { return g.Final == "cancel" && len(g.Chunks) >= 1 && g.Kind == "small" })
			ncancel = 1
		}
		perm := rng.Perm(len(all))
		for _, i := range perm {
			if len(chosen) >= *maxGroups {
				break
			}
			g := all[i]
			dup := false
			for _, c := range chosen {
				if c == g {
					dup = true
				}
			}
			if dup {
				continue
			}
			if g.Final == "cancel" {
				if *cancelGroups >= 0 && ncancel >= *cancelGroups {
					continue
				}
				ncancel++
			}
			chosen = append(chosen, g)
		}
	}
	pat := makePattern()
	pf := filepath.Join(root, "pattern.bin")
	if err := os.WriteFile(pf, pat, 0o600); err != nil {
		res.inconclusive(err.Error())

		return
	}
	d, err := resd.NewDaemon(*bin, root, "l", resd.NodeCfg{LocalOnly: true, WorkTypes: []string{"sh"}})
	if err != nil {
		res.inconclusive(err.Error())

		return
	}
	defer func() {
		d.Kill()
		res.count("reaped", resd.ReapAll(root, *bin))
	}()
	if err := d.Start(60 * time.Second); err != nil {
		res.inconclusive(err.Error())

		return
	}
	lr := &localRun{res: res, d: d, pattern: pat, patternFile: pf, root: root, seed: *seed,
		endDeadline: *endDeadline, hardLimit: 240 * time.Second}
	sem := make(chan struct{}, *par)
	var wg sync.WaitGroup
	for i, g := range chosen {
		wg.Add(1)
		sem <- struct{}{}
		go func(i int, g *group) {
			defer wg.Done()
			defer func() { <-sem }()
			lr.runGroup(i, g)
		}(i, g)
	}
	wg.Wait()
	if !d.Alive() {
		res.inconclusive("daemon died during the run; log tail: " + resd.Tail(d.LogFile, 1500))
	}
	res.count("groups_run", len(chosen))
}

type unitWatch struct {
	id      string
	unitDir string
	size    atomic.Int64 // stdout size (-1: absent)
	state   atomic.Int64
	tDone   atomic.Int64 // unix nanos when a terminal state was first seen on disk (0 = not yet)
	stop    chan struct{}
	failed  atomic.Value
}

func (lr *localRun) watch(id, unitDir string) *unitWatch {
	w := &unitWatch{id: id, unitDir: unitDir, stop: make(chan struct{})}
	w.size.Store(-1)
	go func() {
		for {
			select {
			case <-w.stop:
				return
			default:
			}
			w.size.Store(resd.FileSize(filepath.Join(unitDir, "stdout")))
			if w.tDone.Load() == 0 {
				if st, err := resd.ReadStatusFile(unitDir); err == nil {
					w.state.Store(int64(st.State))
					if terminal(st.State) {
						w.tDone.Store(time.Now().UnixNano())
					}
				}
			}
			time.Sleep(4 * time.Millisecond)
		}
	}()

	return w
}

func (lr *localRun) runGroup(idx int, g *group) {
	res := lr.res
	h := fnv.New64a()
	h.Write([]byte(g.key()))
	rng := rand.New(rand.NewSource(lr.seed ^ int64(h.Sum64()>>1)))
	var unit int64
	switch g.Kind {
	case "small":
		unit = 1 + rng.Int63n(700)
	case "boundary":
		unit = 32768
	case "huge":
		unit = 100*1024 + rng.Int63n(100*1024)
	}
	n := len(g.Chunks)
	cum := make([]int64, n+1)
	for i, c := range g.Chunks {
		cum[i+1] = cum[i] + int64(c)*unit
	}
	total := cum[n]
	// producer script
	var sb strings.Builder
	sb.WriteString("#!/bin/bash\ntrap 'exit 130' INT TERM\n")
	fmt.Fprintf(&sb, "P=%s\no=0\n", lr.patternFile)
	sb.WriteString("emit() { tail -c +$((o+1)) \"$P\" | head -c \"$1\"; o=$((o+$1)); }\n")
	sb.WriteString("nap() { sleep \"$1\" & wait $!; }\n")
	fmt.Fprintf(&sb, "nap %.2f\n", 0.15+rng.Float64()*0.35)
	for i, c := range g.Chunks {
		fmt.Fprintf(&sb, "emit %d\n", int64(c)*unit)
		if i < n-1 {
			if rng.Intn(4) == 0 {
				sb.WriteString("nap 0.01\n")
			} else {
				fmt.Fprintf(&sb, "nap %.2f\n", 0.05+rng.Float64()*0.4)
			}
		}
	}
	fmt.Fprintf(&sb, "nap %.2f\n", 0.1+rng.Float64()*0.4)
	switch g.Final {
	case "ok":
		sb.WriteString("exit 0\n")
	case "fail":
		sb.WriteString("exit 3\n")
	case "cancel":
		sb.WriteString("for i in $(seq 600); do nap 1; done\nexit 0\n")
	}
	script := filepath.Join(lr.root, fmt.Sprintf("prod_%03d.sh", idx))
	if err := os.WriteFile(script, []byte(sb.String()), 0o700); err != nil {
		res.inconclusive(err.Error())

		return
	}
	sub, err := resd.SubmitBegin(lr.d.Sock, "localhost", "sh", script, 30*time.Second)
	if err != nil {
		res.inconclusive(fmt.Sprintf("submit %s: %v", g.key(), err))

		return
	}
	unitDir := lr.d.UnitDir(sub.ID)
	w := lr.watch(sub.ID, unitDir)
	defer close(w.stop)

	// clients
	type client struct {
		rec    clientRec
		opened chan struct{}
	}
	var clients []*client
	addClient := func(v localVec, off int64, delta string) {
		if off < 0 || off > total {
			return
		}
		clients = append(clients, &client{rec: clientRec{Group: g.key(), Unit: unit, AbstractP: v.P, Delta: delta,
			Offset: off, Moment: v.Moment, Mismatch: -1, StateAtEnd: -1}, opened: make(chan struct{})})
	}
	for _, v := range g.Vecs {
		base := int64(v.P) * unit
		addClient(v, base, "0")
		if g.Kind == "huge" && rng.Intn(3) != 0 {
			continue // keep the data volume of the huge family bounded
		}
		switch rng.Intn(3) {
		case 0:
			addClient(v, base-1, "-1")
		case 1:
			addClient(v, base+1, "+1")
		default:
			if unit > 2 && base+unit <= total {
				addClient(v, base+1+rng.Int63n(unit-1), "in")
			} else {
				addClient(v, base+1, "+1")
			}
		}
	}
	start := time.Now()
	var cwg sync.WaitGroup
	finished := make(chan struct{})
	for _, c := range clients {
		cwg.Add(1)
		go func(c *client) {
			defer cwg.Done()
			lr.runClient(g, &c.rec, c.opened, w, cum, start, finished)
		}(c)
	}
	// moment-0 clients must be inside GetResults before the unit is started
	t0 := time.Now()
	for _, c := range clients {
		if c.rec.Moment == 0 {
			select {
			case <-c.opened:
			case <-time.After(60*time.Second - time.Since(t0)):
			}
		}
	}
	if _, err := sub.Finish(nil, 60*time.Second); err != nil {
		res.inconclusive(fmt.Sprintf("submit finish %s: %v", g.key(), err))
		close(finished)
		cwg.Wait()

		return
	}
	if g.Final == "cancel" {
		dl := time.Now().Add(60 * time.Second)
		for w.size.Load() < total && time.Now().Before(dl) {
			time.Sleep(5 * time.Millisecond)
		}
		time.Sleep(time.Duration(100+rng.Intn(400)) * time.Millisecond)
		go func() {
			if _, err := resd.Once(lr.d.Sock, "work cancel "+sub.ID, 90*time.Second); err != nil {
				res.note(fmt.Sprintf("cancel %s: %v", g.key(), err))
			}
		}()
	}
	cwg.Wait()
	close(finished)
	// the unit's own record
	st, err := resd.ReadStatusFile(unitDir)
	if err != nil || !terminal(st.State) {
		res.inconclusive(fmt.Sprintf("group %s: unit %s not finished at the end of the group (state %v, err %v)", g.key(), sub.ID, st, err))

		return
	}
	final, err := os.ReadFile(filepath.Join(unitDir, "stdout"))
	if err != nil {
		res.inconclusive(fmt.Sprintf("group %s: cannot read stdout: %v", g.key(), err))

		return
	}
	if int64(len(final)) != total || !bytes.Equal(final, lr.pattern[:total]) {
		res.inconclusive(fmt.Sprintf("group %s: producer wrote %d bytes, expected %d patterned bytes", g.key(), len(final), total))

		return
	}
	wantState := map[string]int{"ok": 2, "fail": 3, "cancel": 4}[g.Final]
	if st.State != wantState {
		res.note(fmt.Sprintf("group %s: final state %d (expected %d) detail %q", g.key(), st.State, wantState, st.Detail))
	}
	if st.StdoutSize != total {
		res.note(fmt.Sprintf("group %s: recorded StdoutSize %d != %d", g.key(), st.StdoutSize, total))
	}
	res.count("units_"+g.Final, 1)
	res.count("units_kind_"+g.Kind, 1)
	for _, c := range clients {
		r := &c.rec
		r.FinalState, r.FinalSize = st.State, total
		r.Expected = total - r.Offset
		res.mu.Lock()
		res.Evaluations++
		res.mu.Unlock()
		res.seen(fmt.Sprintf("%s|p%d%s|m%d", g.key(), r.AbstractP, r.Delta, r.Moment))
		res.count(fmt.Sprintf("moment_%s", momentClass(r.Moment, n)), 1)
		rp := map[string]any{"part": "local", "seed": lr.seed, "group": g.key(), "client": *r}
		switch {
		case r.Err != "":
			res.inconclusive(fmt.Sprintf("client %s p=%d m=%d: %s", g.key(), r.Offset, r.Moment, r.Err))
		case r.Mismatch >= 0:
			res.violate("C05:results-bytes-differ", fmt.Sprintf("work results from offset %d (%s, moment %d): byte %d of the stream differs from the unit's output at offset %d (gap or repeat)",
				r.Offset, g.key(), r.Moment, r.Mismatch, r.Offset+r.Mismatch), rp)
		case r.Received > r.Expected:
			res.violate("C05:results-bytes-differ", fmt.Sprintf("work results from offset %d (%s): %d bytes received but the output has only %d bytes from there",
				r.Offset, g.key(), r.Received, r.Expected), rp)
		case r.Ended && !terminal(r.StateAtEnd):
			res.violate("C05:results-ended-before-unit-finished", fmt.Sprintf("work results from offset %d (%s, moment %d) ended after %d bytes while the unit's status on disk was still state %d",
				r.Offset, g.key(), r.Moment, r.Received, r.StateAtEnd), rp)
		case r.Ended && r.Received < r.Expected:
			res.violate("C05:results-ended-before-all-output-sent", fmt.Sprintf("work results from offset %d (%s, moment %d) ended after %d of %d bytes (output size %d)",
				r.Offset, g.key(), r.Moment, r.Received, r.Expected, total), rp)
		case !r.Ended:
			sig := "C05:results-never-end-on-finished-unit"
			if st.State == 4 {
				sig = "C05:results-never-end-on-cancelled-unit"
			}
			res.violate(sig, fmt.Sprintf("work results from offset %d (%s, moment %d): all %d bytes were sent, the unit has been in final state %d for more than %s and the daemon answers, but the stream is still open",
				r.Offset, g.key(), r.Moment, r.Received, st.State, lr.endDeadline), rp)
		default:
			res.count("streams_ok", 1)
			if r.Expected == 0 {
				res.count("streams_empty", 1)
			}
		}
		if r.Delta == "0" && (r.AbstractP == 1 || r.Moment == 1) {
			res.sample(*r, 8)
		}
	}
}

func momentClass(m, n int) string {
	switch {
	case m == 0:
		return "before_start"
	case m == n+1:
		return "after_finish"
	default:
		return "mid_run"
	}
}

// runClient performs one "work results <id> <p>" session and records what it saw.
func (lr *localRun) runClient(g *group, r *clientRec, opened chan struct{}, w *unitWatch, cum []int64, start time.Time, abort chan struct{}) {
	n := len(g.Chunks)
	openedClosed := false
	defer func() {
		if !openedClosed {
			close(opened)
		}
	}()
	// trigger
	hard := time.Now().Add(lr.hardLimit)
	for r.Moment > 0 {
		if r.Moment <= n && w.size.Load() >= cum[r.Moment] {
			break
		}
		if r.Moment == n+1 && w.tDone.Load() != 0 {
			break
		}
		// a cancel group never finishes by itself: "after finish" means after the cancel took effect
		select {
		case <-abort:
			r.Err = "aborted before trigger"

			return
		default:
		}
		if time.Now().After(hard) {
			r.Err = "trigger not reached"

			return
		}
		time.Sleep(3 * time.Millisecond)
	}
	rs, err := resd.OpenResults(lr.d.Sock, w.id, r.Offset, 60*time.Second)
	if err != nil {
		r.Err = "open results: " + err.Error()

		return
	}
	defer rs.Close()
	close(opened)
	openedClosed = true
	buf := make([]byte, 128*1024)
	var confirmAt time.Time
	for {
		nr, err := rs.Read(buf, time.Now().Add(200*time.Millisecond))
		if nr > 0 {
			exp := lr.pattern[r.Offset+r.Received:]
			if int64(nr) > int64(len(exp)) {
				if r.Mismatch < 0 {
					r.Mismatch = r.Received + int64(len(exp))
				}
			} else if r.Mismatch < 0 && !bytes.Equal(buf[:nr], exp[:nr]) {
				for i := 0; i < nr; i++ {
					if buf[i] != exp[i] {
						r.Mismatch = r.Received + int64(i)

						break
					}
				}
			}
			r.Received += int64(nr)
		}
		if err != nil && !resd.IsTimeout(err) {
			// end of stream: look at the unit's record right away
			r.Ended = true
			tEnd := time.Now()
			if st, e := resd.ReadStatusFile(w.unitDir); e == nil {
				r.StateAtEnd = st.State
			} else {
				r.StateAtEnd = int(w.state.Load())
			}
			if td := w.tDone.Load(); td != 0 {
				r.EndAfterMs = (tEnd.UnixNano() - td) / 1e6
			} else {
				r.EndAfterMs = -1
			}

			return
		}
		td := w.tDone.Load()
		if td != 0 && time.Since(time.Unix(0, td)) > lr.endDeadline {
			// liveness: confirm that the daemon is responsive and reports the unit finished, then give it a last chance
			if confirmAt.IsZero() {
				st, e := resd.Status(lr.d.Sock, w.id, 10*time.Second)
				if e != nil || !terminal(st.State) {
					r.Err = fmt.Sprintf("stream open %s after completion but the daemon does not confirm completion (%v %v)", lr.endDeadline, st, e)

					return
				}
				confirmAt = time.Now()
			} else if time.Since(confirmAt) > 4*time.Second {
				return // Ended stays false
			}
		}
		if time.Now().After(hard) {
			r.Err = "hard limit reached while streaming"

			return
		}
	}
}
