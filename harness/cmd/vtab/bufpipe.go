package main

import (
	"io"
	"net"
	"os"
	"sync"
	"time"
)

// bufPipe is net.Pipe with buffering: a write never waits for the reader. crypto/tls can have both
// ends writing at once (HelloRetryRequest + compatibility ChangeCipherSpec), which deadlocks on the
// synchronous net.Pipe although it never would on a socket.

type halfPipe struct {
	mu     sync.Mutex
	cond   *sync.Cond
	buf    []byte
	closed bool
}

func newHalf() *halfPipe {
	h := &halfPipe{}
	h.cond = sync.NewCond(&h.mu)

	return h
}

type bufConn struct {
	in, out  *halfPipe
	mu       sync.Mutex
	deadline time.Time
}

func bufPipe() (net.Conn, net.Conn) {
	a, b := newHalf(), newHalf()

	return &bufConn{in: a, out: b}, &bufConn{in: b, out: a}
}

func (c *bufConn) Read(p []byte) (int, error) {
	c.mu.Lock()
	dl := c.deadline
	c.mu.Unlock()
	h := c.in
	h.mu.Lock()
	defer h.mu.Unlock()
	var timer *time.Timer
	for len(h.buf) == 0 {
		if h.closed {
			return 0, io.EOF
		}
		if !dl.IsZero() {
			rem := time.Until(dl)
			if rem <= 0 {
				return 0, os.ErrDeadlineExceeded
			}
			if timer == nil {
				timer = time.AfterFunc(rem, func() {
					h.mu.Lock()
					h.cond.Broadcast()
					h.mu.Unlock()
				})
				defer timer.Stop()
			}
		}
		h.cond.Wait()
	}
	n := copy(p, h.buf)
	h.buf = h.buf[n:]

	return n, nil
}

func (c *bufConn) Write(p []byte) (int, error) {
	h := c.out
	h.mu.Lock()
	defer h.mu.Unlock()
	if h.closed {
		return 0, io.ErrClosedPipe
	}
	h.buf = append(h.buf, p...)
	h.cond.Broadcast()

	return len(p), nil
}

func (c *bufConn) Close() error {
	for _, h := range []*halfPipe{c.in, c.out} {
		h.mu.Lock()
		h.closed = true
		h.cond.Broadcast()
		h.mu.Unlock()
	}

	return nil
}

type bufAddr struct{}

func (bufAddr) Network() string { return "bufpipe" }
func (bufAddr) String() string  { return "bufpipe" }

func (c *bufConn) LocalAddr() net.Addr  { return bufAddr{} }
func (c *bufConn) RemoteAddr() net.Addr { return bufAddr{} }
func (c *bufConn) SetDeadline(t time.Time) error {
	c.mu.Lock()
	c.deadline = t
	c.mu.Unlock()

	return nil
}
func (c *bufConn) SetReadDeadline(t time.Time) error  { return c.SetDeadline(t) }
func (c *bufConn) SetWriteDeadline(t time.Time) error { return nil }
