// Command vtab is the E4 "tables" conformance harness for C09 (TLS peer verification) and C20
// (certificate names): decision-table vectors enumerated by TLC from specs/TLSVerify.tla and
// specs/CertNames.tla are concretised into real X.509 artefacts and pushed through the real
// receptor code; the observed verdicts are compared with the specification's.
package main

import (
	"encoding/json"
	"fmt"
	"os"
	"sync"

	"github.com/ansible/receptor/pkg/logger"
)

// Violation is one observed departure of the real code from the specification.
type Violation struct {
	Sig    string `json:"sig"`
	What   string `json:"what"`
	Replay any    `json:"replay"`
}

// Result is what every subcommand writes.
type Result struct {
	mu           sync.Mutex
	Evaluations  int            `json:"evaluations"`
	Distinct     int            `json:"distinct"`
	Violations   []Violation    `json:"violations"`
	Inconclusive []string       `json:"inconclusive"`
	Samples      []any          `json:"samples"`
	Counters     map[string]int `json:"counters"`
	Notes        []string       `json:"notes"`
	perSig       map[string]int
}

func (r *Result) count(k string) { r.add(k, 1) }

func (r *Result) add(k string, n int) {
	r.mu.Lock()
	defer r.mu.Unlock()
	if r.Counters == nil {
		r.Counters = map[string]int{}
	}
	r.Counters[k] += n
}

// violate records a violation; at most 3 per signature are written out (all are counted).
func (r *Result) violate(sig, what string, replay any) {
	r.mu.Lock()
	defer r.mu.Unlock()
	if r.perSig == nil {
		r.perSig = map[string]int{}
	}
	if r.Counters == nil {
		r.Counters = map[string]int{}
	}
	r.perSig[sig]++
	r.Counters["violations"]++
	r.Counters["viol:"+sig]++
	if r.perSig[sig] <= 3 && len(r.Violations) < 200 {
		r.Violations = append(r.Violations, Violation{sig, what, replay})
	}
}

func (r *Result) inconclusive(msg string) {
	r.mu.Lock()
	defer r.mu.Unlock()
	if len(r.Inconclusive) < 50 {
		r.Inconclusive = append(r.Inconclusive, msg)
	}
}

func (r *Result) note(msg string) {
	r.mu.Lock()
	defer r.mu.Unlock()
	if len(r.Notes) < 100 {
		r.Notes = append(r.Notes, msg)
	}
}

func (r *Result) sample(s any, max int) {
	r.mu.Lock()
	defer r.mu.Unlock()
	if len(r.Samples) < max {
		r.Samples = append(r.Samples, s)
	}
}

func (r *Result) write(path string) {
	if r.Violations == nil {
		r.Violations = []Violation{}
	}
	if r.Inconclusive == nil {
		r.Inconclusive = []string{}
	}
	b, _ := json.MarshalIndent(r, "", " ")
	if err := os.WriteFile(path, b, 0o644); err != nil {
		fmt.Fprintln(os.Stderr, "cannot write result:", err)
		os.Exit(3)
	}
}

var commands = map[string]func(args []string){}

func main() {
	if os.Getenv("VERIF_DEBUG") == "" {
		logger.SetGlobalQuietMode()
	} else {
		logger.SetGlobalLogLevel(logger.DebugLevel)
	}
	if len(os.Args) < 2 || commands[os.Args[1]] == nil {
		fmt.Fprintln(os.Stderr, "usage: vtab <command> [flags]; commands:")
		for k := range commands {
			fmt.Fprintln(os.Stderr, "  ", k)
		}
		os.Exit(2)
	}
	commands[os.Args[1]](os.Args[2:])
}

func readNDJSON[T any](path string) ([]T, error) {
	f, err := os.Open(path)
	if err != nil {
		return nil, err
	}
	defer f.Close()
	dec := json.NewDecoder(f)
	var out []T
	for dec.More() {
		var v T
		if err := dec.Decode(&v); err != nil {
			return nil, err
		}
		out = append(out, v)
	}

	return out, nil
}

// parallel runs f(i) for i in [0,n) on w workers.
func parallel(n, w int, f func(i int)) {
	if w < 1 {
		w = 1
	}
	var wg sync.WaitGroup
	ch := make(chan int, 256)
	for k := 0; k < w; k++ {
		wg.Add(1)
		go func() {
			defer wg.Done()
			for i := range ch {
				f(i)
			}
		}()
	}
	for i := 0; i < n; i++ {
		ch <- i
	}
	close(ch)
	wg.Wait()
}
