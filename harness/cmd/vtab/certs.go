package main

import (
	"bytes"
	"crypto/rsa"
	"crypto/tls"
	"crypto/x509"
	"crypto/x509/pkix"
	"flag"
	"fmt"
	"math/rand"
	"net"
	"os"
	"path/filepath"
	"runtime"
	"sort"
	"strings"
	"sync"
	"time"
	"unicode/utf8"

	"github.com/ansible/receptor/pkg/certificates"
	"github.com/ansible/receptor/pkg/logger"
	"github.com/ansible/receptor/pkg/netceptor"
	"github.com/ansible/receptor/pkg/utils"
)

// C20: request shapes enumerated by TLC from specs/CertNames.tla are concretised (seeded strings of exactly the
// prescribed byte lengths and character classes) and pushed through the real tooling:
//   certificates.CreateCertReq / CreateCertReqWithKey -> GetReqNames -> SignCertReq -> x509 fields,
//   utils.ReceptorNames, netceptor.ReceptorVerifyFunc for candidate ids; MakeReq / SignReq on files;
// an independent DER decoder cross-checks the SAN bytes and their sizes against the DER sub-model, and an
// independent encoder feeds utils.ReceptorNames with SANs the tooling did not make.

type cnID struct {
	Len int    `json:"len"`
	CS  string `json:"cs"`
	Ref int    `json:"ref"`
	DER struct {
		Entry   int `json:"entry"`
		UTF8Hdr int `json:"utf8hdr"`
		ValHdr  int `json:"valhdr"`
		SeqHdr  int `json:"seqhdr"`
	} `json:"der"`
}

type cnEntry struct {
	Kind string `json:"kind"`
	Len  int    `json:"len"`
	CS   string `json:"cs"`
}

type cnCand struct {
	Kind   string `json:"kind"`
	Of     int    `json:"of"`
	Accept bool   `json:"accept"`
}

type cnVec struct {
	Fam     string    `json:"fam"`
	IDs     []cnID    `json:"ids"`
	DNS     string    `json:"dns"`
	PadLen  int       `json:"padlen"`
	IP      string    `json:"ip"`
	Key     string    `json:"key"`
	Window  string    `json:"window"`
	Entries []cnEntry `json:"entries"`
	Cands   []cnCand  `json:"cands"`
	Clock   *cnClock  `json:"clock,omitempty"`
	Expect  struct {
		WellFormed  bool   `json:"wellformed"`
		ReadBack    string `json:"readback"`
		WindowValid bool   `json:"window_valid"`
		NoNames     bool   `json:"nonames"`
		SanContent  int    `json:"san_content"`
	} `json:"expect"`
}

// ---------------------------------------------------------------- seeded strings of exact byte length

const asciiSet = "abcdefghijklmnopqrstuvwxyzABCDEFGHIJKLMNOPQRSTUVWXYZ0123456789-_.:/@ +=,;!~*'()[]{}<>#%&\\\"|^`$?"

func randRune(rng *rand.Rand, k int) rune {
	switch k {
	case 1:
		return rune(asciiSet[rng.Intn(len(asciiSet))])
	case 2:
		return rune(0xA1 + rng.Intn(0x7FF-0xA1+1))
	case 3:
		for {
			r := rune(0x800 + rng.Intn(0xFFFD-0x800+1))
			if r < 0xD800 || r > 0xDFFF {
				return r
			}
		}
	}

	return rune(0x10000 + rng.Intn(0x10FFFF-0x10000+1))
}

// genString returns a string of exactly n bytes of the character class cs.
func genString(rng *rand.Rand, n int, cs string) string {
	var sb strings.Builder
	switch cs {
	case "ascii":
		for sb.Len() < n {
			sb.WriteRune(randRune(rng, 1))
		}
	case "utf8_2", "utf8_3", "utf8_4":
		k := int(cs[5] - '0')
		pad := n % k
		padFirst := rng.Intn(2) == 0
		if padFirst {
			for i := 0; i < pad; i++ {
				sb.WriteRune(randRune(rng, 1))
			}
		}
		for i := 0; i < n/k; i++ {
			sb.WriteRune(randRune(rng, k))
		}
		if !padFirst {
			for i := 0; i < pad; i++ {
				sb.WriteRune(randRune(rng, 1))
			}
		}
	case "mixed":
		for sb.Len() < n {
			k := 1 + rng.Intn(4)
			if k > n-sb.Len() {
				k = 1
			}
			sb.WriteRune(randRune(rng, k))
		}
	case "controls":
		ctl := []byte{0x00, 0x01, 0x09, 0x0a, 0x0d, 0x1b, 0x7f}
		for sb.Len() < n {
			if rng.Intn(3) == 0 {
				sb.WriteByte(ctl[rng.Intn(len(ctl))])
			} else {
				sb.WriteRune(randRune(rng, 1))
			}
		}
	case "invalid":
		bad := []byte{0xff, 0x80, 0xc0, 0xfe, 0xed} // 0xed followed by 0xa0.. would be a surrogate; alone it is truncated
		b := make([]byte, n)
		for i := range b {
			b[i] = asciiSet[rng.Intn(len(asciiSet))]
		}
		if n > 0 {
			b[rng.Intn(n)] = bad[rng.Intn(len(bad))]
			if !bytes.ContainsAny(b, "\xff\x80\xc0\xfe\xed") || utf8.Valid(b) {
				b[n-1] = 0xff
			}
		}

		return string(b)
	}
	if sb.Len() != n {
		panic(fmt.Sprintf("genString: wanted %d bytes of %s, made %d", n, cs, sb.Len()))
	}

	return sb.String()
}

func dropLastRune(s string) string {
	if s == "" {
		return s
	}
	_, sz := utf8.DecodeLastRuneInString(s)

	return s[:len(s)-sz]
}

// ---------------------------------------------------------------- environment

type certsEnv struct {
	res      *Result
	seed     int64
	instK    int
	dir      string
	cas      []*certificates.CA
	pools    []*x509.CertPool
	caFiles  [][2]string
	keys     []*rsa.PrivateKey
	log      *logger.ReceptorLogger
	distinct sync.Map
	ndist    int
	dmu      sync.Mutex
}

type cnRequest struct {
	IDs     []string `json:"ids"`
	DNS     []string `json:"dns"`
	IPs     []string `json:"ips"`
	ips     []net.IP
	Key     string `json:"key"`
	Window  string `json:"window"`
	nb, na  time.Time
	idsHex  bool
	Inst    int `json:"inst"`
	CA      int `json:"ca"`
	wellfmd bool
}

func (r *cnRequest) forReplay() map[string]any {
	ids := make([]string, len(r.IDs))
	for i, s := range r.IDs {
		ids[i] = fmt.Sprintf("%q", s)
	}

	return map[string]any{"ids_quoted": ids, "dns": r.DNS, "ips": r.IPs, "key": r.Key, "window": r.Window, "inst": r.Inst}
}

func (e *certsEnv) concretise(v *cnVec, vi, k int) *cnRequest {
	rng := rand.New(rand.NewSource(int64(hash64(e.seed, vi, k, v.Fam, v.DNS, v.IP, v.Window, len(v.IDs)))))
	r := &cnRequest{Key: v.Key, Window: v.Window, Inst: k, CA: (vi + k) % len(e.cas)}
	byRef := map[int]string{}
	for _, id := range v.IDs {
		s, ok := byRef[id.Ref]
		if !ok {
			s = genString(rng, id.Len, id.CS)
			byRef[id.Ref] = s
		}
		r.IDs = append(r.IDs, s)
	}
	switch v.DNS {
	case "one":
		r.DNS = []string{fmt.Sprintf("host-%d.example.test", rng.Intn(1000))}
	case "several":
		r.DNS = []string{"a.example.test", "*.wild.example.test", fmt.Sprintf("UPPER%d.Example.TEST", rng.Intn(100))}
	case "long":
		lbl := strings.Repeat("l", 40+rng.Intn(20))
		r.DNS = []string{lbl + "." + lbl + "." + lbl + ".example.test", "short.example.test"}
	case "nonascii":
		r.DNS = []string{"ok.example.test", "bücher.example.test"}
	case "pad":
		r.DNS = []string{strings.Repeat("p", v.PadLen)}
	}
	switch v.IP {
	case "v4":
		if rng.Intn(2) == 0 {
			r.ips = []net.IP{net.ParseIP("10.1.2.3")} // 16-byte form
		} else {
			r.ips = []net.IP{net.IPv4(192, 168, byte(rng.Intn(256)), 7).To4()}
		}
	case "v6":
		r.ips = []net.IP{net.ParseIP("2001:db8::1")}
	case "both":
		r.ips = []net.IP{net.ParseIP("2001:db8:0:1::ff"), net.ParseIP("172.16.0.9"), net.ParseIP("::1")}
	case "mapped":
		r.ips = []net.IP{net.ParseIP("::ffff:10.9.8.7")}
	case "badlen":
		r.ips = []net.IP{{1, 2, 3}}
	}
	for _, ip := range r.ips {
		r.IPs = append(r.IPs, ip.String())
	}
	now := time.Now()
	switch v.Window {
	case "explicit":
		r.nb, r.na = now.Add(-time.Hour-123456789*time.Nanosecond), now.AddDate(0, 0, 30)
	case "expired":
		r.nb, r.na = now.AddDate(0, 0, -60), now.AddDate(0, 0, -30)
	case "future":
		r.nb, r.na = now.AddDate(0, 0, 30), now.AddDate(0, 0, 60)
	case "gentime":
		r.nb, r.na = now.Add(-time.Hour), time.Date(2055, 6, 1, 12, 0, 0, 0, time.UTC)
	}
	r.wellfmd = v.DNS != "nonascii" && v.IP != "badlen"
	for _, s := range r.IDs {
		if !utf8.ValidString(s) {
			r.wellfmd = false
		}
	}

	return r
}

func sameStrings(a, b []string) bool {
	if len(a) != len(b) {
		return false
	}
	x, y := append([]string{}, a...), append([]string{}, b...)
	sort.Strings(x)
	sort.Strings(y)
	for i := range x {
		if x[i] != y[i] {
			return false
		}
	}

	return true
}

func sameIPs(a, b []net.IP) bool {
	if len(a) != len(b) {
		return false
	}
	used := make([]bool, len(b))
outer:
	for _, x := range a {
		for j, y := range b {
			if !used[j] && x.Equal(y) {
				used[j] = true

				continue outer
			}
		}

		return false
	}

	return true
}

func q(ss []string) string {
	var out []string
	for _, s := range ss {
		if len(s) > 40 {
			out = append(out, fmt.Sprintf("%q...(%d bytes)", s[:24], len(s)))
		} else {
			out = append(out, fmt.Sprintf("%q", s))
		}
	}

	return "[" + strings.Join(out, " ") + "]"
}

func sanOf(exts []pkix.Extension) []byte {
	for _, e := range exts {
		if e.Id.Equal(utils.OIDSubjectAltName) {
			return e.Value
		}
	}

	return nil
}

type cnFail struct {
	sig, what string
}

// errStop ends the pipeline of an instance without a violation.
var errStop = &cnFail{}

func guard(f func() *cnFail) (out *cnFail) {
	defer func() {
		if r := recover(); r != nil {
			out = &cnFail{"C20:panic", fmt.Sprint("the tooling panicked: ", r)}
		}
	}()

	return f()
}

// checkNames compares names read from an artefact with the request.
func (e *certsEnv) checkNames(stage string, v *cnVec, r *cnRequest, ids []string, idErr error, dns []string, ips []net.IP, san []byte) *cnFail {
	if idErr != nil && !r.wellfmd {
		// outside the property's quantifier (not UTF-8 / not IA5 / not an IP): an error on reading back is fine
		e.res.count(stage + "_unreadable_malformed_input")

		return errStop
	}
	if idErr != nil {
		return &cnFail{"C20:" + stage + "-names-unreadable", fmt.Sprintf("the %s made by the tooling for node ids %s (byte lengths %v) does not let them be read back: %v",
			stage, q(r.IDs), lens(r.IDs), idErr)}
	}
	if !sameStrings(ids, r.IDs) {
		return &cnFail{"C20:" + stage + "-names-differ:ids", fmt.Sprintf("%s carries node ids %s, requested %s", stage, q(ids), q(r.IDs))}
	}
	if !sameStrings(dns, r.DNS) {
		return &cnFail{"C20:" + stage + "-names-differ:dns", fmt.Sprintf("%s carries DNS names %s, requested %s", stage, q(dns), q(r.DNS))}
	}
	if !sameIPs(ips, r.ips) {
		return &cnFail{"C20:" + stage + "-names-differ:ip", fmt.Sprintf("%s carries IP addresses %v, requested %v", stage, ips, r.ips)}
	}
	// independent decoder on the raw extension, and the sizes the DER sub-model predicts
	if san == nil {
		if len(r.IDs)+len(r.DNS)+len(r.ips) > 0 {
			return &cnFail{"C20:" + stage + "-san-missing", stage + " has no subjectAltName although names were requested"}
		}

		return nil
	}
	dec, err := decodeSAN(san)
	if err != nil {
		return &cnFail{"C20:" + stage + "-san-malformed", fmt.Sprintf("independent DER decoder cannot read the %s's subjectAltName for ids of %v bytes: %v", stage, lens(r.IDs), err)}
	}
	if !sameStrings(dec.IDs, r.IDs) || !sameStrings(dec.DNS, r.DNS) || !sameIPs(dec.IPs, r.ips) {
		return &cnFail{"C20:" + stage + "-san-differs", fmt.Sprintf("independent DER decoder reads ids %s dns %s from the %s; requested %s %s", q(dec.IDs), q(dec.DNS), stage, q(r.IDs), q(r.DNS))}
	}
	// sizes (ids keep their order in practice; compare position-wise when they do)
	if len(dec.IDs) == len(v.IDs) {
		inOrder := true
		for i := range dec.IDs {
			if dec.IDs[i] != r.IDs[i] {
				inOrder = false
			}
		}
		if inOrder {
			for i, id := range v.IDs {
				got := [4]int{dec.EntrySize[i], dec.HdrSizes[i][0], dec.HdrSizes[i][1], dec.HdrSizes[i][2]}
				want := [4]int{id.DER.Entry, id.DER.UTF8Hdr, id.DER.ValHdr, id.DER.SeqHdr}
				if got != want {
					return &cnFail{"C20:" + stage + "-san-size", fmt.Sprintf("otherName entry for an id of %d bytes has sizes %v, the DER model says %v", id.Len, got, want)}
				}
			}
			e.res.count("der_sizes_checked")
		}
	}
	if v.Fam == "san" && dec.SeqLen != v.Expect.SanContent {
		return &cnFail{"C20:" + stage + "-san-size", fmt.Sprintf("SAN content is %d bytes, the DER model says %d", dec.SeqLen, v.Expect.SanContent)}
	}

	return nil
}

func lens(ss []string) []int {
	out := make([]int, len(ss))
	for i, s := range ss {
		out[i] = len(s)
	}

	return out
}

func (e *certsEnv) windowCheck(r *cnRequest, cert *x509.Certificate, t0, t1 time.Time) *cnFail {
	if r.Window == "default" {
		if cert.NotBefore.Before(t0.Add(-2*time.Second)) || cert.NotBefore.After(t1.Add(time.Second)) {
			return &cnFail{"C20:cert-window-differs", fmt.Sprintf("default NotBefore %v is not the time of signing (%v)", cert.NotBefore, t0)}
		}
		d := cert.NotAfter.Sub(t0.AddDate(1, 0, 0))
		if d < -5*time.Second || d > 5*time.Second+t1.Sub(t0) {
			return &cnFail{"C20:cert-window-differs", fmt.Sprintf("default NotAfter %v is not one year after signing", cert.NotAfter)}
		}

		return nil
	}
	if cert.NotBefore.Unix() != r.nb.Unix() || cert.NotAfter.Unix() != r.na.Unix() {
		return &cnFail{"C20:cert-window-differs", fmt.Sprintf("certificate is valid %v .. %v, requested %v .. %v", cert.NotBefore, cert.NotAfter, r.nb, r.na)}
	}

	return nil
}

// candidates builds the concrete candidate ids.
func candidates(v *cnVec, r *cnRequest, rng *rand.Rand) [][2]string {
	var out [][2]string
	seen := map[string]bool{}
	add := func(kind, s string) {
		if !seen[kind+"\x00"+s] {
			seen[kind+"\x00"+s] = true
			out = append(out, [2]string{kind, s})
		}
	}
	for _, c := range v.Cands {
		var base string
		if c.Of > 0 {
			if c.Of > len(r.IDs) {
				continue
			}
			base = r.IDs[c.Of-1]
		}
		switch c.Kind {
		case "same":
			add(c.Kind, base)
		case "prefix":
			if base != "" {
				add(c.Kind, dropLastRune(base))
			}
		case "extended":
			add(c.Kind, base+"x")
		case "case":
			if cv := caseVariant(base); cv != "" {
				add(c.Kind, cv)
			}
		case "otherclass":
			// same beginning, neighbouring byte length
			add(c.Kind, dropLastRune(base)+string(randRune(rng, 1))+string(randRune(rng, 1)))
			if len(base) > 2 && isASCII(base) {
				add(c.Kind, base[:len(base)-2]+string(randRune(rng, 1)))
			}
		case "empty":
			add(c.Kind, "")
		case "dnsname":
			if len(r.DNS) > 0 {
				add(c.Kind, r.DNS[0])
			}
		case "cn":
			add(c.Kind, "vtab cn")
		case "unrelated":
			add(c.Kind, "node-zz")
		}
	}

	return out
}

func (e *certsEnv) verifyCandidates(v *cnVec, r *cnRequest, cert *x509.Certificate, rng *rand.Rand) *cnFail {
	pool := e.pools[r.CA]
	cfg := &tls.Config{RootCAs: pool, ClientCAs: pool}
	requested := map[string]bool{}
	for _, s := range r.IDs {
		requested[s] = true
	}
	for i, c := range candidates(v, r, rng) {
		vt := netceptor.VerifyType(netceptor.VerifyServer)
		if (i+r.Inst)%2 == 1 {
			vt = netceptor.VerifyClient
		}
		err := netceptor.ReceptorVerifyFunc(cfg, nil, c[1], netceptor.ExpectedHostnameTypeReceptor, vt, e.log)([][]byte{cert.Raw}, nil)
		want := requested[c[1]] && v.Expect.WindowValid
		e.res.count("verify_calls")
		if want {
			e.res.count("verify_accept_expected")
		}
		switch {
		case err == nil && !want:
			why := "which was not requested"
			if requested[c[1]] {
				why = "outside the validity window"
			}

			return &cnFail{"C20:verify-accepts-unrequested:" + c[0], fmt.Sprintf("certificate for ids %s verifies as %q (%s candidate) %s", q(r.IDs), c[1], c[0], why)}
		case err != nil && want:
			return &cnFail{"C20:verify-refuses-requested", fmt.Sprintf("certificate for ids %s (lengths %v) does not verify as requested id %q: %v", q(r.IDs), lens(r.IDs), c[1], err)}
		}
	}

	return nil
}

// pipeline pushes one concrete request through the library functions.
func (e *certsEnv) pipeline(v *cnVec, r *cnRequest, rng *rand.Rand) *cnFail {
	opts := &certificates.CertOptions{CommonName: "vtab cn", CertNames: certificates.CertNames{DNSNames: r.DNS, NodeIDs: r.IDs, IPAddresses: r.ips}}
	var req *x509.CertificateRequest
	var key *rsa.PrivateKey
	var err error
	if r.Key == "new" {
		opts.Bits = 1024
		req, key, err = certificates.CreateCertReqWithKey(opts)
	} else {
		key = e.keys[int(hash64(e.seed, r.IDs, r.Inst)%uint64(len(e.keys)))]
		req, err = certificates.CreateCertReq(opts, key)
	}
	if err != nil {
		if r.wellfmd {
			return &cnFail{"C20:tool-refuses-wellformed-request", fmt.Sprintf("CreateCertReq refused ids %s dns %s ips %v: %v", q(r.IDs), q(r.DNS), r.ips, err)}
		}
		e.res.count("request_refused_malformed_input")

		return nil
	}
	e.res.count("requests_made")
	names, nerr := certificates.GetReqNames(req)
	var ids, dns []string
	var ips []net.IP
	if names != nil {
		ids, dns, ips = names.NodeIDs, names.DNSNames, names.IPAddresses
	}
	if f := e.checkNames("req", v, r, ids, nerr, dns, ips, sanOf(req.Extensions)); f != nil {
		return f
	}
	ca := e.cas[r.CA]
	t0 := time.Now()
	cert, err := certificates.SignCertReq(req, ca, &certificates.CertOptions{NotBefore: r.nb, NotAfter: r.na})
	t1 := time.Now()
	if err != nil {
		return &cnFail{"C20:sign-fails", fmt.Sprintf("SignCertReq failed on a request the tooling made itself (ids %s): %v", q(r.IDs), err)}
	}
	e.res.count("certificates_made")
	cids, cerr := utils.ReceptorNames(cert.Extensions)
	if f := e.checkNames("cert", v, r, cids, cerr, cert.DNSNames, cert.IPAddresses, sanOf(cert.Extensions)); f != nil {
		return f
	}
	if f := e.windowCheck(r, cert, t0, t1); f != nil {
		return f
	}
	if err = cert.CheckSignatureFrom(ca.Certificate); err != nil {
		return &cnFail{"C20:cert-not-chained", "certificate is not signed by the signing authority: " + err.Error()}
	}
	if pk, ok := cert.PublicKey.(*rsa.PublicKey); !ok || !pk.Equal(&key.PublicKey) {
		return &cnFail{"C20:cert-key-differs", "certificate does not carry the requester's public key"}
	}
	if v.Expect.WindowValid {
		if _, err = cert.Verify(x509.VerifyOptions{Roots: e.pools[r.CA], KeyUsages: []x509.ExtKeyUsage{x509.ExtKeyUsageAny}}); err != nil {
			return &cnFail{"C20:cert-not-chained", "certificate does not chain to the signing authority: " + err.Error()}
		}
	}

	return e.verifyCandidates(v, r, cert, rng)
}

// cli pushes the same request through MakeReq / SignReq on files.
func (e *certsEnv) cli(v *cnVec, r *cnRequest, dir string) *cnFail {
	ow := &certificates.OsWrapper{}
	opts := &certificates.CertOptions{CommonName: "vtab cn", CertNames: certificates.CertNames{DNSNames: r.DNS, NodeIDs: r.IDs, IPAddresses: r.ips}}
	reqF, certF, keyIn, keyOut := filepath.Join(dir, "r.req"), filepath.Join(dir, "r.crt"), "", ""
	_ = os.Remove(reqF)
	_ = os.Remove(certF)
	if r.Key == "new" {
		opts.Bits = 1024
		keyOut = filepath.Join(dir, "new.key")
	} else {
		keyIn = filepath.Join(dir, "in.key")
		if err := certificates.SaveToPEMFile(keyIn, []interface{}{e.keys[0]}, ow); err != nil {
			e.res.inconclusive("cannot write key file: " + err.Error())

			return nil
		}
	}
	if err := certificates.MakeReq(opts, keyIn, keyOut, reqF, ow); err != nil {
		if r.wellfmd {
			return &cnFail{"C20:cli-makereq-refuses-wellformed", fmt.Sprintf("MakeReq refused ids %s dns %s: %v", q(r.IDs), q(r.DNS), err)}
		}
		e.res.count("cli_request_refused_malformed_input")

		return nil
	}
	caF := e.caFiles[r.CA]
	err := certificates.SignReq(&certificates.CertOptions{NotBefore: r.nb, NotAfter: r.na}, caF[0], caF[1], reqF, certF, true, ow)
	if err != nil {
		if v.Expect.NoNames && strings.Contains(err.Error(), "no names") {
			e.res.count("cli_refused_nameless")

			return nil
		}
		if !r.wellfmd {
			e.res.count("cli_signreq_refused_malformed_input")

			return nil
		}
		if strings.Contains(err.Error(), "asn1") || strings.Contains(err.Error(), "structure") {
			return &cnFail{"C20:cli-req-names-unreadable", fmt.Sprintf("SignReq cannot read the names of the request MakeReq wrote for ids of %v bytes: %v", lens(r.IDs), err)}
		}

		return &cnFail{"C20:cli-signreq-fails", fmt.Sprintf("SignReq failed on the request MakeReq wrote (ids %s): %v", q(r.IDs), err)}
	}
	cert, err := certificates.LoadCertificate(certF, ow)
	if err != nil {
		return &cnFail{"C20:cli-signreq-fails", "cannot load the certificate SignReq wrote: " + err.Error()}
	}
	e.res.count("cli_certificates_made")
	cids, cerr := utils.ReceptorNames(cert.Extensions)

	return e.checkNames("cli-cert", v, r, cids, cerr, cert.DNSNames, cert.IPAddresses, sanOf(cert.Extensions))
}

// decode feeds utils.ReceptorNames with a SAN made by the independent encoder.
func (e *certsEnv) decode(v *cnVec, vi, k int) (*cnFail, any) {
	rng := rand.New(rand.NewSource(int64(hash64(e.seed, "decode", vi, k))))
	var es []sanEntry
	var wantIDs []string
	var legacy [][]byte
	for _, en := range v.Entries {
		s := genString(rng, en.Len, en.CS)
		if en.Kind == "id_ber" && len(s) > 100 {
			s = s[:100] // the BER form used here has a single length octet after 0x81
		}
		switch en.Kind {
		case "dns":
			es = append(es, sanEntry{Kind: "dns", Text: "d.example.test"})
		case "id_legacy":
			es = append(es, sanEntry{Kind: "id_legacy", Text: s})
			wantIDs = append(wantIDs, s)
		case "foreign":
			es = append(es, sanEntry{Kind: en.Kind, Text: s})
		default:
			es = append(es, sanEntry{Kind: en.Kind, Text: s})
			wantIDs = append(wantIDs, s)
		}
	}
	_ = legacy
	san := encodeSANWithLegacy(es)
	names, err := utils.ReceptorNames([]pkix.Extension{{Id: utils.OIDSubjectAltName, Value: san}})
	rep := map[string]any{"entries": v.Entries, "want_ids_lengths": lens(wantIDs), "san_len": len(san), "got": q(names), "err": fmt.Sprint(err)}
	e.res.count("decode_calls")
	switch {
	case err != nil && v.Expect.ReadBack == "exact":
		return &cnFail{"C20:decode-fails-wellformed", fmt.Sprintf("ReceptorNames fails on a well-formed SAN with ids of %v bytes: %v", lens(wantIDs), err)}, rep
	case err != nil:
		e.res.count("decode_errors_expected")

		return nil, rep
	case !sameStrings(names, wantIDs):
		sig := "C20:decode-different-name"
		if v.Expect.ReadBack == "error" {
			sig = "C20:decode-accepts-malformed"
		}

		return &cnFail{sig, fmt.Sprintf("ReceptorNames returns %s for a SAN that encodes %s (expectation: %s)", q(names), q(wantIDs), v.Expect.ReadBack)}, rep
	case v.Expect.ReadBack == "error":
		return &cnFail{"C20:decode-accepts-malformed", fmt.Sprintf("ReceptorNames returns %s without error for a malformed SAN", q(names))}, rep
	}
	// a well-formed foreign-made SAN inside a real certificate must verify as exactly those ids
	if v.Expect.ReadBack == "exact" {
		dec, derr := decodeSAN(san)
		if derr != nil || !sameStrings(dec.IDs, wantIDs) {
			e.res.inconclusive(fmt.Sprintf("independent encoder and decoder disagree: %v", derr))
		}
	}

	return nil, rep
}

func encodeSANWithLegacy(es []sanEntry) []byte {
	var body []byte
	for _, en := range es {
		if en.Kind != "id_legacy" {
			one := encodeSAN([]sanEntry{en})
			_, c, _, _, _ := readTLV(one)
			body = append(body, c...)

			continue
		}
		// what a fixed two-byte strip of the marshalled SEQUENCE produces
		inner := tlv(0x0C, []byte(en.Text))
		seq := tlv(0x30, append(tlv(0x06, receptorOIDDER), tlv(0xA0, inner)...))
		body = append(body, tlv(0xA0, seq[2:])...)
	}

	return tlv(0x30, body)
}

func init() {
	commands["certs"] = func(args []string) {
		fs := flag.NewFlagSet("certs", flag.ExitOnError)
		vectors := fs.String("vectors", "", "NDJSON vectors written by TLC")
		out := fs.String("out", "", "result file")
		seed := fs.Int64("seed", 1, "seed")
		inst := fs.Int("instances", 2, "concrete instances per vector")
		cliEvery := fs.Int("cli-every", 1, "run the file-based CLI path on every n-th vector's first instance")
		work := fs.String("work", "", "scratch directory")
		clockStep := fs.Duration("clock-step", 2*time.Second, "real duration of one tick of the clock family (multiple of 2 s)")
		_ = fs.Parse(args)
		res := &Result{}
		defer func() { res.write(*out) }()
		vecs, err := readNDJSON[cnVec](*vectors)
		if err != nil {
			res.inconclusive("cannot read vectors: " + err.Error())

			return
		}
		sort.Slice(vecs, func(i, j int) bool { return fmt.Sprint(vecs[i]) < fmt.Sprint(vecs[j]) })
		dir := *work
		if dir == "" {
			dir = filepath.Join(filepath.Dir(*out), "certs")
		}
		_ = os.RemoveAll(dir)
		if err = os.MkdirAll(dir, 0o700); err != nil {
			res.inconclusive(err.Error())

			return
		}
		env := &certsEnv{res: res, seed: *seed, instK: *inst, dir: dir, log: logger.NewReceptorLogger("vtab")}
		if env.keys, err = genKeys(3, 2048); err != nil {
			res.inconclusive(err.Error())

			return
		}
		// authorities made by the tooling itself: one through the library, one through the CLI function on files
		ow := &certificates.OsWrapper{}
		for i := 0; i < 2; i++ {
			cf, kf := filepath.Join(dir, fmt.Sprintf("ca%d.crt", i)), filepath.Join(dir, fmt.Sprintf("ca%d.key", i))
			var ca *certificates.CA
			if i == 0 {
				if ca, err = certificates.CreateCA(&certificates.CertOptions{CommonName: "vtab CA", Bits: 2048}, &certificates.RsaWrapper{}); err == nil {
					err = certificates.SaveToPEMFile(cf, []interface{}{ca.Certificate}, ow)
				}
				if err == nil {
					err = certificates.SaveToPEMFile(kf, []interface{}{ca.PrivateKey}, ow)
				}
			} else {
				if err = certificates.InitCA(&certificates.CertOptions{CommonName: "vtab CA two", Bits: 2048}, cf, kf, ow); err == nil {
					ca = &certificates.CA{}
					if ca.Certificate, err = certificates.LoadCertificate(cf, ow); err == nil {
						ca.PrivateKey, err = certificates.LoadPrivateKey(kf, ow)
					}
				}
			}
			if err != nil {
				res.inconclusive("cannot create the authority with the built-in tooling: " + err.Error())

				return
			}
			pool := x509.NewCertPool()
			pool.AddCert(ca.Certificate)
			env.cas, env.pools, env.caFiles = append(env.cas, ca), append(env.pools, pool), append(env.caFiles, [2]string{cf, kf})
		}
		// the time line first, while the machine is otherwise idle
		var clockVecs []*cnVec
		for i := range vecs {
			if vecs[i].Fam == "clock" {
				clockVecs = append(clockVecs, &vecs[i])
			}
		}
		runCertsClock(env, clockVecs, *clockStep)
		workers := runtime.NumCPU()
		dirs := make(chan string, workers)
		for k := 0; k < workers; k++ {
			d := filepath.Join(dir, fmt.Sprintf("w%d", k))
			_ = os.MkdirAll(d, 0o700)
			dirs <- d
		}
		parallel(len(vecs), workers, func(vi int) {
			v := &vecs[vi]
			if v.Fam == "clock" {
				return
			}
			for k := 0; k < env.instK; k++ {
				if v.Fam == "decode" {
					f, rep := guardDecode(env, v, vi, k)
					if f != nil {
						res.violate(f.sig, f.what, map[string]any{"vector": v, "detail": rep, "inst": k})
					}
					if vi%23 == 0 && k == 0 {
						res.sample(map[string]any{"vector": v, "observed": rep}, 14)
					}

					continue
				}
				r := env.concretise(v, vi, k)
				rng := rand.New(rand.NewSource(int64(hash64(env.seed, "cand", vi, k))))
				res.count("instances")
				key := fmt.Sprintf("%q|%q|%v|%s|%s", r.IDs, r.DNS, r.IPs, r.Key, r.Window)
				if _, dup := env.distinct.LoadOrStore(key, true); !dup {
					env.dmu.Lock()
					env.ndist++
					env.dmu.Unlock()
				}
				f := guard(func() *cnFail { return env.pipeline(v, r, rng) })
				if f == errStop {
					f = nil
				}
				if f != nil {
					res.violate(f.sig, f.what, map[string]any{"vector": v, "request": r.forReplay(), "path": "library"})
				}
				if k == 0 && *cliEvery > 0 && vi%*cliEvery == 0 {
					d := <-dirs
					cf := guard(func() *cnFail { return env.cli(v, r, d) })
					dirs <- d
					res.count("cli_runs")
					if cf == errStop {
						cf = nil
					}
					if cf != nil {
						res.violate(cf.sig, cf.what, map[string]any{"vector": v, "request": r.forReplay(), "path": "cli"})
					}
				}
				if vi%401 == 0 && k == 0 {
					res.sample(map[string]any{"vector_fam": v.Fam, "id_shapes": v.IDs, "dns": v.DNS, "ip": v.IP, "key": v.Key, "window": v.Window,
						"request": r.forReplay(), "violation": f != nil}, 14)
				}
			}
			res.count("vectors_" + v.Fam)
		})
		res.mu.Lock()
		res.Evaluations = res.Counters["instances"] + res.Counters["decode_calls"] + res.Counters["vectors_clock"]
		res.Distinct = env.ndist + res.Counters["vectors_decode"] + res.Counters["vectors_clock"]
		res.mu.Unlock()
	}
}

func guardDecode(env *certsEnv, v *cnVec, vi, k int) (f *cnFail, rep any) {
	defer func() {
		if r := recover(); r != nil {
			f = &cnFail{"C20:panic", fmt.Sprint("ReceptorNames panicked: ", r)}
		}
	}()

	return env.decode(v, vi, k)
}
