package main

import (
	"crypto/sha256"
	"crypto/tls"
	"fmt"
	"sort"
	"strings"

	"github.com/ansible/receptor/pkg/netceptor"
)

// Family "lookup" of TLSVerify.tla: ONE node holds ONE named tls-client configuration (PrepareTLSClientConfig +
// SetClientTLSConfig, once) and looks it up repeatedly with GetClientTLSConfig - the validation lookup with the dummy
// host "testhost", receptor-name-mode lookups, DNS-mode lookups - exactly as a running receptor does.  After every
// lookup each certificate class is presented to the configuration that lookup returned (installed verifier and a real
// handshake) and the verdict is compared with the table: the k-th lookup judges like a first one.  The stored
// configuration object must not be changed by a lookup.

type lookupStep struct {
	Mode   string          `json:"mode"`
	Name   string          `json:"name"`
	Accept map[string]bool `json:"accept"`
}

type lookupSpec struct {
	Pinned bool         `json:"pinned"`
	Steps  []lookupStep `json:"steps"`
}

func lookupFailed(st lookupStep, class string, pinned bool) string {
	var f []string
	switch class {
	case "selfsigned":
		f = append(f, "chain")
	case "expired":
		f = append(f, "time")
	}
	if class == "unpinned" && pinned {
		f = append(f, "pin")
	}
	if class == "othername" || st.Name == "testhost" {
		f = append(f, "name")
	}

	return strings.Join(f, "+")
}

func runLookup(env *tlsEnv, n *netceptor.Netceptor, v *tlsVec, idx int) {
	res := env.res
	h := hash64(env.seed, "lookup", idx)
	e := ePoolDNS[h%uint64(len(ePoolDNS))]
	o := "other-" + e
	enc := []string{"repo", "indep"}[h%2]
	specs := map[string]certSpec{
		"good":       {Issuer: "trusted", Validity: "valid", Usage: "both", RNames: []string{e}, DNames: []string{e}, Enc: enc, Nonce: "A"},
		"unpinned":   {Issuer: "trusted", Validity: "valid", Usage: "both", RNames: []string{e}, DNames: []string{e}, Enc: enc, Nonce: "B"},
		"selfsigned": {Issuer: "selfsigned", Validity: "valid", Usage: "both", RNames: []string{e}, DNames: []string{e}, Enc: enc, Nonce: "A"},
		"expired":    {Issuer: "trusted", Validity: "expired", Usage: "both", RNames: []string{e}, DNames: []string{e}, Enc: enc, Nonce: "A"},
		"othername":  {Issuer: "trusted", Validity: "valid", Usage: "both", RNames: []string{o}, DNames: []string{o}, Enc: enc, Nonce: "A"},
	}
	certs := map[string]*leaf{}
	var classes []string
	for c, sp := range specs {
		l, err := env.p.get(sp)
		if err != nil {
			res.inconclusive("lookup: certificate: " + err.Error())

			return
		}
		certs[c] = l
		classes = append(classes, c)
	}
	sort.Strings(classes)
	name := fmt.Sprintf("lk%d", idx)
	cc := netceptor.TLSClientConfig{Name: name, RootCAs: env.p.rootFile}
	if v.Lookup.Pinned {
		d := sha256.Sum256(certs["good"].der)
		cc.PinnedServerCert = []string{pinText(d[:], h)}
	}
	stored, pins, err := cc.PrepareTLSClientConfig(n)
	if err != nil {
		res.inconclusive("lookup: PrepareTLSClientConfig: " + err.Error())

		return
	}
	if err = n.SetClientTLSConfig(name, stored, pins); err != nil {
		res.inconclusive("lookup: " + err.Error())

		return
	}
	before := fmt.Sprintf("InsecureSkipVerify=%v ServerName=%q verifier=%v", stored.InsecureSkipVerify, stored.ServerName, stored.VerifyPeerCertificate != nil)
	var history []string
	for k, st := range v.Lookup.Steps {
		expected := e
		if st.Name == "testhost" {
			expected = "testhost"
		}
		ht := netceptor.ExpectedHostnameType(netceptor.ExpectedHostnameTypeReceptor)
		if st.Mode == "dns" {
			ht = netceptor.ExpectedHostnameTypeDNS
		}
		history = append(history, st.Mode+"("+st.Name+")")
		cfg, err := n.GetClientTLSConfig(name, expected, ht)
		if err != nil {
			res.inconclusive("lookup: GetClientTLSConfig: " + err.Error())

			return
		}
		// the stored object is SetClientTLSConfig's argument: a lookup must leave it alone
		after := fmt.Sprintf("InsecureSkipVerify=%v ServerName=%q verifier=%v", stored.InsecureSkipVerify, stored.ServerName, stored.VerifyPeerCertificate != nil)
		res.count("lookup_calls")
		if after != before {
			res.violate("C09:lookup:stored-config-mutated", fmt.Sprintf("GetClientTLSConfig(%s mode) changed the stored named configuration: %s -> %s (lookups so far: %s)",
				st.Mode, before, after, strings.Join(history, ", ")), map[string]any{"vector": v, "layer": "lookup", "step": k + 1})
			before = after
		}
		for _, class := range classes {
			l := certs[class]
			want := st.Accept[class]
			failed := lookupFailed(st, class, v.Lookup.Pinned)
			ivd := callVerify(cfg.VerifyPeerCertificate, l.chain)
			if cfg.VerifyPeerCertificate == nil && !cfg.InsecureSkipVerify {
				ivd = verdict{Accept: true, Err: "no VerifyPeerCertificate installed (default verification only)"}
			}
			hvd, ok := env.handshake(cfg, true, l)
			obs := []struct {
				layer string
				vd    verdict
				ok    bool
			}{{"installed-lookup", ivd, true}, {"handshake-lookup", hvd, ok}}
			for _, ob := range obs {
				if !ob.ok {
					res.inconclusive("lookup: handshake timed out: " + ob.vd.Err)

					continue
				}
				res.count("eval_" + ob.layer)
				rep := map[string]any{"vector": v, "layer": ob.layer, "step": k + 1, "lookups": strings.Join(history, ", "), "certificate": class, "observed": ob.vd,
					"returned": fmt.Sprintf("InsecureSkipVerify=%v ServerName=%q verifier=%v", cfg.InsecureSkipVerify, cfg.ServerName, cfg.VerifyPeerCertificate != nil)}
				switch {
				case ob.vd.Panic:
					res.violate("C09:"+ob.layer+":panic", ob.layer+" panicked: "+ob.vd.Err, rep)
				case ob.vd.Accept && !want:
					res.violate("C09:"+ob.layer+":accepts:"+failed, fmt.Sprintf("%s: the configuration returned by lookup %d of one named tls-client config (lookups: %s; pins configured: %v) accepted the %s certificate although condition(s) %s fail (returned config: InsecureSkipVerify=%v, verifier installed=%v)",
						ob.layer, k+1, strings.Join(history, ", "), v.Lookup.Pinned, class, failed, cfg.InsecureSkipVerify, cfg.VerifyPeerCertificate != nil), rep)
				case !ob.vd.Accept && want:
					res.violate("C09:"+ob.layer+":refuses-valid-peer", fmt.Sprintf("%s: the configuration returned by lookup %d (lookups: %s) refused the %s certificate although every condition holds: %s",
						ob.layer, k+1, strings.Join(history, ", "), class, ob.vd.Err), rep)
				}
				if ob.vd.Accept {
					res.count("accept_" + ob.layer)
				} else {
					res.count("refuse_" + ob.layer)
					if k > 0 {
						res.count("later_lookup_refusal_" + ob.layer)
						if v.Lookup.Steps[0].Mode == "receptor" {
							res.count("refusal_after_receptor_lookup_" + ob.layer)
						}
					}
				}
			}
		}
	}
	res.count("vectors_lookup")
	if idx%5 == 0 {
		res.sample(map[string]any{"vector_fam": "lookup", "lookup": v.Lookup, "expected_name": e}, 22)
	}
}

var _ = tls.VersionTLS12
