package main

import (
	"crypto/tls"
	"crypto/x509"
	"fmt"
	"math/rand"
	"sync"
	"time"

	"github.com/ansible/receptor/pkg/certificates"
	"github.com/ansible/receptor/pkg/netceptor"
	"github.com/ansible/receptor/pkg/utils"
)

// Family "clock" of CertNames.tla: the verifier for an id is built at one tick, the certificate is issued by the
// built-in tooling at a later (or the same) tick and verified at every tick from then on, in real time.  Ticks are
// T0 + tick*step; requested window bounds lie half a tick away from the tick instants ("short": NotAfter half a tick
// after the issuing tick; "late": NotBefore half a tick before the next tick); the default window is the tooling's
// own (NotBefore = time of signing).  An operation that is not complete within 0.8*step/2 of its tick is not judged.

type cnClockVerify struct {
	At     int  `json:"at"`
	Accept bool `json:"accept"`
}

type cnClock struct {
	TC     int             `json:"tc"`
	TI     int             `json:"ti"`
	NB     int             `json:"nb"`
	NA     int             `json:"na"`
	Verify []cnClockVerify `json:"verify"`
}

type cnClockVerifier struct {
	kind, id string
	vt       netceptor.VerifyType
	f        func([][]byte, [][]*x509.Certificate) error
}

type cnClockInst struct {
	v     *cnVec
	r     *cnRequest
	vs    []cnClockVerifier
	cert  *x509.Certificate
	skip  bool
	fail  *cnFail
	notes []string
}

func runCertsClock(e *certsEnv, vecs []*cnVec, step time.Duration) {
	res := e.res
	if len(vecs) == 0 {
		return
	}
	if step < 2*time.Second || step%(2*time.Second) != 0 {
		res.inconclusive("clock: step must be a multiple of 2 s")

		return
	}
	started := time.Now()
	t0 := started.Truncate(time.Second).Add(2 * time.Second)
	half := step / 2
	maxTick := 0
	insts := make([]*cnClockInst, len(vecs))
	for i, v := range vecs {
		r := e.concretise(v, 1000000+i, 0)
		insts[i] = &cnClockInst{v: v, r: r}
		for _, c := range v.Clock.Verify {
			if c.At > maxTick {
				maxTick = c.At
			}
		}
	}
	var mu sync.Mutex
	late := 0
	for tick := 0; tick <= maxTick; tick++ {
		at := t0.Add(time.Duration(tick) * step)
		time.Sleep(time.Until(at))
		deadline := at.Add(half * 8 / 10)
		inTime := func() bool { return !time.Now().After(deadline) }
		var wg sync.WaitGroup
		for i := range insts {
			wg.Add(1)
			go func(i int) {
				defer wg.Done()
				in := insts[i]
				if in.skip || in.fail != nil {
					return
				}
				drop := func(why string) {
					in.skip = true
					mu.Lock()
					late++
					mu.Unlock()
					res.count("clock_" + why)
				}
				v, r := in.v, in.r
				pool := e.pools[r.CA]
				cfg := &tls.Config{RootCAs: pool, ClientCAs: pool}
				// step 1: build the verifiers
				if v.Clock.TC == tick {
					for _, c := range [][2]string{{"same", r.IDs[0]}, {"extended", r.IDs[0] + "x"}, {"case", caseVariant(r.IDs[0])}} {
						if c[1] == "" {
							continue
						}
						for _, vt := range []netceptor.VerifyType{netceptor.VerifyServer, netceptor.VerifyClient} {
							in.vs = append(in.vs, cnClockVerifier{c[0], c[1], vt,
								netceptor.ReceptorVerifyFunc(cfg, nil, c[1], netceptor.ExpectedHostnameTypeReceptor, vt, e.log)})
						}
					}
					if !inTime() {
						drop("late_creation")

						return
					}
					res.count("clock_verifiers_built")
				}
				// step 2: issue the certificate with the built-in tooling
				if v.Clock.TI == tick {
					in.fail = guard(func() *cnFail {
						opts := &certificates.CertOptions{CommonName: "vtab cn", CertNames: certificates.CertNames{NodeIDs: r.IDs}}
						req, err := certificates.CreateCertReq(opts, e.keys[i%len(e.keys)])
						if err != nil {
							return &cnFail{"C20:tool-refuses-wellformed-request", "CreateCertReq refused ids " + q(r.IDs) + ": " + err.Error()}
						}
						so := &certificates.CertOptions{}
						switch v.Window {
						case "short":
							so.NotBefore, so.NotAfter = t0.Add(-time.Hour), at.Add(half)
						case "late":
							so.NotBefore, so.NotAfter = at.Add(step-half), at.AddDate(0, 0, 30)
						}
						r.nb, r.na = so.NotBefore, so.NotAfter
						s0 := time.Now()
						cert, err := certificates.SignCertReq(req, e.cas[r.CA], so)
						s1 := time.Now()
						if err != nil {
							return &cnFail{"C20:sign-fails", "SignCertReq failed: " + err.Error()}
						}
						in.cert = cert
						cids, cerr := utils.ReceptorNames(cert.Extensions)
						if f := e.checkNames("cert", v, r, cids, cerr, cert.DNSNames, cert.IPAddresses, sanOf(cert.Extensions)); f != nil {
							return f
						}

						return e.windowCheck(r, cert, s0, s1)
					})
					if !inTime() {
						in.fail = nil
						drop("late_issue")

						return
					}
					if in.fail != nil {
						return
					}
					res.count("clock_certificates_issued")
				}
				// step 3: verify with the verifiers built earlier
				if in.cert == nil {
					return
				}
				for _, cv := range v.Clock.Verify {
					if cv.At != tick {
						continue
					}
					type one struct {
						x   cnClockVerifier
						err error
					}
					var obs []one
					for _, x := range in.vs {
						obs = append(obs, one{x, x.f([][]byte{in.cert.Raw}, nil)})
					}
					if !inTime() {
						drop("late_verify")

						return
					}
					for _, o := range obs {
						want := o.x.kind == "same" && cv.Accept
						res.count("clock_verify_calls")
						desc := fmt.Sprintf("verifier built at tick %d, certificate issued at tick %d with the %s window (valid for ticks [%d, %d]; NotBefore %s NotAfter %s), verified at tick %d (%s; tick = %s)",
							v.Clock.TC, v.Clock.TI, v.Window, v.Clock.NB, v.Clock.NA, in.cert.NotBefore.UTC().Format("15:04:05"), in.cert.NotAfter.UTC().Format("2006-01-02 15:04:05"),
							tick, time.Now().UTC().Format("15:04:05.000"), step)
						switch {
						case o.err == nil && !want && o.x.kind == "same":
							in.fail = &cnFail{"C20:clock:verify-accepts-outside-window", "certificate verifies as its requested id outside its validity window: " + desc}
						case o.err == nil && !want:
							in.fail = &cnFail{"C20:clock:verify-accepts-unrequested:" + o.x.kind, fmt.Sprintf("certificate for %s verifies as %q: %s", q(r.IDs), o.x.id, desc)}
						case o.err != nil && want:
							in.fail = &cnFail{"C20:clock:verify-refuses-requested", fmt.Sprintf("certificate does not verify as its requested id although the clock is inside its window (%v): %s", o.err, desc)}
						}
						if want {
							res.count("clock_accept_expected")
							if v.Clock.TC < v.Clock.TI {
								res.count("clock_issued_after_verifier_accept_expected")
							}
						} else if o.x.kind == "same" {
							res.count("clock_refuse_outside_window_expected")
						}
					}
				}
			}(i)
		}
		wg.Wait()
	}
	run := 0
	for _, in := range insts {
		if in.fail != nil {
			res.violate(in.fail.sig, in.fail.what, map[string]any{"vector": in.v, "request": in.r.forReplay(), "path": "clock", "t0": t0.UTC().Format(time.RFC3339)})
		}
		if !in.skip {
			run++
			res.count("vectors_clock")
		} else {
			res.count("vectors_clock_not_judged")
		}
	}
	if late > 0 {
		res.note(fmt.Sprintf("clock: %d of %d time-line vectors could not be run within their tick (machine too slow); not judged", late, len(insts)))
	}
	res.add("clock_wall_ms", int(time.Since(started)/time.Millisecond))
	if len(insts) > 0 {
		in := insts[rand.New(rand.NewSource(e.seed)).Intn(len(insts))]
		res.sample(map[string]any{"vector_fam": "clock", "clock": in.v.Clock, "window": in.v.Window, "id_bytes": lens(in.r.IDs)}, 20)
	}
}
