package main

import (
	"context"
	"crypto/tls"
	"crypto/x509"
	"fmt"
	"math/rand"
	"sync"
	"time"

	"github.com/ansible/receptor/pkg/netceptor"
)

// Family "clock" of TLSVerify.tla: creating a verifier and using it for a handshake are two steps with a clock
// between them, and "currently valid" refers to the clock at the handshake.  The abstract ticks are mapped to real
// instants T0 + tick*step (T0 a whole second, step a multiple of 2 s); a certificate window [nb, na] becomes
// NotBefore = T0 + nb*step - step/2, NotAfter = T0 + na*step + step/2, so that every tick instant lies at least
// step/2 inside or outside every window.  At each tick the harness first creates the verifiers/configurations due
// at that tick - ReceptorVerifyFunc, PrepareTLSClientConfig+SetClientTLSConfig+GetClientTLSConfig (a client keeps
// that object for all its dials), PrepareTLSServerConfig+SetServerTLSConfig (built once at start-up) - and then makes
// the calls and handshakes due.  An operation that does not finish within 0.8*step/2 of its tick instant is not
// judged (inconclusive), so that a slow machine can never produce a wrong verdict.

type clockHS struct {
	At     int    `json:"at"`
	Accept bool   `json:"accept"`
	Class  string `json:"class"`
}

type clockSpec struct {
	TC int       `json:"tc"`
	NB int       `json:"nb"`
	NA int       `json:"na"`
	HS []clockHS `json:"hs"`
}

type clockInst struct {
	v        *tlsVec
	l        *leaf
	expected string
	name     string
	f        func([][]byte, [][]*x509.Certificate) error
	get      func() (*tls.Config, error)
	how      string
	skip     bool
}

// selectClock keeps at most limit vectors: those in which a certificate expires or becomes valid while the verifier
// lives come first (per role and mode), the rest is a seeded sample.
func selectClock(vecs []*tlsVec, limit int, rng *rand.Rand) []*tlsVec {
	if limit <= 0 || len(vecs) <= limit {
		return vecs
	}
	var first, rest []*tlsVec
	for _, v := range vecs {
		tr := false
		for _, h := range v.Clock.HS {
			if h.At > v.Clock.TC && (h.Class == "valid_at_creation_expired_at_handshake" || h.Class == "notyet_at_creation_valid_at_handshake") {
				tr = true
			}
		}
		if tr {
			first = append(first, v)
		} else {
			rest = append(rest, v)
		}
	}
	rng.Shuffle(len(first), func(i, j int) { first[i], first[j] = first[j], first[i] })
	rng.Shuffle(len(rest), func(i, j int) { rest[i], rest[j] = rest[j], rest[i] })
	// two thirds transitions (spread over role and mode by the shuffle), one third others
	nf := limit * 2 / 3
	if nf > len(first) {
		nf = len(first)
	}
	out := append([]*tlsVec{}, first[:nf]...)
	for _, v := range rest {
		if len(out) >= limit {
			break
		}
		out = append(out, v)
	}

	return out
}

func runClock(env *tlsEnv, ctx context.Context, vecs []*tlsVec, step time.Duration, workers int) {
	res := env.res
	res.add("clock_selected", len(vecs))
	if step < 2*time.Second || step%(2*time.Second) != 0 {
		res.inconclusive("clock: step must be a multiple of 2 s")

		return
	}
	maxTick := 0
	for _, v := range vecs {
		for _, h := range v.Clock.HS {
			if h.At > maxTick {
				maxTick = h.At
			}
		}
	}
	started := time.Now()
	t0 := started.Truncate(time.Second).Add(2 * time.Second)
	half := step / 2
	e := ePoolDNS[hash64(env.seed, "clock")%uint64(len(ePoolDNS))]
	insts := make([]*clockInst, len(vecs))
	for i, v := range vecs {
		nb := t0.Add(time.Duration(v.Clock.NB)*step - half)
		na := t0.Add(time.Duration(v.Clock.NA)*step + half)
		l, err := env.p.get(certSpec{Issuer: "trusted", Validity: "window", Usage: "both", RNames: []string{e}, DNames: []string{e},
			Enc: []string{"repo", "indep"}[i%2], Key: i % 3, NB: nb.Unix(), NA: na.Unix()})
		if err != nil {
			res.inconclusive("clock: certificate: " + err.Error())

			return
		}
		expected := e
		if v.Mode == "dns_noname" {
			expected = ""
		}
		insts[i] = &clockInst{v: v, l: l, expected: expected, name: fmt.Sprintf("clk%d", i)}
	}
	if time.Until(t0) < 100*time.Millisecond {
		res.inconclusive("clock: preparing the certificates took too long, the time line cannot start")

		return
	}
	nodes := make([]*netceptor.Netceptor, workers)
	for k := range nodes {
		nodes[k] = netceptor.New(ctx, env.ownID)
	}
	pool := &tls.Config{RootCAs: env.rootPool, ClientCAs: env.rootPool}
	var lateMu sync.Mutex
	late := 0

	create := func(n *netceptor.Netceptor, in *clockInst) error {
		v := in.v
		hostType := env.hostType(v)
		vt := netceptor.VerifyType(netceptor.VerifyServer)
		if v.Role == "client" {
			vt = netceptor.VerifyClient
		}
		in.f = netceptor.ReceptorVerifyFunc(pool, nil, in.expected, hostType, vt, env.log)
		switch {
		case v.Role == "server" && v.Mode != "dns_noname":
			cc := netceptor.TLSClientConfig{Name: in.name, RootCAs: env.p.rootFile}
			tc, ps, err := cc.PrepareTLSClientConfig(n)
			if err != nil {
				return err
			}
			if err = n.SetClientTLSConfig(in.name, tc, ps); err != nil {
				return err
			}
			got, err := n.GetClientTLSConfig(in.name, in.expected, hostType)
			if err != nil {
				return err
			}
			in.how, in.get = "client", func() (*tls.Config, error) { return got, nil }
		case v.Role == "client":
			sc := netceptor.TLSServerConfig{Name: in.name, Cert: env.ownCert, Key: env.ownKey, RequireClientCert: true, ClientCAs: env.p.rootFile}
			tc, err := sc.PrepareTLSServerConfig(n)
			if err != nil {
				return err
			}
			in.how = "server"
			if v.Mode != "dns_noname" {
				tc.VerifyPeerCertificate = netceptor.ReceptorVerifyFunc(tc, nil, in.expected, hostType, netceptor.VerifyClient, env.log)
				in.how = "server+rvf"
			}
			if err = n.SetServerTLSConfig(in.name, tc); err != nil {
				return err
			}
			name := in.name
			in.get = func() (*tls.Config, error) { return n.GetServerTLSConfig(name) }
		}

		return nil
	}

	for tick := 0; tick <= maxTick; tick++ {
		at := t0.Add(time.Duration(tick) * step)
		time.Sleep(time.Until(at))
		deadline := at.Add(half * 8 / 10)
		inTime := func() bool { return !time.Now().After(deadline) }
		drop := func(in *clockInst, why string) {
			in.skip = true
			lateMu.Lock()
			late++
			lateMu.Unlock()
			res.count("clock_" + why)
		}
		// phase 1: creations due at this tick; phase 2: direct calls; phase 3: handshakes. Every observation is judged
		// only if it was complete before the deadline of the tick.
		phase := func(f func(n *netceptor.Netceptor, in *clockInst)) {
			var wg sync.WaitGroup
			for w := 0; w < workers; w++ {
				wg.Add(1)
				go func(w int) {
					defer wg.Done()
					for i := w; i < len(insts); i += workers {
						if !insts[i].skip {
							f(nodes[w], insts[i])
						}
					}
				}(w)
			}
			wg.Wait()
		}
		phase(func(n *netceptor.Netceptor, in *clockInst) {
			if in.v.Clock.TC != tick {
				return
			}
			err := create(n, in)
			switch {
			case !inTime():
				drop(in, "late_creation")
			case err != nil:
				res.inconclusive("clock: configuration refused: " + err.Error())
				in.skip = true
			default:
				res.count("clock_created")
			}
		})
		due := func(in *clockInst) *clockHS {
			for k := range in.v.Clock.HS {
				if in.v.Clock.HS[k].At == tick {
					return &in.v.Clock.HS[k]
				}
			}

			return nil
		}
		phase(func(n *netceptor.Netceptor, in *clockInst) {
			h := due(in)
			if h == nil {
				return
			}
			vd := callVerify(in.f, in.l.chain)
			var ivd verdict
			if in.get != nil {
				cfg, err := in.get()
				if err != nil {
					res.inconclusive("clock: " + err.Error())
					in.skip = true

					return
				}
				ivd = callVerify(cfg.VerifyPeerCertificate, in.l.chain)
			}
			if !inTime() {
				drop(in, "late_call")

				return
			}
			judgeClock(env, in, tick, *h, "rvf-clock", vd, t0, step)
			if in.get != nil {
				judgeClock(env, in, tick, *h, "installed-"+in.how+"-clock", ivd, t0, step)
			}
		})
		phase(func(n *netceptor.Netceptor, in *clockInst) {
			h := due(in)
			if h == nil || in.get == nil || !inTime() {
				return
			}
			cfg, err := in.get()
			if err != nil {
				return
			}
			hvd, ok := env.handshake(cfg, in.how == "client", in.l)
			if !ok || !inTime() {
				res.count("clock_late_handshake")

				return
			}
			judgeClock(env, in, tick, *h, "handshake-"+in.how+"-clock", hvd, t0, step)
		})
	}
	for _, in := range insts {
		if !in.skip {
			res.count("vectors_clock")
		}
	}
	if late > 0 {
		// not judged; checks/c09.py decides whether what remains is enough
		res.add("clock_late_vectors", late)
		res.note(fmt.Sprintf("clock: %d of %d time-line vectors could not be run within their tick (machine too slow); not judged", late, len(insts)))
	}
	res.add("clock_wall_ms", int(time.Since(started)/time.Millisecond))
}

func judgeClock(env *tlsEnv, in *clockInst, tick int, h clockHS, layer string, vd verdict, t0 time.Time, step time.Duration) {
	res := env.res
	v := in.v
	res.count("eval_" + layer)
	desc := fmt.Sprintf("verifier created at tick %d, handshake at tick %d, certificate valid for ticks [%d, %d] (%s; tick = %s, NotBefore %s, NotAfter %s, now %s; role=%s mode=%s)",
		v.Clock.TC, tick, v.Clock.NB, v.Clock.NA, h.Class, step, in.l.cert.NotBefore.UTC().Format("15:04:05"), in.l.cert.NotAfter.UTC().Format("15:04:05"),
		time.Now().UTC().Format("15:04:05.000"), v.Role, v.Mode)
	rep := map[string]any{"vector": v, "layer": layer, "tick": tick, "observed": vd, "t0": t0.UTC().Format(time.RFC3339)}
	switch {
	case vd.Panic:
		res.violate("C09:"+layer+":panic", layer+" panicked: "+vd.Err, rep)
	case vd.Accept && !h.Accept:
		res.violate("C09:"+layer+":accepts:time", layer+" accepted a certificate that is not valid at the time of the handshake: "+desc, rep)
	case !vd.Accept && h.Accept:
		res.violate("C09:"+layer+":refuses-valid-peer", layer+" refused a certificate that is valid at the time of the handshake ("+vd.Err+"): "+desc, rep)
	}
	if vd.Accept {
		res.count("accept_" + layer)
	} else {
		res.count("refuse_" + layer)
	}
	res.count("clock_" + h.Class + "_" + layer)
	if tick > v.Clock.TC && (h.Class == "valid_at_creation_expired_at_handshake" || h.Class == "notyet_at_creation_valid_at_handshake") {
		res.sample(map[string]any{"vector_fam": "clock", "layer": layer, "clock": v.Clock, "role": v.Role, "mode": v.Mode, "tick": tick, "observed": vd}, 18)
	}
}
