package main

import (
	"bytes"
	"errors"
	"fmt"
	"net"
)

// An independent DER encoder/decoder for the subjectAltName extension with receptor otherName
// entries.  It shares no code with pkg/utils/other_name.go nor with encoding/asn1.

// receptorOIDDER is 1.3.6.1.4.1.2312.19.1 in DER content octets (2312 = 0x92 0x08 base-128).
var receptorOIDDER = []byte{0x2B, 0x06, 0x01, 0x04, 0x01, 0x92, 0x08, 0x13, 0x01}

// foreignOIDDER is 1.3.6.1.4.1.2312.19.2 - an otherName that is not a receptor name.
var foreignOIDDER = []byte{0x2B, 0x06, 0x01, 0x04, 0x01, 0x92, 0x08, 0x13, 0x02}

func derLen(n int) []byte {
	switch {
	case n < 0x80:
		return []byte{byte(n)}
	case n <= 0xFF:
		return []byte{0x81, byte(n)}
	case n <= 0xFFFF:
		return []byte{0x82, byte(n >> 8), byte(n)}
	case n <= 0xFFFFFF:
		return []byte{0x83, byte(n >> 16), byte(n >> 8), byte(n)}
	}

	return []byte{0x84, byte(n >> 24), byte(n >> 16), byte(n >> 8), byte(n)}
}

func tlv(tag byte, content []byte) []byte {
	out := []byte{tag}
	out = append(out, derLen(len(content))...)

	return append(out, content...)
}

// sanEntry is one GeneralName to encode.
type sanEntry struct {
	Kind string // "dns", "ip", "id", "foreign" (other OID), "id_ia5" (receptor OID, IA5String value),
	//                "id_ber" (receptor name with a non-minimal length octet), "id_trunc" (truncated value)
	Text string
	IP   net.IP
}

func otherNameEntry(oid []byte, strTag byte, value []byte) []byte {
	inner := tlv(strTag, value)
	content := append(tlv(0x06, oid), tlv(0xA0, inner)...)

	return tlv(0xA0, content)
}

func encodeSAN(entries []sanEntry) []byte {
	var body []byte
	for _, e := range entries {
		switch e.Kind {
		case "dns":
			body = append(body, tlv(0x82, []byte(e.Text))...)
		case "ip":
			ip := e.IP
			if v4 := ip.To4(); v4 != nil {
				ip = v4
			}
			body = append(body, tlv(0x87, ip)...)
		case "id":
			body = append(body, otherNameEntry(receptorOIDDER, 0x0C, []byte(e.Text))...)
		case "id_ia5":
			body = append(body, otherNameEntry(receptorOIDDER, 0x16, []byte(e.Text))...)
		case "foreign":
			body = append(body, otherNameEntry(foreignOIDDER, 0x0C, []byte(e.Text))...)
		case "id_ber":
			// UTF8String with a two-octet length although one would do (BER, not DER)
			v := []byte(e.Text)
			if len(v) > 100 {
				v = v[:100]
			}
			inner := append([]byte{0x0C, 0x81, byte(len(v))}, v...)
			content := append(tlv(0x06, receptorOIDDER), tlv(0xA0, inner)...)
			body = append(body, tlv(0xA0, content)...)
		case "id_trunc":
			// the explicit tag announces one byte more than the UTF8String carries
			v := []byte(e.Text)
			inner := tlv(0x0C, v)
			wrapped := append([]byte{0xA0}, derLen(len(inner)+1)...)
			wrapped = append(wrapped, inner...)
			content := append(tlv(0x06, receptorOIDDER), wrapped...)
			body = append(body, tlv(0xA0, content)...)
		}
	}

	return tlv(0x30, body)
}

// decoded SAN
type sanDecoded struct {
	DNS       []string
	IPs       []net.IP
	IDs       []string
	Foreign   int
	EntrySize []int // total TLV size of every receptor otherName entry, in order
	HdrSizes  [][3]int
	SeqLen    int // content length of the outer SEQUENCE
}

var errDER = errors.New("malformed DER")

// readTLV reads one TLV with a single-octet tag and minimal definite length.
func readTLV(b []byte) (tag byte, content, rest []byte, hdr int, err error) {
	if len(b) < 2 {
		return 0, nil, nil, 0, errDER
	}
	tag = b[0]
	if tag&0x1F == 0x1F {
		return 0, nil, nil, 0, fmt.Errorf("%w: high tag number", errDER)
	}
	l := int(b[1])
	hdr = 2
	if l&0x80 != 0 {
		n := l & 0x7F
		if n == 0 || n > 4 || len(b) < 2+n {
			return 0, nil, nil, 0, fmt.Errorf("%w: length form", errDER)
		}
		l = 0
		for i := 0; i < n; i++ {
			l = l<<8 | int(b[2+i])
		}
		if b[2] == 0 || l < 0x80 {
			return 0, nil, nil, 0, fmt.Errorf("%w: non-minimal length", errDER)
		}
		hdr = 2 + n
	}
	if len(b) < hdr+l {
		return 0, nil, nil, 0, fmt.Errorf("%w: truncated", errDER)
	}

	return tag, b[hdr : hdr+l], b[hdr+l:], hdr, nil
}

func decodeSAN(ext []byte) (*sanDecoded, error) {
	tag, body, rest, _, err := readTLV(ext)
	if err != nil {
		return nil, err
	}
	if tag != 0x30 || len(rest) != 0 {
		return nil, fmt.Errorf("%w: SAN is not one SEQUENCE", errDER)
	}
	out := &sanDecoded{SeqLen: len(body)}
	for len(body) > 0 {
		var c []byte
		var hdr int
		whole := body
		tag, c, body, hdr, err = readTLV(body)
		if err != nil {
			return nil, err
		}
		switch tag {
		case 0x82:
			out.DNS = append(out.DNS, string(c))
		case 0x87:
			out.IPs = append(out.IPs, net.IP(append([]byte(nil), c...)))
		case 0xA0:
			t2, oid, r2, _, err := readTLV(c)
			if err != nil {
				return nil, err
			}
			if t2 != 0x06 {
				return nil, fmt.Errorf("%w: otherName without type-id", errDER)
			}
			t3, wrapped, r3, h3, err := readTLV(r2)
			if err != nil {
				return nil, err
			}
			if t3 != 0xA0 || len(r3) != 0 {
				return nil, fmt.Errorf("%w: otherName value is not [0] EXPLICIT", errDER)
			}
			if !bytes.Equal(oid, receptorOIDDER) {
				out.Foreign++

				continue
			}
			t4, str, r4, h4, err := readTLV(wrapped)
			if err != nil {
				return nil, err
			}
			if len(r4) != 0 {
				return nil, fmt.Errorf("%w: trailing data in otherName value", errDER)
			}
			switch t4 {
			case 0x0C, 0x16, 0x13: // UTF8String, IA5String, PrintableString
			default:
				return nil, fmt.Errorf("%w: otherName value has string tag %#x", errDER, t4)
			}
			out.IDs = append(out.IDs, string(str))
			out.EntrySize = append(out.EntrySize, len(whole)-len(body))
			out.HdrSizes = append(out.HdrSizes, [3]int{h4, h3, hdr})
		default:
			// other GeneralName forms are not produced here; skip
		}
	}

	return out, nil
}
