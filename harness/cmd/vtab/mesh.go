package main

import (
	"context"
	"crypto/tls"
	"fmt"
	"math/rand"
	"strings"
	"sync"
	"time"

	"github.com/ansible/receptor/pkg/netceptor"
	"verif/harness/memnet"
)

// The stream-listener rule (conn.go): a listener whose TLS configuration says RequireAndVerifyClientCert
// checks the client certificate's receptor name against the node the packets come from.  It can only be
// observed on a real mesh: two (or more) real Netceptor nodes joined by memnet pipes, a real Listen with the
// configuration produced by PrepareTLSServerConfig, real DialContext with GetClientTLSConfig.

var tokenText = map[string]string{"a": "alpha", "b": "beta", "c": "gamma", "o": "omega", ":": ":"}

func joinTokens(t []string) string {
	var sb strings.Builder
	for _, x := range t {
		if s, ok := tokenText[x]; ok {
			sb.WriteString(s)
		} else {
			sb.WriteString(x)
		}
	}

	return sb.String()
}

type meshNode struct {
	id string
	n  *netceptor.Netceptor
	b  *memnet.Backend
}

func newMeshNode(ctx context.Context, id string) (*meshNode, error) {
	n := netceptor.NewWithConsts(ctx, id, 16384, 300*time.Millisecond, 0, time.Hour, 30, time.Hour)
	b := memnet.NewBackend()
	if err := n.AddBackend(b); err != nil {
		return nil, err
	}

	return &meshNode{id: id, n: n, b: b}, nil
}

func waitRoute(n *netceptor.Netceptor, dest string, timeout time.Duration) bool {
	deadline := time.Now().Add(timeout)
	for time.Now().Before(deadline) {
		if _, ok := n.Status().RoutingTable[dest]; ok {
			return true
		}
		time.Sleep(10 * time.Millisecond)
	}

	return false
}

type meshCase struct {
	v    *tlsVec
	inst tlsInstance
	src  string
}

func runMesh(env *tlsEnv, stream []*tlsVec, limit int, rng *rand.Rand) {
	res := env.res
	// selection: every vector whose chain/time/usage are fine (the name decides), plus a seeded sample of the others
	var sel, others []*tlsVec
	for _, v := range stream {
		if v.Conds.Chain && v.Conds.Time && v.Conds.Usage {
			sel = append(sel, v)
		} else {
			others = append(others, v)
		}
	}
	rng.Shuffle(len(others), func(i, j int) { others[i], others[j] = others[j], others[i] })
	if limit > 0 {
		// single-failure vectors first
		var single, multi []*tlsVec
		for _, v := range others {
			if v.NFail == 1 {
				single = append(single, v)
			} else {
				multi = append(multi, v)
			}
		}
		others = append(single, multi...)
		if len(sel) > limit {
			rng.Shuffle(len(sel), func(i, j int) { sel[i], sel[j] = sel[j], sel[i] })
			sel = sel[:limit]
		}
		if room := limit - len(sel); room < len(others) {
			others = others[:room]
		}
	}
	sel = append(sel, others...)

	ctx, cancel := context.WithCancel(context.Background())
	defer cancel()
	const listenerID = "vtab-listener"
	ln, err := newMeshNode(ctx, listenerID)
	if err != nil {
		res.inconclusive("mesh: " + err.Error())

		return
	}
	defer ln.n.Shutdown()
	// listener's own certificate and the real server configuration
	lcert, err := env.p.get(certSpec{Issuer: "trusted", Validity: "valid", Usage: "both", RNames: []string{listenerID}, Enc: "repo", Key: 1})
	if err != nil {
		res.inconclusive("mesh: " + err.Error())

		return
	}
	lcf, lkf, err := env.p.pemFiles(lcert)
	if err != nil {
		res.inconclusive("mesh: " + err.Error())

		return
	}
	sc := netceptor.TLSServerConfig{Name: "mesh-srv", Cert: lcf, Key: lkf, RequireClientCert: true, ClientCAs: env.p.rootFile}
	stc, err := sc.PrepareTLSServerConfig(ln.n)
	if err != nil {
		res.inconclusive("mesh: PrepareTLSServerConfig: " + err.Error())

		return
	}
	_ = ln.n.SetServerTLSConfig("mesh-srv", stc)
	stc, err = ln.n.GetServerTLSConfig("mesh-srv")
	if err != nil {
		res.inconclusive("mesh: " + err.Error())

		return
	}
	li, err := ln.n.Listen("echo", stc)
	if err != nil {
		res.inconclusive("mesh: Listen: " + err.Error())

		return
	}
	// li.Close() is deliberately not called: on this tree it can block for ever inside quic-go's Transport.closeServer
	// (lifecycle behaviour belongs to C17); the process exits right after the mesh phase.
	var accMu sync.Mutex
	accepted := map[string]int{} // first line sent by the dialler -> count
	go func() {
		for {
			c, err := li.Accept()
			if err != nil {
				if strings.Contains(err.Error(), "listener closed") {
					return
				}
				select {
				case <-ctx.Done():
					return
				default:
				}

				continue
			}
			go func() {
				defer c.Close()
				buf := make([]byte, 256)
				_ = c.SetDeadline(time.Now().Add(60 * time.Second))
				n, err := c.Read(buf)
				if err != nil {
					return
				}
				accMu.Lock()
				accepted[string(buf[:n])]++
				accMu.Unlock()
				_, _ = c.Write([]byte(c.RemoteAddr().String() + "|" + string(buf[:n])))
			}()
		}
	}()

	// one real dialling node per source id
	diallers := map[string]*meshNode{}
	for _, v := range sel {
		src := joinTokens(v.Src)
		if diallers[src] != nil {
			continue
		}
		d, err := newMeshNode(ctx, src)
		if err != nil {
			res.inconclusive("mesh: " + err.Error())

			return
		}
		defer d.n.Shutdown()
		pipe := memnet.NewPipe(env.seed + int64(len(diallers)))
		if !ln.b.Attach(pipe.A) || !d.b.Attach(pipe.B) {
			res.inconclusive("mesh: cannot attach link")

			return
		}
		if !waitRoute(d.n, listenerID, 30*time.Second) || !waitRoute(ln.n, src, 30*time.Second) {
			res.inconclusive("mesh: no route between " + src + " and the listener after 30 s")

			return
		}
		diallers[src] = d
	}

	for idx, v := range sel {
		src := joinTokens(v.Src)
		d := diallers[src]
		var rn []string
		variant := ""
		for _, t := range v.CertNames {
			name := joinTokens(t)
			if v.NameKind == "other" {
				// besides an unrelated id, try near misses of the source id
				alts := [][2]string{{"unrelated", name}, {"extended", src + "x"}, {"case", caseVariant(src)}, {"withservice", src + ":echo"}}
				a := alts[int(hash64(env.seed, idx)%uint64(len(alts)))]
				name, variant = a[1], a[0]
			}
			rn = append(rn, name)
		}
		inst := tlsInstance{Expected: src, E: src, Variant: variant,
			Cert: certSpec{Issuer: v.Issuer, Validity: v.Validity, Usage: v.Usage, RNames: rn, Enc: []string{"repo", "indep"}[idx%2], Key: idx % 3}}
		if len(rn) == 0 {
			inst.Cert.Enc = "indep"
			inst.Cert.Foreign = src
		}
		l, err := env.p.get(inst.Cert)
		if err != nil {
			res.inconclusive("mesh: certificate: " + err.Error())

			return
		}
		cf, kf, err := env.p.pemFiles(l)
		if err != nil {
			res.inconclusive("mesh: " + err.Error())

			return
		}
		name := fmt.Sprintf("case%d", idx)
		cc := netceptor.TLSClientConfig{Name: name, Cert: cf, Key: kf, RootCAs: env.p.rootFile, SkipReceptorNamesCheck: true}
		tc, pins, err := cc.PrepareTLSClientConfig(d.n)
		if err != nil {
			res.inconclusive("mesh: PrepareTLSClientConfig: " + err.Error())

			return
		}
		_ = d.n.SetClientTLSConfig(name, tc, pins)
		ccfg, err := d.n.GetClientTLSConfig(name, listenerID, netceptor.ExpectedHostnameTypeReceptor)
		if err != nil {
			res.inconclusive("mesh: GetClientTLSConfig: " + err.Error())

			return
		}
		token := fmt.Sprintf("hello-%d-%d", env.seed, idx)
		vd, ok := meshDial(ctx, d.n, listenerID, ccfg, token, src)
		if !ok {
			res.inconclusive(fmt.Sprintf("mesh: dial %d (%s, cert %v) neither succeeded nor failed within the ceiling: %s", idx, src, rn, vd.Err))

			continue
		}
		accMu.Lock()
		acc := accepted[token]
		accMu.Unlock()
		if vd.Accept != (acc > 0) {
			res.inconclusive(fmt.Sprintf("mesh: dial %d: dialler says established=%v but the listener accepted %d connections", idx, vd.Accept, acc))

			continue
		}
		res.count("vectors_stream")
		rep := map[string]any{"vector": v, "instance": inst, "layer": "mesh", "observed": vd}
		if idx < 3 || idx%17 == 0 {
			res.sample(rep, 20)
		}
		layer := "mesh"
		res.count("eval_mesh")
		switch {
		case vd.Accept && !v.Expect.Prop:
			sig := "C09:mesh:accepts:" + v.failed()
			if v.failed() == "name" && strings.Contains(src, ":") && v.NameKind == "codeprefix" {
				sig = "C09:stream-name-colon-split"
			}
			res.violate(sig, fmt.Sprintf("stream listener accepted a connection from node %q whose client certificate names %q (failing: %s; issuer=%s validity=%s usage=%s)",
				src, rn, v.failed(), v.Issuer, v.Validity, v.Usage), rep)
		case !vd.Accept && v.Expect.Code:
			res.violate("C09:mesh:refuses-valid-peer", fmt.Sprintf("stream listener refused node %q presenting a valid certificate naming %q: %s", src, rn, vd.Err), rep)
		case !vd.Accept && v.Expect.Prop && !v.Expect.Code:
			res.count("stricter_" + layer)
		}
		if vd.Accept {
			res.count("accept_mesh")
		} else {
			res.count("refuse_mesh")
			if v.NFail == 1 {
				res.count("only_" + v.Only + "_mesh")
			}
		}
	}
}

// meshDial dials the echo service and makes one round trip. ok=false: no definite outcome.
func meshDial(ctx context.Context, n *netceptor.Netceptor, node string, cfg *tls.Config, token, src string) (verdict, bool) {
	// a refusal is definite only when it is a TLS alert from the peer (quic-go: "CRYPTO_ERROR 0x12a (remote): tls: bad
	// certificate"); timeouts, cancellations and anything else are no outcome at all
	indefinite := func(err error) bool {
		m := err.Error()
		if strings.Contains(m, "deadline") || strings.Contains(m, "timeout") || strings.Contains(m, "no recent network activity") ||
			strings.Contains(m, "context canceled") {
			return true
		}

		return !(strings.Contains(m, "CRYPTO_ERROR") || strings.Contains(m, "tls:") || strings.Contains(m, "certificate"))
	}
	dctx, cancel := context.WithTimeout(ctx, 60*time.Second)
	defer cancel()
	c, err := n.DialContext(dctx, node, "echo", cfg)
	if err != nil {
		return verdict{Err: "dial: " + err.Error()}, !indefinite(err)
	}
	defer c.CloseConnection() //nolint:errcheck
	_ = c.SetDeadline(time.Now().Add(60 * time.Second))
	if _, err = c.Write([]byte(token)); err != nil {
		return verdict{Err: "write: " + err.Error()}, !indefinite(err)
	}
	buf := make([]byte, 512)
	k, err := c.Read(buf)
	if err != nil && k == 0 {
		return verdict{Err: "read: " + err.Error()}, !indefinite(err)
	}
	reply := string(buf[:k])
	if !strings.HasSuffix(reply, "|"+token) {
		return verdict{Err: "unexpected echo " + reply}, false
	}
	if !strings.HasPrefix(reply, src+":") {
		return verdict{Accept: true, Err: "listener saw remote address " + reply}, true
	}

	return verdict{Accept: true}, true
}
