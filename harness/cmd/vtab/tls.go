package main

import (
	"context"
	"crypto/sha256"
	"crypto/sha512"
	"crypto/tls"
	"crypto/x509"
	"encoding/hex"
	"flag"
	"fmt"
	"hash/fnv"
	"math/rand"
	"net"
	"os"
	"path/filepath"
	"runtime"
	"sort"
	"strings"
	"sync"
	"time"
	"unicode"

	"github.com/ansible/receptor/pkg/logger"
	"github.com/ansible/receptor/pkg/netceptor"
)

// C09: vectors enumerated by TLC from specs/TLSVerify.tla are concretised into real certificates,
// pins and configurations; the verdict of the real code is observed at four layers:
//   rvf        netceptor.ReceptorVerifyFunc called directly
//   installed  the VerifyPeerCertificate installed by TLSClientConfig.PrepareTLSClientConfig +
//              SetClientTLSConfig + GetClientTLSConfig, resp. TLSServerConfig.PrepareTLSServerConfig
//   handshake  a real crypto/tls handshake over net.Pipe with those configurations
//   mesh       DialContext/Accept between real Netceptor nodes (stream-listener rule of conn.go)

type tlsVec struct {
	Fam       string      `json:"fam"`
	Issuer    string      `json:"issuer"`
	Validity  string      `json:"validity"`
	Usage     string      `json:"usage"`
	Names     string      `json:"names"`
	Pins      []string    `json:"pins"`
	Role      string      `json:"role"`
	Mode      string      `json:"mode"`
	Src       []string    `json:"src"`
	NameKind  string      `json:"namekind"`
	CertNames [][]string  `json:"certnames"`
	SeqPins   []seqPin    `json:"seqpins"`
	Calls     []seqCall   `json:"calls"`
	Clock     *clockSpec  `json:"clock,omitempty"`
	Lookup    *lookupSpec `json:"lookup,omitempty"`
	Conds     struct {
		Chain bool `json:"chain"`
		Time  bool `json:"time"`
		Usage bool `json:"usage"`
		Pin   bool `json:"pin"`
		Name  bool `json:"name"`
	} `json:"conds"`
	NFail            int    `json:"nfail"`
	Only             string `json:"only"`
	PinsWellFormed   bool   `json:"pins_wellformed"`
	PinsConfigurable bool   `json:"pins_configurable"`
	Expect           struct {
		Prop bool `json:"prop"`
		Code bool `json:"code"`
	} `json:"expect"`
}

func (v *tlsVec) failed() string {
	var f []string
	if !v.Conds.Chain {
		f = append(f, "chain")
	}
	if !v.Conds.Time {
		f = append(f, "time")
	}
	if !v.Conds.Usage {
		f = append(f, "usage")
	}
	if !v.Conds.Pin {
		f = append(f, "pin")
	}
	if !v.Conds.Name {
		f = append(f, "name")
	}

	return strings.Join(f, "+")
}

// tlsInstance is one concretisation of a vector.
type tlsInstance struct {
	Expected string   `json:"expected"` // the identifier the verifier is configured with ("" for dns_noname)
	E        string   `json:"e"`
	O        string   `json:"o,omitempty"`
	Variant  string   `json:"variant,omitempty"`
	Cert     certSpec `json:"cert"`
}

func hash64(parts ...any) uint64 {
	h := fnv.New64a()
	fmt.Fprint(h, parts...)

	return h.Sum64()
}

var (
	ePoolReceptor = []string{"node-e", "Ctrl.Example-01", "exec:7", "nœud-é", "n", "Controller_A b"}
	ePoolDNS      = []string{"node-e.example.test", "ctrl.mesh.test", "a.b.c.d.example.org"}
)

func caseVariant(s string) string {
	r := []rune(s)
	for i, c := range r {
		if c < 0x80 && unicode.IsLetter(c) {
			if unicode.IsUpper(c) {
				r[i] = unicode.ToLower(c)
			} else {
				r[i] = unicode.ToUpper(c)
			}

			return string(r)
		}
	}

	return ""
}

// oVariants lists the "other" identifiers tried for a given expected identifier.
func oVariants(e string, dns bool) [][2]string {
	if dns {
		return [][2]string{{"unrelated", "other.example.test"}, {"prefixed", "x" + e}, {"suffixed", e + ".evil.test"},
			{"parent", e[strings.Index(e, ".")+1:]}}
	}
	out := [][2]string{{"unrelated", "node-zz"}, {"extended", e + "x"}, {"space", e + " "}}
	if cv := caseVariant(e); cv != "" {
		out = append(out, [2]string{"case", cv})
	}
	r := []rune(e)
	out = append(out, [2]string{"prefix", string(r[:len(r)-1])})

	return out
}

func subst(names []string, e, o string) []string {
	var out []string
	for _, n := range names {
		switch n {
		case "E":
			out = append(out, e)
		case "O":
			out = append(out, o)
		case "O2":
			out = append(out, "node-o2")
		}
	}

	return out
}

func rnamesOf(ns string) []string {
	switch ns {
	case "expected", "both":
		return []string{"E"}
	case "other", "rec_other_dns_expected":
		return []string{"O"}
	case "several":
		return []string{"O", "E", "O2"}
	}

	return nil
}

func dnamesOf(ns string) []string {
	switch ns {
	case "dnsonly", "both", "rec_other_dns_expected":
		return []string{"E"}
	case "dnsother":
		return []string{"O"}
	}

	return nil
}

// instances concretises a table vector: one instance per "other" variant and SAN encoder.
func tableInstances(v *tlsVec, seed int64) []tlsInstance {
	dnsMode := v.Mode != "receptor"
	rn, dn := rnamesOf(v.Names), dnamesOf(v.Names)
	needASCIIHost := dnsMode || len(dn) > 0
	h := hash64(seed, v.Issuer, v.Validity, v.Usage, v.Names, needASCIIHost)
	var e string
	if needASCIIHost {
		e = ePoolDNS[h%uint64(len(ePoolDNS))]
	} else {
		e = ePoolReceptor[h%uint64(len(ePoolReceptor))]
	}
	expected := e
	if v.Mode == "dns_noname" {
		expected = ""
	}
	hasO := false
	for _, n := range append(append([]string{}, rn...), dn...) {
		if n == "O" {
			hasO = true
		}
	}
	vars := [][2]string{{"", ""}}
	if hasO {
		// the relevant "other" is a DNS-style variant when the O sits in a dNSName
		oInDNS := false
		for _, n := range dn {
			if n == "O" {
				oInDNS = true
			}
		}
		vars = oVariants(e, oInDNS)
		if oInDNS {
			// DNS variants must not legitimately match e
			kept := vars[:0]
			for _, x := range vars {
				if !strings.EqualFold(x[1], e) && x[1] != "" {
					kept = append(kept, x)
				}
			}
			vars = kept
		}
	}
	var out []tlsInstance
	for _, x := range vars {
		for _, enc := range []string{"repo", "indep"} {
			cs := certSpec{Issuer: v.Issuer, Validity: v.Validity, Usage: v.Usage, RNames: subst(rn, e, x[1]), DNames: subst(dn, e, x[1]),
				Enc: enc, Key: int(h % 3)}
			if len(cs.RNames)+len(cs.DNames) == 0 {
				if enc == "indep" {
					cs.Foreign = e // an otherName of another OID carrying the expected text must not count
				} else {
					cs.Enc = "repo"
				}
			}
			out = append(out, tlsInstance{Expected: expected, E: e, O: x[1], Variant: x[0], Cert: cs})
		}
	}

	return out
}

func pinBytes(kind string, der []byte) []byte {
	other := append(append([]byte{}, der...), 'x')
	switch kind {
	case "m224":
		s := sha256.Sum224(der)

		return s[:]
	case "m256":
		s := sha256.Sum256(der)

		return s[:]
	case "m384":
		s := sha512.Sum384(der)

		return s[:]
	case "m512":
		s := sha512.Sum512(der)

		return s[:]
	case "x256":
		s := sha256.Sum256(other)

		return s[:]
	case "x512":
		s := sha512.Sum512(other)

		return s[:]
	case "n256":
		s := sha256.Sum256(der) // near miss: last bit differs
		s[31] ^= 0x01

		return s[:]
	case "n512":
		s := sha512.Sum512(der) // near miss: first bit differs
		s[0] ^= 0x80

		return s[:]
	case "w20":
		s := sha256.Sum256(der) // a truncated matching digest

		return s[:20]
	case "w33":
		s := sha256.Sum256(der) // a matching digest with one byte appended

		return append(s[:], 0x01)
	}

	return nil
}

func pinsOf(kinds []string, der []byte) [][]byte {
	out := make([][]byte, 0, len(kinds))
	for _, k := range kinds {
		out = append(out, pinBytes(k, der))
	}

	return out
}

// pinText renders a pin as a user would write it in the configuration.
func pinText(b []byte, style uint64) string {
	h := hex.EncodeToString(b)
	switch style % 3 {
	case 1:
		h = strings.ToUpper(h)
	case 2:
		var parts []string
		for i := 0; i+2 <= len(h); i += 2 {
			parts = append(parts, h[i:i+2])
		}
		h = strings.Join(parts, ":")
	}

	return h
}

// tlsEnv is the shared environment.
type tlsEnv struct {
	p        *pki
	res      *Result
	seed     int64
	rootPool *x509.CertPool
	log      *logger.ReceptorLogger
	ownCert  string // certificate/key files of the verifying node itself
	ownKey   string
	ownID    string
}

type verdict struct {
	Accept bool   `json:"accept"`
	Err    string `json:"err,omitempty"`
	Panic  bool   `json:"panic,omitempty"`
	Cfg    string `json:"cfg,omitempty"` // configuration refused
}

func callVerify(f func([][]byte, [][]*x509.Certificate) error, chain [][]byte) (vd verdict) {
	defer func() {
		if r := recover(); r != nil {
			vd = verdict{Panic: true, Err: fmt.Sprint(r)}
		}
	}()
	if f == nil {
		return verdict{Accept: true, Err: "no VerifyPeerCertificate installed"}
	}
	if err := f(chain, nil); err != nil {
		return verdict{Err: err.Error()}
	}

	return verdict{Accept: true}
}

func (e *tlsEnv) judge(layer string, v *tlsVec, inst *tlsInstance, vd verdict) {
	e.judgeX(layer, v, inst, vd, v.Expect.Code)
}

// judgeX: expectCode is the model's verdict for this layer (the configuration layer additionally
// refuses pin lists that decodeFingerprints does not take).
func (e *tlsEnv) judgeX(layer string, v *tlsVec, inst *tlsInstance, vd verdict, expectCode bool) {
	rep := map[string]any{"vector": v, "instance": inst, "layer": layer, "observed": vd}
	e.res.count("eval_" + layer)
	switch {
	case vd.Panic:
		e.res.violate("C09:"+layer+":panic", fmt.Sprintf("%s panicked: %s", layer, vd.Err), rep)
	case vd.Accept && !v.Expect.Prop:
		sig := "C09:" + layer + ":accepts:" + v.failed()
		e.res.violate(sig, fmt.Sprintf("%s accepted a peer although condition(s) %s fail (issuer=%s validity=%s usage=%s names=%s/%s pins=%v role=%s mode=%s)",
			layer, v.failed(), v.Issuer, v.Validity, v.Usage, v.Names, inst.Variant, v.Pins, v.Role, v.Mode), rep)
	case !vd.Accept && expectCode:
		sig := "C09:" + layer + ":refuses-valid-peer"
		e.res.violate(sig, fmt.Sprintf("%s refused a peer that satisfies every condition (%s; issuer=%s usage=%s names=%s pins=%v role=%s mode=%s)",
			layer, vd.Err+vd.Cfg, v.Issuer, v.Usage, v.Names, v.Pins, v.Role, v.Mode), rep)
	case !vd.Accept && v.Expect.Prop && !expectCode:
		e.res.count("stricter_" + layer)
	}
	if vd.Accept {
		e.res.count("accept_" + layer)
	} else {
		e.res.count("refuse_" + layer)
		if v.NFail == 1 {
			e.res.count("only_" + v.Only + "_" + layer)
		}
	}
}

func (e *tlsEnv) hostType(v *tlsVec) netceptor.ExpectedHostnameType {
	if v.Mode == "receptor" {
		return netceptor.ExpectedHostnameTypeReceptor
	}

	return netceptor.ExpectedHostnameTypeDNS
}

// direct: ReceptorVerifyFunc with hand-made pools.
func (e *tlsEnv) direct(v *tlsVec, inst *tlsInstance, l *leaf) verdict {
	cfg := &tls.Config{RootCAs: e.rootPool, ClientCAs: e.rootPool}
	vt := netceptor.VerifyType(netceptor.VerifyServer)
	if v.Role == "client" {
		vt = netceptor.VerifyClient
	}
	f := netceptor.ReceptorVerifyFunc(cfg, pinsOf(v.Pins, l.der), inst.Expected, e.hostType(v), vt, e.log)

	return callVerify(f, l.chain)
}

// installed builds the verifying side's tls.Config through the real configuration path.
// Returns (config, how, cfgError). how: "client" (GetClientTLSConfig), "server" (PrepareTLSServerConfig),
// "server+rvf" (real server config, VerifyPeerCertificate replaced the way conn.go does), "" not installable.
func (e *tlsEnv) installed(n *netceptor.Netceptor, v *tlsVec, inst *tlsInstance, l *leaf, style uint64) (*tls.Config, string, error) {
	var texts []string
	for i, p := range pinsOf(v.Pins, l.der) {
		texts = append(texts, pinText(p, style+uint64(i)))
	}
	name := "p"
	switch {
	case v.Role == "server" && v.Mode != "dns_noname":
		cc := netceptor.TLSClientConfig{Name: name, RootCAs: e.p.rootFile, PinnedServerCert: texts}
		if style%2 == 0 {
			cc.Cert, cc.Key = e.ownCert, e.ownKey
		}
		tc, pins, err := cc.PrepareTLSClientConfig(n)
		if err != nil {
			return nil, "client", err
		}
		if err = n.SetClientTLSConfig(name, tc, pins); err != nil {
			return nil, "client", err
		}
		got, err := n.GetClientTLSConfig(name, inst.Expected, e.hostType(v))

		return got, "client", err
	case v.Role == "client":
		sc := netceptor.TLSServerConfig{Name: name, Cert: e.ownCert, Key: e.ownKey, RequireClientCert: true, ClientCAs: e.p.rootFile}
		if v.Mode == "dns_noname" {
			sc.PinnedClientCert = texts
		}
		tc, err := sc.PrepareTLSServerConfig(n)
		if err != nil {
			return nil, "server", err
		}
		if err = n.SetServerTLSConfig(name, tc); err != nil {
			return nil, "server", err
		}
		got, err := n.GetServerTLSConfig(name)
		if err != nil || v.Mode == "dns_noname" {
			return got, "server", err
		}
		// a name is expected from a client: only the stream listener does that, by replacing the verifier
		got.VerifyPeerCertificate = netceptor.ReceptorVerifyFunc(got, pinsOf(v.Pins, l.der), inst.Expected, e.hostType(v), netceptor.VerifyClient, e.log)

		return got, "server+rvf", nil
	}

	return nil, "", nil
}

// handshake runs a real TLS handshake over an in-memory pipe (net.Pipe semantics plus buffering, see bufpipe.go);
// the verifying side uses cfg.
func (e *tlsEnv) handshake(cfg *tls.Config, verifierIsClient bool, l *leaf) (verdict, bool) {
	c1, c2 := bufPipe()
	defer c1.Close()
	defer c2.Close()
	dl := time.Now().Add(60 * time.Second)
	_ = c1.SetDeadline(dl)
	_ = c2.SetDeadline(dl)
	peerCert := tls.Certificate{Certificate: l.chain, PrivateKey: l.key}
	var cliCfg, srvCfg *tls.Config
	if verifierIsClient {
		cliCfg = cfg
		srvCfg = &tls.Config{Certificates: []tls.Certificate{peerCert}, MinVersion: tls.VersionTLS12}
	} else {
		srvCfg = cfg
		cliCfg = &tls.Config{InsecureSkipVerify: true, MinVersion: tls.VersionTLS12, //nolint:gosec
			GetClientCertificate: func(*tls.CertificateRequestInfo) (*tls.Certificate, error) { return &peerCert, nil }}
	}
	cli, srv := tls.Client(c1, cliCfg), tls.Server(c2, srvCfg)
	var cerr, serr error
	var wg sync.WaitGroup
	wg.Add(2)
	go func() {
		defer wg.Done()
		cerr = cli.Handshake()
		if verifierIsClient {
			c1.Close()

			return
		}
		if cerr == nil {
			// TLS 1.3: the server judges the client certificate after the client has finished; drain
			buf := make([]byte, 1)
			_, _ = cli.Read(buf)
		}
	}()
	go func() {
		defer wg.Done()
		serr = srv.Handshake()
		if !verifierIsClient {
			if serr == nil {
				_, _ = srv.Write([]byte{1})
			}
			c2.Close()

			return
		}
		if serr == nil {
			buf := make([]byte, 1)
			_, _ = srv.Read(buf)
		}
	}()
	wg.Wait()
	verr := serr
	if verifierIsClient {
		verr = cerr
	}
	if verr != nil {
		if ne, ok := verr.(net.Error); ok && ne.Timeout() {
			return verdict{Err: verr.Error()}, false
		}
		if strings.Contains(verr.Error(), "deadline") {
			return verdict{Err: verr.Error()}, false
		}

		return verdict{Err: verr.Error()}, true
	}

	return verdict{Accept: true}, true
}

func init() {
	commands["tls"] = func(args []string) {
		fs := flag.NewFlagSet("tls", flag.ExitOnError)
		vectors := fs.String("vectors", "", "NDJSON vectors written by TLC")
		out := fs.String("out", "", "result file")
		seed := fs.Int64("seed", 1, "seed")
		hsExtra := fs.Int("handshake-extra", 400, "handshakes on vectors with two or more failing conditions")
		meshN := fs.Int("mesh", 64, "mesh dials (0 = all stream vectors)")
		work := fs.String("work", "", "scratch directory")
		clockN := fs.Int("clock", 72, "time-line vectors to run (0 = all)")
		clockStep := fs.Duration("clock-step", 2*time.Second, "real duration of one tick of the clock family (multiple of 2 s)")
		_ = fs.Parse(args)
		res := &Result{}
		defer func() { res.write(*out) }()
		vecs, err := readNDJSON[tlsVec](*vectors)
		if err != nil {
			res.inconclusive("cannot read vectors: " + err.Error())

			return
		}
		dir := *work
		if dir == "" {
			dir = filepath.Join(filepath.Dir(*out), "pki")
		}
		_ = os.RemoveAll(dir)
		if err = os.MkdirAll(dir, 0o700); err != nil {
			res.inconclusive(err.Error())

			return
		}
		p, err := newPKI(dir)
		if err != nil {
			res.inconclusive("pki: " + err.Error())

			return
		}
		env := &tlsEnv{p: p, res: res, seed: *seed, rootPool: x509.NewCertPool(), log: logger.NewReceptorLogger("vtab"), ownID: "vtab-node"}
		env.rootPool.AddCert(p.root.cert)
		own, err := p.get(certSpec{Issuer: "trusted", Validity: "valid", Usage: "both", RNames: []string{env.ownID}, DNames: []string{"vtab-node.example.test"}, Enc: "repo"})
		if err != nil {
			res.inconclusive("own certificate: " + err.Error())

			return
		}
		if env.ownCert, env.ownKey, err = p.pemFiles(own); err != nil {
			res.inconclusive(err.Error())

			return
		}
		var table, stream, seqs, clocks, lookups []*tlsVec
		for i := range vecs {
			if vecs[i].Fam == "lookup" {
				lookups = append(lookups, &vecs[i])
			} else if vecs[i].Fam == "clock" {
				clocks = append(clocks, &vecs[i])
			} else if vecs[i].Fam == "seq" {
				seqs = append(seqs, &vecs[i])
			} else if vecs[i].Fam == "stream" {
				stream = append(stream, &vecs[i])
			} else {
				table = append(table, &vecs[i])
			}
		}
		// deterministic order independent of TLC's
		sort.Slice(table, func(i, j int) bool { return fmt.Sprint(*table[i]) < fmt.Sprint(*table[j]) })
		sort.Slice(clocks, func(i, j int) bool {
			return fmt.Sprint(*clocks[i].Clock, *clocks[i]) < fmt.Sprint(*clocks[j].Clock, *clocks[j])
		})
		sort.Slice(lookups, func(i, j int) bool { return fmt.Sprint(*lookups[i].Lookup) < fmt.Sprint(*lookups[j].Lookup) })
		sort.Slice(seqs, func(i, j int) bool { return fmt.Sprint(*seqs[i]) < fmt.Sprint(*seqs[j]) })
		sort.Slice(stream, func(i, j int) bool { return fmt.Sprint(*stream[i]) < fmt.Sprint(*stream[j]) })

		// which vectors get a handshake: every feasible one with at most one failing condition, plus a seeded sample
		rng := rand.New(rand.NewSource(*seed))
		hs := make([]bool, len(table))
		var rest []int
		for i, v := range table {
			if v.Role == "server" && v.Mode == "dns_noname" {
				continue // crypto/tls refuses to run a client without ServerName; GetClientTLSConfig is never used that way
			}
			if v.NFail <= 1 {
				hs[i] = true
			} else {
				rest = append(rest, i)
			}
		}
		rng.Shuffle(len(rest), func(i, j int) { rest[i], rest[j] = rest[j], rest[i] })
		for k := 0; k < len(rest) && k < *hsExtra; k++ {
			hs[rest[k]] = true
		}

		workers := runtime.NumCPU()
		ctx, cancel := context.WithCancel(context.Background())
		defer cancel()
		nodes := make(chan *netceptor.Netceptor, workers)
		for k := 0; k < workers; k++ {
			nodes <- netceptor.New(ctx, env.ownID)
		}
		// the time line first, while the machine is otherwise idle
		if len(clocks) > 0 {
			runClock(env, ctx, selectClock(clocks, *clockN, rand.New(rand.NewSource(*seed+17))), *clockStep, workers)
		}
		distinct := sync.Map{}
		ndistinct := 0
		var dmu sync.Mutex
		parallel(len(table), workers, func(i int) {
			v := table[i]
			n := <-nodes
			defer func() { nodes <- n }()
			insts := tableInstances(v, *seed)
			hsInst := int(hash64(*seed, i) % uint64(len(insts)))
			for k := range insts {
				inst := &insts[k]
				l, err := p.get(inst.Cert)
				if err != nil {
					res.inconclusive(fmt.Sprintf("cannot build certificate %v: %v", inst.Cert, err))

					return
				}
				res.count("instances")
				key := fmt.Sprint(v.Issuer, v.Validity, v.Usage, v.Names, v.Pins, v.Role, v.Mode, inst.Variant, inst.Cert.Enc)
				if _, dup := distinct.LoadOrStore(key, true); !dup {
					dmu.Lock()
					ndistinct++
					dmu.Unlock()
				}
				vd := env.direct(v, inst, l)
				env.judge("rvf", v, inst, vd)
				if i%977 == 0 && k == 0 {
					res.sample(map[string]any{"vector": v, "instance": inst, "layer": "rvf", "observed": vd}, 8)
				}
				style := hash64(*seed, i, k)
				cfg, how, cerr := env.installed(n, v, inst, l, style)
				if how == "" {
					continue
				}
				layer := "installed-" + how
				var ivd verdict
				switch {
				case cerr != nil:
					ivd = verdict{Cfg: "configuration refused: " + cerr.Error()}
					if v.PinsConfigurable {
						// the configuration itself is well-formed: refusing it is only acceptable as a refusal of the peer
						res.count("config_error_unexpected")
					} else {
						res.count("config_refused_pins")
					}
				default:
					// structural expectations on what GetClientTLSConfig hands out
					if how == "client" {
						switch {
						case v.Mode == "receptor" && !cfg.InsecureSkipVerify:
							res.note("receptor mode without InsecureSkipVerify: the default hostname check would see an empty ServerName")
						case v.Mode == "dns" && cfg.ServerName != inst.Expected:
							res.count("dns_servername_missing")
						}
					}
					ivd = callVerify(cfg.VerifyPeerCertificate, l.chain)
					if cfg.VerifyPeerCertificate == nil && !cfg.InsecureSkipVerify && how == "client" && v.Mode == "dns" {
						// no receptor verifier, but crypto/tls verifies by itself: pins are then not enforced; the handshake layer decides
						ivd = verdict{Accept: true, Err: "no VerifyPeerCertificate installed (default verification only)"}
					}
				}
				expectInstalled := v.Expect.Code && (v.PinsConfigurable || how == "server+rvf")
				env.judgeX(layer, v, inst, ivd, expectInstalled)
				if hs[i] && k == hsInst && cerr == nil {
					hvd, ok := env.handshake(cfg, how == "client", l)
					if !ok {
						res.inconclusive("handshake timed out: " + hvd.Err)

						continue
					}
					env.judgeX("handshake-"+how, v, inst, hvd, expectInstalled)
					if i%1499 == 0 {
						res.sample(map[string]any{"vector": v, "instance": inst, "layer": "handshake-" + how, "observed": hvd}, 12)
					}
					// the handshake and the installed verifier must agree, except where crypto/tls's own default
					// verification (DNS mode, client authentication) refuses first - which can only make it stricter
					if hvd.Accept && !ivd.Accept {
						res.violate("C09:handshake-accepts-what-verifier-refuses", fmt.Sprintf("handshake succeeded although the installed verifier refuses: %s", ivd.Err),
							map[string]any{"vector": v, "instance": inst, "layer": "handshake-" + how})
					}
				}
			}
			res.count("vectors_table")
		})
		// history independence: long-lived verifier instances and configurations fed with sequences of certificates
		parallel(len(seqs), workers, func(i int) {
			n := <-nodes
			defer func() { nodes <- n }()
			runSeq(env, n, seqs[i], i)
		})
		// lookup independence: one named client configuration per vector, looked up repeatedly on one node
		parallel(len(lookups), workers, func(i int) {
			n := <-nodes
			defer func() { nodes <- n }()
			runLookup(env, n, lookups[i], i)
		})
		cancel()
		res.mu.Lock()
		res.Evaluations = len(table) + res.Counters["vectors_seq"] + res.Counters["vectors_clock"] + res.Counters["vectors_lookup"]
		res.Distinct = ndistinct + res.Counters["vectors_seq"] + res.Counters["vectors_clock"] + res.Counters["vectors_lookup"]
		res.mu.Unlock()
		res.add("certificates_made", int(p.made))

		if len(stream) > 0 {
			runMesh(env, stream, *meshN, rng)
		}
		res.mu.Lock()
		res.Evaluations += res.Counters["vectors_stream"]
		res.Distinct += res.Counters["vectors_stream"]
		res.mu.Unlock()
	}
}
