package main

import (
	"crypto/rand"
	"crypto/rsa"
	"crypto/sha1"
	"crypto/x509"
	"crypto/x509/pkix"
	"encoding/pem"
	"fmt"
	"math/big"
	"os"
	"path/filepath"
	"sync"
	"sync/atomic"
	"time"

	"github.com/ansible/receptor/pkg/utils"
)

// Key material is irrelevant to the decision under test, so RSA keys come from crypto/rand (Go's
// rsa.GenerateKey is deliberately non-deterministic anyway); everything that shapes a test case
// (names, samples, pin formats) derives from the seed.

func genKeys(n, bits int) ([]*rsa.PrivateKey, error) {
	keys := make([]*rsa.PrivateKey, n)
	errs := make([]error, n)
	var wg sync.WaitGroup
	for i := range keys {
		wg.Add(1)
		go func(i int) {
			defer wg.Done()
			keys[i], errs[i] = rsa.GenerateKey(rand.Reader, bits)
		}(i)
	}
	wg.Wait()
	for _, e := range errs {
		if e != nil {
			return nil, e
		}
	}

	return keys, nil
}

var serial int64 = 1000

func nextSerial() *big.Int { return big.NewInt(atomic.AddInt64(&serial, 1)) }

type authority struct {
	cert *x509.Certificate
	key  *rsa.PrivateKey
	der  []byte
}

func subjectKeyID(k *rsa.PrivateKey) []byte {
	h := sha1.Sum(x509.MarshalPKCS1PublicKey(&k.PublicKey))

	return h[:]
}

func newCA(cn string, key *rsa.PrivateKey, parent *authority) (*authority, error) {
	now := time.Now()
	tpl := &x509.Certificate{
		SerialNumber:          nextSerial(),
		Subject:               pkix.Name{CommonName: cn},
		NotBefore:             now.Add(-24 * time.Hour),
		NotAfter:              now.AddDate(5, 0, 0),
		IsCA:                  true,
		BasicConstraintsValid: true,
		KeyUsage:              x509.KeyUsageCertSign | x509.KeyUsageDigitalSignature,
		SubjectKeyId:          subjectKeyID(key),
	}
	signer, signerKey := tpl, key
	if parent != nil {
		signer, signerKey = parent.cert, parent.key
	}
	der, err := x509.CreateCertificate(rand.Reader, tpl, signer, &key.PublicKey, signerKey)
	if err != nil {
		return nil, err
	}
	c, err := x509.ParseCertificate(der)
	if err != nil {
		return nil, err
	}

	return &authority{cert: c, key: key, der: der}, nil
}

// pki is the set of authorities used by the TLS table.
type pki struct {
	root, other, inter *authority
	leafKeys           []*rsa.PrivateKey
	dir                string
	rootFile           string
	mu                 sync.Mutex
	cache              map[string]*leaf
	made               int64
}

type leaf struct {
	der   []byte
	chain [][]byte // leaf first, then intermediates
	key   *rsa.PrivateKey
	cert  *x509.Certificate
	once  sync.Once
	err   error
	files [2]string // cert (chain) PEM, key PEM - written on demand
}

func newPKI(dir string) (*pki, error) {
	keys, err := genKeys(6, 2048)
	if err != nil {
		return nil, err
	}
	p := &pki{dir: dir, cache: map[string]*leaf{}, leafKeys: keys[3:]}
	if p.root, err = newCA("vtab root", keys[0], nil); err != nil {
		return nil, err
	}
	if p.other, err = newCA("vtab other authority", keys[1], nil); err != nil {
		return nil, err
	}
	if p.inter, err = newCA("vtab intermediate", keys[2], p.root); err != nil {
		return nil, err
	}
	p.rootFile = filepath.Join(dir, "root.pem")
	if err = os.WriteFile(p.rootFile, pem.EncodeToMemory(&pem.Block{Type: "CERTIFICATE", Bytes: p.root.der}), 0o600); err != nil {
		return nil, err
	}

	return p, nil
}

// certSpec describes a leaf certificate.
type certSpec struct {
	Issuer   string   `json:"issuer"`   // trusted | trusted_inter | otherca | selfsigned
	Validity string   `json:"validity"` // valid | expired | notyet
	Usage    string   `json:"usage"`    // server | client | both | neither | absent
	RNames   []string `json:"rnames"`   // receptor names
	DNames   []string `json:"dnames"`   // dNSNames
	Enc      string   `json:"enc"`      // repo (utils.MakeReceptorSAN) | indep (own encoder)
	Foreign  string   `json:"foreign"`  // if set (indep only): an otherName of another OID carrying this text
	Key      int      `json:"key"`
	Nonce    string   `json:"nonce,omitempty"` // distinguishes otherwise identical certificates
	NB       int64    `json:"nb,omitempty"`    // Validity "window": NotBefore / NotAfter as Unix seconds
	NA       int64    `json:"na,omitempty"`
}

func (s certSpec) id() string {
	return fmt.Sprintf("%s|%s|%s|%q|%q|%s|%q|%d|%s", s.Issuer, s.Validity, s.Usage, s.RNames, s.DNames, s.Enc, s.Foreign, s.Key, s.Nonce) + fmt.Sprintf("|%d|%d", s.NB, s.NA)
}

func (p *pki) get(s certSpec) (*leaf, error) {
	p.mu.Lock()
	l := p.cache[s.id()]
	if l == nil {
		l = &leaf{}
		p.cache[s.id()] = l
	}
	p.mu.Unlock()
	l.once.Do(func() {
		l.err = p.build(s, l)
		atomic.AddInt64(&p.made, 1)
	})

	return l, l.err
}

func (p *pki) build(s certSpec, l *leaf) error {
	now := time.Now()
	key := p.leafKeys[s.Key%len(p.leafKeys)]
	cn := "vtab leaf"
	if len(s.RNames) > 0 && isASCII(s.RNames[0]) {
		cn = s.RNames[0] + " leaf"
	}
	tpl := &x509.Certificate{
		SerialNumber:          nextSerial(),
		Subject:               pkix.Name{CommonName: cn},
		KeyUsage:              x509.KeyUsageDigitalSignature | x509.KeyUsageKeyEncipherment,
		BasicConstraintsValid: true,
	}
	switch s.Validity {
	case "valid":
		tpl.NotBefore, tpl.NotAfter = now.Add(-2*time.Hour), now.Add(72*time.Hour)
	case "expired":
		tpl.NotBefore, tpl.NotAfter = now.Add(-72*time.Hour), now.Add(-2*time.Hour)
	case "notyet":
		tpl.NotBefore, tpl.NotAfter = now.Add(2*time.Hour), now.Add(72*time.Hour)
	case "window":
		tpl.NotBefore, tpl.NotAfter = time.Unix(s.NB, 0), time.Unix(s.NA, 0)
	default:
		return fmt.Errorf("validity %q", s.Validity)
	}
	switch s.Usage {
	case "server":
		tpl.ExtKeyUsage = []x509.ExtKeyUsage{x509.ExtKeyUsageServerAuth}
	case "client":
		tpl.ExtKeyUsage = []x509.ExtKeyUsage{x509.ExtKeyUsageClientAuth}
	case "both":
		tpl.ExtKeyUsage = []x509.ExtKeyUsage{x509.ExtKeyUsageClientAuth, x509.ExtKeyUsageServerAuth}
	case "neither":
		tpl.ExtKeyUsage = []x509.ExtKeyUsage{x509.ExtKeyUsageCodeSigning, x509.ExtKeyUsageEmailProtection}
	case "absent":
	default:
		return fmt.Errorf("usage %q", s.Usage)
	}
	if len(s.RNames)+len(s.DNames) > 0 || s.Foreign != "" {
		var san []byte
		switch s.Enc {
		case "repo":
			ext, err := utils.MakeReceptorSAN(s.DNames, nil, s.RNames)
			if err != nil {
				return err
			}
			san = ext.Value
		case "indep":
			var es []sanEntry
			for _, d := range s.DNames {
				es = append(es, sanEntry{Kind: "dns", Text: d})
			}
			if s.Foreign != "" {
				es = append(es, sanEntry{Kind: "foreign", Text: s.Foreign})
			}
			for _, r := range s.RNames {
				es = append(es, sanEntry{Kind: "id", Text: r})
			}
			san = encodeSAN(es)
		default:
			return fmt.Errorf("enc %q", s.Enc)
		}
		tpl.ExtraExtensions = []pkix.Extension{{Id: utils.OIDSubjectAltName, Value: san}}
	}
	var signer *x509.Certificate
	var signerKey *rsa.PrivateKey
	switch s.Issuer {
	case "trusted":
		signer, signerKey = p.root.cert, p.root.key
	case "trusted_inter":
		signer, signerKey = p.inter.cert, p.inter.key
	case "otherca":
		signer, signerKey = p.other.cert, p.other.key
	case "selfsigned":
		signer, signerKey = tpl, key
	default:
		return fmt.Errorf("issuer %q", s.Issuer)
	}
	der, err := x509.CreateCertificate(rand.Reader, tpl, signer, &key.PublicKey, signerKey)
	if err != nil {
		return err
	}
	c, err := x509.ParseCertificate(der)
	if err != nil {
		return err
	}
	l.der, l.key, l.cert = der, key, c
	l.chain = [][]byte{der}
	if s.Issuer == "trusted_inter" {
		l.chain = append(l.chain, p.inter.der)
	}

	return nil
}

var fileSeq int64

// pemFiles writes the chain and the key of a leaf to files (once) and returns their names.
func (p *pki) pemFiles(l *leaf) (string, string, error) {
	p.mu.Lock()
	defer p.mu.Unlock()
	if l.files[0] != "" {
		return l.files[0], l.files[1], nil
	}
	n := atomic.AddInt64(&fileSeq, 1)
	cf := filepath.Join(p.dir, fmt.Sprintf("leaf%d.crt", n))
	kf := filepath.Join(p.dir, fmt.Sprintf("leaf%d.key", n))
	var cb []byte
	for _, d := range l.chain {
		cb = append(cb, pem.EncodeToMemory(&pem.Block{Type: "CERTIFICATE", Bytes: d})...)
	}
	if err := os.WriteFile(cf, cb, 0o600); err != nil {
		return "", "", err
	}
	kb := pem.EncodeToMemory(&pem.Block{Type: "RSA PRIVATE KEY", Bytes: x509.MarshalPKCS1PrivateKey(l.key)})
	if err := os.WriteFile(kf, kb, 0o600); err != nil {
		return "", "", err
	}
	l.files = [2]string{cf, kf}

	return cf, kf, nil
}

func isASCII(s string) bool {
	for i := 0; i < len(s); i++ {
		if s[i] >= 0x80 || s[i] < 0x20 {
			return false
		}
	}

	return true
}
