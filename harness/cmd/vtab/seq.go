package main

import (
	"crypto/sha256"
	"crypto/sha512"
	"crypto/tls"
	"crypto/x509"
	"fmt"
	"strings"

	"github.com/ansible/receptor/pkg/netceptor"
)

// Family "seq" of TLSVerify.tla: the verdict must be a function of (certificate, configuration).  Each long-lived
// object is used the way production uses it - ONE ReceptorVerifyFunc instance, ONE configuration produced by
// PrepareTLSServerConfig (handed out through GetServerTLSConfig's Clone for every connection), ONE client
// configuration from PrepareTLSClientConfig+GetClientTLSConfig reused for several connections - and is fed with the
// vector's SEQUENCE of certificates; every call's verdict is compared with the table's verdict for that certificate.
// Certificates A, B and C differ in nothing but identity (so consecutive calls differ in exactly the pin condition;
// C is never pinned); X differs from them in the chain only.

type seqPin struct {
	Alg string `json:"alg"`
	Of  string `json:"of"`
}

type seqCall struct {
	Cert    string `json:"cert"`
	Accept  bool   `json:"accept"`
	PinOK   bool   `json:"pinok"`
	OtherOK bool   `json:"otherok"`
}

func seqDigest(alg string, der []byte) []byte {
	if alg == "512" {
		s := sha512.Sum512(der)

		return s[:]
	}
	s := sha256.Sum256(der)

	return s[:]
}

func runSeq(env *tlsEnv, n *netceptor.Netceptor, v *tlsVec, idx int) {
	res := env.res
	h := hash64(env.seed, "seq", idx)
	e := ePoolDNS[h%uint64(len(ePoolDNS))]
	expected := e
	if v.Mode == "dns_noname" {
		expected = ""
	}
	enc := []string{"repo", "indep"}[h%2]
	certs := map[string]*leaf{}
	for name, spec := range map[string]certSpec{
		"A": {Issuer: "trusted", Validity: "valid", Usage: "both", RNames: []string{e}, DNames: []string{e}, Enc: enc, Key: 0, Nonce: "A"},
		"B": {Issuer: "trusted", Validity: "valid", Usage: "both", RNames: []string{e}, DNames: []string{e}, Enc: enc, Key: 0, Nonce: "B"},
		"C": {Issuer: "trusted", Validity: "valid", Usage: "both", RNames: []string{e}, DNames: []string{e}, Enc: enc, Key: 0, Nonce: "C"},
		"X": {Issuer: "otherca", Validity: "valid", Usage: "both", RNames: []string{e}, DNames: []string{e}, Enc: enc, Key: 0, Nonce: "B"},
	} {
		l, err := env.p.get(spec)
		if err != nil {
			res.inconclusive("seq: certificate: " + err.Error())

			return
		}
		certs[name] = l
	}
	var pins [][]byte
	var texts []string
	for i, p := range v.SeqPins {
		d := seqDigest(p.Alg, certs[p.Of].der)
		pins = append(pins, d)
		texts = append(texts, pinText(d, h+uint64(i)))
	}
	hostType := env.hostType(v)
	history := func(k int) string {
		var hs []string
		for i := 0; i <= k; i++ {
			hs = append(hs, v.Calls[i].Cert)
		}

		return strings.Join(hs, ",")
	}
	judge := func(layer string, k int, vd verdict) {
		c := v.Calls[k]
		res.count("eval_" + layer)
		rep := map[string]any{"vector": v, "layer": layer, "call": k + 1, "history": history(k), "expected_name": expected, "observed": vd}
		failed := "pin"
		if !c.OtherOK {
			failed = "chain"
			if !c.PinOK {
				failed = "chain+pin"
			}
		}
		pinsTxt := fmt.Sprint(v.SeqPins)
		switch {
		case vd.Panic:
			res.violate("C09:"+layer+":panic", fmt.Sprintf("%s panicked on call %d (%s): %s", layer, k+1, history(k), vd.Err), rep)
		case vd.Accept && !c.Accept:
			res.violate("C09:"+layer+":accepts:"+failed, fmt.Sprintf("%s: one long-lived instance (pins %s, role=%s mode=%s) accepted certificate %s on call %d of the sequence %s although condition(s) %s fail for it",
				layer, pinsTxt, v.Role, v.Mode, c.Cert, k+1, history(k), failed), rep)
		case !vd.Accept && c.Accept:
			res.violate("C09:"+layer+":refuses-valid-peer", fmt.Sprintf("%s: one long-lived instance (pins %s, role=%s mode=%s) refused certificate %s on call %d of the sequence %s although it satisfies every condition: %s",
				layer, pinsTxt, v.Role, v.Mode, c.Cert, k+1, history(k), vd.Err+vd.Cfg), rep)
		}
		if vd.Accept {
			res.count("accept_" + layer)
		} else {
			res.count("refuse_" + layer)
		}
		if k > 0 && v.Calls[k-1].Accept && c.OtherOK && !c.PinOK && !vd.Accept {
			res.count("pinned_then_unpinned_refused_" + layer)
		}
		if k > 0 && v.Calls[k-1].OtherOK && !v.Calls[k-1].PinOK && c.Accept && len(v.SeqPins) > 0 && vd.Accept {
			res.count("unpinned_then_pinned_accepted_" + layer)
		}
	}

	// (a) one ReceptorVerifyFunc instance
	vt := netceptor.VerifyType(netceptor.VerifyServer)
	if v.Role == "client" {
		vt = netceptor.VerifyClient
	}
	pool := &tls.Config{RootCAs: env.rootPool, ClientCAs: env.rootPool}
	f := netceptor.ReceptorVerifyFunc(pool, pins, expected, hostType, vt, env.log)
	for k, c := range v.Calls {
		judge("rvf-seq", k, callVerify(f, certs[c.Cert].chain))
	}

	// (b) the configuration objects of production; two of each: one for direct calls of the installed verifier, one for handshakes
	name := "seq"
	build := func() (func() (*tls.Config, error), string, error) {
		switch {
		case v.Role == "server" && v.Mode != "dns_noname":
			cc := netceptor.TLSClientConfig{Name: name, RootCAs: env.p.rootFile, PinnedServerCert: texts}
			tc, ps, err := cc.PrepareTLSClientConfig(n)
			if err != nil {
				return nil, "client", err
			}
			if err = n.SetClientTLSConfig(name, tc, ps); err != nil {
				return nil, "client", err
			}
			got, err := n.GetClientTLSConfig(name, expected, hostType)
			// a client keeps the configuration it obtained and uses it for every (re)dial
			return func() (*tls.Config, error) { return got, nil }, "client", err
		case v.Role == "client" && v.Mode == "dns_noname":
			sc := netceptor.TLSServerConfig{Name: name, Cert: env.ownCert, Key: env.ownKey, RequireClientCert: true, ClientCAs: env.p.rootFile, PinnedClientCert: texts}
			tc, err := sc.PrepareTLSServerConfig(n)
			if err != nil {
				return nil, "server", err
			}
			// every listener/connection takes its configuration from the node (GetServerTLSConfig clones the stored
			// entry; all clones share the one verify function). The per-worker node is used by this goroutine only.
			if err = n.SetServerTLSConfig(name, tc); err != nil {
				return nil, "server", err
			}

			return func() (*tls.Config, error) { return n.GetServerTLSConfig(name) }, "server", nil
		case v.Role == "client":
			sc := netceptor.TLSServerConfig{Name: name, Cert: env.ownCert, Key: env.ownKey, RequireClientCert: true, ClientCAs: env.p.rootFile}
			tc, err := sc.PrepareTLSServerConfig(n)
			if err != nil {
				return nil, "server+rvf", err
			}
			tc.VerifyPeerCertificate = netceptor.ReceptorVerifyFunc(tc, pins, expected, hostType, netceptor.VerifyClient, env.log)
			if err = n.SetServerTLSConfig(name, tc); err != nil {
				return nil, "server+rvf", err
			}

			return func() (*tls.Config, error) { return n.GetServerTLSConfig(name) }, "server+rvf", nil
		}

		return nil, "", nil
	}
	for _, use := range []string{"installed", "handshake"} {
		get, how, err := build()
		if how == "" {
			break
		}
		if err != nil {
			res.inconclusive(fmt.Sprintf("seq: configuration %s refused although its pins are 32/64 bytes: %v", how, err))

			return
		}
		layer := use + "-" + how + "-seq"
		for k, c := range v.Calls {
			cfg, err := get()
			if err != nil {
				res.inconclusive("seq: " + err.Error())

				return
			}
			l := certs[c.Cert]
			if use == "installed" {
				judge(layer, k, callVerify(cfg.VerifyPeerCertificate, l.chain))

				continue
			}
			vd, ok := env.handshake(cfg, how == "client", l)
			if !ok {
				res.inconclusive("seq: handshake timed out: " + vd.Err)

				return
			}
			judge(layer, k, vd)
		}
	}
	res.count("vectors_seq")
	res.add("seq_calls", len(v.Calls))
	if idx%211 == 0 {
		res.sample(map[string]any{"vector_fam": "seq", "role": v.Role, "mode": v.Mode, "pins": v.SeqPins, "calls": v.Calls, "expected_name": expected}, 16)
	}
}

var _ = x509.NewCertPool
