// Command vsf is the C14 conformance driver: M operating-system processes x N goroutines hammer ONE
// status file through the real exported UpdateFullStatus / UpdateBasicStatus / Load / Save of
// pkg/workceptor (BaseWorkUnit methods on a shared object and StatusFileData methods on private objects,
// as the daemon and its runner do). Every step is traced through the verifhook events into one O_APPEND
// file; the parent then checks the end state, runs the acceptor of package sftrace over the trace and
// writes the normalised trace that TLC validates against specs/StatusFileTrace.tla.
package main

import (
	"bufio"
	"context"
	"encoding/json"
	"flag"
	"fmt"
	"math/rand"
	"os"
	"os/exec"
	"path/filepath"
	"strconv"
	"strings"
	"sync"
	"syscall"
	"time"

	"github.com/ansible/receptor/pkg/logger"
	"github.com/ansible/receptor/pkg/netceptor"
	"github.com/ansible/receptor/pkg/workceptor"

	"verif/harness/sftrace"
)

// Violation is one observed departure of the real code from the specification.
type Violation struct {
	Sig    string `json:"sig"`
	What   string `json:"what"`
	Replay any    `json:"replay"`
}

// Result is what the run subcommand writes.
type Result struct {
	Evaluations  int            `json:"evaluations"`
	Distinct     int            `json:"distinct"`
	Violations   []Violation    `json:"violations"`
	Inconclusive []string       `json:"inconclusive"`
	Samples      []any          `json:"samples"`
	Counters     map[string]int `json:"counters"`
	Notes        []string       `json:"notes"`
	TraceFiles   []string       `json:"trace_files"`
	NormFile     string         `json:"norm_file"`
	NormEvents   int            `json:"norm_events"`
	NP           int            `json:"np"`
	Runs         []RunInfo      `json:"runs"`
}

// RunInfo describes one configuration.
type RunInfo struct {
	Config     string   `json:"config"`
	Mode       string   `json:"mode"`
	Procs      int      `json:"procs"`
	Gor        int      `json:"gor"`
	Incs       int      `json:"incs"`
	Blinds     int      `json:"blinds"`
	Loads      int      `json:"loads"`
	Saves      int      `json:"saves"`
	Events     int      `json:"events"`
	Sections   int      `json:"sections"`
	Switches   int      `json:"actor_switches"`
	FinalCount int      `json:"final_count"`
	Jitter     int      `json:"jitter_stops"`
	Problems   []string `json:"problems"`
}

func (r *Result) count(k string, n int) {
	if r.Counters == nil {
		r.Counters = map[string]int{}
	}
	r.Counters[k] += n
}

func (r *Result) violate(sig, what string, replay any) {
	if len(r.Violations) < 100 {
		r.Violations = append(r.Violations, Violation{sig, what, replay})
	}
	r.count("violations", 1)
}

// ChildResult is what a child process reports.
type ChildResult struct {
	Pid      int            `json:"pid"`
	Updates  int            `json:"updates"` // UpdateFullStatus + UpdateBasicStatus calls that returned without error
	Incs     map[string]int `json:"incs"`    // own key -> number of counting updates
	Blinds   int            `json:"blinds"`
	Loads    int            `json:"loads"`
	Saves    int            `json:"saves"`
	Problems []Violation    `json:"problems"`
	Err      string         `json:"err"`
}

const unitID = "u1"

func mkUnit(dataDir string) (*workceptor.Workceptor, *workceptor.BaseWorkUnit, context.CancelFunc, error) {
	ctx, cancel := context.WithCancel(context.Background())
	nc := netceptor.New(ctx, "vsf")
	w, err := workceptor.New(ctx, nc, dataDir)
	if err != nil {
		cancel()

		return nil, nil, nil, err
	}
	workceptor.MainInstance = w
	bwu := &workceptor.BaseWorkUnit{}
	bwu.Init(w, unitID, "vsf", workceptor.FileSystem{}, nil)

	return w, bwu, cancel, nil
}

func num(v any) (int, bool) {
	switch x := v.(type) {
	case float64:
		return int(x), true
	case int:
		return x, true
	case int64:
		return int(x), true
	}

	return 0, false
}

// ---------------------------------------------------------------- child

func childMain(args []string) {
	fs := flag.NewFlagSet("child", flag.ExitOnError)
	dir := fs.String("dir", "", "scenario directory")
	idx := fs.Int("proc", 1, "process index")
	gor := fs.Int("gor", 1, "goroutines")
	ops := fs.Int("ops", 10, "operations per goroutine")
	seed := fs.Int64("seed", 1, "seed")
	mode := fs.String("mode", "rmw", "rmw | save")
	_ = fs.Parse(args)
	res := ChildResult{Pid: os.Getpid(), Incs: map[string]int{}}
	out := filepath.Join(*dir, fmt.Sprintf("child_%d.json", *idx))
	finish := func() {
		b, _ := json.Marshal(res)
		_ = os.WriteFile(out, b, 0o644)
	}
	_, bwu, cancel, err := mkUnit(filepath.Join(*dir, "data"))
	if err != nil {
		res.Err = err.Error()
		finish()
		os.Exit(3)
	}
	defer cancel()
	fmt.Println("ready")
	rd := bufio.NewReader(os.Stdin)
	line, _ := rd.ReadString('\n')
	if strings.TrimSpace(line) == "create" {
		// the creator: mkdir + Save through the real code (AllocateUnit's two steps)
		err := os.MkdirAll(bwu.UnitDir(), 0o700)
		if err == nil {
			bwu.SetStatusExtraData(map[string]any{"c": 0})
			err = bwu.Save()
		}
		if err != nil {
			res.Err = "create: " + err.Error()
			finish()
			os.Exit(3)
		}
		fmt.Println("created")
		line, _ = rd.ReadString('\n')
	}
	if strings.TrimSpace(line) != "go" {
		res.Err = "no go"
		finish()
		os.Exit(3)
	}
	statusFile := bwu.StatusFileName()
	var mu sync.Mutex
	problem := func(sig, what string) {
		mu.Lock()
		if len(res.Problems) < 20 {
			res.Problems = append(res.Problems, Violation{Sig: sig, What: what})
		}
		mu.Unlock()
	}
	counting := *mode == "rmw" || *mode == "fresh" || *mode == "final"
	// mode "final": like rmw, but every blind update reports a FINAL state (Succeeded): the record is and stays final while
	// three or more parties keep updating it (ExtraData counters, runner-exit clean-up, late size reports do that to real units)
	blindState := workceptor.WorkStateRunning
	if *mode == "final" {
		blindState = workceptor.WorkStateSucceeded
	}
	// mode "fresh": nobody has created the record; the first updates of all goroutines of all processes race on a
	// status file that does not exist yet (the first one starts from its blank object, every other one must load)
	// otherwise the record exists (the creator's Save has returned): a Load that fails now is a torn read
	for try := 0; *mode != "fresh"; try++ {
		err := bwu.Load()
		if err == nil {
			break
		}
		problem("C14:torn-load", fmt.Sprintf("initial Load in process %d failed: %v", os.Getpid(), err))
		if try >= 50 {
			// the record stays unreadable (corrupted for good): a definite wrong value, reported as such
			problem("C14:record-corrupted", fmt.Sprintf("the record could not be loaded in 50 attempts: %v", err))
			finish()
			os.Exit(0)
		}
		time.Sleep(time.Millisecond)
	}
	var wg sync.WaitGroup
	for g := 0; g < *gor; g++ {
		wg.Add(1)
		go func(g int) {
			defer wg.Done()
			rng := rand.New(rand.NewSource(*seed*1000003 + int64(*idx)*1009 + int64(g)))
			key := fmt.Sprintf("a%d_%d", os.Getpid(), g)
			shared := g%2 == 0 // even goroutines use the process-wide BaseWorkUnit, odd ones a private StatusFileData
			priv := &workceptor.StatusFileData{}
			steady := &workceptor.StatusFileData{} // a reporter that repeats one and the same report
			myIncs, lastC, blinds, loads, saves, others := 0, 0, 0, 0, 0, 0
			// check what a read (inside an update or a Load) returned
			check := func(where string, ed any) {
				if *mode == "clear" {
					return // the field is set and cleared on purpose; the trace oracle decides
				}
				m, _ := ed.(map[string]any)
				if m == nil && *mode == "fresh" && where == "update" && myIncs == 0 {
					return // possibly the very first update of the file
				}
				if m == nil {
					problem("C14:record-wiped", fmt.Sprintf("%s in %s: ExtraData is %T, the counters are gone", key, where, ed))

					return
				}
				if !counting {
					return
				}
				if own, _ := num(m[key]); own != myIncs {
					problem("C14:own-field-wiped", fmt.Sprintf("%s in %s: own field is %d after %d own updates", key, where, own, myIncs))
				}
				c, _ := num(m["c"])
				if c < lastC {
					problem("C14:counter-regressed", fmt.Sprintf("%s in %s: shared counter %d after having seen %d", key, where, c, lastC))
				}
				lastC = c
			}
			inc := func(s *workceptor.StatusFileData) {
				check("update", s.ExtraData)
				m, _ := s.ExtraData.(map[string]any)
				if m == nil {
					m = map[string]any{}
					s.ExtraData = m
				}
				c, _ := num(m["c"])
				o, _ := num(m[key])
				m["c"] = c + 1
				m[key] = o + 1
			}
			for k := 0; k < *ops; k++ {
				r := rng.Intn(100)
				if *mode == "fresh" && k == 0 {
					r = 40 // everybody's first operation is a counting update
				}
				switch {
				case *mode == "clear" && r < 45:
					// mode "clear": writers with long-lived objects; some updates SET the ExtraData field, some CLEAR it (nil),
					// interleaved with the single-field (State/Detail) updates and loads of the others.  Every re-read must
					// replace the whole in-memory copy - the trace oracle compares each read with the last write.
					var f func(*workceptor.StatusFileData)
					if r < 25 {
						v := fmt.Sprintf("%s#%d", key, k)
						f = func(s *workceptor.StatusFileData) { s.ExtraData = map[string]any{"v": v} }
					} else {
						f = func(s *workceptor.StatusFileData) { s.ExtraData = nil }
					}
					if shared {
						bwu.UpdateFullStatus(f)
						if e := bwu.LastUpdateError(); e != nil {
							problem("C14:torn-read", fmt.Sprintf("%s: UpdateFullStatus failed: %v", key, e))

							break
						}
					} else if e := priv.UpdateFullStatus(statusFile, f); e != nil {
						problem("C14:torn-read", fmt.Sprintf("%s: UpdateFullStatus failed: %v", key, e))

						break
					}
					others++
				case *mode == "clear" && r < 50:
					// (no counting updates in this mode) a Load into the long-lived object
					if !shared {
						if e := priv.Load(statusFile); e != nil {
							problem("C14:torn-load", fmt.Sprintf("%s: Load failed: %v", key, e))
						}
						loads++
					}
				case *mode == "save" && r < 30:
					// blind rewrite of the caller's in-memory copy (what AllocateUnit does)
					var err error
					if shared {
						err = bwu.Save()
					} else {
						if priv.WorkType == "" {
							if err = priv.Load(statusFile); err != nil {
								problem("C14:torn-load", fmt.Sprintf("%s: Load failed: %v", key, err))

								break
							}
						}
						err = priv.Save(statusFile)
					}
					if err != nil {
						problem("C14:save-error", fmt.Sprintf("%s: Save failed: %v", key, err))
					}
					saves++
				case r < 50:
					if shared {
						bwu.UpdateFullStatus(inc)
						if e := bwu.LastUpdateError(); e != nil {
							problem("C14:torn-read", fmt.Sprintf("%s: UpdateFullStatus failed: %v", key, e))

							break
						}
					} else if e := priv.UpdateFullStatus(statusFile, inc); e != nil {
						problem("C14:torn-read", fmt.Sprintf("%s: UpdateFullStatus failed: %v", key, e))

						break
					}
					myIncs++
					lastC++ // at least our own increment
				case r < 65:
					// every other blind update REPEATS this writer's previous values (the periodic "still running"
					// report of a runner): it must be applied all the same, others have changed the record meanwhile
					detail := fmt.Sprintf("%s#%d", key, k)
					if blinds%2 == 1 {
						// the reporter object only ever sends this one report, like the runner's private status object
						if e := steady.UpdateBasicStatus(statusFile, blindState, key+"#steady", -1); e != nil {
							problem("C14:torn-read", fmt.Sprintf("%s: UpdateBasicStatus failed: %v", key, e))
						}
					} else if shared {
						bwu.UpdateBasicStatus(blindState, detail, int64(k))
						if e := bwu.LastUpdateError(); e != nil {
							problem("C14:torn-read", fmt.Sprintf("%s: UpdateBasicStatus failed: %v", key, e))
						}
					} else if e := priv.UpdateBasicStatus(statusFile, blindState, detail, -1); e != nil {
						problem("C14:torn-read", fmt.Sprintf("%s: UpdateBasicStatus failed: %v", key, e))
					}
					blinds++
				default:
					if shared {
						if e := bwu.Load(); e != nil {
							problem("C14:torn-load", fmt.Sprintf("%s: Load failed: %v", key, e))

							break
						}
						bwu.GetStatusLock().RLock()
						c := bwu.GetStatusCopy()
						bwu.GetStatusLock().RUnlock()
						check("Load", c.ExtraData)
					} else {
						l := &workceptor.StatusFileData{}
						if e := l.Load(statusFile); e != nil {
							problem("C14:torn-load", fmt.Sprintf("%s: Load failed: %v", key, e))

							break
						}
						check("Load", l.ExtraData)
					}
					loads++
				}
			}
			mu.Lock()
			res.Incs[key] = myIncs
			res.Updates += myIncs + blinds + others
			res.Blinds += blinds
			res.Loads += loads
			res.Saves += saves
			mu.Unlock()
		}(g)
	}
	wg.Wait()
	finish()
}

// ---------------------------------------------------------------- parent

type child struct {
	cmd   *exec.Cmd
	stdin *bufio.Writer
	out   *bufio.Reader
	idx   int
}

func runConfig(res *Result, base string, name string, procs, gor, ops int, seed int64, mode string, jitter bool, deadline time.Duration) (*sftrace.FileTrace, *RunInfo) {
	info := &RunInfo{Config: name, Mode: mode, Procs: procs, Gor: gor}
	dir := filepath.Join(base, name)
	_ = os.RemoveAll(dir)
	if err := os.MkdirAll(filepath.Join(dir, "data"), 0o755); err != nil {
		res.Inconclusive = append(res.Inconclusive, err.Error())

		return nil, info
	}
	tracePath := filepath.Join(dir, "trace.ndjson")
	res.TraceFiles = append(res.TraceFiles, tracePath)
	self, _ := os.Executable()
	var kids []*child
	killAll := func() {
		for _, c := range kids {
			if c.cmd.Process != nil {
				_ = c.cmd.Process.Signal(syscall.SIGCONT)
				_ = c.cmd.Process.Kill()
			}
		}
	}
	for i := 1; i <= procs; i++ {
		cmd := exec.Command(self, "child", "-dir", dir, "-proc", strconv.Itoa(i), "-gor", strconv.Itoa(gor),
			"-ops", strconv.Itoa(ops), "-seed", strconv.FormatInt(seed, 10), "-mode", mode)
		cmd.Env = append(os.Environ(), "VERIF_TRACE="+tracePath)
		cmd.Stderr = os.Stderr
		in, _ := cmd.StdinPipe()
		outp, _ := cmd.StdoutPipe()
		if err := cmd.Start(); err != nil {
			res.Inconclusive = append(res.Inconclusive, "cannot start child: "+err.Error())
			killAll()

			return nil, info
		}
		kids = append(kids, &child{cmd: cmd, stdin: bufio.NewWriter(in), out: bufio.NewReader(outp), idx: i})
	}
	// wait until every child has built its Workceptor (the data directory is still empty: nothing to scan)
	for _, c := range kids {
		okc := make(chan bool, 1)
		go func(c *child) {
			line, _ := c.out.ReadString('\n')
			okc <- strings.TrimSpace(line) == "ready"
		}(c)
		select {
		case ok := <-okc:
			if !ok {
				res.Inconclusive = append(res.Inconclusive, fmt.Sprintf("%s: child %d did not get ready", name, c.idx))
				killAll()

				return nil, info
			}
		case <-time.After(60 * time.Second):
			res.Inconclusive = append(res.Inconclusive, fmt.Sprintf("%s: child %d not ready after 60s", name, c.idx))
			killAll()

			return nil, info
		}
	}
	// child 1 is the creator (mkdir + Save through the real code); in mode "fresh" nobody creates the record
	crc := make(chan bool, 1)
	if mode == "fresh" {
		_ = os.MkdirAll(filepath.Join(dir, "data", "vsf", unitID), 0o700)
		crc <- true
	} else {
		_, _ = kids[0].stdin.WriteString("create\n")
		_ = kids[0].stdin.Flush()
		go func() {
			line, _ := kids[0].out.ReadString('\n')
			crc <- strings.TrimSpace(line) == "created"
		}()
	}
	select {
	case ok := <-crc:
		if !ok {
			res.Inconclusive = append(res.Inconclusive, name+": creator failed")
			killAll()

			return nil, info
		}
	case <-time.After(60 * time.Second):
		res.Inconclusive = append(res.Inconclusive, name+": creator timed out")
		killAll()

		return nil, info
	}
	statusPath := filepath.Join(dir, "data", "vsf", unitID, "status")
	for _, c := range kids {
		_, _ = c.stdin.WriteString("go\n")
		_ = c.stdin.Flush()
	}
	doneAll := make(chan struct{})
	stops := 0
	var jwg sync.WaitGroup
	if jitter {
		jwg.Add(1)
		go func() {
			defer jwg.Done()
			rng := rand.New(rand.NewSource(seed ^ 0x5eed))
			for {
				select {
				case <-doneAll:
					return
				default:
				}
				c := kids[rng.Intn(len(kids))]
				if c.cmd.Process != nil {
					_ = c.cmd.Process.Signal(syscall.SIGSTOP)
					time.Sleep(time.Duration(100+rng.Intn(3000)) * time.Microsecond)
					_ = c.cmd.Process.Signal(syscall.SIGCONT)
					stops++
				}
				time.Sleep(time.Duration(rng.Intn(4000)) * time.Microsecond)
			}
		}()
	}
	waitErr := make(chan error, len(kids))
	for _, c := range kids {
		go func(c *child) { waitErr <- c.cmd.Wait() }(c)
	}
	timeout := time.After(deadline)
	failed := false
	for range kids {
		select {
		case err := <-waitErr:
			if err != nil {
				res.Inconclusive = append(res.Inconclusive, fmt.Sprintf("%s: child exited with %v", name, err))
				failed = true
			}
		case <-timeout:
			res.Inconclusive = append(res.Inconclusive, fmt.Sprintf("%s: children still running after %s", name, deadline))
			failed = true
		}
		if failed {
			break
		}
	}
	close(doneAll)
	jwg.Wait()
	info.Jitter = stops
	if failed {
		killAll()

		return nil, info
	}
	// collect child reports
	want := map[string]int{}
	updatesByPid := map[int]int{}
	total := 0
	for _, c := range kids {
		b, err := os.ReadFile(filepath.Join(dir, fmt.Sprintf("child_%d.json", c.idx)))
		var cr ChildResult
		if err != nil || json.Unmarshal(b, &cr) != nil || cr.Err != "" {
			res.Inconclusive = append(res.Inconclusive, fmt.Sprintf("%s: child %d report unusable (%v %s)", name, c.idx, err, cr.Err))

			return nil, info
		}
		for k, v := range cr.Incs {
			want[k] = v
			total += v
		}
		updatesByPid[cr.Pid] = cr.Updates
		info.Incs += sumMap(cr.Incs)
		info.Blinds += cr.Blinds
		info.Loads += cr.Loads
		info.Saves += cr.Saves
		for _, p := range cr.Problems {
			res.violate(p.Sig, fmt.Sprintf("[%s %s] %s", name, mode, p.What), map[string]any{"config": name, "mode": mode, "seed": seed, "ops": ops, "jitter": jitter})
			info.Problems = append(info.Problems, p.Sig)
		}
	}
	// end check through the real Load
	final := &workceptor.StatusFileData{}
	if err := final.Load(statusPath); err != nil {
		res.violate("C14:torn-load", fmt.Sprintf("[%s %s] final Load failed: %v", name, mode, err), map[string]any{"config": name, "mode": mode, "seed": seed})
	} else if mode == "rmw" || mode == "fresh" || mode == "final" {
		m, _ := final.ExtraData.(map[string]any)
		c, _ := num(m["c"])
		info.FinalCount = c
		if c != total {
			res.violate("C14:lost-update", fmt.Sprintf("[%s] shared counter is %d after %d completed updates", name, c, total),
				map[string]any{"config": name, "mode": mode, "seed": seed, "ops": ops, "jitter": jitter})
			info.Problems = append(info.Problems, "C14:lost-update")
		}
		for k, v := range want {
			if o, _ := num(m[k]); o != v {
				res.violate("C14:own-field-wiped", fmt.Sprintf("[%s] private field %s is %d after %d own updates", name, k, o, v),
					map[string]any{"config": name, "mode": mode, "seed": seed, "ops": ops, "jitter": jitter})
				info.Problems = append(info.Problems, "C14:own-field-wiped")

				break
			}
		}
	}
	// the trace
	evs, err := sftrace.ReadTrace(tracePath)
	if err != nil {
		res.Inconclusive = append(res.Inconclusive, fmt.Sprintf("%s: %v", name, err))

		return nil, info
	}
	fts := sftrace.Split(evs, func(string) string { return "status" })
	if len(fts) != 1 {
		res.Inconclusive = append(res.Inconclusive, fmt.Sprintf("%s: %d status files in trace", name, len(fts)))

		return nil, info
	}
	ft := fts[0]
	info.Events = len(ft.Events)
	last := 0
	for _, n := range ft.Events {
		if n.Ev == "lock" {
			info.Sections++
			if last != 0 && last != n.A {
				info.Switches++
			}
			last = n.A
		}
	}
	// every update call is one lock section with an apply step: a call that returned nil without having been applied
	// to the stored record is a lost update even if nobody notices the missing values
	applies := map[int]int{}
	for _, e := range ft.Raw {
		if e.Str("ev") == "sf_apply" {
			applies[int(e.Int("p"))]++
		}
	}
	for pid, n := range updatesByPid {
		if applies[pid] != n {
			res.violate("C14:update-skipped", fmt.Sprintf("[%s %s] process %d made %d update calls that returned without error, but only %d of them were applied to the stored record (no lock section, no rewrite)",
				name, mode, pid, n, applies[pid]), map[string]any{"config": name, "mode": mode, "seed": seed, "ops": ops, "jitter": jitter})
			info.Problems = append(info.Problems, "C14:update-skipped")
		}
	}
	for _, p := range sftrace.Accept(ft, mode == "rmw" || mode == "fresh" || mode == "final") {
		res.violate(p.Sig, fmt.Sprintf("[%s %s] %s", name, mode, p.What), map[string]any{"config": name, "mode": mode, "seed": seed, "ops": ops, "jitter": jitter, "trace": tracePath, "at": p.At})
		info.Problems = append(info.Problems, p.Sig)
	}

	return ft, info
}

func sumMap(m map[string]int) int {
	s := 0
	for _, v := range m {
		s += v
	}

	return s
}

func runMain(args []string) {
	fs := flag.NewFlagSet("run", flag.ExitOnError)
	out := fs.String("out", "", "result file")
	base := fs.String("dir", "", "scratch directory")
	configs := fs.String("configs", "1x1,2x2,3x2", "comma separated PROCSxGOROUTINES[:mode]")
	ops := fs.Int("ops", 40, "operations per goroutine")
	seed := fs.Int64("seed", 1, "seed")
	jitter := fs.Bool("jitter", false, "SIGSTOP/SIGCONT jitter on the processes")
	npmax := fs.Int("npmax", 6, "actor vector width of the normalised trace")
	deadline := fs.Duration("deadline", 180*time.Second, "per configuration")
	_ = fs.Parse(args)
	res := &Result{Counters: map[string]int{}, Violations: []Violation{}}
	var all []sftrace.Norm
	distinct := map[string]bool{}
	for ci, c := range strings.Split(*configs, ",") {
		mode := "rmw"
		jit := *jitter
		if i := strings.IndexByte(c, ':'); i >= 0 {
			mode, c = c[i+1:], c[:i]
			if strings.HasSuffix(mode, ":j") {
				mode, jit = strings.TrimSuffix(mode, ":j"), true
			}
		}
		var p, g int
		if _, err := fmt.Sscanf(c, "%dx%d", &p, &g); err != nil || p < 1 || g < 1 {
			res.Inconclusive = append(res.Inconclusive, "bad config "+c)

			continue
		}
		name := fmt.Sprintf("r%02d_%dx%d_%s", ci, p, g, mode)
		if jit {
			name += "_j"
		}
		ft, info := runConfig(res, *base, name, p, g, *ops, *seed+int64(ci), mode, jit, *deadline)
		res.Runs = append(res.Runs, *info)
		if ft == nil {
			continue
		}
		res.Evaluations += info.Incs + info.Blinds + info.Loads + info.Saves
		res.count("updates_counting", info.Incs)
		res.count("updates_blind", info.Blinds)
		res.count("loads", info.Loads)
		res.count("saves", info.Saves)
		res.count("events", info.Events)
		res.count("lock_sections", info.Sections)
		res.count("actor_switches", info.Switches)
		res.count("jitter_stops", info.Jitter)
		if ft.NP > *npmax {
			res.Inconclusive = append(res.Inconclusive, fmt.Sprintf("%s: %d actors > npmax", name, ft.NP))

			continue
		}
		// distinct non-trivial = lock sections that directly follow a section of ANOTHER process (a real hand-over of the lock)
		last := 0
		lastEv := ""
		for _, n := range ft.Events {
			if n.Ev == "lock" {
				if last != 0 && last != n.A {
					distinct[fmt.Sprintf("%s/%d", name, n.Raw)] = true
				}
				last = n.A
			}
			lastEv = n.Ev
		}
		_ = lastEv
		tmode := mode
		if mode == "fresh" || mode == "final" {
			tmode = "rmw" // the counters are meaningful from the first update on
		}
		all = append(all, sftrace.Norm{Ev: "reset", H: tmode, Own: make([]int, *npmax)})
		for _, n := range ft.Events {
			own := make([]int, *npmax)
			copy(own, n.Own)
			n.Own = own
			all = append(all, n)
		}
		if len(res.Samples) < 4 {
			k := len(ft.Raw)
			if k > 14 {
				k = 14
			}
			res.Samples = append(res.Samples, map[string]any{"config": name, "first_events": ft.Raw[:k]})
		}
	}
	res.Distinct = len(distinct)
	res.NP = *npmax
	res.NormFile = filepath.Join(*base, "sf_trace.ndjson")
	res.NormEvents = len(all)
	if err := sftrace.WriteNorm(res.NormFile, all); err != nil {
		res.Inconclusive = append(res.Inconclusive, err.Error())
	}
	b, _ := json.MarshalIndent(res, "", " ")
	if err := os.WriteFile(*out, b, 0o644); err != nil {
		fmt.Fprintln(os.Stderr, "cannot write result:", err)
		os.Exit(3)
	}
}

func main() {
	if os.Getenv("VERIF_DEBUG") == "" {
		logger.SetGlobalQuietMode()
	}
	if len(os.Args) < 2 {
		fmt.Fprintln(os.Stderr, "usage: vsf run|child [flags]")
		os.Exit(2)
	}
	switch os.Args[1] {
	case "run":
		runMain(os.Args[2:])
	case "child":
		childMain(os.Args[2:])
	default:
		fmt.Fprintln(os.Stderr, "usage: vsf run|child [flags]")
		os.Exit(2)
	}
}
