// Command vrd is the receptor daemon (the very main of /repo/cmd/receptor-cl: same packages, same command-line
// registration, same reload wiring) plus one thing the X-RELOAD check needs from inside the process: a verifhook gate can
// be held so that a backend session stops between conn_add and established until the harness says so.
//
//	VRD_GATE=<gate name>   the gate is armed at start-up (one arrival)
//	VRD_DIR=<dir>          <dir>/gate_hit is created when a goroutine has arrived at the gate
//	SIGUSR2                releases the gate
package main

import (
	"fmt"
	"os"
	"os/signal"
	"path/filepath"
	"syscall"

	"github.com/ansible/receptor/cmd"
	"github.com/ansible/receptor/pkg/netceptor"
	"github.com/ansible/receptor/pkg/verifhook"
)

func main() {
	if g := os.Getenv("VRD_GATE"); g != "" {
		hit, release := verifhook.HoldGate(g)
		go func() {
			<-hit
			_ = os.WriteFile(filepath.Join(os.Getenv("VRD_DIR"), "gate_hit"), []byte("hit\n"), 0o600)
		}()
		ch := make(chan os.Signal, 1)
		signal.Notify(ch, syscall.SIGUSR2)
		go func() {
			<-ch
			release()
		}()
	}
	cmd.RunConfigV1()
	if netceptor.MainInstance.BackendCount() == 0 {
		netceptor.MainInstance.Logger.Warning("Nothing to do - no backends are running.\n")
		fmt.Printf("Run %s --help for command line instructions.\n", os.Args[0])
		os.Exit(1)
	}
	netceptor.MainInstance.Logger.Info("Initialization complete\n")
	<-netceptor.MainInstance.NetceptorDone()
}
