package main

import (
	"bytes"
	"encoding/json"
	"flag"
	"fmt"
	"math/rand"
	"os"
	"path/filepath"
	"sort"
	"strings"
	"time"

	"verif/harness/ctl"
)

// C19: the histories of specs/ControlSession.tla (part "c19") are replayed on a real daemon D that submits remote work
// for other nodes.  Parameter values are unique random markers; every byte received on every control connection is
// searched for the markers of secret keys, non-secret parameters must be reported verbatim, and a secret without a TLS
// profile must be refused before anything is stored or sent (unit list, data directory, frames crossing the
// harness-owned relays between the daemons).

type reply19 struct {
	Op    string   `json:"op"`
	Reply string   `json:"reply"`
	Shown []string `json:"shown"`
}

type vec19 struct {
	Keys    []string  `json:"keys"`
	TLS     bool      `json:"tls"`
	Sv      string    `json:"sv"`      // submit variant
	Outcome string    `json:"outcome"` // accepted | refused | failed_after_alloc | crashed_after_alloc
	Ops     []string  `json:"ops"`
	Replies []reply19 `json:"replies"`
	Unit    string    `json:"unit"`
	Dir     bool      `json:"dir"`
}

type hist19 struct {
	v       vec19
	idx     int
	names   map[string]string // key class -> concrete key
	values  map[string]string // concrete key -> marker
	secret  map[string]bool   // concrete key -> is of a secret class
	target  string
	reach   bool
	unit    string
	trace   []map[string]any
	dead    bool
	relaxed bool // the remote node is reachable: release completes asynchronously
}

type env19 struct {
	d, m1, m2 *ctl.Daemon
	r1, r2    *ctl.Relay
	res       *Result
	to        time.Duration
	secrets   map[string]string // marker -> "hist idx/key"
	distinct  map[string]bool
	units     map[string]bool
}

var secretClasses = map[string]bool{"secret_x": true, "SECRET_x": true, "Secret_X": true}

func keyName(class string, rng *rand.Rand) string {
	sfx := strings.ToLower(randID(rng, 1+rng.Intn(6)))
	switch class {
	case "secret_x":
		return "secret_" + sfx
	case "SECRET_x":
		return "SECRET_" + sfx
	case "Secret_X":
		return []string{"Secret_", "sEcReT_", "secreT_", "SecRET_"}[rng.Intn(4)] + strings.ToUpper(sfx[:1]) + sfx[1:]
	case "xsecret_":
		return []string{"x", "my", "_", "not"}[rng.Intn(4)] + "secret_" + sfx
	case "secret":
		return []string{"secret", "secrets", "secret" + sfx, "secret-" + sfx, "SECRET", "secre_t"}[rng.Intn(6)]
	}

	return []string{"color", "opt", "k", "level"}[rng.Intn(4)] + sfx
}

func (e *env19) newHist(idx int, v vec19, seed int64) *hist19 {
	rng := rand.New(rand.NewSource(seed*9176 + int64(idx)*131))
	h := &hist19{v: v, idx: idx, names: map[string]string{}, values: map[string]string{}, secret: map[string]bool{}}
	// a key class of the vector stands for one or more keys of that spelling: several ordinary keys next to the secret ones,
	// so that nothing depends on the (randomised) order in which the daemon walks the parameter map
	for _, c := range v.Keys {
		count := 1 + rng.Intn(3)
		if secretClasses[c] {
			count = 1 + rng.Intn(2)
		}
		for j := 0; j < count; j++ {
			var n string
			for {
				n = keyName(c, rng)
				if _, dup := h.values[n]; !dup {
					break
				}
			}
			if j == 0 {
				h.names[c] = n
			} else {
				h.names[c] += "," + n
			}
			mk := "MK" + randID(rng, 18)
			h.values[n] = mk
			h.secret[n] = secretClasses[c]
			if secretClasses[c] {
				e.secrets[mk] = fmt.Sprintf("history %d key %s", idx, n)
			}
		}
	}
	if v.Sv == "exec_param_refused" {
		h.values["params"] = "MK" + randID(rng, 18) // an ordinary parameter the executor's work type does not accept
		h.secret["params"] = false
	}
	refused := v.Unit == "none"
	switch {
	case refused:
		// a reachable plain remote: if the refusal were missing the secret would travel
		h.target, h.reach = e.m1.ID, true
		if idx%3 == 0 {
			h.target, h.reach = "ghost19", false
		}
	case strings.HasPrefix(v.Sv, "exec_"):
		// the other node is reached on the first attempt and refuses the submission
		h.target, h.reach = e.m1.ID, true
		if v.TLS {
			h.target = e.m2.ID
		}
	case v.Sv != "ok" && v.Sv != "":
		h.target = "ghost19" // the variants are about the submitting node only
	case idx%4 == 0 && v.TLS:
		h.target, h.reach, h.relaxed = e.m2.ID, true, true
	case idx%4 == 0:
		h.target, h.reach, h.relaxed = e.m1.ID, true, true
	default:
		h.target = "ghost19"
	}

	return h
}

// scan searches bytes for any secret marker of any history.
func (e *env19) scan(where string, b []byte, h *hist19) bool {
	for mk, who := range e.secrets {
		if bytes.Contains(b, []byte(mk)) {
			sig := "C19:secret-in-" + where
			e.res.violate(sig, fmt.Sprintf("the value of a secret parameter (%s) appears in %s: ...%s...", who, where, excerpt(b, mk)),
				map[string]any{"vector": h.v, "keys": h.names, "where": where, "trace": h.trace})

			return true
		}
	}

	return false
}

func excerpt(b []byte, mk string) string {
	i := bytes.Index(b, []byte(mk))
	lo, hi := max(0, i-80), min(len(b), i+len(mk)+20)

	return string(b[lo:hi])
}

// unitIDs lists the ids D knows (over a fresh Unix session).
func (e *env19) unitIDs() (map[string]bool, error) {
	for attempt := 0; ; attempt++ {
		wl, l, err := e.d.WorkList(e.to)
		if err == nil {
			ids := map[string]bool{}
			for id := range wl {
				ids[id] = true
			}

			return ids, nil
		}
		if attempt > 5 || !strings.HasPrefix(l, "ERROR: unknown work unit") {
			return nil, err
		}
		time.Sleep(100 * time.Millisecond)
	}
}

// submit runs the submit variant of the history and judges the first reply; for the variants that leave a unit behind
// without telling its id (malformed ttl, crash between the allocation steps) the id is found by comparing the unit list.
func (e *env19) submit(h *hist19) {
	f := map[string]string{"node": h.target, "worktype": "rtype"}
	for k, v := range h.values {
		f[k] = v
	}
	if h.v.TLS {
		f["tlsclient"] = "tc"
	}
	sv := h.v.Sv
	rng := rand.New(rand.NewSource(int64(h.idx)*7 + 3))
	switch sv {
	case "ttl_ok":
		f["ttl"] = []string{"1h", "90m", "1h30m10s"}[rng.Intn(3)]
	case "ttl_past":
		f["ttl"] = []string{"1ns", "-1s", "0s"}[rng.Intn(3)]
	case "ttl_bad":
		f["ttl"] = []string{"10 minutes", "abc", "5", "1h30", "1d", " 1h"}[rng.Intn(6)]
	case "tls_unknown":
		f["tlsclient"] = "noprofile" + randID(rng, 4)
	case "exec_unknown_type":
		f["worktype"] = "notthere" + randID(rng, 4) // the executor has no such work type
	case "exec_needs_signature":
		f["worktype"] = "vonly" // verifies signatures at the executor; this submission is not signed
	case "exec_param_refused":
		f["params"] = h.values["params"] // rtype does not allow run-time parameters
	}
	var before map[string]bool
	var err error
	needDiff := sv == "ttl_bad" || sv == "crash_mid" || sv == "tls_unknown"
	if needDiff {
		if before, err = e.unitIDs(); err != nil {
			e.res.inconclusive("work list failed before a %s submit: %v", sv, err)
			h.dead = true

			return
		}
	}
	if sv == "crash_mid" {
		// the daemon is restarted so that it dies at the crash point between the two steps of AllocateRemoteUnit
		e.d.Env = []string{"VERIF_CRASH_AT=alloc_after_save"}
		err = e.d.Restart(40 * time.Second)
		e.d.Env = nil
		if err != nil {
			e.res.inconclusive("restart with crash point failed: %v", err)
			h.dead = true

			return
		}
		e.res.count("daemon_restarts")
	}
	var id string
	var recv []byte
	if sv == "abort_stdin" {
		m := map[string]string{"command": "work", "subcommand": "submit"}
		for a, b := range f {
			m[a] = b
		}
		j, _ := json.Marshal(m)
		k, derr := ctl.DialUnix(e.d.Sock, e.to)
		if derr == nil {
			_ = k.Send(append(j, '\n'))
			l, _ := k.ReadLine(e.to)
			const pre = "Work unit created with ID "
			if strings.HasPrefix(l, pre) {
				id = strings.SplitN(strings.TrimPrefix(l, pre), ".", 2)[0]
			}
			k.Close() // the client goes away without sending stdin
			recv = k.Received()
		}
		err = derr
		if id == "" && err == nil {
			err = fmt.Errorf("refused")
		}
	} else {
		id, recv, err = e.d.Submit(f, "payload\n", e.to)
	}
	h.unit = id
	if id != "" {
		e.units[id] = true
	}
	h.trace = append(h.trace, map[string]any{"op": "submit", "variant": sv, "target": h.target, "tls": h.v.TLS, "ttl": f["ttl"], "tlsclient": f["tlsclient"], "reply": trunc(string(recv), 300)})
	e.scan("submit-reply", recv, h)
	want := h.v.Replies[0].Reply
	got := "created"
	crashed := false
	if sv == "crash_mid" {
		// either the submission was refused before the allocation (daemon alive, ERROR) or the daemon died at the crash point
		for i := 0; i < 100 && e.d.Alive() && !bytes.Contains(recv, []byte("ERROR")); i++ {
			time.Sleep(50 * time.Millisecond)
		}
		crashed = !e.d.Alive()
		if rerr := e.d.Restart(40 * time.Second); rerr != nil { // also disarms the crash point
			e.res.inconclusive("restart after the crash point failed: %v", rerr)
			h.dead = true

			return
		}
		e.res.count("daemon_restarts")
		if crashed {
			got = "none"
			e.res.count("crashed_between_allocation_steps")
		}
	}
	if !crashed && id != "" && err != nil && bytes.Contains(recv, []byte("ERROR")) && sv != "abort_stdin" {
		got = "created_then_error" // allocated here, then refused by the node that was to run it
		e.res.count("refused_by_executor")
	} else if !crashed && (err != nil || id == "") {
		got = "error"
		if !bytes.Contains(recv, []byte("ERROR")) {
			e.res.inconclusive("submit of history %d (%s) got neither a unit nor an ERROR: %v %q", h.idx, sv, err, trunc(string(recv), 200))
			h.dead = true

			return
		}
	}
	replay := map[string]any{"vector": h.v, "keys": h.names, "trace": h.trace}
	if want == "created_then_error" && got == "created" {
		// the first connection attempt to the executing node did not complete at once, so the start went to the
		// background retry path: the submit is answered "Job Submitted" and the executor's refusal is only logged.
		// Both paths are the code's own; which one is taken is timing. Nothing of C19 depends on it (every reply and
		// the log are still searched for the secret values).
		e.res.count("executor_refusal_on_background_path")
		want = got
	}
	if got != want {
		sig := "C19:submit-" + got + "-instead-of-" + want + "-" + sv
		if want == "error" && h.v.Outcome == "refused" && sv != "tls_unknown" {
			sig = "C19:secret-accepted-without-tls"
		}
		e.res.violate(sig, fmt.Sprintf("submit (%s) with keys %v tls=%v: spec says %s, daemon answered %q", sv, keysOf(h), h.v.TLS, want, trunc(string(recv), 200)), replay)
		h.dead = true

		return
	}
	if needDiff {
		after, lerr := e.unitIDs()
		if lerr != nil {
			e.res.inconclusive("work list failed after a %s submit: %v", sv, lerr)
			h.dead = true

			return
		}
		var fresh []string
		for u := range after {
			if !before[u] {
				fresh = append(fresh, u)
				e.units[u] = true
			}
		}
		left := h.v.Outcome == "failed_after_alloc" || h.v.Outcome == "crashed_after_alloc"
		switch {
		case h.v.Outcome == "refused" && len(fresh) > 0:
			e.res.violate("C19:unit-created-by-refused-submit-"+sv, fmt.Sprintf("a submission refused before the allocation (%s, keys %v, tls=%v) left unit %v behind", sv, keysOf(h), h.v.TLS, fresh), replay)
			h.dead = true

			return
		case left && len(fresh) == 1:
			h.unit = fresh[0] // the unit left behind by the failed submit
			e.res.count("left_behind_units_found")
		case left && len(fresh) == 0:
			// the code no longer leaves the unit behind: fine for this property, nothing to look at
			e.res.count("left_behind_unit_absent")
			e.res.note("submit variant %s left no unit behind (the specification models the code as found, where it does)", sv)
			h.dead = true

			return
		case left:
			e.res.inconclusive("cannot tell which of %v was left behind by the %s submit", fresh, sv)
			h.dead = true

			return
		}
	}
	if h.v.Unit == "none" {
		h.dead = true
	}
}

func keysOf(h *hist19) []string {
	var ks []string
	for k := range h.values {
		ks = append(ks, k)
	}
	sort.Strings(ks)

	return ks
}

// doOp performs operation i (1-based) of the history and judges the reply against the vector.
func (e *env19) doOp(h *hist19, i int) {
	op := h.v.Ops[i-1]
	exp := h.v.Replies[len(h.v.Replies)-len(h.v.Ops)+i-1] // the submit may have more than one reply entry (list_mid)
	var line string
	switch op {
	case "status":
		line = "work status " + h.unit
		if h.idx%2 == 0 {
			line = fmt.Sprintf(`{"command":"work","subcommand":"status","unitid":%q}`, h.unit)
		}
	case "list":
		line = "work list"
	case "list_one":
		line = "work list " + h.unit
		if h.idx%2 == 1 {
			line = fmt.Sprintf(`{"command":"work","subcommand":"list","unitid":%q}`, h.unit)
		}
	case "cancel":
		line = "work cancel " + h.unit
	case "release":
		line = "work release " + h.unit
		if h.idx%5 == 0 {
			line = "work force-release " + h.unit
		}
	}
	var l string
	var recv []byte
	for attempt := 0; ; attempt++ {
		k, err := ctl.DialUnix(e.d.Sock, e.to)
		if err != nil {
			e.res.inconclusive("cannot open session: %v", err)
			h.dead = true

			return
		}
		_ = k.Send([]byte(line + "\n"))
		l, err = k.ReadLine(e.to)
		recv = append(recv, k.Received()...)
		k.Close()
		if err != nil {
			e.res.inconclusive("no reply to %q within %v", line, e.to)
			h.dead = true

			return
		}
		// "work list" takes the ids first and looks each one up afterwards: when another unit (of another history, released
		// asynchronously on a reachable node) disappears in between, the whole list fails with that unit's name.  Ask again.
		if op == "list" && strings.HasPrefix(l, "ERROR: unknown work unit ") && !strings.HasSuffix(l, " "+h.unit) && attempt < 5 {
			e.res.count("list_failed_on_concurrently_released_unit")
			time.Sleep(100 * time.Millisecond)

			continue
		}

		break
	}
	h.trace = append(h.trace, map[string]any{"op": op, "line": line, "reply": trunc(l, 500)})
	e.res.count("op_" + op)
	if e.scan(op+"-reply", recv, h) {
		return
	}
	replay := map[string]any{"vector": h.v, "keys": h.names, "target": h.target, "trace": h.trace}
	isErr := strings.HasPrefix(l, "ERROR")
	// after a release the unit is normally gone at once (unreachable node) or a little later (reachable node); a forced release
	// that could not remove the directory leaves a unit that the next look-up loads again - whether a released unit is
	// really gone is property C13's business, here both answers are accepted and any status shown is still checked
	afterRelease := contains(h.v.Ops[:i-1], "release")
	mayBeGone := afterRelease
	switch exp.Reply {
	case "error":
		if !isErr && !h.relaxed && !afterRelease {
			e.res.violate("C19:reply-json-instead-of-error-"+op, fmt.Sprintf("%q after %v: spec says ERROR, daemon answered %q", line, h.v.Ops[:i-1], trunc(l, 200)), replay)
		}

		return
	case "json_without_unit":
		var m map[string]any
		if json.Unmarshal([]byte(l), &m) != nil {
			e.res.violate("C19:list-not-json", fmt.Sprintf("work list answered %q", trunc(l, 200)), replay)
		} else if _, ok := m[h.unit]; ok && !h.relaxed && !afterRelease {
			e.res.violate("C19:released-unit-still-listed", fmt.Sprintf("unit %s still listed after %v", h.unit, h.v.Ops[:i-1]), replay)
		}

		return
	}
	if isErr {
		if mayBeGone {
			return
		}
		e.res.violate("C19:reply-error-instead-of-json-"+op, fmt.Sprintf("%q after %v: spec says a JSON reply, daemon answered %q", line, h.v.Ops[:i-1], trunc(l, 200)), replay)

		return
	}
	if op == "cancel" || op == "release" {
		return
	}
	// a status-like reply: the parameters shown must be exactly the non-secret ones, verbatim
	var st map[string]any
	if op == "status" {
		if json.Unmarshal([]byte(l), &st) != nil {
			e.res.violate("C19:status-not-json", fmt.Sprintf("%q answered %q", line, trunc(l, 200)), replay)

			return
		}
	} else {
		var m map[string]map[string]any
		if json.Unmarshal([]byte(l), &m) != nil {
			e.res.violate("C19:list-not-json", fmt.Sprintf("%q answered %q", line, trunc(l, 200)), replay)

			return
		}
		var ok bool
		if st, ok = m[h.unit]; !ok {
			if mayBeGone {
				return
			}
			e.res.violate("C19:unit-missing-from-"+op, fmt.Sprintf("%q does not list unit %s", line, h.unit), replay)

			return
		}
	}
	if wt, _ := st["WorkType"].(string); wt == "" && (contains(h.v.Ops[:i-1], "restart") || h.v.Sv == "crash_mid") {
		// the status file was empty after the SIGKILL (truncate-then-write, DESIGN.md section 9 #11, properties C04/C14): the
		// record is lost as a whole, nothing is disclosed; not this property's finding
		e.res.count("record_lost_by_kill_during_status_write")
		h.dead = true

		return
	}
	ed, _ := st["ExtraData"].(map[string]any)
	rp, _ := ed["RemoteParams"].(map[string]any)
	if ed == nil || (rp == nil && len(h.values) > 0) {
		e.res.violate("C19:no-remote-params-in-"+op, fmt.Sprintf("%q: reply has no ExtraData.RemoteParams: %s", line, trunc(l, 300)), replay)

		return
	}
	for kname, val := range h.values {
		got, present := rp[kname]
		switch {
		case h.secret[kname] && present:
			e.res.violate("C19:secret-key-shown-in-"+op, fmt.Sprintf("secret key %s is reported by %q (value %v)", kname, line, got), replay)

			return
		case !h.secret[kname] && !present:
			e.res.violate("C19:nonsecret-missing-in-"+op, fmt.Sprintf("non-secret parameter %s (class %s) is missing from the reply to %q after %v: %s", kname, classOf(h, kname), line, h.v.Ops[:i-1], trunc(l, 300)), replay)

			return
		case !h.secret[kname] && got != val:
			e.res.violate("C19:nonsecret-changed-in-"+op, fmt.Sprintf("non-secret parameter %s is reported as %v, submitted %s", kname, got, val), replay)

			return
		}
	}
	for kname := range rp {
		if _, ok := h.values[kname]; !ok {
			e.res.violate("C19:unknown-param-in-"+op, fmt.Sprintf("reply to %q reports parameter %s that was never submitted", line, kname), replay)

			return
		}
	}
	e.res.count("status_replies_verified")
}

func classOf(h *hist19, key string) string {
	for c, n := range h.names {
		for _, one := range strings.Split(n, ",") {
			if one == key {
				return c
			}
		}
	}

	return "?"
}

func contains(s []string, x string) bool {
	for _, y := range s {
		if y == x {
			return true
		}
	}

	return false
}

// refusedBatch handles the histories whose submit must be refused: nothing stored, nothing sent.
func (e *env19) refusedBatch(hs []*hist19) {
	if len(hs) == 0 {
		return
	}
	dirsBefore := e.d.DirSnapshot()
	listBefore, _, err := e.d.WorkList(e.to)
	m1Before, _, err1 := e.m1.WorkList(e.to)
	if err != nil || err1 != nil {
		e.res.inconclusive("work list failed before the refusal batch: %v %v", err, err1)

		return
	}
	// the frame oracle needs a quiet start: no control-service traffic left over from earlier units
	quiet := false
	for i := 0; i < 40 && !quiet; i++ {
		a1, _ := e.r1.Mark()
		a2, _ := e.r2.Mark()
		time.Sleep(1500 * time.Millisecond)
		fr1, _ := e.r1.Since(a1, 0)
		fr2, _ := e.r2.Since(a2, 0)
		quiet = true
		for _, f := range append(fr1, fr2...) {
			if f.Type == 0 && f.ToService == "control" {
				quiet = false
			}
		}
	}
	if !quiet {
		e.res.note("relays never became quiet before the refusal batch: the frame oracle is not evaluated in this run")
		e.res.count("relay_window_not_quiet")
	}
	f1, b1 := e.r1.Mark()
	f2, b2 := e.r2.Mark()
	for _, h := range hs {
		// the same submission several times: whether it is refused must not depend on the order in which the parameter map is walked
		for rep := 0; rep < 4; rep++ {
			e.submit(h)
			e.res.count("refused_submits")
			nsec := 0
			for _, isSec := range h.secret {
				if isSec {
					nsec++
				}
			}
			if nsec > 0 && nsec < len(h.secret) {
				e.res.count("refused_submits_secret_among_ordinary_keys")
			}
		}
		e.res.mu.Lock()
		e.res.Evaluations++
		e.res.mu.Unlock()
		e.distinct[fmt.Sprintf("refuse|%v|%s", h.v.Keys, h.target)] = true
	}
	time.Sleep(1200 * time.Millisecond) // a unit that slipped through would dial the remote control service right away
	replay := func(h *hist19) map[string]any {
		return map[string]any{"vector": h.v, "keys": h.names, "target": h.target, "trace": h.trace}
	}
	dirsAfter := e.d.DirSnapshot()
	for u := range dirsAfter {
		if _, ok := dirsBefore[u]; !ok {
			e.res.violate("C19:unit-directory-created-for-refused-secret", fmt.Sprintf("unit directory %s exists after submissions that must be refused (%d of them)", u, len(hs)), replay(hs[0]))
			if b, err := os.ReadFile(filepath.Join(e.d.UnitsDir(), u, "status")); err == nil {
				e.scan("status-file-of-refused-unit", b, hs[0])
			}
		}
	}
	listAfter, _, _ := e.d.WorkList(e.to)
	for u := range listAfter {
		if _, ok := listBefore[u]; !ok {
			e.units[u] = true
			e.res.violate("C19:unit-created-for-refused-secret", fmt.Sprintf("unit %s exists after submissions that must be refused", u), replay(hs[0]))
		}
	}
	m1After, _, _ := e.m1.WorkList(e.to)
	if len(m1After) != len(m1Before) {
		e.res.violate("C19:remote-unit-created-for-refused-secret", fmt.Sprintf("node %s has %d units, had %d", e.m1.ID, len(m1After), len(m1Before)), replay(hs[0]))
	}
	for i, r := range []*ctl.Relay{e.r1, e.r2} {
		fm, bm := f1, b1
		if i == 1 {
			fm, bm = f2, b2
		}
		frames, raw := r.Since(fm, bm)
		e.scan(fmt.Sprintf("relay%d-bytes", i+1), raw, hs[0])
		for _, f := range frames {
			if quiet && f.Type == 0 && f.Dir == "a2b" && f.ToService == "control" {
				e.res.violate("C19:data-sent-for-refused-secret", fmt.Sprintf("a data message to service control crossed relay %d during submissions that must be refused", i+1), replay(hs[0]))

				break
			}
		}
		e.res.add("relay_frames_seen", len(frames))
	}
	e.res.add("refusals_verified", len(hs))
}

func restartPattern(ops []string) string {
	p := make([]byte, len(ops))
	for i, o := range ops {
		p[i] = '-'
		if o == "restart" {
			p[i] = 'R'
		}
	}

	return string(p)
}

// lister is "another session" that keeps asking for the unit list while submissions are in progress: a unit is
// published after the first step of its allocation, so a list can see it half-made.
func (e *env19) lister(stop chan struct{}, done chan struct{}) {
	defer close(done)
	dummy := &hist19{v: vec19{Sv: "listed_mid"}}
	for {
		select {
		case <-stop:
			return
		default:
		}
		k, err := ctl.DialUnix(e.d.Sock, e.to)
		if err != nil {
			time.Sleep(50 * time.Millisecond)

			continue
		}
		for i := 0; i < 50; i++ {
			select {
			case <-stop:
				k.Close()

				return
			default:
			}
			if k.Send([]byte("work list\n")) != nil {
				break
			}
			l, err := k.ReadLine(e.to)
			if err != nil {
				break
			}
			e.res.count("concurrent_lists")
			if e.scan("concurrent-list-reply", []byte(l), dummy) {
				k.Close()

				return
			}
			time.Sleep(2 * time.Millisecond)
		}
		k.Close()
	}
}

func (e *env19) runGroup(pattern string, hs []*hist19) error {
	stop, done := make(chan struct{}), make(chan struct{})
	go e.lister(stop, done)
	for _, h := range hs {
		e.submit(h)
	}
	close(stop)
	<-done
	for i := 1; i <= len(pattern); i++ {
		if pattern[i-1] == 'R' {
			// every history of the group restarts here: one restart of D serves them all
			if err := e.d.Restart(40 * time.Second); err != nil {
				return fmt.Errorf("restart of %s failed: %w", e.d.ID, err)
			}
			e.res.count("daemon_restarts")
			for _, h := range hs {
				h.trace = append(h.trace, map[string]any{"op": "restart"})
			}

			continue
		}
		for _, h := range hs {
			if !h.dead && len(h.v.Ops) >= i {
				e.doOp(h, i)
			}
		}
	}
	for _, h := range hs {
		e.res.mu.Lock()
		e.res.Evaluations++
		e.res.mu.Unlock()
		e.distinct[fmt.Sprintf("%v|%v|%v|%v|%s", h.v.Keys, h.v.TLS, h.v.Ops, h.reach, h.v.Sv)] = true
		e.res.count("variant_" + h.v.Sv)
		if h.unit != "" && e.d.Alive() {
			_, _ = e.d.Command("work force-release "+h.unit, 10*time.Second)
		}
		if len(e.res.Samples) < 6 && h.idx%97 == 3 {
			e.res.sample(map[string]any{"vector": h.v, "keys": h.names, "target": h.target, "trace": h.trace}, 6)
		}
	}
	// the status files on disk keep the secrets (needed to resume); they are outside the property, but the daemon log is not
	e.scan("daemon-log", []byte(e.d.LogTail(4000000)), hs[0])

	return nil
}

func init() { commands["c19"] = cmdC19 }

func cmdC19(args []string) {
	fs := flag.NewFlagSet("c19", flag.ExitOnError)
	vecFile := fs.String("vectors", "", "NDJSON histories from TLC")
	bin := fs.String("receptor", "", "receptor binary")
	work := fs.String("work", "", "scratch directory")
	out := fs.String("out", "result.json", "result file")
	seed := fs.Int64("seed", 1, "seed")
	maxVec := fs.Int("max", 0, "replay at most this many plain-submit histories (seeded sample; 0 = all)")
	maxCrash := fs.Int("maxcrash", 0, "replay at most this many crash-between-allocation-steps histories (0 = all)")
	replayFile := fs.String("replay", "", "replay file of a previous run")
	_ = fs.Parse(args)
	res := &Result{Counters: map[string]int{}}
	defer func() { res.write(*out) }()
	vecs, err := readNDJSON[vec19](*vecFile)
	if err != nil {
		res.inconclusive("cannot read vectors: %v", err)

		return
	}
	for i := range vecs {
		sort.Strings(vecs[i].Keys)
	}
	sort.Slice(vecs, func(i, j int) bool {
		a, b := vecs[i], vecs[j]

		return fmt.Sprint(a.Sv, a.Keys, a.TLS, a.Ops) < fmt.Sprint(b.Sv, b.Keys, b.TLS, b.Ops)
	})
	total := len(vecs)
	if *replayFile != "" {
		b, err := os.ReadFile(*replayFile)
		var rp struct {
			Replay struct {
				Vector vec19 `json:"vector"`
			} `json:"replay"`
		}
		if err != nil || json.Unmarshal(b, &rp) != nil || rp.Replay.Vector.Replies == nil {
			res.inconclusive("cannot read replay %s", *replayFile)

			return
		}
		vecs = nil
		for i := 0; i < 8; i++ {
			vecs = append(vecs, rp.Replay.Vector)
		}
	} else if *maxVec > 0 || *maxCrash > 0 {
		// the limits apply to the plain-submit histories and to the crash histories; the other submit variants are always replayed
		rng := rand.New(rand.NewSource(*seed))
		rng.Shuffle(len(vecs), func(i, j int) { vecs[i], vecs[j] = vecs[j], vecs[i] })
		var kept []vec19
		nb, nc := 0, 0
		for _, v := range vecs {
			switch {
			case (v.Sv == "ok" || v.Sv == "") && *maxVec > 0:
				if nb++; nb > *maxVec {
					continue
				}
			case v.Sv == "crash_mid" && *maxCrash > 0:
				if nc++; nc > *maxCrash {
					continue
				}
			}
			kept = append(kept, v)
		}
		if len(kept) < len(vecs) {
			res.note("replayed a seeded sample of %d of %d exported histories", len(kept), total)
		}
		vecs = kept
		sort.Slice(vecs, func(i, j int) bool {
			a, b := vecs[i], vecs[j]

			return fmt.Sprint(a.Sv, a.Keys, a.TLS, a.Ops) < fmt.Sprint(b.Sv, b.Keys, b.TLS, b.Ops)
		})
	}
	res.add("planned", len(vecs))
	dir := filepath.Join(*work, "c19")
	_ = os.RemoveAll(dir)
	_ = os.MkdirAll(dir, 0o700)
	pki, err := ctl.NewPKI(dir, "c19m2", "c19d")
	if err != nil {
		res.inconclusive("cannot create certificates: %v", err)

		return
	}
	p1, p2 := ctl.FreePort(), ctl.FreePort()
	rtype := ctl.Item{"work-command": map[string]any{"worktype": "rtype", "command": "sh", "params": `-c "cat; echo done"`}}
	vk, err := ctl.NewKeyPair(dir, "verify")
	if err != nil {
		res.inconclusive("cannot create keys: %v", err)

		return
	}
	verif := ctl.Item{"work-verification": map[string]any{"publickey": vk.PubFile}}
	vonly := ctl.Item{"work-command": map[string]any{"worktype": "vonly", "command": "true", "verifysignature": true}}
	m1 := ctl.NewDaemon(*bin, filepath.Join(dir, "m1"), "c19m1", false, nil,
		ctl.Item{"tcp-listener": map[string]any{"port": p1, "bindaddr": "127.0.0.1"}}, rtype, verif, vonly)
	m2 := ctl.NewDaemon(*bin, filepath.Join(dir, "m2"), "c19m2", false, map[string]any{"tls": "ts"},
		ctl.Item{"tcp-listener": map[string]any{"port": p2, "bindaddr": "127.0.0.1"}},
		ctl.Item{"tls-server": map[string]any{"name": "ts", "cert": pki.ServerCert, "key": pki.ServerKey}}, rtype, verif, vonly)
	r1, err1 := ctl.NewRelay(fmt.Sprintf("127.0.0.1:%d", p1))
	r2, err2 := ctl.NewRelay(fmt.Sprintf("127.0.0.1:%d", p2))
	if err1 != nil || err2 != nil {
		res.inconclusive("cannot start relays: %v %v", err1, err2)

		return
	}
	defer r1.Close()
	defer r2.Close()
	d := ctl.NewDaemon(*bin, filepath.Join(dir, "d"), "c19d", false, nil,
		ctl.Item{"tcp-peer": map[string]any{"address": r1.Addr}},
		ctl.Item{"tcp-peer": map[string]any{"address": r2.Addr}},
		ctl.Item{"tls-client": map[string]any{"name": "tc", "rootcas": pki.CAFile, "cert": pki.ClientCert, "key": pki.ClientKey}},
	)
	e := &env19{d: d, m1: m1, m2: m2, r1: r1, r2: r2, res: res, to: 25 * time.Second, secrets: map[string]string{}, distinct: map[string]bool{}, units: map[string]bool{}}
	defer func() {
		for u := range e.units {
			if d.Alive() {
				_, _ = d.Command("work force-release "+u, 5*time.Second)
			}
		}
		d.Cleanup()
		m1.Cleanup()
		m2.Cleanup()
	}()
	for _, x := range []*ctl.Daemon{m1, m2, d} {
		if err := x.Start(30 * time.Second); err != nil {
			res.inconclusive("cannot start %s: %v", x.ID, err)

			return
		}
	}
	for _, n := range []string{m1.ID, m2.ID} {
		if err := d.WaitRoute(n, 40*time.Second); err != nil {
			res.inconclusive("mesh did not form: %v", err)

			return
		}
	}
	// environment sanity: remote work reaches both nodes (plain and TLS), so that a leak would be observable
	for _, tc := range []struct {
		node string
		tls  string
	}{{m1.ID, ""}, {m2.ID, "tc"}} {
		f := map[string]string{"node": tc.node, "worktype": "rtype", "plainkey": "v"}
		if tc.tls != "" {
			f["tlsclient"] = tc.tls
		}
		id, _, err := d.Submit(f, "x\n", e.to)
		if err == nil {
			_, err = d.WaitUnitState(id, 60*time.Second, "Succeeded")
		}
		if err != nil {
			res.inconclusive("remote work to %s (tls %q) does not run: %v; %s", tc.node, tc.tls, err, trunc(d.LogTail(600), 600))

			return
		}
		_, _ = d.Command("work release "+id, e.to)
	}
	for i := 0; i < 200; i++ { // the releases above complete asynchronously
		if wl, _, err := d.WorkList(e.to); err == nil && len(wl) == 0 {
			break
		}
		time.Sleep(100 * time.Millisecond)
	}
	var hs, refused, crashes []*hist19
	for i, v := range vecs {
		h := e.newHist(i, v, *seed)
		switch {
		case v.Sv == "crash_mid":
			crashes = append(crashes, h)
		case v.Unit == "none" && len(v.Ops) == 0:
			refused = append(refused, h)
		default:
			hs = append(hs, h)
		}
	}
	e.refusedBatch(refused)
	// histories whose submit dies between the two allocation steps: one daemon life each
	for _, h := range crashes {
		if !d.Alive() {
			if err := d.Start(40 * time.Second); err != nil {
				res.inconclusive("cannot restart %s: %v", d.ID, err)

				return
			}
		}
		e.submit(h)
		for i := 1; i <= len(h.v.Ops) && !h.dead; i++ {
			e.doOp(h, i)
		}
		res.mu.Lock()
		res.Evaluations++
		res.mu.Unlock()
		e.distinct[fmt.Sprintf("%v|%v|%v|%s", h.v.Keys, h.v.TLS, h.v.Ops, h.v.Sv)] = true
		if h.unit != "" && d.Alive() {
			_, _ = d.Command("work force-release "+h.unit, 10*time.Second)
		}
	}
	groups := map[string][]*hist19{}
	for _, h := range hs {
		p := restartPattern(h.v.Ops)
		groups[p] = append(groups[p], h)
	}
	var pats []string
	for p := range groups {
		pats = append(pats, p)
	}
	sort.Strings(pats)
	for _, p := range pats {
		g := groups[p]
		for len(g) > 0 { // bounded batches keep work list replies small
			n := min(len(g), 150)
			if !d.Alive() {
				res.inconclusive("daemon died: %v %s", d.ExitErr(), trunc(d.LogTail(800), 800))

				return
			}
			if res.Counters["violations"] >= 40 {
				res.note("stopped after %d violations", res.Counters["violations"])
				res.Distinct = len(e.distinct)

				return
			}
			if err := e.runGroup(p, g[:n]); err != nil {
				res.inconclusive("%v", err)

				return
			}
			g = g[n:]
		}
		res.count("restart_patterns")
	}
	// non-vacuity of the relay observation: the relays did carry (and parse) control-service traffic during the run
	for i, r := range []*ctl.Relay{r1, r2} {
		frames, _ := r.Since(0, 0)
		n := 0
		for _, f := range frames {
			if f.Type == 0 && f.ToService == "control" {
				n++
			}
		}
		res.add(fmt.Sprintf("relay%d_frames_total", i+1), len(frames))
		res.add(fmt.Sprintf("relay%d_data_to_control", i+1), n)
		if n == 0 && *replayFile == "" {
			res.inconclusive("relay %d never saw a data message to a control service: the refusal observation would be vacuous", i+1)
		}
	}
	res.Distinct = len(e.distinct)
	res.add("histories", len(vecs))
	res.add("secret_markers", len(e.secrets))
}
