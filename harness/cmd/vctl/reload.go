package main

import (
	"bufio"
	"encoding/json"
	"flag"
	"fmt"
	"math/rand"
	"net"
	"os"
	"path/filepath"
	"sort"
	"strings"
	"sync"
	"syscall"
	"time"

	"verif/harness/ctl"
)

// X-RELOAD: the scenarios TLC exported from specs/Reload.tla (file edits x reload commands x mode) are replayed on a
// real mesh of four daemons: a (under test: listener L, dialer D to b, optionally E to d), b and d (listeners), c (dials
// a's listener).  Observed: the reply of every reload, `status` of a right after the reply and until the mesh has
// settled, the answers other sessions get meanwhile, and a's hook events (reload_*, session and backend-loop events),
// which are written out for validation against specs/ReloadTrace.tla.

type rlExpect struct {
	File  string   `json:"file"`
	Reply string   `json:"reply"`
	Run   []string `json:"run"`
	Peers []string `json:"peers"`
}

type rlScen struct {
	Edits  []string   `json:"edits"`
	Mode   string     `json:"mode"`
	Expect []rlExpect `json:"expect"`
}

func (s rlScen) key() string { return s.Mode + ":" + strings.Join(s.Edits, ">") }

type rlMesh struct {
	dir        string
	a, b, c, d *ctl.Daemon
	pa, pb, pd int
	trace      string
}

func (m *rlMesh) all() []*ctl.Daemon { return []*ctl.Daemon{m.b, m.d, m.a, m.c} }

// fileContent renders a's configuration file for a named content of Reload.tla.
func (m *rlMesh) fileContent(name string) (string, bool) {
	node := ctl.Item{"node": map[string]any{"id": "ra", "datadir": m.a.DataDir}}
	logl := ctl.Item{"log-level": "info"}
	itemA := ctl.Item{"work-command": map[string]any{"worktype": "wa", "command": "true"}}
	itemB := ctl.Item{"work-command": map[string]any{"worktype": "wb", "command": "true"}}
	itemBmod := ctl.Item{"work-command": map[string]any{"worktype": "wb", "command": "false"}}
	itemC := ctl.Item{"work-command": map[string]any{"worktype": "wc", "command": "true"}}
	cs := ctl.Item{"control-service": map[string]any{"service": "control", "filename": m.a.Sock}}
	L := ctl.Item{"tcp-listener": map[string]any{"port": m.pa, "bindaddr": "127.0.0.1"}}
	D := ctl.Item{"tcp-peer": map[string]any{"address": fmt.Sprintf("127.0.0.1:%d", m.pb), "cost": 1.0}}
	// "Dc": the same dialer with other attributes (a changed cost would have to be changed on the peer too, or the
	// two nodes refuse each other)
	Dc := ctl.Item{"tcp-peer": map[string]any{"address": fmt.Sprintf("127.0.0.1:%d", m.pb), "cost": 1.0, "allowedpeers": []string{"rb"}}}
	Dbad := ctl.Item{"tcp-peer": map[string]any{"address": fmt.Sprintf("127.0.0.1:%d", m.pb), "cost": -1.0}}
	E := ctl.Item{"tcp-peer": map[string]any{"address": fmt.Sprintf("127.0.0.1:%d", m.pd)}}
	Efail := ctl.Item{"tcp-peer": map[string]any{"address": "address-without-a-port"}}
	head := []ctl.Item{node, logl}
	var items []ctl.Item
	switch name {
	case "start":
		items = append(head, itemA, itemB, cs, L, D)
	case "drop_D":
		items = append(head, itemA, itemB, cs, L)
	case "cost_D":
		items = append(head, itemA, itemB, cs, L, Dc)
	case "add_E":
		items = append(head, itemA, itemB, cs, L, D, E)
	case "drop_L":
		items = append(head, itemA, itemB, cs, D)
	case "mod_B":
		items = append(head, itemA, itemBmod, cs, L, D)
	case "rm_A":
		items = append(head, itemB, cs, L, D)
	case "add_item":
		items = append(head, itemA, itemB, itemC, cs, L, D)
	case "mod_B_drop_D":
		items = append(head, itemA, itemBmod, cs, L)
	case "badcost":
		items = append(head, itemA, itemB, cs, L, Dbad)
	case "failstart":
		items = append(head, itemA, itemB, cs, L, Efail)
	case "unparsable":
		return "[{\"node\": {\"id\": \"ra\"}, \n  - this is : [not yaml\n", true
	case "unreadable":
		return "", false
	default:
		return "", false
	}
	var b strings.Builder
	b.WriteString("[\n")
	for i, it := range items {
		j, _ := json.Marshal(it)
		b.Write(j)
		if i < len(items)-1 {
			b.WriteString(",")
		}
		b.WriteString("\n")
	}
	b.WriteString("]\n")

	return b.String(), true
}

func (m *rlMesh) writeFile(name string) error {
	content, ok := m.fileContent(name)
	if !ok {
		return os.Remove(m.a.ConfigPath()) // unreadable: the file is gone
	}
	tmp := m.a.ConfigPath() + ".tmp"
	if err := os.WriteFile(tmp, []byte(content), 0o600); err != nil {
		return err
	}

	return os.Rename(tmp, m.a.ConfigPath())
}

var (
	lowPortMu   sync.Mutex
	lowPortNext = 20000 + (os.Getpid()*37)%9000
)

// lowPort hands out loopback ports below the kernel's ephemeral range: a's listener port is closed and bound again
// during every accepted reload, and nobody who asks the kernel for "any free port" may get it in between.
func lowPort() int {
	lowPortMu.Lock()
	defer lowPortMu.Unlock()
	for i := 0; i < 5000; i++ {
		p := lowPortNext
		lowPortNext++
		if lowPortNext >= 32000 {
			lowPortNext = 20000
		}
		l, err := net.Listen("tcp", fmt.Sprintf("127.0.0.1:%d", p))
		if err == nil {
			l.Close()

			return p
		}
	}

	return ctl.FreePort()
}

func newRLMesh(dir, bin, abin string, gate bool) (*rlMesh, error) {
	_ = os.RemoveAll(dir)
	m := &rlMesh{dir: dir, pa: lowPort(), pb: lowPort(), pd: lowPort()}
	m.b = ctl.NewDaemon(bin, filepath.Join(dir, "b"), "rb", false, nil, ctl.Item{"tcp-listener": map[string]any{"port": m.pb, "bindaddr": "127.0.0.1"}})
	m.d = ctl.NewDaemon(bin, filepath.Join(dir, "d"), "rd", false, nil, ctl.Item{"tcp-listener": map[string]any{"port": m.pd, "bindaddr": "127.0.0.1"}})
	m.c = ctl.NewDaemon(bin, filepath.Join(dir, "c"), "rc", false, nil, ctl.Item{"tcp-peer": map[string]any{"address": fmt.Sprintf("127.0.0.1:%d", m.pa)}})
	m.a = ctl.NewDaemon(abin, filepath.Join(dir, "a"), "ra", false, nil)
	m.trace = filepath.Join(dir, "a", "trace.ndjson")
	m.a.Env = []string{"VERIF_TRACE=" + m.trace}
	if gate {
		m.a.Env = append(m.a.Env, "VRD_GATE=establish_before_rebuild_req", "VRD_DIR="+m.a.Dir)
	}
	for _, x := range []*ctl.Daemon{m.b, m.d} {
		if err := x.Start(40 * time.Second); err != nil {
			return m, err
		}
	}

	return m, nil
}

// startA starts the daemon under test from the "start" file (ctl.Daemon writes its own item list, so the items are set
// to the same content and the file is then rewritten in the exact rendering used for the edits).
func (m *rlMesh) startA() error {
	content, _ := m.fileContent("start")
	var items []ctl.Item
	_ = json.Unmarshal([]byte(content), &items)
	m.a.Items = items

	return m.a.Start(40 * time.Second)
}

func (m *rlMesh) stop() {
	for _, x := range m.all() {
		x.Kill()
	}
}

type rlStatus struct {
	Connections []struct {
		NodeID string
		Cost   float64
	}
}

func (m *rlMesh) conns(to time.Duration) (map[string]float64, error) {
	l, err := m.a.Command(`{"command":"status","requested_fields":["Connections"]}`, to)
	if err != nil {
		return nil, err
	}
	var st rlStatus
	if err := json.Unmarshal([]byte(l), &st); err != nil {
		return nil, fmt.Errorf("status reply %q", trunc(l, 200))
	}
	out := map[string]float64{}
	for _, c := range st.Connections {
		out[c.NodeID] = c.Cost
	}

	return out, nil
}

var rlPeerNode = map[string]string{"b": "rb", "c": "rc", "d": "rd"}

func wantNodes(peers []string) []string {
	var w []string
	for _, p := range peers {
		w = append(w, rlPeerNode[p])
	}
	sort.Strings(w)

	return w
}

func haveNodes(c map[string]float64) []string {
	var h []string
	for n := range c {
		h = append(h, n)
	}
	sort.Strings(h)

	return h
}

func (m *rlMesh) waitConns(want []string, to time.Duration) ([]string, bool) {
	deadline := time.Now().Add(to)
	var have []string
	for time.Now().Before(deadline) {
		c, err := m.conns(10 * time.Second)
		if err == nil {
			have = haveNodes(c)
			if strings.Join(have, ",") == strings.Join(want, ",") {
				return have, true
			}
		}
		time.Sleep(150 * time.Millisecond)
	}

	return have, false
}

// traceEvents reads a's hook events from byte offset off on.
func (m *rlMesh) traceEvents(off int64) ([]map[string]any, int64) {
	f, err := os.Open(m.trace)
	if err != nil {
		return nil, off
	}
	defer f.Close()
	_, _ = f.Seek(off, 0)
	var out []map[string]any
	rd := bufio.NewReaderSize(f, 1<<20)
	for {
		line, err := rd.ReadBytes('\n')
		if err != nil {
			break // a partial last line is read next time
		}
		off += int64(len(line))
		var r map[string]any
		if json.Unmarshal(line, &r) == nil {
			out = append(out, r)
		}
	}

	return out, off
}

func classifyReload(reply string, cancelled bool) string {
	var r struct {
		Success bool
		Error   string
	}
	if json.Unmarshal([]byte(reply), &r) != nil {
		return "unparsable:" + trunc(reply, 80)
	}
	switch {
	case r.Success:
		return "success"
	case strings.Contains(r.Error, "ERRORCODE 3") && strings.Contains(r.Error, "modified or added"):
		return "error3_modified"
	case strings.Contains(r.Error, "ERRORCODE 3") && strings.Contains(r.Error, "was removed"):
		return "error3_removed"
	case strings.Contains(r.Error, "ERRORCODE 3"):
		return "error3_read"
	case strings.Contains(r.Error, "ERRORCODE 4") && cancelled:
		return "error4_after_cancel"
	case strings.Contains(r.Error, "ERRORCODE 4"):
		return "error4_parse"
	}

	return "other:" + trunc(r.Error, 80)
}

func hasEvent(evs []map[string]any, names ...string) string {
	for _, e := range evs {
		for _, n := range names {
			if e["ev"] == n {
				return n
			}
		}
	}

	return ""
}

type rlResult struct {
	sc      rlScen
	viol    []Violation
	inconcl []string
	trace   []map[string]any
	steps   []map[string]any
}

func (r *rlResult) violate(sig, what string, extra map[string]any) {
	rp := map[string]any{"scenario": r.sc, "steps": r.steps}
	for k, v := range extra {
		rp[k] = v
	}
	r.viol = append(r.viol, Violation{sig, what, rp})
}

// reloadOnce sends reload on a fresh session and returns the raw reply.
func reloadOnce(d *ctl.Daemon, to time.Duration) (string, error) {
	return d.Command("reload", to)
}

func runReloadScenario(sc rlScen, dir, bin, vrd string, seed int64) *rlResult {
	res := &rlResult{sc: sc}
	gate := sc.Mode == "mid"
	abin := bin
	if gate {
		abin = vrd
	}
	m, err := newRLMesh(dir, bin, abin, gate)
	defer func() {
		if m != nil {
			m.stop()
		}
	}()
	if err != nil {
		res.inconcl = append(res.inconcl, "cannot start the peers: "+err.Error())

		return res
	}
	if err := m.startA(); err != nil {
		res.inconcl = append(res.inconcl, "cannot start the daemon under test: "+err.Error())

		return res
	}
	if err := m.writeFile("start"); err != nil {
		res.inconcl = append(res.inconcl, err.Error())

		return res
	}
	if err := m.c.Start(40 * time.Second); err != nil {
		res.inconcl = append(res.inconcl, "cannot start c: "+err.Error())

		return res
	}
	var off int64
	if gate {
		// one backend session of a is now held between conn_add and established
		ok := false
		for i := 0; i < 400; i++ {
			if _, err := os.Stat(filepath.Join(m.a.Dir, "gate_hit")); err == nil {
				ok = true

				break
			}
			time.Sleep(50 * time.Millisecond)
		}
		if !ok {
			res.inconcl = append(res.inconcl, "no session arrived at the gate")

			return res
		}
	} else if have, ok := m.waitConns([]string{"rb", "rc"}, 45*time.Second); !ok {
		res.inconcl = append(res.inconcl, fmt.Sprintf("the mesh did not form: a is connected to %v", have))

		return res
	}
	cur := []string{"rb", "rc"}
	for i, name := range sc.Edits {
		exp := sc.Expect[i]
		if err := m.writeFile(name); err != nil {
			res.inconcl = append(res.inconcl, "cannot write the file: "+err.Error())

			return res
		}
		before, _ := m.conns(10 * time.Second)
		var pre []map[string]any
		pre, off = m.traceEvents(off)
		res.trace = append(res.trace, pre...)
		// other sessions keep asking while the reload runs
		stop := make(chan struct{})
		var pw sync.WaitGroup
		var pmu sync.Mutex
		slow, asked := "", 0
		if sc.Mode == "probes" {
			for _, cmdline := range []string{"status", "work list", "ping ra", `{"command":"work","subcommand":"list"}`} {
				pw.Add(1)
				go func(cmdline string) {
					defer pw.Done()
					for {
						select {
						case <-stop:
							return
						default:
						}
						t0 := time.Now()
						l, err := m.a.Command(cmdline, 12*time.Second)
						pmu.Lock()
						asked++
						if err != nil || !strings.HasPrefix(l, "{") {
							slow = fmt.Sprintf("%q answered %q / %v after %v", cmdline, trunc(l, 80), err, time.Since(t0).Round(time.Millisecond))
						}
						pmu.Unlock()
					}
				}(cmdline)
			}
			time.Sleep(30 * time.Millisecond)
		}
		type rep struct {
			l   string
			err error
		}
		n := 1
		if sc.Mode == "overlap" {
			n = 2
		}
		ch := make(chan rep, n)
		for k := 0; k < n; k++ {
			go func() {
				l, err := reloadOnce(m.a, 60*time.Second)
				ch <- rep{l, err}
			}()
		}
		if gate && i == 0 {
			// wait until the reload is cancelling (or has been refused), then let the held session go on
			for j := 0; j < 600; j++ {
				evs, _ := m.traceEvents(off)
				if hasEvent(evs, "reload_cancel") != "" || len(ch) > 0 {
					break
				}
				time.Sleep(25 * time.Millisecond)
			}
			time.Sleep(100 * time.Millisecond) // the cancellation has reached the contexts
			_ = syscall.Kill(m.a.Pid(), syscall.SIGUSR2)
		}
		var replies []rep
		for k := 0; k < n; k++ {
			replies = append(replies, <-ch)
		}
		close(stop)
		pw.Wait()
		after, aerr := m.conns(10 * time.Second)
		var evs []map[string]any
		evs, off = m.traceEvents(off)
		res.trace = append(res.trace, evs...)
		cancelled := hasEvent(evs, "reload_cancel") != ""
		step := map[string]any{"file": name, "expect": exp, "connections_before": haveNodes(before), "connections_right_after": haveNodes(after)}
		res.steps = append(res.steps, step)
		if !m.a.Alive() {
			res.violate("X-RELOAD:daemon-died-during-reload-"+sc.Mode, fmt.Sprintf("the daemon exited during reload of file %s: %v; %s", name, m.a.ExitErr(), trunc(m.a.LogTail(1500), 900)), nil)

			return res
		}
		for _, r := range replies {
			if strings.Contains(r.l, "address already in use") && strings.Contains(r.l, fmt.Sprint(m.pa)) {
				// the file gives no reason: the port of a's own listener was still bound when the new listener was started
				res.violate("X-RELOAD:listener-port-still-bound-after-backend-wait",
					fmt.Sprintf("reload of file %s (mode %s): %s - BackendWait returned before the old listener's socket was closed", name, sc.Mode, strings.TrimSpace(r.l)), nil)

				return res
			}
		}
		var classes []string
		for _, r := range replies {
			if r.err != nil {
				res.violate("X-RELOAD:no-reply-to-reload-"+sc.Mode+"-"+name, fmt.Sprintf("reload (file %s, mode %s) was not answered within 60 s: %v", name, sc.Mode, r.err), nil)

				return res
			}
			classes = append(classes, classifyReload(r.l, cancelled))
		}
		step["replies"] = classes
		for _, c := range classes {
			if c != exp.Reply {
				res.violate(fmt.Sprintf("X-RELOAD:reply-%s-instead-of-%s-%s", c, exp.Reply, sc.key()),
					fmt.Sprintf("step %d of %v (mode %s): the file is %q, the specification says the reload ends with %s, the daemon answered %v", i+1, sc.Edits, sc.Mode, name, exp.Reply, replies), nil)

				return res
			}
		}
		if sc.Mode == "probes" {
			if slow != "" {
				res.violate("X-RELOAD:other-session-not-answered-during-reload", fmt.Sprintf("while reload (file %s) ran: %s", name, slow), nil)
			} else if asked == 0 {
				res.inconcl = append(res.inconcl, "no probe was answered during the reload")
			}
		}
		if aerr != nil {
			res.inconcl = append(res.inconcl, "status after the reload: "+aerr.Error())

			return res
		}
		want := wantNodes(exp.Peers)
		switch exp.Reply {
		case "success", "error4_after_cancel":
			// everything old is gone when the reply is written: a peer of a removed backend must not be listed any more
			for n := range after {
				if !containsStr(want, n) {
					res.violate("X-RELOAD:connection-of-removed-backend-survives-"+name,
						fmt.Sprintf("after the reload to file %s (%s) a is still connected to %s, whose backend is not in the file (connections %v)", name, exp.Reply, n, haveNodes(after)), nil)
				}
			}
		default:
			// refused before anything was cancelled: nothing may have changed
			if !gate {
				for _, n := range cur {
					if _, ok := after[n]; !ok {
						res.violate("X-RELOAD:refused-reload-dropped-connection-"+name,
							fmt.Sprintf("the reload of file %s was refused (%s) but the connection to %s is gone (before %v, after %v)", name, exp.Reply, n, haveNodes(before), haveNodes(after)), nil)
					}
				}
			}
			if e := hasEvent(evs, "dialer_exit", "listener_exit", "reload_cancel"); e != "" {
				res.violate("X-RELOAD:refused-reload-stopped-a-backend-"+name, fmt.Sprintf("the reload of file %s was refused (%s) but the trace has %s", name, exp.Reply, e), nil)
			}
		}
		if sc.Mode == "storm" && i < len(sc.Edits)-1 {
			cur = want

			continue // the next reload follows at once
		}
		have, ok := m.waitConns(want, 50*time.Second)
		step["connections_settled"] = have
		if !ok {
			res.inconcl = append(res.inconcl, fmt.Sprintf("after reload %d of %v (mode %s) the connections of a are %v, expected %v within 50 s", i+1, sc.Edits, sc.Mode, have, want))

			return res
		}
		if exp.Reply == "success" && containsStr(exp.Run, "Dc") {
			// the changed entry is what runs now: the session to rb was started by a backend with the new attributes
			more, noff := m.traceEvents(off)
			off = noff
			res.trace = append(res.trace, more...)
			found := false
			for _, e := range append(evs, more...) {
				if e["ev"] == "sess_start" && strings.Contains(fmt.Sprint(e["allow"]), "rb") {
					found = true
				}
			}
			if !found {
				res.violate("X-RELOAD:changed-backend-entry-not-in-effect", "after the accepted reload no session was started by a backend with the attributes of the changed entry (allowedpeers rb)", nil)
			}
		}
		cur = want
	}
	var tail []map[string]any
	tail, _ = m.traceEvents(off)
	res.trace = append(res.trace, tail...)

	return res
}

func containsStr(s []string, x string) bool {
	for _, y := range s {
		if y == x {
			return true
		}
	}

	return false
}

var rlTraceEvents = map[string]bool{"dialer_start": true, "listener_start": true, "dialer_exit": true, "listener_exit": true, "sess_start": true,
	"conn_add": true, "established": true, "conn_del": true, "sess_end": true, "reload_begin": true, "reload_parse": true, "reload_check": true,
	"reload_absent": true, "reload_cancel": true, "reload_cancelled": true, "reload_started": true}

func normEvent(e map[string]any) map[string]string {
	s := func(k string) string {
		if v, ok := e[k]; ok {
			return fmt.Sprint(v)
		}

		return ""
	}

	return map[string]string{"ev": s("ev"), "sess": s("sess"), "peer": s("peer"), "r": s("r"), "ok": s("ok"), "sc": s("sc")}
}

func pickReloadScenarios(all []rlScen, seed int64, max int) []rlScen {
	sort.Slice(all, func(i, j int) bool { return all[i].key() < all[j].key() })
	var must, rest []rlScen
	for _, s := range all {
		k := s.key()
		switch {
		case s.Mode == "plain" && len(s.Edits) == 1:
			must = append(must, s)
		case k == "plain:mod_B>rm_A" || k == "plain:add_item>rm_A" || k == "plain:mod_B>start" || k == "plain:failstart>start" || k == "plain:drop_D>start":
			must = append(must, s)
		case s.Mode == "mid" && (s.Edits[0] == "start" || s.Edits[0] == "drop_D" || s.Edits[0] == "mod_B" || s.Edits[0] == "cost_D"):
			must = append(must, s)
		case s.Mode == "overlap" && (s.Edits[0] == "start" || s.Edits[0] == "cost_D" || s.Edits[0] == "mod_B"):
			must = append(must, s)
		case s.Mode == "probes" && (s.Edits[0] == "start" || s.Edits[0] == "drop_L"):
			must = append(must, s)
		case s.Mode == "storm":
			must = append(must, s)
		default:
			rest = append(rest, s)
		}
	}
	rng := rand.New(rand.NewSource(seed))
	rng.Shuffle(len(rest), func(i, j int) { rest[i], rest[j] = rest[j], rest[i] })
	for len(must) < max && len(rest) > 0 {
		must = append(must, rest[0])
		rest = rest[1:]
	}

	return must
}

func init() { commands["reload"] = cmdReload }

func cmdReload(args []string) {
	fs := flag.NewFlagSet("reload", flag.ExitOnError)
	scFile := fs.String("scenarios", "", "NDJSON scenarios from TLC (Reload.tla)")
	bin := fs.String("receptor", "", "receptor binary")
	vrd := fs.String("vrd", "", "receptor with the gate control (harness/cmd/vrd)")
	work := fs.String("work", "", "scratch directory")
	out := fs.String("out", "result.json", "result file")
	traceOut := fs.String("traces", "", "file for the normalised hook events of the daemon under test (NDJSON)")
	seed := fs.Int64("seed", 1, "seed")
	max := fs.Int("max", 0, "number of scenarios (0 = all)")
	par := fs.Int("par", 6, "scenarios run in parallel")
	replayFile := fs.String("replay", "", "replay file of a previous run")
	_ = fs.Parse(args)
	res := &Result{Counters: map[string]int{}}
	defer func() { res.write(*out) }()
	scs, err := readNDJSON[rlScen](*scFile)
	if err != nil {
		res.inconclusive("cannot read scenarios: %v", err)

		return
	}
	if *replayFile != "" {
		b, err := os.ReadFile(*replayFile)
		var rp struct {
			Replay struct {
				Scenario rlScen `json:"scenario"`
			} `json:"replay"`
		}
		if err != nil || json.Unmarshal(b, &rp) != nil || len(rp.Replay.Scenario.Edits) == 0 {
			res.inconclusive("cannot read replay %s", *replayFile)

			return
		}
		scs = []rlScen{rp.Replay.Scenario, rp.Replay.Scenario, rp.Replay.Scenario}
	} else if *max > 0 {
		scs = pickReloadScenarios(scs, *seed, *max)
	}
	results := make([]*rlResult, len(scs))
	var wg sync.WaitGroup
	sem := make(chan struct{}, *par)
	for i := range scs {
		wg.Add(1)
		go func(i int) {
			defer wg.Done()
			sem <- struct{}{}
			defer func() { <-sem }()
			results[i] = runReloadScenario(scs[i], filepath.Join(*work, fmt.Sprintf("rl%03d", i)), *bin, *vrd, *seed)
		}(i)
	}
	wg.Wait()
	var tf *os.File
	if *traceOut != "" {
		tf, _ = os.Create(*traceOut)
		defer tf.Close()
	}
	distinct := map[string]bool{}
	for i, r := range results {
		res.Evaluations++
		distinct[r.sc.key()] = true
		res.count("mode_" + r.sc.Mode)
		for _, v := range r.viol {
			res.violate(v.Sig, v.What, v.Replay)
		}
		for _, s := range r.inconcl {
			res.inconclusive("%s: %s", r.sc.key(), s)
			res.count("scenario_hit_a_ceiling")
		}
		for _, e := range r.sc.Expect {
			res.count("expect_" + e.Reply)
		}
		if tf != nil && len(r.trace) > 0 {
			reset, _ := json.Marshal(map[string]string{"ev": "reset", "sess": "", "peer": "", "r": "", "ok": "", "sc": fmt.Sprintf("%d:%s", i, r.sc.key())})
			tf.Write(append(reset, '\n'))
			sort.SliceStable(r.trace, func(x, y int) bool {
				px, _ := r.trace[x]["p"].(float64)
				py, _ := r.trace[y]["p"].(float64)
				ix, _ := r.trace[x]["i"].(float64)
				iy, _ := r.trace[y]["i"].(float64)
				if px != py {
					return false // different processes never mix in one daemon life: keep file order
				}

				return ix < iy
			})
			n := 0
			for _, e := range r.trace {
				if ev, _ := e["ev"].(string); rlTraceEvents[ev] {
					ne := normEvent(e)
					ne["sc"] = fmt.Sprintf("%d:%s", i, r.sc.key())
					j, _ := json.Marshal(ne)
					tf.Write(append(j, '\n'))
					n++
				}
			}
			res.add("trace_events", n)
			res.count("traces")
		}
		if len(res.Samples) < 6 && len(r.steps) > 0 && i%5 == 0 {
			res.sample(map[string]any{"scenario": r.sc.key(), "steps": r.steps}, 6)
		}
	}
	res.Distinct = len(distinct)
}
