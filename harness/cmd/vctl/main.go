// Command vctl is the conformance harness of the control-service checks C08, C15 and C19: each subcommand starts
// real receptor daemons (the binary built from /repo), replays the vectors TLC exported from specs/ControlSession.tla
// and reports what it observed as JSON.
package main

import (
	"encoding/json"
	"fmt"
	"os"
	"sync"
)

// Violation is one observed departure of the real daemon from the specification.
type Violation struct {
	Sig    string `json:"sig"`
	What   string `json:"what"`
	Replay any    `json:"replay"`
}

// Result is what every subcommand writes.
type Result struct {
	mu           sync.Mutex
	Evaluations  int            `json:"evaluations"`
	Distinct     int            `json:"distinct"`
	Violations   []Violation    `json:"violations"`
	Inconclusive []string       `json:"inconclusive"`
	Samples      []any          `json:"samples"`
	Counters     map[string]int `json:"counters"`
	Notes        []string       `json:"notes"`
}

func (r *Result) count(k string) { r.add(k, 1) }

func (r *Result) add(k string, n int) {
	r.mu.Lock()
	defer r.mu.Unlock()
	if r.Counters == nil {
		r.Counters = map[string]int{}
	}
	r.Counters[k] += n
}

func (r *Result) violate(sig, what string, replay any) {
	r.mu.Lock()
	defer r.mu.Unlock()
	if r.Counters == nil {
		r.Counters = map[string]int{}
	}
	r.Counters["violations"]++
	n := 0
	for _, v := range r.Violations {
		if v.Sig == sig {
			n++
		}
	}
	if n < 3 && len(r.Violations) < 300 {
		r.Violations = append(r.Violations, Violation{sig, what, replay})
	}
}

func (r *Result) inconclusive(format string, a ...any) {
	r.mu.Lock()
	defer r.mu.Unlock()
	if len(r.Inconclusive) < 20 {
		r.Inconclusive = append(r.Inconclusive, fmt.Sprintf(format, a...))
	}
}

func (r *Result) note(format string, a ...any) {
	r.mu.Lock()
	defer r.mu.Unlock()
	if len(r.Notes) < 60 {
		r.Notes = append(r.Notes, fmt.Sprintf(format, a...))
	}
}

func (r *Result) sample(s any, max int) {
	r.mu.Lock()
	defer r.mu.Unlock()
	if len(r.Samples) < max {
		r.Samples = append(r.Samples, s)
	}
}

func (r *Result) write(path string) {
	r.mu.Lock()
	defer r.mu.Unlock()
	if r.Violations == nil {
		r.Violations = []Violation{}
	}
	if r.Inconclusive == nil {
		r.Inconclusive = []string{}
	}
	b, _ := json.MarshalIndent(r, "", " ")
	if err := os.WriteFile(path, b, 0o644); err != nil {
		fmt.Fprintln(os.Stderr, "cannot write result:", err)
		os.Exit(3)
	}
}

var commands = map[string]func(args []string){}

func main() {
	if len(os.Args) < 2 || commands[os.Args[1]] == nil {
		fmt.Fprintln(os.Stderr, "usage: vctl <c08|c15|c19> [flags]")
		os.Exit(2)
	}
	commands[os.Args[1]](os.Args[2:])
}

func readNDJSON[T any](path string) ([]T, error) {
	f, err := os.Open(path)
	if err != nil {
		return nil, err
	}
	defer f.Close()
	dec := json.NewDecoder(f)
	var out []T
	for dec.More() {
		var v T
		if err := dec.Decode(&v); err != nil {
			return nil, err
		}
		out = append(out, v)
	}

	return out, nil
}
