package main

import (
	"encoding/json"
	"flag"
	"fmt"
	"math/rand"
	"os"
	"path/filepath"
	"sort"
	"strings"
	"syscall"
	"time"

	"github.com/golang-jwt/jwt/v4"
	"verif/harness/ctl"
)

// C15: the decision table Effect(cmd, connection, work type, token) of specs/ControlSession.tla (part "c15") is
// replayed on a real daemon with a verifying and a non-verifying command type.  Whether a command took effect is
// decided from before/after snapshots (work list over the Unix socket, the data directory, the runner's pid) and from
// the bytes received, and compared with the vector.

type vec15 struct {
	Cmd               string `json:"cmd"`
	Conn              string `json:"conn"`
	Wt                string `json:"wt"`
	Tok               string `json:"tok"`
	Effect            bool   `json:"effect"`
	Why               string `json:"why"`
	Base              string `json:"base"`                // the registered type a spelling variant would resolve to
	AllowedIfResolved bool   `json:"allowed_if_resolved"` // what the token rule of that type allows
}

var spellVariants = map[string]bool{"verifying_upper": true, "verifying_mixed": true, "verifying_space": true, "verifying_lookalike": true, "nonverifying_mixed": true}

// spelledType returns a spelling of a registered type name that is not the registered name.
func spelledType(class string, rng *rand.Rand) string {
	switch class {
	case "verifying_upper":
		return "VTYPE"
	case "verifying_mixed":
		return []string{"Vtype", "vType", "VtYpE", "vtypE"}[rng.Intn(4)]
	case "verifying_space":
		return []string{"vtype ", " vtype", "vtype\t"}[rng.Intn(3)]
	case "verifying_lookalike":
		return []string{"vtуpe", "ｖtype", "vtype\u200b", "vtypе"}[rng.Intn(4)] // Cyrillic у / е, fullwidth v, zero-width space
	case "nonverifying_mixed":
		return []string{"Ntype", "NTYPE", "nType"}[rng.Intn(3)]
	}

	return class
}

type env15 struct {
	d, m     *ctl.Daemon
	res      *Result
	k1, k2   *ctl.KeyPair
	cur      map[string]string // work-type class -> a live unit of that class
	ghosts   []string          // pre-seeded units of a type the daemon does not know
	to       time.Duration
	allUnits map[string]bool
	distinct map[string]bool

	forceTok     func() (string, string) // sequence phase: supplies the token of the next command
	lastObserved bool
	lastReply    string
}

func (e *env15) token(class string, inst int, rng *rand.Rand) (string, string, error) {
	now := time.Now()
	claims := func(exp time.Time, aud []string) *jwt.RegisteredClaims {
		c := &jwt.RegisteredClaims{}
		if !exp.IsZero() {
			c.ExpiresAt = jwt.NewNumericDate(exp)
		}
		if aud != nil {
			c.Audience = aud
		}

		return c
	}
	self := e.d.ID
	switch class {
	case "absent", "empty":
		return "", class, nil
	case "garbage":
		g := []string{randID(rng, 30), "a.b.c", "e30.e30.e30", "....", "eyJhbGciOiJSUzUxMiJ9." + randID(rng, 20) + "." + randID(rng, 40), " ", "null"}

		return g[(inst+rng.Intn(len(g)))%len(g)], "garbage", nil
	case "valid":
		// RS512 is what the submitting side produces; the verifier accepts the RSA family signed by the configured key
		methods := []jwt.SigningMethod{jwt.SigningMethodRS512, jwt.SigningMethodRS512, jwt.SigningMethodRS256, jwt.SigningMethodPS384}
		m := methods[inst%len(methods)]
		auds := [][]string{{self}, {self}, {"other", self}}
		t, err := jwt.NewWithClaims(m, claims(now.Add(time.Hour), auds[(inst/2)%len(auds)])).SignedString(e.k1.Priv)

		return t, "valid-" + m.Alg(), err
	case "expired":
		ago := []time.Duration{time.Hour, 61 * time.Second, 24 * 365 * time.Hour}[inst%3]
		t, err := jwt.NewWithClaims(jwt.SigningMethodRS512, claims(now.Add(-ago), []string{self})).SignedString(e.k1.Priv)

		return t, "expired", err
	case "other_aud":
		auds := [][]string{{"othernode"}, {}, {self + "x"}, {strings.ToUpper(self)}, {""}}
		a := auds[inst%len(auds)]
		t, err := jwt.NewWithClaims(jwt.SigningMethodRS512, claims(now.Add(time.Hour), a)).SignedString(e.k1.Priv)

		return t, fmt.Sprintf("aud=%v", a), err
	case "other_key":
		t, err := jwt.NewWithClaims(jwt.SigningMethodRS512, claims(now.Add(time.Hour), []string{self})).SignedString(e.k2.Priv)

		return t, "other_key", err
	case "alg_none":
		t, err := jwt.NewWithClaims(jwt.SigningMethodNone, claims(now.Add(time.Hour), []string{self})).SignedString(jwt.UnsafeAllowNoneSignatureType)
		if inst%2 == 1 && err == nil {
			// "none" header but a signature segment copied from a valid token
			v, _ := jwt.NewWithClaims(jwt.SigningMethodRS512, claims(now.Add(time.Hour), []string{self})).SignedString(e.k1.Priv)
			t = strings.TrimSuffix(t, ".") + "." + v[strings.LastIndex(v, ".")+1:]
		}

		return t, "alg_none", err
	case "hs256_pub":
		keys := [][]byte{e.k1.PubPEM, []byte(strings.TrimSpace(string(e.k1.PubPEM)))}
		ms := []jwt.SigningMethod{jwt.SigningMethodHS256, jwt.SigningMethodHS512}
		t, err := jwt.NewWithClaims(ms[inst%2], claims(now.Add(time.Hour), []string{self})).SignedString(keys[(inst/2)%2])

		return t, "hmac keyed with the public key PEM", err
	case "truncated":
		t, err := jwt.NewWithClaims(jwt.SigningMethodRS512, claims(now.Add(time.Hour), []string{self})).SignedString(e.k1.Priv)
		if err != nil {
			return "", "", err
		}
		switch inst % 3 {
		case 0:
			return t[:len(t)-1-rng.Intn(20)], "signature cut short", nil
		case 1:
			return t[:strings.LastIndex(t, ".")+1], "signature segment empty", nil
		}

		return t[:strings.LastIndex(t, ".")], "two segments", nil
	}

	return "", "", fmt.Errorf("unknown token class %s", class)
}

func (e *env15) register(id string) {
	if id != "" {
		e.allUnits[id] = true
	}
}

// ensureUnit returns a live unit of the work-type class, creating one over the Unix socket when needed.
func (e *env15) ensureUnit(wt string) (string, error) {
	if id := e.cur[wt]; id != "" {
		return id, nil
	}
	var id string
	var err error
	switch wt {
	case "verifying", "nonverifying":
		typ := map[string]string{"verifying": "vtype", "nonverifying": "ntype"}[wt]
		id, _, err = e.d.Submit(map[string]string{"node": "localhost", "worktype": typ}, "in\n", e.to)
		if err == nil {
			e.register(id)
			_, err = e.d.WaitUnitState(id, e.to, "Running")
		}
		if err == nil {
			// wait for the first output so that "results" has bytes to deliver
			for i := 0; i < 400; i++ {
				if st, serr := os.Stat(filepath.Join(e.d.UnitsDir(), id, "stdout")); serr == nil && st.Size() > 0 {
					break
				}
				time.Sleep(25 * time.Millisecond)
			}
		}
	case "remote_sign", "remote_nosign":
		f := map[string]string{"node": "ghostnode", "worktype": "rtype"}
		if wt == "remote_sign" {
			f["signwork"] = "true"
		}
		id, _, err = e.d.Submit(f, "in\n", e.to)
		e.register(id)
	case "remote_sign_polled":
		// a signed remote unit that really runs on the other daemon and whose status has been mirrored here at least once
		// (the local state becomes Running only through a poll answer)
		id, _, err = e.d.Submit(map[string]string{"node": e.m.ID, "worktype": "xtype", "signwork": "true"}, "in\n", e.to)
		e.register(id)
		if err == nil {
			_, err = e.d.WaitUnitState(id, 40*time.Second, "Running")
		}
		if err == nil {
			time.Sleep(1300 * time.Millisecond) // one more poll interval
			e.res.count("polled_remote_units")
		}
	case "unknown":
		if len(e.ghosts) == 0 {
			return "", fmt.Errorf("no pre-seeded unit of an unknown type left")
		}
		id = e.ghosts[0]
		e.ghosts = e.ghosts[1:]
	}
	if err != nil {
		return "", fmt.Errorf("cannot create a %s unit: %w", wt, err)
	}
	e.cur[wt] = id
	e.res.count("units_created")

	return id, nil
}

type snap15 struct {
	Units map[string]string            // id -> StateName/Detail
	Dirs  map[string]map[string]string // id -> files
	Pid   int
	Alive bool
}

func (e *env15) snapshot(id string) (snap15, error) {
	s := snap15{Units: map[string]string{}}
	wl, _, err := e.d.WorkList(e.to)
	if err != nil {
		return s, err
	}
	for k, v := range wl {
		s.Units[k] = fmt.Sprint(v["StateName"])
		if k == id {
			if ed, ok := v["ExtraData"].(map[string]any); ok {
				if p, ok := ed["Pid"].(float64); ok {
					s.Pid = int(p)
				}
			}
		}
	}
	s.Dirs = e.d.DirSnapshot()
	if s.Pid > 0 {
		s.Alive = syscall.Kill(s.Pid, 0) == nil
	}

	return s, nil
}

func (e *env15) requestLine(v vec15, id, tok string, rng *rand.Rand) (string, string) {
	m := map[string]any{"command": "work", "subcommand": v.Cmd}
	form := "json"
	switch v.Cmd {
	case "submit":
		switch v.Wt {
		case "verifying":
			m["node"], m["worktype"] = "localhost", "vtype"
		case "nonverifying":
			m["node"], m["worktype"] = "localhost", "ntype"
		case "remote_sign":
			m["node"], m["worktype"], m["signwork"] = "ghostnode", "rtype", "true"
		case "remote_nosign":
			m["node"], m["worktype"] = "ghostnode", "rtype"
			if rng.Intn(2) == 0 {
				m["signwork"] = "false"
			}
		case "unknown":
			m["node"], m["worktype"] = "localhost", "nosuchtype"
		default:
			if spellVariants[v.Wt] {
				m["node"], m["worktype"] = "localhost", spelledType(v.Wt, rng)
			}
		}
	case "results":
		m["unitid"], m["startpos"] = id, 0
	default:
		m["unitid"] = id
	}
	if v.Tok != "absent" {
		m["signature"] = tok
	} else if !(v.Cmd == "submit" && (v.Wt == "remote_sign" || v.Wt == "verifying_space")) && rng.Intn(2) == 0 {
		// the plain form cannot carry a signature at all
		switch v.Cmd {
		case "submit":
			return fmt.Sprintf("work submit %v %v", m["node"], m["worktype"]), "plain"
		case "results":
			return "work results " + id, "plain"
		}

		return "work " + v.Cmd + " " + id, "plain"
	}
	b, _ := json.Marshal(m)

	return string(b), form
}

func (e *env15) runVector(v vec15, inst int, seed int64) error {
	rng := rand.New(rand.NewSource(seed*31337 + int64(hashStr(v.Cmd+v.Conn+v.Wt+v.Tok)) + int64(inst)*977))
	var tok, tokDesc string
	var err error
	if e.forceTok == nil {
		if tok, tokDesc, err = e.token(v.Tok, inst+int(seed), rng); err != nil {
			return err
		}
	}
	id := ""
	if v.Cmd != "submit" {
		if id, err = e.ensureUnit(v.Wt); err != nil {
			return err
		}
	}
	before, err := e.snapshot(id)
	if err != nil {
		return fmt.Errorf("snapshot: %w", err)
	}
	k, err := ctl.Dial(v.Conn, e.d, e.m, e.to)
	if err != nil {
		return fmt.Errorf("cannot open %s session: %w", v.Conn, err)
	}
	defer k.Close()
	if e.forceTok != nil {
		// sequence phase: the token comes from the sequence (minted at the last moment, or the identical string again)
		tok, tokDesc = e.forceTok()
	}
	line, form := e.requestLine(v, id, tok, rng)
	if err := k.Send([]byte(line + "\n")); err != nil {
		return err
	}
	first, err := k.ReadLine(e.to)
	if err != nil {
		e.res.inconclusive("no reply to %s over %s within %v: %v", trunc(line, 120), v.Conn, e.to, err)

		return nil
	}
	replyEffect := !strings.HasPrefix(first, "ERROR")
	received := first
	newUnit := ""
	switch {
	case strings.HasPrefix(first, "Work unit created with ID "):
		newUnit = strings.SplitN(strings.TrimPrefix(first, "Work unit created with ID "), ".", 2)[0]
		e.register(newUnit)
		_ = k.Send([]byte("in\n"))
		_ = k.CloseWrite()
		if l, err := k.ReadLine(e.to); err == nil {
			received += "\n" + l
		}
	case strings.HasPrefix(first, "Streaming results"):
		received += "\n" + string(k.Quiet(300*time.Millisecond, 3*time.Second))
	}
	k.Close()
	// let asynchronous consequences (runner exit, directory removal) settle before the second snapshot
	var after snap15
	for i := 0; i < 40; i++ {
		after, err = e.snapshot(id)
		if err != nil {
			return fmt.Errorf("snapshot: %w", err)
		}
		if !replyEffect || v.Cmd == "results" {
			break
		}
		settled := false
		switch v.Cmd {
		case "submit":
			settled = len(after.Units) > len(before.Units)
		case "cancel":
			settled = after.Units[id] != before.Units[id] || !after.Alive
		default:
			_, still := after.Units[id]
			settled = !still
		}
		if settled {
			break
		}
		time.Sleep(50 * time.Millisecond)
	}
	// state-based evidence
	stateEffect, stateWhat := false, ""
	switch v.Cmd {
	case "submit":
		for u := range after.Units {
			if _, ok := before.Units[u]; !ok {
				stateEffect, stateWhat = true, "new unit "+u+" in work list"
				e.register(u)
			}
		}
		for u := range after.Dirs {
			if _, ok := before.Dirs[u]; !ok {
				stateEffect, stateWhat = true, "new unit directory "+u
				e.register(u)
			}
		}
	case "cancel":
		if before.Units[id] != after.Units[id] {
			stateEffect, stateWhat = true, fmt.Sprintf("state %s -> %s", before.Units[id], after.Units[id])
		}
		if before.Alive && !after.Alive {
			stateEffect, stateWhat = true, stateWhat+fmt.Sprintf(" runner pid %d gone", before.Pid)
		}
	case "release", "force-release":
		if _, ok := after.Units[id]; !ok {
			stateEffect, stateWhat = true, "unit no longer listed"
		}
		if _, ok := after.Dirs[id]; !ok {
			stateEffect, stateWhat = true, stateWhat+" unit directory removed"
		}
		if before.Alive && !after.Alive {
			stateEffect, stateWhat = true, stateWhat+fmt.Sprintf(" runner pid %d gone", before.Pid)
		}
	case "results":
		if strings.HasPrefix(first, "Streaming results") {
			stateEffect, stateWhat = true, fmt.Sprintf("%d bytes of the unit's output stream received", len(received)-len(first))
		}
	}
	// nothing else may change in any case
	for u, st := range before.Units {
		if u == id {
			continue
		}
		if a, ok := after.Units[u]; !ok {
			e.res.violate("C15:bystander-unit-removed", fmt.Sprintf("%s: unit %s disappeared", trunc(line, 100), u), map[string]any{"vector": v})
		} else if a != st && !(st == "Pending" || st == "Running") {
			e.res.note("bystander unit %s changed %s -> %s", u, st, a)
		}
	}
	observed := replyEffect || stateEffect
	e.lastObserved, e.lastReply = observed, trunc(first, 160)
	e.res.mu.Lock()
	e.res.Evaluations++
	e.res.mu.Unlock()
	e.distinct[fmt.Sprintf("%s|%s|%s|%s|%s|%s", v.Cmd, v.Conn, v.Wt, v.Tok, tokDesc, form)] = true
	e.res.count("conn_" + v.Conn)
	e.res.count("why_" + strings.SplitN(v.Why, "_", 2)[0])
	replay := map[string]any{"vector": v, "instance": inst, "token": tokDesc, "form": form, "line": trunc(line, 900), "reply": trunc(received, 400),
		"state_evidence": stateWhat, "before": before.Units, "after": after.Units}
	vk := fmt.Sprintf("%s-%s-%s-%s", v.Cmd, v.Conn, v.Wt, v.Tok)
	if spellVariants[v.Wt] {
		// the rule for another spelling of a type name: refused as unknown type, or held to the token rule of the type it runs as
		switch {
		case observed && !v.AllowedIfResolved:
			e.res.violate("C15:unauthorized-"+vk, fmt.Sprintf("submit over %s of work type %q (a spelling of the %s type) with token class %s (%s) was not refused as unknown type "+
				"and took effect (reply %q; %s) although the token rule of the type it runs as forbids it", v.Conn, fmt.Sprint(line), v.Base, v.Tok, tokDesc, trunc(first, 120), stateWhat), replay)
		case observed:
			e.res.count("other_spelling_resolved_within_the_token_rule")
		default:
			e.res.count("refusals_confirmed")
			e.res.count("other_spelling_refused")
		}
		v.Effect = observed // nothing further to compare
	}
	switch {
	case spellVariants[v.Wt]:
	case observed && !v.Effect:
		e.res.violate("C15:unauthorized-"+vk, fmt.Sprintf("%s over %s on a %s unit/type with token class %s (%s) took effect (reply %q; %s) but must be refused (%s)",
			v.Cmd, v.Conn, v.Wt, v.Tok, tokDesc, trunc(first, 120), stateWhat, v.Why), replay)
	case !observed && v.Effect && v.Tok == "seq_first_use" && strings.Contains(first, "expired"):
		// the short-lived token ran out before the daemon looked at it (loaded machine): the sequence is not established
		e.res.count("seq_first_use_too_late")
	case !observed && v.Effect:
		e.res.violate("C15:wrongly-refused-"+vk, fmt.Sprintf("%s over %s on a %s unit/type with token class %s (%s) was refused (%q) but the specification lets it through (%s)",
			v.Cmd, v.Conn, v.Wt, v.Tok, tokDesc, trunc(first, 160), v.Why), replay)
	case replyEffect != stateEffect && v.Cmd != "cancel":
		e.res.violate("C15:reply-and-state-disagree-"+vk, fmt.Sprintf("reply %q but state evidence %q", trunc(first, 120), stateWhat), replay)
	default:
		if v.Effect {
			e.res.count("effects_confirmed")
		} else {
			e.res.count("refusals_confirmed")
		}
	}
	if e.res.Evaluations%97 == 5 {
		e.res.sample(replay, 8)
	}
	// housekeeping: a unit that was touched, or created, is not used again
	if observed && v.Cmd != "results" && id != "" {
		delete(e.cur, v.Wt)
		_, _ = e.d.Command("work force-release "+id, e.to)
	}
	for u := range after.Units {
		if _, ok := before.Units[u]; !ok {
			_, _ = e.d.Command("work force-release "+u, e.to)
		}
	}
	if newUnit != "" {
		_, _ = e.d.Command("work force-release "+newUnit, e.to)
	}

	return nil
}

// ---------------------------------------------------------------- sequences: one token used again after its expiry

type seqStep struct {
	Op     string `json:"op"`
	Cmd    string `json:"cmd"`
	Conn   string `json:"conn"`
	Effect bool   `json:"effect"`
	At     int    `json:"at"`
	Tok    string `json:"tok"`  // own: the command carries the token; none: it carries no token
	Link   string `json:"link"` // fresh: a new connection; same: the connection of the command before
	Unit   string `json:"unit"` // same | other: the unit of the command before, or another unit of the verifying type
}

type seqVec struct {
	Steps []seqStep `json:"steps"`
}

func (q seqVec) shape() string {
	var b []string
	for _, s := range q.Steps {
		b = append(b, s.Op)
	}

	return strings.Join(b, ",")
}

type seqRun struct {
	q     seqVec
	tok   string
	exp   time.Time
	ok    bool
	first seqStep
	last  seqStep
}

// mintShort makes a correctly signed token for this node that expires in 3-4 s (exp has a granularity of a second).
func (e *env15) mint(life time.Duration) (string, time.Time) {
	exp := time.Now().Add(life).Truncate(time.Second)
	c := &jwt.RegisteredClaims{ExpiresAt: jwt.NewNumericDate(exp), Audience: []string{e.d.ID}}
	t, _ := jwt.NewWithClaims(jwt.SigningMethodRS512, c).SignedString(e.k1.Priv)

	return t, exp
}

func (e *env15) seqUse(st seqStep, tokClass string, tokFn func() (string, string), seed int64) error {
	v := vec15{Cmd: st.Cmd, Conn: st.Conn, Wt: "verifying", Tok: tokClass, Effect: st.Effect}
	if st.Effect {
		v.Why = "valid_token"
	} else {
		v.Why = "token_expired_since_its_first_use"
	}
	e.forceTok = tokFn
	defer func() { e.forceTok = nil }()
	e.res.count("seq_uses")

	return e.runVector(v, 0, seed)
}

// runSequences replays token life-cycle sequences: [use a, use b] with a long-lived token (both accepted),
// [use a, tick, use b] and [use a, tick, restart, use b] with a token that lives 3-4 s: accepted while valid, and the
// identical string refused with no effect once it is at least 1.5 s past its expiry.  The waits are shared by a batch.
func (e *env15) runSequences(qs []seqVec, seed int64) error {
	byShape := map[string][]*seqRun{}
	for _, q := range qs {
		n := len(q.Steps)
		if n < 2 || q.Steps[0].Op != "use" || q.Steps[n-1].Op != "use" {
			continue
		}
		if q.Steps[n-1].Link == "same" {
			if err := e.runSameConn(q, seed); err != nil {
				return err
			}

			continue
		}
		byShape[q.shape()] = append(byShape[q.shape()], &seqRun{q: q, first: q.Steps[0], last: q.Steps[n-1]})
	}
	for _, shape := range []string{"use,use", "use,tick,use", "use,tick,restart,use"} {
		runs := byShape[shape]
		if len(runs) == 0 {
			continue
		}
		life := 4 * time.Second
		if shape == "use,use" {
			life = 10 * time.Minute
		}
		var latest time.Time
		for _, r := range runs {
			for attempt := 0; attempt < 2 && !r.ok; attempt++ {
				rr := r
				err := e.seqUse(r.first, "seq_first_use", func() (string, string) {
					rr.tok, rr.exp = e.mint(life)

					return rr.tok, "valid, short-lived"
				}, seed)
				if err != nil {
					return err
				}
				// established only if it was accepted (a refusal of a token that had already expired under load is retried once)
				r.ok = e.lastObserved
				if !r.ok && time.Now().Before(r.exp.Add(-300*time.Millisecond)) {
					break // refused while clearly valid: runVector has reported it
				}
			}
			if !r.ok {
				e.res.count("seq_not_established")

				continue
			}
			if r.exp.After(latest) {
				latest = r.exp
			}
		}
		if shape != "use,use" {
			if d := time.Until(latest.Add(1500 * time.Millisecond)); d > 0 {
				time.Sleep(d)
			}
		}
		if shape == "use,tick,restart,use" {
			if err := e.d.Restart(40 * time.Second); err != nil {
				return fmt.Errorf("restart failed: %w", err)
			}
			e.res.count("daemon_restarts")
			if err := e.m.WaitRoute(e.d.ID, 60*time.Second); err != nil {
				return err
			}
			for i := 0; i < 100; i++ { // the mesh path to the control service must work again before the replays
				k, err := ctl.Dial("mesh", e.d, e.m, 5*time.Second)
				if err == nil {
					k.Close()

					break
				}
				time.Sleep(200 * time.Millisecond)
			}
		}
		for _, r := range runs {
			if !r.ok {
				continue
			}
			rr := r
			class := "expired_replay"
			if shape == "use,use" {
				class = "valid_reuse"
			} else if shape == "use,tick,restart,use" {
				class = "expired_replay_after_restart"
			}
			if err := e.seqUse(r.last, class, func() (string, string) {
				return rr.tok, fmt.Sprintf("the identical string accepted before for %s over %s; now %.1f s past its expiry", rr.first.Cmd, rr.first.Conn, time.Since(rr.exp).Seconds())
			}, seed); err != nil {
				return err
			}
			e.res.count("seq_" + class)
			if !e.lastObserved && class != "valid_reuse" {
				e.res.count("seq_replays_refused")
			}
			e.distinct[fmt.Sprintf("seq|%s|%s|%s|%s|%s", shape, r.first.Cmd, r.first.Conn, r.last.Cmd, r.last.Conn)] = true
		}
	}

	return nil
}

// newVerifyingUnit submits a unit of the verifying type over the Unix socket and waits until it runs and has output.
func (e *env15) newVerifyingUnit() (string, error) {
	delete(e.cur, "verifying")
	id, err := e.ensureUnit("verifying")
	delete(e.cur, "verifying") // not shared with the table vectors

	return id, err
}

// runSameConn: on ONE connection a command that carries a valid token (and is accepted), then a command for the same or
// another unit that carries its own token (control: accepted) or NO token: every command is judged by its own token only.
func (e *env15) runSameConn(q seqVec, seed int64) error {
	a, b := q.Steps[0], q.Steps[1]
	u1, err := e.newVerifyingUnit()
	if err != nil {
		return err
	}
	target := u1
	var u2 string
	if b.Unit == "other" {
		if u2, err = e.newVerifyingUnit(); err != nil {
			return err
		}
		target = u2
	}
	defer func() {
		for _, u := range []string{u1, u2} {
			if u != "" {
				_, _ = e.d.Command("work force-release "+u, e.to)
			}
		}
	}()
	tok, _ := e.mint(10 * time.Minute)
	line := func(cmd, unit, token string) string {
		m := map[string]any{"command": "work", "subcommand": cmd}
		switch cmd {
		case "submit":
			m["node"], m["worktype"] = "localhost", "vtype"
		case "results":
			m["unitid"], m["startpos"] = unit, 0
		default:
			m["unitid"] = unit
		}
		if token != "" {
			m["signature"] = token
		}
		j, _ := json.Marshal(m)

		return string(j)
	}
	k, err := ctl.Dial(a.Conn, e.d, e.m, e.to)
	if err != nil {
		return fmt.Errorf("cannot open %s session: %w", a.Conn, err)
	}
	defer k.Close()
	e.res.count("seq_uses")
	e.res.mu.Lock()
	e.res.Evaluations++
	e.res.mu.Unlock()
	if err := k.Send([]byte(line(a.Cmd, u1, tok) + "\n")); err != nil {
		return err
	}
	ra, err := k.ReadLine(e.to)
	if err != nil {
		e.res.inconclusive("no reply to the first command of a same-connection sequence (%s over %s): %v", a.Cmd, a.Conn, err)

		return nil
	}
	if strings.HasPrefix(ra, "ERROR") {
		e.res.violate(fmt.Sprintf("C15:wrongly-refused-%s-%s-verifying-valid", a.Cmd, a.Conn), fmt.Sprintf("%s over %s with a valid token was refused: %s", a.Cmd, a.Conn, trunc(ra, 160)), map[string]any{"sequence": q})

		return nil
	}
	before, err := e.snapshot(target)
	if err != nil {
		return err
	}
	bt := ""
	if b.Tok == "own" {
		bt = tok
	}
	e.res.count("seq_uses")
	e.res.mu.Lock()
	e.res.Evaluations++
	e.res.mu.Unlock()
	lb := line(b.Cmd, target, bt)
	if err := k.Send([]byte(lb + "\n")); err != nil {
		return err
	}
	rb, err := k.ReadLine(e.to)
	if err != nil {
		e.res.inconclusive("no reply to the second command of a same-connection sequence (%s after %s over %s): %v", b.Cmd, a.Cmd, a.Conn, err)

		return nil
	}
	created := ""
	if strings.HasPrefix(rb, "Work unit created with ID ") {
		created = strings.SplitN(strings.TrimPrefix(rb, "Work unit created with ID "), ".", 2)[0]
		_ = k.Send([]byte("in\n"))
		_ = k.CloseWrite()
		_, _ = k.ReadLine(e.to)
	}
	k.Close()
	time.Sleep(150 * time.Millisecond)
	after, err := e.snapshot(target)
	if err != nil {
		return err
	}
	observed := !strings.HasPrefix(rb, "ERROR")
	what := ""
	switch b.Cmd {
	case "submit":
		for u := range after.Units {
			if _, ok := before.Units[u]; !ok {
				observed, what = true, "new unit "+u
				_, _ = e.d.Command("work force-release "+u, e.to)
			}
		}
	case "cancel":
		if before.Units[target] != after.Units[target] {
			observed, what = true, fmt.Sprintf("state %s -> %s", before.Units[target], after.Units[target])
		}
	case "release", "force-release":
		if _, ok := after.Units[target]; !ok {
			observed, what = true, "unit no longer listed"
		}
	}
	if created != "" {
		_, _ = e.d.Command("work force-release "+created, e.to)
	}
	e.distinct[fmt.Sprintf("sameconn|%s|%s|%s|%s|%s", a.Conn, a.Cmd, b.Cmd, b.Tok, b.Unit)] = true
	replay := map[string]any{"sequence": q, "first": trunc(line(a.Cmd, u1, "<valid token>"), 200), "first_reply": trunc(ra, 160), "second": trunc(lb, 200), "second_reply": trunc(rb, 200), "state": what}
	switch {
	case observed && !b.Effect:
		e.res.violate(fmt.Sprintf("C15:unauthorized-%s-%s-verifying-token_of_earlier_command", b.Cmd, a.Conn),
			fmt.Sprintf("on one %s connection, after %s with a valid token, %s for %s unit WITHOUT a token took effect (reply %q; %s): a command must be judged by its own token only",
				a.Conn, a.Cmd, b.Cmd, map[string]string{"same": "the same", "other": "another"}[b.Unit], trunc(rb, 120), what), replay)
	case !observed && b.Effect:
		e.res.violate(fmt.Sprintf("C15:wrongly-refused-%s-%s-verifying-valid-second-command", b.Cmd, a.Conn),
			fmt.Sprintf("on one %s connection, after %s, %s with its own valid token was refused: %s", a.Conn, a.Cmd, b.Cmd, trunc(rb, 160)), replay)
	case b.Effect:
		e.res.count("seq_sameconn_own_token_accepted")
	default:
		e.res.count("seq_sameconn_tokenless_refused")
	}

	return nil
}

// pickSequences: quick keeps the same-command replays (5 commands x 2 connection kinds), a submit token replayed for
// cancel / release / results, a few seeded extra pairs, two reuse-while-valid and two after-restart sequences.
func pickSequences(qs []seqVec, seed int64) []seqVec {
	var out []seqVec
	rng := rand.New(rand.NewSource(seed))
	extra := map[int]bool{}
	for len(extra) < 1 {
		extra[rng.Intn(len(qs))] = true
	}
	for i, q := range qs {
		n := len(q.Steps)
		a, b := q.Steps[0], q.Steps[n-1]
		same := a.Cmd == b.Cmd && a.Conn == b.Conn
		fromSubmit := a.Cmd == "submit" && a.Conn == b.Conn && ((b.Cmd == "cancel" && a.Conn == "tcp") || (b.Cmd == "results" && a.Conn == "mesh"))
		if b.Link == "same" {
			// per connection kind: a tokenless command after status (every command, same unit), after cancel (other unit), after
			// release (other unit), and two controls with an own token
			keep := (b.Tok == "none" && ((a.Cmd == "status" && b.Unit == "same" && b.Cmd != "force-release") || (a.Cmd == "cancel" && b.Unit == "other" && b.Cmd == "release") ||
				(a.Cmd == "release" && b.Cmd == "force-release"))) ||
				(b.Tok == "own" && a.Cmd == "status" && b.Unit == "same" && b.Cmd == "cancel")
			if keep {
				out = append(out, q)
			}

			continue
		}
		switch q.shape() {
		case "use,tick,use":
			if same || fromSubmit || extra[i] {
				out = append(out, q)
			}
		case "use,use":
			if same && a.Cmd == "results" && a.Conn == "tcp" {
				out = append(out, q)
			}
		case "use,tick,restart,use":
			if same && a.Cmd == "results" && a.Conn == "mesh" {
				out = append(out, q)
			}
		}
	}

	return out
}

func seedGhostUnit(dir, id string) error {
	u := filepath.Join(dir, id)
	if err := os.MkdirAll(u, 0o700); err != nil {
		return err
	}
	st := `{"State":2,"Detail":"exit status 0","StdoutSize":6,"WorkType":"ghosttype","ExtraData":null}`
	if err := os.WriteFile(filepath.Join(u, "stdout"), []byte("ghost\n"), 0o600); err != nil {
		return err
	}
	if err := os.WriteFile(filepath.Join(u, "stdin"), []byte(""), 0o600); err != nil {
		return err
	}

	return os.WriteFile(filepath.Join(u, "status"), []byte(st), 0o600)
}

// stratify15 keeps, in every (command, connection kind, work-type class) cell, k token classes that rotate with the
// cell index and the seed (so that every cell is exercised, every token class occurs in many cells, and over seeds the
// rotation covers the whole table), and in the cells the property protects (a verifying type or a signed remote unit
// reached over TCP or the mesh) also the token classes valid and absent.
func stratify15(vecs []vec15, k int, seed int64) []vec15 {
	toks := []string{"absent", "empty", "garbage", "valid", "expired", "other_aud", "other_key", "alg_none", "hs256_pub", "truncated"}
	cells := map[string]int{}
	var names []string
	for _, v := range vecs {
		c := v.Cmd + "|" + v.Conn + "|" + v.Wt
		if _, ok := cells[c]; !ok {
			cells[c] = 0
			names = append(names, c)
		}
	}
	sort.Strings(names)
	for i, c := range names {
		cells[c] = i
	}
	var out []vec15
	for _, v := range vecs {
		protected := v.Conn != "unix" && (v.Wt == "verifying" || v.Wt == "remote_sign" || v.Wt == "remote_sign_polled" || (spellVariants[v.Wt] && v.Base == "verifying"))
		keep := protected && (v.Tok == "valid" || v.Tok == "absent")
		ci := cells[v.Cmd+"|"+v.Conn+"|"+v.Wt]
		for j := 0; j < k && !keep; j++ {
			if toks[(ci*3+int(seed)+j*7)%len(toks)] == v.Tok {
				keep = true
			}
		}
		if keep {
			out = append(out, v)
		}
	}

	return out
}

func init() { commands["c15"] = cmdC15 }

func cmdC15(args []string) {
	fs := flag.NewFlagSet("c15", flag.ExitOnError)
	vecFile := fs.String("vectors", "", "NDJSON vectors from TLC")
	bin := fs.String("receptor", "", "receptor binary")
	work := fs.String("work", "", "scratch directory")
	out := fs.String("out", "result.json", "result file")
	seed := fs.Int64("seed", 1, "seed")
	inst := fs.Int("instances", 1, "concrete instances per vector")
	replayFile := fs.String("replay", "", "replay file of a previous run")
	seqFile := fs.String("seqs", "", "NDJSON token life-cycle sequences from TLC (part c15seq)")
	seqMid := fs.Bool("seqmid", false, "replay the thorough selection of sequences")
	seqAll := fs.Bool("seqall", false, "replay every sequence (default: the quick selection)")
	subset := fs.Int("subset", 0, "0 = all vectors; k = a seeded stratified subset: k rotating token classes in every (command, connection, work type) cell, plus valid and absent in the protected cells")
	_ = fs.Parse(args)
	res := &Result{Counters: map[string]int{}}
	defer func() { res.write(*out) }()
	vecs, err := readNDJSON[vec15](*vecFile)
	if err != nil {
		res.inconclusive("cannot read vectors: %v", err)

		return
	}
	sort.Slice(vecs, func(i, j int) bool {
		a, b := vecs[i], vecs[j]

		return a.Cmd+a.Wt+a.Conn+a.Tok < b.Cmd+b.Wt+b.Conn+b.Tok
	})
	var replaySeqs []seqVec
	if *subset > 0 && *replayFile == "" {
		vecs = stratify15(vecs, *subset, *seed)
	}
	if *replayFile != "" {
		b, err := os.ReadFile(*replayFile)
		var rp struct {
			Replay struct {
				Vector vec15 `json:"vector"`
			} `json:"replay"`
		}
		if err != nil || json.Unmarshal(b, &rp) != nil || rp.Replay.Vector.Cmd == "" {
			res.inconclusive("cannot read replay %s", *replayFile)

			return
		}
		vecs = []vec15{rp.Replay.Vector}
		*inst = 6
		if t := rp.Replay.Vector.Tok; t == "expired_replay" || t == "expired_replay_after_restart" || t == "valid_reuse" || t == "seq_first_use" {
			// a violation of the sequence phase: replay it as the sequence "same command while valid, then again"
			a := seqStep{Op: "use", Cmd: rp.Replay.Vector.Cmd, Conn: rp.Replay.Vector.Conn, Effect: true}
			b := a
			b.Effect = t == "valid_reuse" || t == "seq_first_use"
			steps := []seqStep{a, {Op: "tick"}, b}
			if t == "expired_replay_after_restart" {
				steps = []seqStep{a, {Op: "tick"}, {Op: "restart"}, b}
			}
			if b.Effect {
				steps = []seqStep{a, b}
			}
			replaySeqs = []seqVec{{Steps: steps}, {Steps: steps}}
			vecs = nil
		}
	}
	dir := filepath.Join(*work, "c15")
	_ = os.RemoveAll(dir)
	_ = os.MkdirAll(dir, 0o700)
	k1, err := ctl.NewKeyPair(dir, "k1")
	if err == nil {
		_, err = ctl.NewKeyPair(dir, "k3")
	}
	k2, err2 := ctl.NewKeyPair(dir, "k2")
	if err != nil || err2 != nil {
		res.inconclusive("key generation failed: %v %v", err, err2)

		return
	}
	port := ctl.FreePort()
	long := `-c "echo out-$$; exec sleep 900"`
	d := ctl.NewDaemon(*bin, filepath.Join(dir, "d"), "c15d", true, nil,
		ctl.Item{"tcp-listener": map[string]any{"port": port, "bindaddr": "127.0.0.1"}},
		ctl.Item{"work-signing": map[string]any{"privatekey": filepath.Join(dir, "k3.key"), "tokenexpiration": "30m"}},
		ctl.Item{"work-verification": map[string]any{"publickey": k1.PubFile}},
		ctl.Item{"work-command": map[string]any{"worktype": "vtype", "command": "sh", "params": long, "verifysignature": true}},
		ctl.Item{"work-command": map[string]any{"worktype": "ntype", "command": "sh", "params": long}},
	)
	// the second daemon is also an executor: it runs the signed work type xtype (unknown on d) for d's signed remote units
	m := ctl.NewDaemon(*bin, filepath.Join(dir, "m"), "c15m", false, nil,
		ctl.Item{"tcp-peer": map[string]any{"address": fmt.Sprintf("127.0.0.1:%d", port)}},
		ctl.Item{"work-verification": map[string]any{"publickey": filepath.Join(dir, "k3.pub")}},
		ctl.Item{"work-command": map[string]any{"worktype": "xtype", "command": "sh", "params": long, "verifysignature": true}},
	)
	e := &env15{d: d, m: m, res: res, k1: k1, k2: k2, cur: map[string]string{}, to: 20 * time.Second, allUnits: map[string]bool{}, distinct: map[string]bool{}}
	nGhost := 130 * *inst
	for i := 0; i < nGhost; i++ {
		id := fmt.Sprintf("ghost%03d", i)
		if err := seedGhostUnit(d.UnitsDir(), id); err != nil {
			res.inconclusive("cannot pre-seed unit: %v", err)

			return
		}
		e.ghosts = append(e.ghosts, id)
	}
	defer func() {
		for u := range e.allUnits {
			if d.Alive() {
				_, _ = d.Command("work force-release "+u, 5*time.Second)
			}
		}
		m.Cleanup()
		d.Cleanup()
	}()
	if err := d.Start(30 * time.Second); err != nil {
		res.inconclusive("cannot start daemon: %v", err)

		return
	}
	if err := m.Start(30 * time.Second); err != nil {
		res.inconclusive("cannot start second daemon: %v", err)

		return
	}
	if err := m.WaitRoute(d.ID, 40*time.Second); err != nil {
		res.inconclusive("mesh did not form: %v", err)

		return
	}
	// sanity of the environment: the connection kinds are what the vectors call them
	for _, kind := range []string{"unix", "tcp", "mesh"} {
		k, err := ctl.Dial(kind, d, m, 20*time.Second)
		if err != nil {
			res.inconclusive("cannot open a %s session: %v", kind, err)

			return
		}
		_ = k.Send([]byte(`{"command":"status","requested_fields":["NodeID"]}` + "\n"))
		l, err := k.ReadLine(20 * time.Second)
		k.Close()
		if err != nil || !strings.Contains(l, d.ID) {
			res.inconclusive("%s session does not reach %s: %q %v", kind, d.ID, l, err)

			return
		}
	}
	for i := 0; i < *inst; i++ {
		for _, v := range vecs {
			if !d.Alive() {
				res.inconclusive("daemon died: %v %s", d.ExitErr(), trunc(d.LogTail(800), 800))

				return
			}
			if res.Counters["violations"] >= 40 {
				res.note("stopped after %d violations", res.Counters["violations"])
				res.Distinct = len(e.distinct)

				return
			}
			if err := e.runVector(v, i, *seed); err != nil {
				res.inconclusive("environment failure at vector %v: %v", v, err)

				return
			}
		}
	}
	res.add("vectors", len(vecs))
	if len(replaySeqs) > 0 {
		if err := e.runSequences(replaySeqs, *seed); err != nil {
			res.inconclusive("environment failure in the sequence replay: %v", err)
		}
	}
	if *seqFile != "" && *replayFile == "" {
		qs, err := readNDJSON[seqVec](*seqFile)
		if err != nil {
			res.inconclusive("cannot read sequences: %v", err)

			return
		}
		sort.Slice(qs, func(i, j int) bool { return fmt.Sprint(qs[i]) < fmt.Sprint(qs[j]) })
		if *seqMid {
			// thorough: every same-connection sequence; of the expiry / restart / reuse shapes those whose two commands are the same
			// or whose token was first used for submit (all five commands, both connection kinds)
			var keep []seqVec
			for _, q := range qs {
				a, b := q.Steps[0], q.Steps[len(q.Steps)-1]
				if b.Link == "same" || (a.Cmd == b.Cmd && a.Conn == b.Conn) || (a.Cmd == "submit" && a.Conn == b.Conn) {
					keep = append(keep, q)
				}
			}
			qs = keep
		} else if !*seqAll {
			qs = pickSequences(qs, *seed)
		}
		res.add("sequences", len(qs))
		if err := e.runSequences(qs, *seed); err != nil {
			res.inconclusive("environment failure in the sequence phase: %v", err)
		}
	}
	res.Distinct = len(e.distinct)
}
