package main

import (
	"encoding/json"
	"flag"
	"fmt"
	"math/rand"
	"os"
	"path/filepath"
	"sort"
	"strings"
	"sync"
	"time"

	"verif/harness/ctl"
)

// C08: every line class of specs/ControlSession.tla (part "lines") and every session pair (part "sessions") is
// concretised into bytes and sent to a real daemon.  Oracle: the process stays alive, the replies have the class the
// spec states, the session goes on when the spec says so, and after every input a probe (status + work list) on a
// FRESH session is answered.

type lineClass struct {
	Fam   string `json:"fam"`
	ID    string `json:"id"`
	Cmd   string `json:"cmd"`
	Sub   string `json:"sub"`
	N     int    `json:"n"`
	Arg   string `json:"arg"`
	Field string `json:"field"`
	Ftype string `json:"ftype"`
	Val   string `json:"val"`
	UID   string `json:"uid"`
	Form  string `json:"form"`
}

type lineExpect struct {
	Reply  string `json:"reply"`
	First  string `json:"first"`
	Cont   bool   `json:"cont"`
	Closes bool   `json:"closes"`
}

type lineVec struct {
	Class      lineClass  `json:"class"`
	Expect     lineExpect `json:"expect"`
	Wellformed bool       `json:"wellformed"`
	Lenient    bool       `json:"lenient"`
	Kind       string     `json:"kind"`
}

type sessVec struct {
	A       []string `json:"a"`
	B       []string `json:"b"`
	ExpectA []string `json:"expect_a"`
	ExpectB []string `json:"expect_b"`
}

func (c lineClass) key() string {
	p := []string{c.Fam}
	switch c.Fam {
	case "raw", "eof":
		p = append(p, c.ID)
	case "plain":
		p = append(p, c.Cmd)
		if c.Sub != "-" {
			p = append(p, c.Sub)
		}
		p = append(p, fmt.Sprintf("n%d", c.N))
		if c.Arg != "-" {
			p = append(p, c.Arg)
		}
	case "json":
		p = append(p, c.Cmd)
		if c.Sub != "-" {
			p = append(p, c.Sub)
		}
		p = append(p, c.Field, c.Ftype)
		if c.Val != "-" {
			p = append(p, c.Val)
		}
	case "uid":
		p = append(p, c.Form, c.Sub, c.UID)
	}

	return strings.Join(p, "-")
}

// wedgeSig names the finding when the daemon stops answering after this class.
func (c lineClass) wedgeSig() string {
	switch c.UID {
	case "diskonly":
		return "C08:probe-timeout-after-" + c.Sub + "-of-disk-only-unit"
	case "nostatus":
		return "C08:probe-timeout-after-" + c.Sub + "-of-statusless-dir"
	}

	return "C08:probe-timeout-after-" + c.key()
}

type unitIDs struct{ U, D, N string }

type env08 struct {
	d         *ctl.Daemon
	res       *Result
	seed      int64
	kinds     []string // connection kinds to use
	pool      []string
	poolMu    sync.Mutex
	shared    string // a completed unit that is never released
	tmplDir   string // copy of a completed unit's directory
	created   []string
	crMu      sync.Mutex
	wedged    map[string]int // wedge signature -> confirmations
	wMu       sync.Mutex
	probeTO   time.Duration
	replyTO   time.Duration
	suspect   time.Duration
	allWedges bool // exercise every disk-only class even after the first confirmed wedge
	byKind    map[string][]lineVec
	distinct  map[string]bool
	dMu       sync.Mutex
}

const alnum = "abcdefghijklmnopqrstuvwxyzABCDEFGHIJKLMNOPQRSTUVWXYZ0123456789"

func randID(rng *rand.Rand, n int) string {
	b := make([]byte, n)
	for i := range b {
		b[i] = alnum[rng.Intn(len(alnum))]
	}

	return string(b)
}

func (e *env08) startDaemon() error {
	if err := e.d.Start(30 * time.Second); err != nil {
		return err
	}

	return nil
}

// makeUnits creates n completed units of type echo concurrently.
func (e *env08) makeUnits(n int) ([]string, error) {
	ids := make([]string, n)
	errs := make([]error, n)
	var wg sync.WaitGroup
	sem := make(chan struct{}, 12)
	for i := 0; i < n; i++ {
		wg.Add(1)
		go func(i int) {
			defer wg.Done()
			sem <- struct{}{}
			defer func() { <-sem }()
			id, _, err := e.d.Submit(map[string]string{"node": "localhost", "worktype": "echo"}, "hello\n", 30*time.Second)
			if err == nil {
				_, err = e.d.WaitUnitState(id, 60*time.Second, "Succeeded")
			}
			if err == nil {
				// the daemon clears ExtraData when it has reaped the runner; releasing before that races with its last status write
				for t := 0; t < 200; t++ {
					l, cerr := e.d.Command("work status "+id, 10*time.Second)
					if cerr == nil && strings.Contains(l, `"ExtraData":null`) {
						break
					}
					time.Sleep(25 * time.Millisecond)
				}
			}
			ids[i], errs[i] = id, err
		}(i)
	}
	wg.Wait()
	for _, err := range errs {
		if err != nil {
			return nil, err
		}
	}

	return ids, nil
}

func (e *env08) takeUnit() (string, error) {
	e.poolMu.Lock()
	defer e.poolMu.Unlock()
	if len(e.pool) == 0 {
		ids, err := e.makeUnits(24)
		if err != nil {
			return "", err
		}
		e.pool = ids
		e.res.add("units_created", len(ids))
	}
	id := e.pool[len(e.pool)-1]
	e.pool = e.pool[:len(e.pool)-1]

	return id, nil
}

func copyFile(from, to string) error {
	b, err := os.ReadFile(from)
	if err != nil {
		return err
	}

	return os.WriteFile(to, b, 0o600)
}

// newDiskOnly makes a unit directory with status, stdin and stdout that the running daemon has never seen.
func (e *env08) newDiskOnly(rng *rand.Rand) (string, error) {
	id := "D" + randID(rng, 7)
	dir := filepath.Join(e.d.UnitsDir(), id)
	if err := os.MkdirAll(dir, 0o700); err != nil {
		return "", err
	}
	for _, f := range []string{"stdin", "stdout", "status"} { // status last: a directory without it is ignored
		if err := copyFile(filepath.Join(e.tmplDir, f), filepath.Join(dir, f)); err != nil {
			return "", err
		}
	}

	return id, nil
}

func (e *env08) newStatusless(rng *rand.Rand) (string, error) {
	id := "N" + randID(rng, 7)

	return id, os.MkdirAll(filepath.Join(e.d.UnitsDir(), id), 0o700)
}

// ---------------------------------------------------------------- concretiser

type kv struct {
	k string
	v string // raw JSON
}

func jstr(s string, rng *rand.Rand) string {
	b, _ := json.Marshal(s)
	if rng.Intn(4) != 0 || len(s) == 0 {
		return string(b)
	}
	// escape one ASCII letter as \u00XX: same string after decoding, different bytes
	i := rng.Intn(len(s))
	if s[i] < 'A' || s[i] > 'z' {
		return string(b)
	}
	pre, _ := json.Marshal(s[:i])
	post, _ := json.Marshal(s[i+1:])

	return string(pre[:len(pre)-1]) + fmt.Sprintf("\\u%04x", s[i]) + string(post[1:])
}

func renderJSON(fields []kv, rng *rand.Rand) string {
	rng.Shuffle(len(fields), func(i, j int) { fields[i], fields[j] = fields[j], fields[i] })
	sp := func() string {
		switch rng.Intn(5) {
		case 0:
			return " "
		case 1:
			return "\t"
		}

		return ""
	}
	var b strings.Builder
	b.WriteString("{" + sp())
	for i, f := range fields {
		if i > 0 {
			b.WriteString("," + sp())
		}
		b.WriteString(jstr(f.k, rng) + sp() + ":" + sp() + f.v)
	}
	b.WriteString(sp() + "}")

	return b.String()
}

func randNumber(rng *rand.Rand) string {
	return []string{"0", "7", "-3", "2.5", "1e2", "12345678901234567890", "0.0", "-0", "4E-2"}[rng.Intn(9)]
}

func typedValue(t string, rng *rand.Rand) string {
	switch t {
	case "number":
		return randNumber(rng)
	case "bool":
		return []string{"true", "false"}[rng.Intn(2)]
	case "null":
		return "null"
	case "array":
		return []string{"[]", "[1,\"a\"]", "[[]]", "[null]"}[rng.Intn(4)]
	case "object":
		return []string{"{}", "{\"a\":1}", "{\"command\":\"status\"}"}[rng.Intn(3)]
	}

	return "null"
}

func words(rng *rand.Rand) string {
	n := 1 + rng.Intn(3)
	w := make([]string, n)
	for i := range w {
		w[i] = randID(rng, 1+rng.Intn(6))
	}

	return strings.Join(w, " ")
}

func (e *env08) uidValue(class string, ids unitIDs, rng *rand.Rand, plain bool) string {
	switch class {
	case "existing":
		return ids.U
	case "unknown":
		return randID(rng, 8)
	case "diskonly":
		return ids.D
	case "nostatus":
		return ids.N
	case "dotdot":
		return []string{"..", "../..", "../../../../../../etc", "../" + e.d.ID + "/.."}[rng.Intn(4)]
	case "dot":
		return []string{".", "./.", "./"}[rng.Intn(3)]
	case "slash":
		return []string{"/", "//", "/etc", "a/b", "/" + ids.U + "x"}[rng.Intn(5)]
	case "empty":
		return ""
	case "trav_existing":
		return []string{"../" + e.d.ID + "/" + ids.U, ids.U + "/", "./" + ids.U, ids.U + "/../" + ids.U}[rng.Intn(4)]
	case "long":
		return randID(rng, 2048+rng.Intn(4096))
	case "binary":
		return []string{"\x00\x01\x02", "ÿ x", "a\tb", "\x7f\x1b[2J", "%00%2e%2e"}[rng.Intn(5)]
	}

	return "x"
}

func caseMix(s string, rng *rand.Rand) string {
	if rng.Intn(3) != 0 {
		return s
	}
	b := []byte(s)
	for i := range b {
		if rng.Intn(2) == 0 && b[i] >= 'a' && b[i] <= 'z' {
			b[i] -= 32
		}
	}

	return string(b)
}

// buildLine returns the bytes of the line (no terminator) for a class.
func (e *env08) buildLine(c lineClass, ids unitIDs, rng *rand.Rand) []byte {
	self := e.d.ID
	switch c.Fam {
	case "raw":
		return e.rawLine(c.ID, rng)
	case "eof":
		switch c.ID {
		case "eof_now":
			return nil
		case "eof_partial_valid":
			return []byte(caseMix("status", rng))
		case "eof_partial_invalid":
			return []byte("bogus " + words(rng))
		case "eof_partial_badjson":
			return []byte([]string{`{"command":`, `{"command":"status"`, `{`}[rng.Intn(3)])
		case "eof_partial_long":
			return []byte(strings.Repeat("x", 65536+rng.Intn(100)))
		case "abort_midline":
			return []byte([]string{"stat", `{"command":"sta`, "work li", "\x00\x00"}[rng.Intn(4)])
		case "abort_after_valid":
			return []byte("status\n")
		}
	case "plain":
		cmd := caseMix(c.Cmd, rng)
		if c.Cmd == "work" && c.Sub != "-" {
			cmd += " " + caseMix(c.Sub, rng)
		}
		var args []string
		switch c.Arg {
		case "-":
		case "unknown_node":
			args = []string{"ghost" + randID(rng, 4)}
		case "self":
			args = []string{self}
		case "words":
			for i := 0; i < c.N; i++ {
				args = append(args, randID(rng, 1+rng.Intn(5)))
			}
		case "self_control":
			args = []string{self, "control"}
		case "self_nosvc":
			args = []string{self, "nosvc" + randID(rng, 3)}
		case "self_control_badtls":
			args = []string{self, "control", "notls" + randID(rng, 3)}
		case "local_known":
			args = []string{[]string{"localhost", self, "LocalHost"}[rng.Intn(3)], "echo"}
		case "local_unknown_type":
			args = []string{"localhost", "nosuch" + randID(rng, 3)}
		case "local_known_params":
			args = []string{"localhost", "echo", randID(rng, 4)}
		case "local_noparams_type":
			args = []string{"localhost", "fixed", randID(rng, 4)}
		case "existing_extra":
			args = []string{ids.U}
			for len(args) < c.N {
				args = append(args, randID(rng, 3))
			}
		case "existing_pos0":
			args = []string{ids.U, []string{"0", "3", "+0", "00"}[rng.Intn(4)]}
		case "existing_posbad":
			args = []string{ids.U, []string{"x", "1.5", "0x10", "1e3", "9223372036854775808", ""}[rng.Intn(6)]}
		case "existing_posneg":
			args = []string{ids.U, []string{"-1", "-9223372036854775808"}[rng.Intn(2)]}
		case "existing_poshuge":
			args = []string{ids.U, "9223372036854775807"}
		}
		if c.Cmd == "connect" && c.Arg == "unknown_node" {
			args = []string{"ghost" + randID(rng, 4), "control"}
		}
		if len(args) == 0 {
			return []byte(cmd)
		}

		return []byte(cmd + " " + strings.Join(args, " "))
	case "uid":
		u := e.uidValue(c.UID, ids, rng, c.Form == "plain")
		if c.Form == "plain" {
			l := caseMix("work", rng) + " " + caseMix(c.Sub, rng) + " " + u
			return []byte(l)
		}
		f := []kv{{"command", jstr("work", rng)}, {"subcommand", jstr(caseMix(c.Sub, rng), rng)}, {"unitid", jstr(u, rng)}}
		if c.Sub == "results" {
			f = append(f, kv{"startpos", []string{"0", "0.0", "1", "0e0"}[rng.Intn(4)]})
		}

		return []byte(renderJSON(f, rng))
	case "json":
		return []byte(e.jsonLine(c, ids, rng))
	}

	return []byte("status")
}

func (e *env08) rawLine(id string, rng *rand.Rand) []byte {
	noNL := func(b []byte) []byte {
		for i := range b {
			if b[i] == '\n' {
				b[i] = 0x0b
			}
		}

		return b
	}
	rb := func(n int) []byte {
		b := make([]byte, n)
		rng.Read(b)

		return noNL(b)
	}
	switch id {
	case "empty":
		return []byte{}
	case "cr_only":
		return []byte(strings.Repeat("\r", 1+rng.Intn(3)))
	case "blank":
		return []byte(strings.Repeat(" ", 1+rng.Intn(4)))
	case "binary":
		b := rb(1 + rng.Intn(300))
		if b[0] == '{' || b[0] == '\r' {
			b[0] = 0xfe
		}
		// make sure the first token is not a command name by accident
		return append([]byte{0x01}, b...)
	case "binary_brace":
		return append([]byte{'{', 0x00}, rb(rng.Intn(300))...)
	case "long_plain":
		return []byte(strings.Repeat("x", 65536+rng.Intn(2000)))
	case "long_brace":
		return []byte("{" + strings.Repeat("\"", 65536+rng.Intn(2000)))
	case "long_valid_json":
		return []byte(`{"command":"status","requested_fields":["NodeID"],"pad":"` + strings.Repeat("y", 65536+rng.Intn(2000)) + `"}`)
	case "json_trailing":
		return []byte(`{"command":"status"}` + []string{" x", "}", "{}", ",", "\x00"}[rng.Intn(5)])
	case "json_array":
		return []byte([]string{`[1,2]`, `["status"]`, `"status"`, `null`, `5`, `true`}[rng.Intn(6)])
	case "json_truncated":
		return []byte([]string{`{"command":"status"`, `{"command":"sta`, `{"command"`, `{"`, `{`}[rng.Intn(5)])
	case "json_no_command":
		return []byte([]string{`{"x":1}`, `{"Command":"status"}`, `{"subcommand":"list"}`, `{"commands":"status"}`}[rng.Intn(4)])
	case "json_command_number":
		return []byte(`{"command":` + randNumber(rng) + `}`)
	case "json_command_null":
		return []byte(`{"command":null}`)
	case "json_command_bool":
		return []byte(`{"command":` + typedValue("bool", rng) + `}`)
	case "json_command_array":
		return []byte(`{"command":["status"]}`)
	case "json_command_object":
		return []byte(`{"command":{"command":"status"}}`)
	case "json_command_unknown":
		return []byte(`{"command":` + jstr("nosuch"+randID(rng, 3), rng) + `}`)
	case "json_command_upper":
		return []byte([]string{`{"command":"STATUS"}`, `{"command":"Work","subcommand":"list"}`, `{"command":" status"}`}[rng.Intn(3)])
	case "json_empty_object":
		return []byte([]string{`{}`, `{ }`}[rng.Intn(2)])
	case "plain_unknown":
		return []byte("zz" + randID(rng, 5))
	case "plain_unknown_args":
		return []byte("zz" + randID(rng, 5) + " " + words(rng))
	case "plain_upper_status":
		return []byte([]string{"STATUS", "Status", "sTaTuS"}[rng.Intn(3)])
	case "tab_sep":
		return []byte([]string{"work\tlist", "status\t", "\tstatus", "ping\tx"}[rng.Intn(4)])
	case "utf8_bom":
		return []byte("\xef\xbb\xbf" + []string{"status", `{"command":"status"}`}[rng.Intn(2)])
	case "json_deep":
		n := 20000 + rng.Intn(1000)
		return []byte(`{"command":` + strings.Repeat("[", n))
	case "json_dup_command":
		return []byte(`{"command":"nosuch","command":"status"}`)
	}

	return []byte("zzz")
}

func (e *env08) jsonLine(c lineClass, ids unitIDs, rng *rand.Rand) string {
	self := e.d.ID
	f := []kv{{"command", jstr(c.Cmd, rng)}}
	set := func(k, raw string) {
		for i := range f {
			if f[i].k == k {
				f[i].v = raw

				return
			}
		}
		f = append(f, kv{k, raw})
	}
	del := func(k string) {
		for i := range f {
			if f[i].k == k {
				f = append(f[:i], f[i+1:]...)

				return
			}
		}
	}
	if c.Cmd == "work" && c.Sub != "-" {
		set("subcommand", jstr(caseMix(c.Sub, rng), rng))
	}
	// valid defaults
	switch {
	case c.Cmd == "connect":
		set("node", jstr(self, rng))
		set("service", jstr("control", rng))
	case c.Cmd == "work" && c.Sub == "submit":
		set("node", jstr("localhost", rng))
		set("worktype", jstr("echo", rng))
	case c.Cmd == "work" && c.Sub == "list":
	case c.Cmd == "work" && c.Sub == "results":
		set("unitid", jstr(ids.U, rng))
		set("startpos", "0")
	case c.Cmd == "work" && c.Sub != "-":
		set("unitid", jstr(ids.U, rng))
	}
	field := c.Field
	if field == "extra" {
		field = "x" + randID(rng, 4)
	}
	if field == "anything" {
		field = "y" + randID(rng, 4)
	}
	switch c.Ftype {
	case "absent":
		del(field)
	case "string":
		var v string
		switch c.Val {
		case "ok":
			switch c.Field {
			case "node":
				if c.Cmd == "connect" {
					v = self
				} else {
					v = "localhost"
				}
			case "service":
				v = "control"
			case "worktype":
				v = "echo"
			case "unitid":
				v = ids.U
			}
		case "unknown_node":
			v = "ghost" + randID(rng, 4)
		case "self":
			v = self
		case "emptystr":
			v = ""
		case "unknown_service":
			v = "nosvc" + randID(rng, 3)
		case "unknown_tls":
			v = "notls" + randID(rng, 3)
		case "bogus":
			v = "bogus" + randID(rng, 3)
		case "upper_list":
			v = []string{"LIST", "List", "lisT"}[rng.Intn(3)]
		case "upper_localhost":
			v = []string{"LOCALHOST", "LocalHost"}[rng.Intn(2)]
		case "unknown_type":
			v = "nosuch" + randID(rng, 3)
		case "remote":
			v = "remote"
		case "1h":
			v = "1h"
		case "garbage":
			v = randID(rng, 1+rng.Intn(40))
		case "true":
			v = []string{"true", "false"}[rng.Intn(2)]
		case "words":
			v = words(rng)
		case "digits":
			v = []string{"0", "5", "-1"}[rng.Intn(3)]
		}
		set(field, jstr(v, rng))
	case "array":
		switch c.Val {
		case "strings":
			set(field, []string{`["NodeID"]`, `["NodeID","Version"]`, `["Connections","RoutingTable","Advertisements","KnownConnectionCosts","SystemCPUCount","SystemMemoryMiB"]`}[rng.Intn(3)])
		case "empty":
			set(field, "[]")
		case "unknown_names":
			set(field, `["`+randID(rng, 5)+`",""]`)
		default:
			set(field, []string{`["NodeID",5]`, `[null]`, `[["NodeID"]]`, `[{"a":1}]`, `[true,"NodeID"]`}[rng.Intn(5)])
		}
	default:
		set(field, typedValue(c.Ftype, rng))
	}
	// an ignored extra field on commands that tolerate unknown keys
	if !(c.Cmd == "work" && c.Sub == "submit") && rng.Intn(3) == 0 {
		f = append(f, kv{"z" + randID(rng, 3), typedValue([]string{"number", "bool", "null", "array", "object"}[rng.Intn(5)], rng)})
	}

	return renderJSON(f, rng)
}

// ---------------------------------------------------------------- running one line

type lineObs struct {
	Sent      string   `json:"sent"`
	Replies   []string `json:"replies"`
	full      []string
	nonce     string
	payload   string
	stage     int
	delimSent bool
	Class     string `json:"reply_class"`
	Closed    bool   `json:"closed"`
	TimedOut  bool   `json:"timed_out"`
	Created   string `json:"created,omitempty"`
	ContOK    bool   `json:"cont_ok"`
	SendError string `json:"send_error,omitempty"`
}

func trunc(s string, n int) string {
	if len(s) > n {
		return s[:n] + fmt.Sprintf("...(%d bytes)", len(s))
	}

	return s
}

func classify(replies []string) string {
	switch {
	case len(replies) == 0:
		return "none"
	case len(replies) == 1 && strings.HasPrefix(replies[0], "ERROR"):
		return "error"
	case len(replies) == 2 && strings.HasPrefix(replies[0], "ERROR") && strings.HasPrefix(replies[1], "ERROR"):
		return "error2" // two ERROR lines for one request (the behaviour of the JSON branch as found): no class of the spec
	case len(replies) == 1 && strings.HasPrefix(replies[0], "{"):
		var m map[string]any
		if json.Unmarshal([]byte(replies[0]), &m) == nil {
			return "json"
		}

		return "badjson"
	}

	return "other"
}

// sendLine sends one concrete line on an open session and observes the answer.  For classes after which the session
// goes on, a delimiter command (an unknown TLS profile name that is echoed back, handled without any lock) marks the
// end of the answer, so that no timing is involved in classifying it.  When nothing arrives within e.suspect the
// observation is returned with TimedOut set; the caller checks the daemon's health and then calls collect again with
// the long deadline.
func (e *env08) sendLine(k *ctl.Conn, v lineVec, line []byte, rng *rand.Rand) lineObs {
	o := lineObs{Sent: trunc(string(line), 300)}
	term := "\n"
	if rng.Intn(4) == 0 {
		term = "\r\n"
	}
	c := v.Class
	o.nonce = "DL" + randID(rng, 10)
	o.payload = "payload " + randID(rng, 5) + "\n"
	if c.Fam == "eof" {
		if err := k.Send(line); err != nil {
			o.SendError = err.Error()
		}
		switch c.ID {
		case "abort_midline", "abort_after_valid":
			k.Abort()
			o.Closed, o.Class, o.stage = true, "none", 9

			return o
		}
		_ = k.CloseWrite()
		o.stage = 5
		e.collect(k, &o, e.suspect)

		return o
	}
	if err := k.Send(append(append([]byte{}, line...), term...)); err != nil {
		o.SendError = err.Error()
	}
	if v.Expect.Reply != "stream" {
		e.sendDelimiter(k, &o)
	}
	e.collect(k, &o, e.suspect)

	return o
}

func (e *env08) sendDelimiter(k *ctl.Conn, o *lineObs) {
	if o.delimSent {
		return
	}
	o.delimSent = true
	// JSON form: it does not depend on how the session treats a plain line after a JSON line, which is what phase "mixed" judges
	if err := k.Send([]byte(`{"command":"connect","node":"x","service":"y","tls":"` + o.nonce + `"}` + "\n")); err != nil {
		o.SendError = err.Error()
	}
}

// collect reads the answer; it can be called again after a timeout.  Stages: 0 first line, 1 lines up to the
// delimiter's answer, 2 nested greeting after Connecting, 3 result line after a submit, 4 wait for the server's close,
// 5 lines up to EOF (the client has half-closed), 9 done.
func (e *env08) collect(k *ctl.Conn, o *lineObs, wait time.Duration) {
	o.TimedOut = false
	deadline := time.Now().Add(wait)
	want := "ERROR: unknown TLS config " + o.nonce
	for o.stage != 9 {
		if o.stage == 4 {
			if !k.WaitEOF(time.Until(deadline)) {
				o.TimedOut = true

				return
			}
			o.Closed = true
			o.stage = 9

			break
		}
		l, err := k.ReadLine(time.Until(deadline))
		if err == ctl.ErrDeadline {
			o.TimedOut = true

			return
		}
		if err != nil { // EOF
			o.Closed = true
			if o.Class == "" {
				o.Class = classify(o.full)
			}
			o.stage = 9

			break
		}
		switch o.stage {
		case 0:
			switch {
			case strings.HasPrefix(l, "Connecting"):
				o.Class, o.stage = "stream", 2
			case strings.HasPrefix(l, "Work unit created with ID "):
				o.Class, o.stage = "stream", 3
				o.Created = strings.SplitN(strings.TrimPrefix(l, "Work unit created with ID "), ".", 2)[0]
				_ = k.Send([]byte(o.payload))
				_ = k.CloseWrite()
			case strings.HasPrefix(l, "Streaming results for work unit "):
				o.Class, o.stage = "stream", 4
			case l == want:
				o.ContOK = true
				o.Class = classify(o.full)
				o.stage = 9

				continue
			default:
				e.sendDelimiter(k, o)
				o.stage = 1
			}
			o.Replies = append(o.Replies, trunc(l, 300))
			o.full = append(o.full, l)
		case 1:
			if l == want {
				o.ContOK = true
				o.Class = classify(o.full)
				o.stage = 9

				continue
			}
			o.Replies = append(o.Replies, trunc(l, 300))
			o.full = append(o.full, l)
		case 2:
			o.Replies = append(o.Replies, trunc(l, 300))
			if !strings.HasPrefix(l, "Receptor Control, node ") {
				o.Class = "stream-without-greeting"
			}
			o.stage = 9
		case 3:
			o.Replies = append(o.Replies, trunc(l, 300))
			if !strings.HasPrefix(l, "{") {
				o.Class = "stream-without-result"
			}
			o.stage = 4
		case 5:
			o.Replies = append(o.Replies, trunc(l, 300))
			o.full = append(o.full, l)
		}
	}
	if o.Class == "" {
		o.Class = classify(o.full)
	}
}

// probe asks status and work list on a fresh Unix session.
func (e *env08) probeOnce() (bool, string) {
	k, err := ctl.DialUnix(e.d.Sock, e.probeTO)
	if err != nil {
		return false, "fresh session: " + err.Error()
	}
	defer k.Close()
	for _, cmd := range []string{"status", "work list"} {
		if err := k.Send([]byte(cmd + "\n")); err != nil {
			return false, cmd + ": " + err.Error()
		}
		l, err := k.ReadLine(e.probeTO)
		if err != nil {
			return false, fmt.Sprintf("%s not answered within %v (%v)", cmd, e.probeTO, err)
		}
		if !strings.HasPrefix(l, "{") {
			if cmd == "work list" && strings.HasPrefix(l, "ERROR: unknown work unit ") {
				// answered: the list raced with the release of a unit (ids are collected first, looked up afterwards)
				e.res.count("probe_list_raced_with_release")

				continue
			}

			return false, cmd + " answered " + trunc(l, 200)
		}
	}

	return true, ""
}

type health int

const (
	healthy health = iota
	crashed
	wedgedH
)

// exitedSoon waits a moment for a dying process to be reaped.
func (e *env08) exitedSoon(d time.Duration) bool {
	end := time.Now().Add(d)
	for time.Now().Before(end) {
		if !e.d.Alive() {
			return true
		}
		time.Sleep(20 * time.Millisecond)
	}

	return !e.d.Alive()
}

func (e *env08) crashText() string {
	log := e.d.LogTail(6000)
	if i := strings.LastIndex(log, "panic:"); i >= 0 {
		log = log[i:]
	}

	return fmt.Sprintf("process exited: %v; %s", e.d.ExitErr(), trunc(log, 700))
}

// checkHealth runs the probe (re-confirmed once on failure) and tells what state the daemon is in.
func (e *env08) checkHealth() (health, string) {
	if !e.d.Alive() {
		return crashed, e.crashText()
	}
	e.res.count("probes")
	ok, why := e.probeOnce()
	if ok {
		return healthy, ""
	}
	if e.exitedSoon(2 * time.Second) {
		return crashed, e.crashText()
	}
	ok, why2 := e.probeOnce()
	if ok {
		e.res.count("probe_slow_then_ok")

		return healthy, ""
	}
	if e.exitedSoon(2 * time.Second) {
		return crashed, e.crashText()
	}

	if _, err := os.Stat(e.d.Sock); err != nil {
		// the process lives but its socket file is gone: somebody removed the scratch directory under the run
		e.res.inconclusive("the daemon's socket file disappeared (%v): scratch directory removed by another run?", err)

		return crashed, "environment destroyed"
	}

	return wedgedH, why + " / re-confirmed on another fresh session: " + why2
}

func (e *env08) recover() error {
	e.res.count("daemon_restarts")
	e.d.Kill()
	ctl.KillRunners(e.d.DataDir)

	return e.startDaemon()
}

func (e *env08) isWedgeKnown(sig string) bool {
	e.wMu.Lock()
	defer e.wMu.Unlock()

	return e.wedged[sig] > 0
}

func (e *env08) markDistinct(s string) {
	e.dMu.Lock()
	e.distinct[s] = true
	e.dMu.Unlock()
}

func (e *env08) dial(rng *rand.Rand) (*ctl.Conn, error) {
	kind := e.kinds[rng.Intn(len(e.kinds))]

	return ctl.Dial(kind, e.d, nil, 15*time.Second)
}

func (e *env08) cleanupCreated() {
	e.crMu.Lock()
	ids := e.created
	e.created = nil
	e.crMu.Unlock()
	for _, id := range ids {
		_, _ = e.d.Command("work force-release "+id, 10*time.Second)
	}
}

// runSingle sends one concrete instance of a class on a fresh session and judges it.  Returns false when the run
// cannot go on (environment broken).
func (e *env08) runSingle(v lineVec, inst int) error {
	c := v.Class
	rng := rand.New(rand.NewSource(e.seed*1000003 + int64(inst)*7919 + int64(hashStr(c.key()))))
	if e.isWedgeKnown(c.wedgeSig()) || (!e.allWedges && c.UID == "diskonly" && e.isWedgeKnown("C08:probe-timeout-after-status-of-disk-only-unit")) {
		e.res.count("skipped_after_confirmed_wedge")

		return nil
	}
	ids := unitIDs{U: e.shared}
	var err error
	consumes := v.Kind == "rel_unit"
	if consumes {
		if ids.U, err = e.takeUnit(); err != nil {
			return fmt.Errorf("cannot create unit: %w", err)
		}
	}
	if c.UID == "diskonly" {
		if ids.D, err = e.newDiskOnly(rng); err != nil {
			return err
		}
	}
	if c.UID == "nostatus" {
		if ids.N, err = e.newStatusless(rng); err != nil {
			return err
		}
	}
	line := e.buildLine(c, ids, rng)
	k, err := e.dial(rng)
	if err != nil {
		return fmt.Errorf("cannot open session: %w", err)
	}
	o := e.sendLine(k, v, line, rng)
	replay := map[string]any{"mode": "single", "class": c, "kind": v.Kind, "conn": k.Kind, "line_b64": line, "expect": v.Expect, "observed": o}
	e.res.mu.Lock()
	e.res.Evaluations++
	e.res.mu.Unlock()
	e.res.count("conn_" + k.Kind)
	e.markDistinct(c.key() + "|" + string(line[:min(len(line), 200)]))
	if o.Created != "" {
		e.crMu.Lock()
		e.created = append(e.created, o.Created)
		e.crMu.Unlock()
	}
	h, why := e.checkHealth()
	defer k.Close()
	if h == crashed && why == "environment destroyed" {
		return fmt.Errorf("scratch directory destroyed")
	}
	switch h {
	case crashed:
		e.res.violate("C08:crash-after-"+c.key(), "the daemon exited after "+trunc(string(line), 200)+": "+why, replay)
		if err := e.recover(); err != nil {
			return err
		}

		return nil
	case wedgedH:
		sig := c.wedgeSig()
		e.wMu.Lock()
		e.wedged[sig]++
		e.wMu.Unlock()
		e.res.violate(sig, fmt.Sprintf("after %q (answered: %v) status/work list on fresh sessions are no longer answered: %s", trunc(string(line), 200), o.Replies, why), replay)

		return e.recover()
	}
	if o.TimedOut {
		// healthy daemon but this session got no (complete) answer yet: give it the long deadline before judging
		e.collect(k, &o, e.replyTO)
		if o.TimedOut {
			e.res.violate("C08:no-reply-to-"+c.key(), fmt.Sprintf("no (complete) answer to %q within %v although fresh sessions are served; got %v", trunc(string(line), 200), e.replyTO+e.suspect, o.Replies), replay)

			return nil
		}
		e.res.count("slow_reply")
		replay["observed"] = o
	}
	e.judgeLine(v, o, replay)
	if len(e.created) > 20 {
		e.cleanupCreated()
	}

	return nil
}

func hashStr(s string) uint32 {
	var h uint32 = 2166136261
	for i := 0; i < len(s); i++ {
		h = (h ^ uint32(s[i])) * 16777619
	}

	return h
}

func (e *env08) judgeLine(v lineVec, o lineObs, replay any) {
	c := v.Class
	want := v.Expect.Reply
	if o.Class != want {
		sig := fmt.Sprintf("C08:reply-%s-instead-of-%s-%s", o.Class, want, c.key())
		if !v.Wellformed && !v.Lenient && want != "none" && o.Class != "error" && o.Class != "error2" {
			sig = "C08:not-ERROR-" + c.key()
		}
		e.res.violate(sig, fmt.Sprintf("line %q: spec says %s, daemon answered %v", o.Sent, want, o.Replies), replay)

		return
	}
	if want != "none" && len(o.Replies) > 0 && !strings.HasPrefix(o.Replies[0], v.Expect.First) {
		e.res.violate("C08:reply-prefix-"+c.key(), fmt.Sprintf("line %q: first reply line %q does not start with %q", o.Sent, o.Replies[0], v.Expect.First), replay)

		return
	}
	if v.Expect.Cont && !o.ContOK {
		e.res.violate("C08:session-ended-after-"+c.key(), fmt.Sprintf("line %q: the session did not answer the next command (closed=%v)", o.Sent, o.Closed), replay)

		return
	}
	if v.Expect.Closes && !o.Closed {
		e.res.violate("C08:session-not-closed-after-"+c.key(), fmt.Sprintf("line %q: the server did not close the connection", o.Sent), replay)

		return
	}
	e.res.count("reply_" + want)
	if v.Lenient {
		e.res.count("lenient_accepted")
	}
}

// ---------------------------------------------------------------- session pairs

type sessRun struct {
	kinds   []string
	expect  []string
	vecs    []lineVec
	lines   [][]byte
	obs     []lineObs
	ids     unitIDs
	conn    string
	aborted bool
}

func (e *env08) prepareSession(kinds, expect []string, rng *rand.Rand) (*sessRun, error) {
	s := &sessRun{kinds: kinds, expect: expect, ids: unitIDs{U: e.shared}}
	var err error
	for _, kd := range kinds {
		switch kd {
		case "rel_unit":
			if s.ids.U == e.shared {
				if s.ids.U, err = e.takeUnit(); err != nil {
					return nil, err
				}
			}
		case "q_disk", "rel_disk", "stream_disk":
			if s.ids.D == "" {
				if s.ids.D, err = e.newDiskOnly(rng); err != nil {
					return nil, err
				}
			}
		case "err_scan":
			if s.ids.N == "" {
				if s.ids.N, err = e.newStatusless(rng); err != nil {
					return nil, err
				}
			}
		}
	}
	for _, kd := range kinds {
		cands := e.byKind[kd]
		if len(cands) == 0 {
			return nil, fmt.Errorf("no line class of kind %s", kd)
		}
		v := cands[rng.Intn(len(cands))]
		s.vecs = append(s.vecs, v)
		s.lines = append(s.lines, e.buildLine(v.Class, s.ids, rng))
	}

	return s, nil
}

func expectedClass(specReply string) string {
	switch specReply {
	case "answer_then_closed":
		return "" // any of json/error/error2 followed by close: judged by the line's own class
	case "closed":
		return "none"
	}

	return specReply
}

func (e *env08) runPair(idx int, sv sessVec, mode string) error {
	rng := rand.New(rand.NewSource(e.seed*7777 + int64(idx)*104729))
	for _, kd := range append(append([]string{}, sv.A...), sv.B...) {
		sig := ""
		switch kd {
		case "q_disk":
			sig = "C08:probe-timeout-after-status-of-disk-only-unit"
		case "rel_disk":
			sig = "C08:probe-timeout-after-release-of-disk-only-unit"
		case "stream_disk":
			sig = "C08:probe-timeout-after-results-of-disk-only-unit"
		}
		if sig != "" && (e.isWedgeKnown(sig) || e.isWedgeKnown("C08:probe-timeout-after-status-of-disk-only-unit")) {
			e.res.count("pairs_skipped_after_confirmed_wedge")

			return nil
		}
	}
	a, err := e.prepareSession(sv.A, sv.ExpectA, rng)
	if err != nil {
		return err
	}
	b, err := e.prepareSession(sv.B, sv.ExpectB, rng)
	if err != nil {
		return err
	}
	runs := []*sessRun{a, b}
	conns := make([]*ctl.Conn, 2)
	for i, s := range runs {
		if len(s.kinds) == 0 {
			continue
		}
		k, err := e.dial(rng)
		if err != nil {
			return fmt.Errorf("cannot open session: %w", err)
		}
		conns[i] = k
		s.conn = k.Kind
		defer k.Close()
	}
	step := func(i, j int, r *rand.Rand) {
		s := runs[i]
		if s.aborted {
			return
		}
		o := e.sendLine(conns[i], s.vecs[j], s.lines[j], r)
		s.obs = append(s.obs, o)
		if o.Created != "" {
			e.crMu.Lock()
			e.created = append(e.created, o.Created)
			e.crMu.Unlock()
		}
		if o.TimedOut {
			s.aborted = true
		}
	}
	if mode == "alt" {
		for j := 0; j < max(len(a.kinds), len(b.kinds)); j++ {
			for i := range runs {
				if j < len(runs[i].kinds) {
					step(i, j, rng)
				}
			}
		}
	} else {
		var wg sync.WaitGroup
		for i := range runs {
			wg.Add(1)
			r := rand.New(rand.NewSource(rng.Int63()))
			go func(i int, r *rand.Rand) {
				defer wg.Done()
				for j := range runs[i].kinds {
					step(i, j, r)
				}
			}(i, r)
		}
		wg.Wait()
	}
	e.res.mu.Lock()
	e.res.Evaluations++
	e.res.mu.Unlock()
	e.res.count("pairs_" + mode)
	e.markDistinct("pair|" + strings.Join(sv.A, ",") + "|" + strings.Join(sv.B, ",") + "|" + mode)
	replay := map[string]any{"mode": "pair-" + mode, "vector": sv,
		"a": map[string]any{"lines_b64": a.lines, "observed": a.obs, "conn": a.conn},
		"b": map[string]any{"lines_b64": b.lines, "observed": b.obs, "conn": b.conn}}
	culprit := func() lineClass {
		var last lineClass
		for _, s := range runs {
			for j := range s.obs {
				c := s.vecs[j].Class
				if c.UID == "diskonly" {
					return c
				}
				last = c
			}
		}
		for _, s := range runs {
			for j := range s.obs {
				if s.vecs[j].Class.UID == "nostatus" {
					return s.vecs[j].Class
				}
			}
		}

		return last
	}
	h, why := e.checkHealth()
	if h == crashed && why == "environment destroyed" {
		return fmt.Errorf("scratch directory destroyed")
	}
	switch h {
	case crashed:
		e.res.violate("C08:crash-in-pair-"+strings.Join(sv.A, ",")+"+"+strings.Join(sv.B, ","), "the daemon exited during a session pair: "+why, replay)

		return e.recover()
	case wedgedH:
		sig := culprit().wedgeSig()
		e.wMu.Lock()
		e.wedged[sig]++
		e.wMu.Unlock()
		e.res.violate(sig, "after a session pair status/work list on fresh sessions are no longer answered: "+why, replay)

		return e.recover()
	}
	for i, s := range runs {
		for j := range s.obs {
			if s.obs[j].TimedOut {
				e.collect(conns[i], &s.obs[j], e.replyTO)
				if !s.obs[j].TimedOut {
					e.res.count("slow_reply")
				}
			}
		}
	}
	for _, s := range runs {
		for j, o := range s.obs {
			v := s.vecs[j]
			if o.TimedOut {
				e.res.violate("C08:no-reply-to-"+v.Class.key(), fmt.Sprintf("no answer to %q in a session pair although fresh sessions are served", o.Sent), replay)

				break
			}
			want := expectedClass(s.expect[j])
			if want == "" {
				want = v.Expect.Reply
			}
			if o.Class == "error" && want == "json" && v.Class.Sub == "list" && len(o.Replies) == 1 && strings.HasPrefix(o.Replies[0], "ERROR: unknown work unit ") &&
				(s.ids.U == "" || !strings.Contains(o.Replies[0], s.ids.U)) {
				e.res.violate(listRaceSig, fmt.Sprintf("%q answered %q while the other session released a unit", o.Sent, o.Replies[0]), replay)

				break
			}
			if o.Class != want {
				e.res.violate(fmt.Sprintf("C08:pair-reply-%s-instead-of-%s-%s", o.Class, want, v.Kind),
					fmt.Sprintf("session %v line %d %q (kind %s): spec says %s, daemon answered %v", s.kinds, j+1, o.Sent, v.Kind, want, o.Replies), replay)

				break
			}
			contWanted := v.Expect.Cont && want == v.Expect.Reply
			if want != "stream" && want != "none" || v.Class.Fam != "eof" {
				if contWanted && !o.ContOK {
					e.res.violate("C08:session-ended-after-"+v.Class.key(), fmt.Sprintf("line %q: the session did not answer the next command", o.Sent), replay)

					break
				}
			}
			e.res.count("pair_lines_ok")
		}
	}
	if len(e.created) > 20 {
		e.cleanupCreated()
	}

	return nil
}

// idleHolders keeps n sessions open in the middle of a line while probes run (a slow client must not block others).
func (e *env08) idleHolders(n int, rng *rand.Rand) {
	var ks []*ctl.Conn
	for i := 0; i < n; i++ {
		k, err := e.dial(rng)
		if err != nil {
			e.res.inconclusive("cannot open idle session %d: %v", i, err)

			break
		}
		_ = k.Send([]byte([]string{"work li", `{"command":"wo`, "stat", strings.Repeat("z", 5000)}[i%4]))
		ks = append(ks, k)
	}
	h, why := e.checkHealth()
	e.res.mu.Lock()
	e.res.Evaluations++
	e.res.mu.Unlock()
	e.markDistinct(fmt.Sprintf("idle-holders-%d", n))
	if h != healthy {
		e.res.violate("C08:probe-timeout-with-idle-partial-lines", fmt.Sprintf("%d sessions holding an unterminated line block fresh sessions: %s", len(ks), why), map[string]any{"mode": "idle", "n": n})
		_ = e.recover()
	} else {
		e.res.count("idle_holder_rounds")
	}
	for _, k := range ks {
		k.Close()
	}
}

// raceScan replays the second lead TLC found on the lock model: look-ups of an id whose path is an existing directory
// that is not a unit (scanForUnit read-locks again under findUnit's read lock) racing with writers of the unit index
// (work submit).  which = "dot-id" (ids ".", "..", "" need no precondition at all) or "statusless-dir".
func (e *env08) raceScan(which string, rng *rand.Rand) error {
	sig := "C08:probe-timeout-after-status-of-" + which + "-with-concurrent-submit"
	if e.isWedgeKnown(sig) {
		return nil
	}
	ids := []string{".", "..", ""}
	if which == "statusless-dir" {
		n, err := e.newStatusless(rng)
		if err != nil {
			return err
		}
		ids = []string{n}
	}
	var wg sync.WaitGroup
	stop := make(chan struct{})
	var answered, submitted int64
	var mu sync.Mutex
	for i := 0; i < 8; i++ {
		wg.Add(1)
		go func(i int) {
			defer wg.Done()
			k, err := ctl.DialUnix(e.d.Sock, 10*time.Second)
			if err != nil {
				return
			}
			defer k.Close()
			for j := 0; j < 400; j++ {
				select {
				case <-stop:
					return
				default:
				}
				if k.Send([]byte("work status "+ids[(i+j)%len(ids)]+"\n")) != nil {
					return
				}
				if _, err := k.ReadLine(e.suspect); err != nil {
					return
				}
				mu.Lock()
				answered++
				mu.Unlock()
			}
		}(i)
	}
	for i := 0; i < 4; i++ {
		wg.Add(1)
		go func() {
			defer wg.Done()
			for j := 0; j < 12; j++ {
				select {
				case <-stop:
					return
				default:
				}
				k, err := ctl.DialUnix(e.d.Sock, e.suspect)
				if err != nil {
					return
				}
				id, err := ctl.SubmitOn(k, map[string]string{"node": "localhost", "worktype": "fixed"}, "", e.suspect)
				k.Close()
				if id != "" {
					e.crMu.Lock()
					e.created = append(e.created, id)
					e.crMu.Unlock()
				}
				if err != nil {
					return
				}
				mu.Lock()
				submitted++
				mu.Unlock()
			}
		}()
	}
	wg.Wait()
	close(stop)
	e.res.mu.Lock()
	e.res.Evaluations++
	e.res.mu.Unlock()
	e.markDistinct("race-" + which)
	replay := map[string]any{"mode": "race", "which": which, "answered": answered, "submitted": submitted}
	h, why := e.checkHealth()
	switch h {
	case crashed:
		e.res.violate("C08:crash-in-race-"+which, why, replay)

		return e.recover()
	case wedgedH:
		e.wMu.Lock()
		e.wedged[sig]++
		e.wMu.Unlock()
		e.res.violate(sig, fmt.Sprintf("8 sessions asking 'work status' for %q while 4 sessions submit work: after %d look-ups and %d submissions nothing is answered any more, and status/work list on fresh sessions are not answered: %s", ids, answered, submitted, why), replay)

		return e.recover()
	}
	e.res.count("race_rounds_ok")
	e.res.add("race_lookups", int(answered))
	e.cleanupCreated()

	return nil
}

// ---------------------------------------------------------------- mixed sessions: a JSON line, then another line

type mixedVec struct {
	A    lineVec `json:"a"`
	B    lineVec `json:"b"`
	Must string  `json:"must"`
}

var statusFields = []string{"Version", "NodeID", "Connections", "RoutingTable", "Advertisements", "KnownConnectionCosts", "SystemCPUCount", "SystemMemoryMiB"}

// contentOK checks what the follower's answer must contain (the answer it gets on a fresh session).
func (e *env08) contentOK(must, reply string, ids unitIDs) (bool, string) {
	if must == "-" {
		return true, ""
	}
	var m map[string]any
	if json.Unmarshal([]byte(reply), &m) != nil {
		return false, "not a JSON object"
	}
	switch must {
	case "status_all_fields":
		for _, f := range statusFields {
			if _, ok := m[f]; !ok {
				return false, "status field " + f + " missing"
			}
		}
		if m["NodeID"] != e.d.ID {
			return false, "wrong NodeID"
		}
	case "ping_from_self":
		if m["Success"] != true || m["From"] != e.d.ID {
			return false, fmt.Sprintf("ping of this node answered Success=%v From=%v", m["Success"], m["From"])
		}
	case "ping_no_route":
		if m["Success"] != false {
			return false, fmt.Sprintf("ping of an unknown node answered Success=%v From=%v", m["Success"], m["From"])
		}
	case "list_all":
		if _, ok := m[ids.U]; !ok {
			return false, "the list lacks unit " + ids.U
		}
		if len(m) < 2 {
			return false, "the list has a single entry"
		}
	case "unit_status":
		if m["WorkType"] != "echo" || m["StateName"] != "Succeeded" {
			return false, fmt.Sprintf("not the status of the unit asked for: WorkType=%v StateName=%v", m["WorkType"], m["StateName"])
		}
	}

	return true, ""
}

// runMixed sends a carrier line (a JSON object of any shape) and then a well-formed follower on the same session.
// By the rule of per-line independence the follower is answered exactly as on a fresh session.
func (e *env08) runMixed(idx int, mv mixedVec) error {
	rng := rand.New(rand.NewSource(e.seed*50021 + int64(idx)*613))
	ids := unitIDs{U: e.shared}
	la := e.buildLine(mv.A.Class, ids, rng)
	lb := e.buildLine(mv.B.Class, ids, rng)
	k, err := e.dial(rng)
	if err != nil {
		return fmt.Errorf("cannot open session: %w", err)
	}
	defer k.Close()
	finish := func(o *lineObs) bool {
		if !o.TimedOut {
			return true
		}
		if h, _ := e.checkHealth(); h != healthy {
			return false
		}
		e.collect(k, o, e.replyTO)

		return !o.TimedOut
	}
	oa := e.sendLine(k, mv.A, la, rng)
	e.res.mu.Lock()
	e.res.Evaluations++
	e.res.mu.Unlock()
	e.markDistinct("mixed|" + mv.A.Class.key() + "|" + mv.B.Class.key())
	replay := map[string]any{"mode": "mixed", "vector": mv, "conn": k.Kind, "line_a": trunc(string(la), 300), "line_b": string(lb)}
	if !finish(&oa) {
		e.res.violate("C08:no-reply-to-"+mv.A.Class.key(), fmt.Sprintf("no answer to %q", trunc(string(la), 200)), replay)
		if h, _ := e.checkHealth(); h != healthy {
			return e.recover()
		}

		return nil
	}
	replay["observed_a"] = oa
	if oa.Class != mv.A.Expect.Reply || !oa.ContOK {
		e.judgeLine(mv.A, oa, replay) // the carrier itself misbehaves: the same verdict as in phase 1

		return nil
	}
	ob := e.sendLine(k, mv.B, lb, rng)
	okB := finish(&ob)
	replay["observed_b"] = ob
	what := ""
	switch {
	case !okB:
		what = "was not answered"
	case ob.Class != mv.B.Expect.Reply:
		what = fmt.Sprintf("was answered %v (class %s), on a fresh session it is answered with class %s", ob.Replies, ob.Class, mv.B.Expect.Reply)
	case !ob.ContOK:
		what = "was answered but the session then stopped answering"
	default:
		if ok, why := e.contentOK(mv.Must, ob.full[0], ids); !ok {
			what = fmt.Sprintf("was answered with different content than on a fresh session (%s): %s", why, trunc(ob.full[0], 200))
		}
	}
	if what != "" {
		e.res.violate("C08:line-answer-depends-on-earlier-line-"+mv.B.Class.key(),
			fmt.Sprintf("after the line %q the well-formed line %q %s", trunc(string(la), 160), string(lb), what), replay)

		return nil
	}
	e.res.count("mixed_ok")
	if mv.B.Class.Fam == "plain" || mv.B.Class.Form == "plain" {
		e.res.count("mixed_plain_after_json_ok")
	}

	return nil
}

const listRaceSig = "C08:work-list-error-while-another-session-releases-a-unit"

// raceDiskOnly: several sessions ask for the SAME disk-only unit at the same instant (every command that goes through
// findUnit), round after round with a fresh unit: all are answered (the unit is loaded once or several times, never
// half), and fresh sessions are served afterwards.  This is the shared-unit case of the lock model (two scans of one
// unit overlap between the look-up under the read lock and the insertion under the write lock).
func (e *env08) raceDiskOnly(rounds int, rng *rand.Rand) error {
	const sig = "C08:probe-timeout-after-concurrent-status-of-disk-only-unit"
	if e.isWedgeKnown(sig) {
		return nil
	}
	cmds := []string{"work status %s", "work list %s", `{"command":"work","subcommand":"status","unitid":"%s"}`, "work status %s", "work cancel %s", "work status %s"}
	for r := 0; r < rounds; r++ {
		id, err := e.newDiskOnly(rng)
		if err != nil {
			return err
		}
		n := len(cmds)
		conns := make([]*ctl.Conn, n)
		for i := range conns {
			if conns[i], err = ctl.DialUnix(e.d.Sock, e.replyTO); err != nil {
				return fmt.Errorf("cannot open session: %w", err)
			}
		}
		start := make(chan struct{})
		replies := make([]string, n)
		var wg sync.WaitGroup
		for i := range conns {
			wg.Add(1)
			go func(i int) {
				defer wg.Done()
				line := []byte(fmt.Sprintf(cmds[i], id) + "\n")
				<-start
				if conns[i].Send(line) != nil {
					return
				}
				l, err := conns[i].ReadLine(e.suspect)
				if err == nil {
					replies[i] = l
				}
			}(i)
		}
		close(start)
		wg.Wait()
		for _, k := range conns {
			k.Close()
		}
		e.res.mu.Lock()
		e.res.Evaluations++
		e.res.mu.Unlock()
		e.res.count("race_diskonly_rounds")
		unanswered := 0
		for i, l := range replies {
			switch {
			case l == "":
				unanswered++
			case !strings.HasPrefix(l, "{"):
				e.res.violate("C08:concurrent-lookup-of-disk-only-unit-answered-error", fmt.Sprintf("%q sent by %d sessions at once for a unit that exists on disk: one was answered %q", fmt.Sprintf(cmds[i], id), n, trunc(l, 120)),
					map[string]any{"mode": "racedisk"})
			}
		}
		h, why := e.checkHealth()
		switch h {
		case crashed:
			e.res.violate("C08:crash-in-race-disk-only", why, map[string]any{"mode": "racedisk"})

			return e.recover()
		case wedgedH:
			e.wMu.Lock()
			e.wedged[sig]++
			e.wMu.Unlock()
			e.res.violate(sig, fmt.Sprintf("%d sessions asked for the same disk-only unit %s at the same instant (round %d): %d were not answered within %v, and status/work list on fresh sessions are no longer answered: %s",
				n, id, r+1, unanswered, e.suspect, why), map[string]any{"mode": "racedisk"})

			return e.recover()
		}
		if unanswered > 0 {
			e.res.count("race_diskonly_slow_answers")
		}
	}
	e.markDistinct("race-diskonly")

	return nil
}

// raceList: "work list" on some sessions while other sessions create and release units.  A well-formed work list must
// be answered with the list whatever other sessions do (Isolation).
func (e *env08) raceList(rng *rand.Rand) error {
	var pre []string
	for i := 0; i < 40; i++ {
		id, _, err := e.d.Submit(map[string]string{"node": "ghost" + randID(rng, 4), "worktype": "echo"}, "", e.replyTO)
		if err != nil {
			return err
		}
		pre = append(pre, id)
	}
	var wg sync.WaitGroup
	var mu sync.Mutex
	stop := make(chan struct{})
	lists, bad := 0, []string{}
	for i := 0; i < 3; i++ {
		wg.Add(1)
		go func() {
			defer wg.Done()
			k, err := ctl.DialUnix(e.d.Sock, e.replyTO)
			if err != nil {
				return
			}
			defer k.Close()
			for {
				select {
				case <-stop:
					return
				default:
				}
				if k.Send([]byte("work list\n")) != nil {
					return
				}
				l, err := k.ReadLine(e.replyTO)
				if err != nil {
					return
				}
				mu.Lock()
				lists++
				if !strings.HasPrefix(l, "{") && len(bad) < 5 {
					bad = append(bad, trunc(l, 120))
				}
				mu.Unlock()
			}
		}()
	}
	var cw sync.WaitGroup
	for i := 0; i < 3; i++ {
		cw.Add(1)
		go func(i int) {
			defer cw.Done()
			for j := 0; j < 40; j++ {
				id, _, err := e.d.Submit(map[string]string{"node": "ghostx", "worktype": "echo"}, "", e.replyTO)
				if err != nil {
					return
				}
				_, _ = e.d.Command("work release "+id, e.replyTO)
			}
		}(i)
	}
	cw.Wait()
	close(stop)
	wg.Wait()
	for _, id := range pre {
		_, _ = e.d.Command("work release "+id, e.replyTO)
	}
	e.res.mu.Lock()
	e.res.Evaluations++
	e.res.mu.Unlock()
	e.markDistinct("race-list")
	e.res.add("race_list_requests", lists)
	if len(bad) > 0 {
		e.res.violate(listRaceSig, fmt.Sprintf("work list was answered with an error on a session while other sessions released units (%d lists asked): %v", lists, bad), map[string]any{"mode": "racelist"})
	}
	if h, why := e.checkHealth(); h != healthy {
		e.res.violate("C08:unhealthy-after-list-race", why, map[string]any{"mode": "racelist"})

		return e.recover()
	}

	return nil
}

func init() { commands["c08"] = cmdC08 }

func cmdC08(args []string) {
	fs := flag.NewFlagSet("c08", flag.ExitOnError)
	linesFile := fs.String("lines", "", "NDJSON line classes from TLC")
	sessFile := fs.String("sessions", "", "NDJSON session pairs from TLC")
	bin := fs.String("receptor", "", "receptor binary")
	work := fs.String("work", "", "scratch directory")
	out := fs.String("out", "result.json", "result file")
	seed := fs.Int64("seed", 1, "seed")
	inst := fs.Int("instances", 3, "concrete instances per line class")
	pairMode := fs.String("pairmode", "split", "alt | conc | both | split (alternate by index)")
	maxPairs := fs.Int("maxpairs", 0, "0 = all")
	replayFile := fs.String("replay", "", "replay file written by a previous run")
	diskRounds := fs.Int("diskrounds", 10, "rounds of several sessions asking for one disk-only unit at the same instant")
	mixedFile := fs.String("mixed", "", "NDJSON mixed sessions (JSON line, then another line) from TLC")
	maxMixed := fs.Int("maxmixed", 0, "replay at most this many mixed sessions (seeded sample; 0 = all)")
	budget := fs.Duration("budget", 0, "soft wall-clock budget for the pair phase (0 = none)")
	allWedges := fs.Bool("allwedges", false, "exercise every disk-only class even after a confirmed wedge")
	_ = fs.Parse(args)
	res := &Result{Counters: map[string]int{}}
	defer func() { res.write(*out) }()
	lines, err := readNDJSON[lineVec](*linesFile)
	if err != nil {
		res.inconclusive("cannot read line classes: %v", err)

		return
	}
	var pairs []sessVec
	if *sessFile != "" {
		if pairs, err = readNDJSON[sessVec](*sessFile); err != nil {
			res.inconclusive("cannot read sessions: %v", err)

			return
		}
	}
	sort.Slice(lines, func(i, j int) bool {
		ki, kj := lines[i].Class.key(), lines[j].Class.key()
		// among the disk-only classes "work status" goes first: it names the finding of DESIGN.md section 9 #4
		if lines[i].Class.UID == "diskonly" && lines[i].Class.Sub == "status" {
			ki = "uid-!" + ki
		}
		if lines[j].Class.UID == "diskonly" && lines[j].Class.Sub == "status" {
			kj = "uid-!" + kj
		}

		return ki < kj
	})
	sort.Slice(pairs, func(i, j int) bool {
		return strings.Join(pairs[i].A, ",")+"|"+strings.Join(pairs[i].B, ",") < strings.Join(pairs[j].A, ",")+"|"+strings.Join(pairs[j].B, ",")
	})
	// a seeded order, so that a run cut short by the time budget still covers a different sample for every seed
	rand.New(rand.NewSource(*seed)).Shuffle(len(pairs), func(i, j int) { pairs[i], pairs[j] = pairs[j], pairs[i] })
	dir := filepath.Join(*work, "c08d")
	_ = os.RemoveAll(dir)
	d := ctl.NewDaemon(*bin, dir, "c08node", true, nil,
		ctl.Item{"local-only": nil},
		ctl.Item{"work-command": map[string]any{"worktype": "echo", "command": "sh", "params": "-c \"cat; echo done\"", "allowruntimeparams": true}},
		ctl.Item{"work-command": map[string]any{"worktype": "fixed", "command": "true"}},
	)
	e := &env08{d: d, res: res, seed: *seed, kinds: []string{"unix", "tcp"}, wedged: map[string]int{}, distinct: map[string]bool{},
		probeTO: 10500 * time.Millisecond, replyTO: 25 * time.Second, suspect: 3 * time.Second, byKind: map[string][]lineVec{}, allWedges: *allWedges}
	defer func() {
		e.cleanupCreated()
		d.Cleanup()
	}()
	if err := e.startDaemon(); err != nil {
		res.inconclusive("cannot start daemon: %v", err)

		return
	}
	ids, err := e.makeUnits(2)
	if err != nil {
		res.inconclusive("cannot create units: %v", err)

		return
	}
	e.shared = ids[0]
	e.tmplDir = filepath.Join(dir, "template")
	_ = os.MkdirAll(e.tmplDir, 0o700)
	for _, f := range []string{"stdin", "stdout", "status"} {
		if err := copyFile(filepath.Join(d.UnitsDir(), ids[1], f), filepath.Join(e.tmplDir, f)); err != nil {
			res.inconclusive("cannot copy template unit: %v", err)

			return
		}
	}
	for _, v := range lines {
		e.byKind[v.Kind] = append(e.byKind[v.Kind], v)
	}
	if *replayFile != "" {
		e.replay(*replayFile)
		res.Distinct = len(e.distinct)

		return
	}
	// phase 1: every line class, several concrete instances, one per fresh session
	for _, v := range lines {
		if res.Counters["violations"] >= 40 {
			res.note("stopped after %d violations", res.Counters["violations"])
			res.Distinct = len(e.distinct)

			return
		}
		for i := 0; i < *inst; i++ {
			if err := e.runSingle(v, i); err != nil {
				res.inconclusive("environment failure at class %s: %v", v.Class.key(), err)

				return
			}
		}
		if v.Lenient && !v.Wellformed {
			res.note("lenient: %s is answered %s although it is not a valid command (ignored part)", v.Class.key(), v.Expect.Reply)
		}
	}
	res.add("line_classes", len(lines))
	// phase 1b: a JSON line of any shape, then a well-formed line on the same session (per-line independence)
	if *mixedFile != "" {
		mixed, err := readNDJSON[mixedVec](*mixedFile)
		if err != nil {
			res.inconclusive("cannot read mixed sessions: %v", err)

			return
		}
		sort.Slice(mixed, func(i, j int) bool {
			return mixed[i].A.Class.key()+"|"+mixed[i].B.Class.key() < mixed[j].A.Class.key()+"|"+mixed[j].B.Class.key()
		})
		rand.New(rand.NewSource(*seed+17)).Shuffle(len(mixed), func(i, j int) { mixed[i], mixed[j] = mixed[j], mixed[i] })
		if *maxMixed > 0 && len(mixed) > *maxMixed {
			mixed = mixed[:*maxMixed]
		}
		for i, mv := range mixed {
			if res.Counters["violations"] >= 40 {
				break
			}
			if err := e.runMixed(i, mv); err != nil {
				res.inconclusive("environment failure at mixed session %d: %v", i, err)

				return
			}
			if i%50 == 49 {
				if h, why := e.checkHealth(); h != healthy {
					res.violate("C08:unhealthy-during-mixed-sessions", why, map[string]any{"mode": "mixed-health"})
					if err := e.recover(); err != nil {
						res.inconclusive("%v", err)

						return
					}
				}
			}
		}
		res.add("mixed_sessions", len(mixed))
	}
	// phase 2: slow clients
	rng := rand.New(rand.NewSource(*seed))
	e.idleHolders(8, rng)
	e.idleHolders(64, rng)
	// phase 2b: look-ups racing with writers of the unit index (lead from the lock model)
	races := []string{"dot-id"}
	if *allWedges {
		races = append(races, "statusless-dir")
	}
	for _, w := range races {
		if err := e.raceScan(w, rng); err != nil {
			res.inconclusive("environment failure in race %s: %v", w, err)

			return
		}
	}
	if err := e.raceDiskOnly(*diskRounds, rng); err != nil {
		res.inconclusive("environment failure in the disk-only race: %v", err)

		return
	}
	if err := e.raceList(rng); err != nil {
		res.inconclusive("environment failure in the list race: %v", err)

		return
	}
	// phase 3: session pairs
	start := time.Now()
	n := 0
	for i, sv := range pairs {
		if (*maxPairs > 0 && n >= *maxPairs) || res.Counters["violations"] >= 40 {
			break
		}
		if *budget > 0 && time.Since(start) > *budget {
			res.note("pair phase stopped by the time budget after %d of %d pairs", n, len(pairs))
			res.add("pairs_not_run_budget", len(pairs)-i)

			break
		}
		modes := []string{"alt", "conc"}
		switch *pairMode {
		case "alt", "conc":
			modes = []string{*pairMode}
		case "split":
			modes = []string{[]string{"alt", "conc"}[(i+int(*seed))%2]}
		}
		for _, m := range modes {
			if err := e.runPair(i, sv, m); err != nil {
				res.inconclusive("environment failure at pair %d: %v", i, err)

				return
			}
		}
		n++
	}
	res.add("pair_vectors", n)
	e.cleanupCreated()
	if h, why := e.checkHealth(); h != healthy {
		res.violate("C08:unhealthy-at-end", why, map[string]any{"mode": "end"})
	}
	res.Distinct = len(e.distinct)
	for _, kd := range []string{"empty", "err", "err_scan", "err2", "json", "q_unit", "rel_unit", "q_disk", "rel_disk", "stream", "stream_unit", "stream_disk", "eof_partial", "abort"} {
		if len(e.byKind[kd]) == 0 {
			res.inconclusive("no line class of kind %s", kd)
		}
	}
	for i := 0; i < 6 && i < len(lines); i++ {
		v := lines[(i*71+int(*seed))%len(lines)]
		r := rand.New(rand.NewSource(*seed + int64(i)))
		res.sample(map[string]any{"class": v.Class.key(), "kind": v.Kind, "expect": v.Expect, "line": trunc(string(e.buildLine(v.Class, unitIDs{U: "UUUUUUUU", D: "DDDDDDDD", N: "NNNNNNNN"}, r)), 160)}, 12)
	}
	for i := 0; i < 4 && i < len(pairs); i++ {
		res.sample(map[string]any{"session_pair": pairs[(i*997+int(*seed))%len(pairs)]}, 12)
	}
}

// replay re-executes a violation written by a previous run.
func (e *env08) replay(path string) {
	b, err := os.ReadFile(path)
	if err != nil {
		e.res.inconclusive("cannot read replay: %v", err)

		return
	}
	var rp struct {
		Replay struct {
			Mode   string    `json:"mode"`
			Which  string    `json:"which"`
			Class  lineClass `json:"class"`
			Kind   string    `json:"kind"`
			Expect lineExpect
			Vector sessVec         `json:"-"`
			Mixed  mixedVec        `json:"-"`
			RawVec json.RawMessage `json:"vector"`
		} `json:"replay"`
	}
	if err := json.Unmarshal(b, &rp); err != nil {
		e.res.inconclusive("cannot parse replay: %v", err)

		return
	}
	if rp.Replay.Mode == "mixed" {
		_ = json.Unmarshal(rp.Replay.RawVec, &rp.Replay.Mixed)
	} else if len(rp.Replay.RawVec) > 0 {
		_ = json.Unmarshal(rp.Replay.RawVec, &rp.Replay.Vector)
	}
	switch {
	case rp.Replay.Mode == "single":
		for _, cands := range e.byKind {
			for _, v := range cands {
				if v.Class == rp.Replay.Class {
					for i := 0; i < 5; i++ {
						if err := e.runSingle(v, i); err != nil {
							e.res.inconclusive("replay: %v", err)
						}
					}

					return
				}
			}
		}
		e.res.inconclusive("replay: class not in the table")
	case strings.HasPrefix(rp.Replay.Mode, "pair-"):
		for i := 0; i < 5; i++ {
			if err := e.runPair(i, rp.Replay.Vector, strings.TrimPrefix(rp.Replay.Mode, "pair-")); err != nil {
				e.res.inconclusive("replay: %v", err)
			}
		}
	case rp.Replay.Mode == "race":
		for i := 0; i < 3; i++ {
			if err := e.raceScan(rp.Replay.Which, rand.New(rand.NewSource(e.seed+int64(i)))); err != nil {
				e.res.inconclusive("replay: %v", err)
			}
		}
	case rp.Replay.Mode == "mixed":
		for i := 0; i < 5; i++ {
			if err := e.runMixed(i, rp.Replay.Mixed); err != nil {
				e.res.inconclusive("replay: %v", err)
			}
		}
	case rp.Replay.Mode == "racedisk":
		if err := e.raceDiskOnly(20, rand.New(rand.NewSource(e.seed))); err != nil {
			e.res.inconclusive("replay: %v", err)
		}
	case rp.Replay.Mode == "racelist":
		if err := e.raceList(rand.New(rand.NewSource(e.seed))); err != nil {
			e.res.inconclusive("replay: %v", err)
		}
	case rp.Replay.Mode == "idle":
		e.idleHolders(64, rand.New(rand.NewSource(e.seed)))
	default:
		e.res.inconclusive("replay: unknown mode %q", rp.Replay.Mode)
	}
}
