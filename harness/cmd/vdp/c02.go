package main

import (
	"flag"
	"fmt"
	"math/rand"
	"net"
	"sort"
	"strings"
	"sync"
	"time"

	"github.com/ansible/receptor/pkg/backends"
	"github.com/ansible/receptor/pkg/netceptor"
	"verif/harness/memnet"
	"verif/harness/mesh"
)

// C02: datagrams arrive intact, only at the addressed service, with the true source, at most once.
// Real meshes (memnet chains up to the hop limit, diamond, star; real TCP back-ends on loopback; netMessageConn over a
// pipe whose bytes are re-chunked according to TLC's Framer schedules and at random) with concurrent senders; readers on
// every open socket of every node compare what arrives with what was written; the hook events are written as a trace
// for DataPlaneTrace.tla.

func init() { commands["c02"] = cmdC02 }

var c02Lengths = []int{0, 1, 35, 36, 37, 255, 256, 1199, 1200, 16383, 16384}

func makePayload(rng *rand.Rand, k int) []byte {
	n := c02Lengths[k%len(c02Lengths)]
	if k%17 == 16 {
		n = rng.Intn(16385)
	}
	b := make([]byte, n)
	switch k % 5 {
	case 0:
		// all zero
	case 1:
		for i := range b {
			b[i] = 0xFF
		}
	default:
		_, _ = rng.Read(b)
	}

	return b
}

type c02Env struct {
	kind    string // memnet / tcp / rechunk-tlc / rechunk-random / faulty
	name    string
	ids     []string
	nodes   map[string]*netceptor.Netceptor
	m       *mesh.Mesh
	maxHops int
	stop    func()
	burst   bool // every socket sends large distinct payloads back to back to one fixed socket on another node
}

var burstLengths = []int{4096, 16384, 4097, 8192, 12000, 16383, 5000}

func burstPayload(rng *rand.Rand, k int) []byte {
	b := make([]byte, burstLengths[k%len(burstLengths)])
	_, _ = rng.Read(b)

	return b
}

type sendRec struct {
	SrcNode, SrcSvc, DstNode, DstSvc string
	Sha                              string
	Len                              int
}

func flowKey(dn, ds, sn, ss, sha string) string {
	return dn + "\x00" + ds + "\x00" + sn + "\x00" + ss + "\x00" + sha
}

func q(s string) string { return fmt.Sprintf("%q", s) }

// runTraffic opens sockets on every node, lets every socket send concurrently to random sockets, waits for the
// arrivals and compares. subsetOnly: the links lose/duplicate/re-order, so only "nothing arrives that was not sent
// there" is demanded.
func runTraffic(res *Result, col *collector, tw *traceWriter, env *c02Env, rng *rand.Rand, perSender int, subsetOnly bool) {
	ev0 := col.Len()
	obs := newObservers()
	pool := servicePool(rng)
	var socks []*sock
	defer func() {
		for _, s := range socks {
			s.close()
		}
	}()
	for i, id := range env.ids {
		var names []string
		if i == 0 {
			names = []string{"abc", "abc\x01", "ab", "ABC"} // prefixes of each other, case variant
		} else {
			perm := rng.Perm(len(pool))
			for _, j := range perm[:3+rng.Intn(2)] {
				names = append(names, pool[j])
			}
			if i == 1 {
				names = append(names, "abc") // the same service name bound on another node
			}
		}
		seen := map[string]bool{}
		for _, svc := range names {
			if seen[svc] {
				continue
			}
			seen[svc] = true
			s, err := openSock(env.nodes[id], id, svc, obs, 0)
			if err != nil {
				res.inconclusive("%s: listen %q on %q: %v", env.name, svc, id, err)

				return
			}
			socks = append(socks, s)
		}
	}
	var mu sync.Mutex
	var sends []sendRec
	var wg sync.WaitGroup
	sendErrs := 0
	for si, s := range socks {
		wg.Add(1)
		sseed := rng.Int63()
		go func(si int, s *sock) {
			defer wg.Done()
			r := rand.New(rand.NewSource(sseed + int64(si)))
			for k := 0; k < perSender; k++ {
				d := socks[r.Intn(len(socks))]
				if k == 0 {
					d = socks[(si+1)%len(socks)]
				}
				p := makePayload(r, si*7+k)
				if env.burst {
					// one flow per socket, to a socket of another node (the further the better: origin and transit nodes serialise)
					for j := 1; j <= len(socks); j++ {
						d = socks[(si+j*len(socks)/2+j-1)%len(socks)]
						if d.Node != s.Node {
							break
						}
					}
					p = burstPayload(r, si+k)
				}
				rec := sendRec{s.Node, s.Svc, d.Node, d.Svc, shaFull(p), len(p)}
				mu.Lock()
				sends = append(sends, rec)
				mu.Unlock()
				if err := s.sendTo(env.nodes[s.Node], d.Node, d.Svc, p); err != nil {
					mu.Lock()
					sendErrs++
					mu.Unlock()
					res.violate("C02:send-error:"+env.kind, fmt.Sprintf("%s: WriteTo from %s:%s to %s:%s (%d bytes) failed on a converged mesh: %v",
						env.name, q(s.Node), q(s.Svc), q(d.Node), q(d.Svc), len(p), err), rec)
				}
			}
		}(si, s)
	}
	wg.Wait()
	total := len(sends)
	if subsetOnly {
		waitQuiescent(col, env.m, 300*time.Millisecond, 30*time.Second)
	} else {
		// wait until everything has arrived, or until the mesh has gone quiet with datagrams missing (then they are lost)
		deadline := time.Now().Add(120 * time.Second)
		for {
			if obs.nArrivals() >= total-sendErrs {
				waitQuiescent(col, env.m, 100*time.Millisecond, 20*time.Second) // lets duplicates, if any, show up

				break
			}
			if lastEventAge(col) > 2*time.Second && (env.m == nil || meshQuiet(env.m)) {
				break
			}
			if time.Now().After(deadline) {
				res.inconclusive("%s: mesh did not become quiescent", env.name)

				return
			}
			time.Sleep(5 * time.Millisecond)
		}
	}
	arrivals, notes := obs.snapshot()
	exp := map[string]int{}
	type dstsrc struct{ dn, ds, sn, ss string }
	expBySha := map[string][]sendRec{}
	expPair := map[dstsrc]int{}
	for _, s := range sends {
		exp[flowKey(s.DstNode, s.DstSvc, s.SrcNode, s.SrcSvc, s.Sha)]++
		expBySha[s.Sha] = append(expBySha[s.Sha], s)
		expPair[dstsrc{s.DstNode, s.DstSvc, s.SrcNode, s.SrcSvc}]++
	}
	got := map[string]int{}
	for _, a := range arrivals {
		k := flowKey(a.Node, a.Svc, a.FromNode, a.FromSvc, a.Sha)
		got[k]++
		res.eval(fmt.Sprintf("%s|%d|%s|%s|%s|%s", env.kind, a.Len, a.Node, a.Svc, a.FromNode, a.FromSvc))
		if got[k] <= exp[k] || (subsetOnly && exp[k] > 0) {
			continue
		}
		class := "phantom"
		detail := ""
		switch {
		case exp[k] > 0:
			class = "duplicate"
			detail = fmt.Sprintf("sent %d time(s), arrived %d times", exp[k], got[k])
		default:
			for _, s := range expBySha[a.Sha] {
				if s.SrcNode == a.FromNode && s.SrcSvc == a.FromSvc && (s.DstNode != a.Node || s.DstSvc != a.Svc) {
					class, detail = "misdelivered", fmt.Sprintf("it was addressed to %s:%s", q(s.DstNode), q(s.DstSvc))
				} else if s.DstNode == a.Node && s.DstSvc == a.Svc && class == "phantom" {
					class, detail = "wrong-source", fmt.Sprintf("it was sent by %s:%s", q(s.SrcNode), q(s.SrcSvc))
				}
			}
			if class == "phantom" && expPair[dstsrc{a.Node, a.Svc, a.FromNode, a.FromSvc}] > 0 {
				class, detail = "payload-corrupted", "no datagram with this content was sent between these two sockets"
			}
		}
		res.violate("C02:"+class+":"+env.kind, fmt.Sprintf("%s: listener %s:%s received %d bytes (sha %s) from %s:%s: %s", env.name,
			q(a.Node), q(a.Svc), a.Len, a.Sha[:12], q(a.FromNode), q(a.FromSvc), detail),
			map[string]any{"scenario": env.name, "kind": env.kind, "arrival": a, "ids": env.ids})
	}
	if !subsetOnly {
		lost := 0
		for _, s := range sends {
			k := flowKey(s.DstNode, s.DstSvc, s.SrcNode, s.SrcSvc, s.Sha)
			if got[k] < exp[k] {
				lost++
				if lost == 1 {
					res.violate("C02:lost:"+env.kind, fmt.Sprintf("%s: %d-byte datagram from %s:%s to %s:%s never arrived although the mesh is quiescent (%d of %d arrived)",
						env.name, s.Len, q(s.SrcNode), q(s.SrcSvc), q(s.DstNode), q(s.DstSvc), len(arrivals), total),
						map[string]any{"scenario": env.name, "kind": env.kind, "send": s, "ids": env.ids})
				}
				exp[k]--
			}
		}
	}
	if len(notes) > 0 {
		res.add("unexpected_notices", len(notes))
	}
	res.add("datagrams_sent", total)
	res.add("datagrams_arrived", len(arrivals))
	res.add("scenarios_"+env.kind, 1)
	lens := map[int]bool{}
	for _, s := range sends {
		lens[s.Len] = true
	}
	res.add("sockets_observed", len(socks))
	if len(res.Samples) < 6 && len(sends) > 0 {
		s := sends[0]
		res.sample(map[string]any{"scenario": env.name, "kind": env.kind, "node_ids": quoteAll(env.ids), "sockets": len(socks), "datagrams": total,
			"arrived": len(arrivals), "first_send": map[string]any{"from": q(s.SrcNode) + ":" + q(s.SrcSvc), "to": q(s.DstNode) + ":" + q(s.DstSvc), "len": s.Len}}, 6)
	}
	for _, s := range socks {
		s.close()
	}
	socks = nil
	if !subsetOnly && tw != nil {
		n := tw.segment(col.Since(ev0), env.maxHops, true)
		res.add("trace_lines", n)
	}
}

func quoteAll(ss []string) []string {
	out := make([]string, len(ss))
	for i, s := range ss {
		if len(s) > 40 {
			out[i] = fmt.Sprintf("%q...(%d bytes)", s[:20], len(s))
		} else {
			out[i] = q(s)
		}
	}

	return out
}

func memnetEnv(t topo, rng *rand.Rand, maxHops byte, seed int64) (*c02Env, error) {
	ids := nodeIDPool(rng)[:t.N]
	m, err := buildMesh(t, ids, mesh.Opts{RouteUpdate: 300 * time.Millisecond, MaxHops: maxHops}, seed)
	if err != nil {
		return nil, err
	}
	if !waitConverged(m, 40*time.Second) {
		m.StopAll()

		return nil, fmt.Errorf("mesh %s did not converge", t.Name)
	}
	env := &c02Env{kind: "memnet", name: t.Name, ids: ids, nodes: map[string]*netceptor.Netceptor{}, m: m, maxHops: int(maxHops), stop: m.StopAll}
	for _, id := range ids {
		env.nodes[id] = m.Nodes[id].N
	}

	return env, nil
}

// pairEnv joins two real nodes by something other than memnet.
func pairEnv(kind string, rng *rand.Rand, patterns []chunkPattern, st *relayStats) (*c02Env, error) {
	ids := nodeIDPool(rng)[:2]
	m := mesh.New(mesh.Opts{RouteUpdate: 300 * time.Millisecond, MaxHops: 5}, rng.Int63())
	a, b := m.Start(ids[0]), m.Start(ids[1])
	env := &c02Env{kind: kind, name: kind, ids: ids, nodes: map[string]*netceptor.Netceptor{ids[0]: a.N, ids[1]: b.N}, maxHops: 5}
	var closers []func()
	env.stop = func() {
		m.StopAll()
		for _, c := range closers {
			c()
		}
	}
	switch kind {
	case "tcp":
		li, err := backends.NewTCPListener("127.0.0.1:0", nil, a.N.Logger)
		if err != nil {
			env.stop()

			return nil, err
		}
		if err := a.N.AddBackend(li); err != nil {
			env.stop()

			return nil, err
		}
		di, err := backends.NewTCPDialer(li.GetAddr(), false, nil, b.N.Logger)
		if err != nil {
			env.stop()

			return nil, err
		}
		if err := b.N.AddBackend(di); err != nil {
			env.stop()

			return nil, err
		}
	default: // rechunk-tlc, rechunk-random: netMessageConn over pipes with a re-chunking relay in between
		ea, _ := netceptor.NewExternalBackend()
		eb, _ := netceptor.NewExternalBackend()
		if err := a.N.AddBackend(ea); err != nil {
			env.stop()

			return nil, err
		}
		if err := b.N.AddBackend(eb); err != nil {
			env.stop()

			return nil, err
		}
		a1, a2 := net.Pipe()
		b1, b2 := net.Pipe()
		closers = append(closers, func() { a1.Close(); a2.Close(); b1.Close(); b2.Close() })
		relay(a2, b2, patterns, rand.New(rand.NewSource(rng.Int63())), st)
		relay(b2, a2, patterns, rand.New(rand.NewSource(rng.Int63())), st)
		go ea.NewConnection(netceptor.MessageConnFromNetConn(a1), true)
		go eb.NewConnection(netceptor.MessageConnFromNetConn(b1), true)
	}
	if !waitRoutes(env.nodes, 40*time.Second) {
		env.stop()

		return nil, fmt.Errorf("%s pair did not connect", kind)
	}

	return env, nil
}

// reuseScenario: same-node delivery while the sender overwrites its buffer right after WriteTo returns
// (io.Writer / net.PacketConn contract: the callee must not retain p).
func reuseScenario(res *Result, col *collector, rng *rand.Rand, rounds int) {
	m := mesh.New(mesh.Opts{}, rng.Int63())
	nd := m.Start("reuse-node")
	defer m.StopAll()
	obs := newObservers()
	rx, err := openSock(nd.N, nd.ID, "rx", obs, 0)
	if err != nil {
		res.inconclusive("reuse: %v", err)

		return
	}
	defer rx.close()
	tx, err := openSock(nd.N, nd.ID, "tx", obs, 0)
	if err != nil {
		res.inconclusive("reuse: %v", err)

		return
	}
	defer tx.close()
	sizes := []int{8, 64, 512, 4096}
	torn := 0
	var first *arrival
	sent := 0
	for _, size := range sizes {
		buf := make([]byte, size)
		for k := 0; k < rounds; k++ {
			v := byte(k%250 + 1)
			for i := range buf {
				buf[i] = v
			}
			if err := tx.sendTo(nd.N, nd.ID, "rx", buf); err != nil {
				res.inconclusive("reuse: send: %v", err)

				return
			}
			sent++
			// the datagram has been handed over; the buffer is ours again
			for i := range buf {
				buf[i] = 0
			}
		}
	}
	obs.waitUntil(20*time.Second, func() bool { return len(obs.arrivals) >= sent })
	arrivals, _ := obs.snapshot()
	for i := range arrivals {
		a := arrivals[i]
		res.eval(fmt.Sprintf("reuse|%d", a.Len))
		if !a.Uniform || a.First == 0 {
			torn++
			if first == nil {
				first = &arrivals[i]
			}
		}
	}
	res.add("reuse_datagrams", sent)
	res.add("reuse_torn", torn)
	if len(arrivals) < sent {
		res.inconclusive("reuse: %d of %d local datagrams arrived", len(arrivals), sent)
	}
	if torn > 0 {
		res.violate("C02:local-delivery-aliases-sender-buffer", fmt.Sprintf("same-node delivery hands the sender's own buffer to the reader: %d of %d datagrams written to a local "+
			"service arrived with bytes the sender stored into its buffer only AFTER WriteTo had returned (first: %d bytes, first byte %d, uniform=%v)",
			torn, sent, first.Len, first.First, first.Uniform), map[string]any{"sizes": sizes, "rounds": rounds})
	}
}

func cmdC02(args []string) {
	fs := flag.NewFlagSet("c02", flag.ExitOnError)
	out := fs.String("out", "result.json", "result file")
	traceOut := fs.String("trace", "", "trace file for DataPlaneTrace.tla")
	vecFile := fs.String("framer-vectors", "", "NDJSON vectors from Framer.tla")
	seed := fs.Int64("seed", 1, "seed")
	tier := fs.String("tier", "quick", "quick or thorough")
	traceLimit := fs.Int("trace-limit", 12000, "stop tracing after this many lines")
	_ = fs.Parse(args)
	res := &Result{}
	defer res.write(*out)
	col := installCollector()
	rng := rand.New(rand.NewSource(*seed*7919 + 11))
	var tw *traceWriter
	if *traceOut != "" {
		var err error
		if tw, err = newTraceWriter(*traceOut, *traceLimit); err != nil {
			res.inconclusive("trace file: %v", err)

			return
		}
		defer func() {
			res.Segments, res.TraceLines = tw.segs, tw.lines
			tw.close()
		}()
	}
	thorough := *tier == "thorough"

	// (1) Framer vectors (B1): every (frames, chunking) vector through the real framer and through netMessageConn
	var patterns []chunkPattern
	if *vecFile != "" {
		vecs, err := readNDJSON[framerVec](*vecFile)
		if err != nil {
			res.inconclusive("framer vectors: %v", err)

			return
		}
		for i, v := range vecs {
			res.eval(fmt.Sprintf("framer|%v|%v", v.Frames, v.Chunks))
			if why := replayFramerDirect(v); why != "" {
				res.violate("C02:framer-vector", fmt.Sprintf("framer: frames %v cut as %v: %s", v.Frames, v.Chunks, why), v)
			}
			res.count("framer_vectors_direct")
			if (thorough || i%4 == int(*seed)%4) && !res.tooMany() {
				why, timeout := replayFramerConn(v)
				if timeout {
					res.inconclusive("netMessageConn replay timed out on %v/%v", v.Frames, v.Chunks)
				} else if why != "" {
					res.violate("C02:netmessageconn-vector", fmt.Sprintf("netMessageConn: frames %v cut as %v: %s", v.Frames, v.Chunks, why), v)
				}
				res.count("framer_vectors_conn")
			}
		}
		patterns = patternsFromVectors(vecs)
		res.add("chunk_patterns_from_tlc", len(patterns))
	}

	// (2) memnet meshes: chains of 1..5 hops (hop limit 5 = the longest chain), diamond, star
	topos := []topo{chainTopo(2), chainTopo(6), diamondTopo, starTopo}
	per := 14
	if thorough {
		topos = []topo{chainTopo(2), chainTopo(3), chainTopo(4), chainTopo(5), chainTopo(6), diamondTopo, starTopo, chainTopo(6), diamondTopo}
		per = 40
	}
	for i, t := range topos {
		if res.tooMany() {
			break
		}
		env, err := memnetEnv(t, rng, 5, *seed*100+int64(i))
		if err != nil {
			res.inconclusive("%v", err)

			continue
		}
		runTraffic(res, col, tw, env, rng, per, false)
		env.stop()
		col.Reset()
	}

	// (2b) bursts: every socket sends large (4 KiB .. MTU) distinct payloads back to back over origin and transit nodes
	for i, t := range []topo{chainTopo(3), starTopo} {
		if res.tooMany() {
			break
		}
		env, err := memnetEnv(t, rng, 5, *seed*100+50+int64(i))
		if err != nil {
			res.inconclusive("%v", err)

			continue
		}
		env.burst, env.name = true, t.Name+"-burst"
		btw := tw
		if i > 0 {
			btw = nil // one burst segment is enough for the trace
		}
		runTraffic(res, col, btw, env, rng, per*3, false)
		res.count("scenarios_burst")
		env.stop()
		col.Reset()
	}

	// (3) stream back-ends: real TCP on loopback; netMessageConn with TLC-derived and random re-chunking
	st := &relayStats{}
	kinds := []string{"tcp", "rechunk-tlc", "rechunk-random"}
	for _, kind := range kinds {
		if res.tooMany() {
			break
		}
		var pats []chunkPattern
		if kind == "rechunk-tlc" {
			if len(patterns) == 0 {
				continue
			}
			pats = patterns
		}
		env, err := pairEnv(kind, rng, pats, st)
		if err != nil {
			res.inconclusive("%v", err)

			continue
		}
		n := per * 2
		if kind == "rechunk-tlc" && n*8 < len(pats) {
			n = len(pats)/8 + 1
		}
		runTraffic(res, col, tw, env, rng, n, false)
		if kind == "tcp" && !res.tooMany() {
			env.burst, env.name = true, "tcp-burst"
			runTraffic(res, col, nil, env, rng, per*4, false)
			res.count("scenarios_burst")
		}
		env.stop()
		col.Reset()
	}
	res.add("relay_frames", st.Frames)
	res.add("relay_header_splits", st.HdrSplits)
	res.add("relay_body_splits", st.BodySplits)
	res.add("relay_coalesced", st.Coalesced)

	// (4) lossy / duplicating / re-ordering links: only "nothing arrives where it was not sent" is demanded
	{
		t := chainTopo(3)
		env, err := memnetEnv(t, rng, 5, *seed*100+77)
		if err != nil {
			res.inconclusive("%v", err)
		} else {
			env.kind = "faulty"
			for _, l := range env.m.Links {
				f := memnet.Faults{LossPct: 10, DupPct: 15, ReorderPct: 25, ReorderSpan: 4}
				l.Pipe.AB.SetFaults(f)
				l.Pipe.BA.SetFaults(f)
			}
			runTraffic(res, col, nil, env, rng, per, true)
			dup := 0
			for _, l := range env.m.Links {
				dup += l.Pipe.AB.Duplicated + l.Pipe.BA.Duplicated
			}
			res.add("faulty_link_duplicates", dup)
			env.stop()
			col.Reset()
		}
	}

	// (5) same-node delivery with buffer reuse by the sender
	rounds := 400
	if thorough {
		rounds = 3000
	}
	reuseScenario(res, col, rng, rounds)
	col.Reset()

	keys := make([]string, 0, len(res.Counters))
	for k := range res.Counters {
		keys = append(keys, k)
	}
	sort.Strings(keys)
	_ = strings.Join(keys, ",")
}
