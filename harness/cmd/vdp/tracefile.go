package main

import (
	"encoding/hex"
	"encoding/json"
	"fmt"
	"os"
	"regexp"
	"sync"

	"github.com/ansible/receptor/pkg/netceptor"
	"github.com/ansible/receptor/pkg/verifhook"
)

// Trace lines for specs/DataPlaneTrace.tla.  Node and service names become injective ASCII tokens because
// the names under test contain arbitrary bytes; the two reserved services keep their names (the rules mention them).

var (
	tokMu   sync.Mutex
	tokMap  = map[string]string{}
	tokList []string
)

// tok maps a name to a short token, injectively for the whole process (the legend is written next to the trace).
func tok(s string) string {
	if s == "ping" || s == "unreach" || s == "" {
		return s
	}
	tokMu.Lock()
	defer tokMu.Unlock()
	t, ok := tokMap[s]
	if !ok {
		t = fmt.Sprintf("t%d", len(tokList))
		tokMap[s] = t
		tokList = append(tokList, hex.EncodeToString([]byte(s)))
	}

	return t
}

var epochSuffix = regexp.MustCompile(`@[0-9]+$`)

// nodeOfLabel strips the "@epoch" instance suffix that netceptor.go's events carry (packetconn.go's do not).
func nodeOfLabel(label string) string { return epochSuffix.ReplaceAllString(label, "") }

type traceNote struct {
	Problem string `json:"problem"`
	From    string `json:"from"`
	FromSvc string `json:"fromsvc"`
	To      string `json:"to"`
	ToSvc   string `json:"tosvc"`
}

func noteSha(problem, from, fromsvc, to, tosvc string) string {
	b, _ := json.Marshal(&netceptor.UnreachableMessage{FromNode: from, ToNode: to, FromService: fromsvc, ToService: tosvc, Problem: problem})

	return sha8(b)
}

type traceWriter struct {
	f     *os.File
	enc   *json.Encoder
	lines int
	segs  int
	limit int // stop writing segments once this many lines exist (0 = no limit)
	byEv  map[string]int
}

func newTraceWriter(path string, limit int) (*traceWriter, error) {
	f, err := os.Create(path)
	if err != nil {
		return nil, err
	}

	return &traceWriter{f: f, enc: json.NewEncoder(f), limit: limit, byEv: map[string]int{}}, nil
}

func (tw *traceWriter) put(m map[string]any) {
	_ = tw.enc.Encode(m)
	tw.lines++
	tw.byEv[m["ev"].(string)]++
}

func (tw *traceWriter) full() bool { return tw.limit > 0 && tw.lines >= tw.limit }

func (tw *traceWriter) close() {
	_ = tw.f.Close()
	tokMu.Lock()
	defer tokMu.Unlock()
	b, _ := json.Marshal(tokList)
	_ = os.WriteFile(tw.f.Name()+".legend.json", b, 0o644)
}

// segment writes the data-plane events of one scenario (recs in any order) as one trace segment.
// Returns the number of lines written (0 when the writer is full).
func (tw *traceWriter) segment(recs []verifhook.Record, defttl int, strict bool) int {
	if tw.full() {
		return 0
	}
	recs = append([]verifhook.Record(nil), recs...)
	sortBySeq(recs)
	// pre-pass: which notice texts can exist in this segment (digest -> decoded notice)
	notes := map[string]traceNote{}
	for _, r := range recs {
		switch r["ev"] {
		case "dp_expire":
			from, fs, to, ts := evStr(r, "from"), evStr(r, "fromsvc"), evStr(r, "to"), evStr(r, "tosvc")
			notes[noteSha(netceptor.ProblemExpiredInTransit, from, fs, to, ts)] = traceNote{netceptor.ProblemExpiredInTransit, tok(from), tok(fs), tok(to), tok(ts)}
		case "dp_unknown":
			from, fs, to, ts := evStr(r, "from"), evStr(r, "fromsvc"), nodeOfLabel(evStr(r, "n")), evStr(r, "tosvc")
			notes[noteSha(netceptor.ProblemServiceUnknown, from, fs, to, ts)] = traceNote{netceptor.ProblemServiceUnknown, tok(from), tok(fs), tok(to), tok(ts)}
		}
	}
	start := tw.lines
	tw.put(map[string]any{"ev": "reset", "defttl": defttl})
	for _, r := range recs {
		n := tok(nodeOfLabel(evStr(r, "n")))
		switch r["ev"] {
		case "pc_open":
			tw.put(map[string]any{"ev": "open", "n": n, "svc": tok(evStr(r, "svc"))})
		case "pc_close":
			tw.put(map[string]any{"ev": "close", "n": n, "svc": tok(evStr(r, "svc"))})
		case "dp_send":
			note := traceNote{}
			if evStr(r, "fromsvc") == "unreach" {
				if nt, ok := notes[evStr(r, "sha")]; ok {
					note = nt
				}
			}
			tw.put(map[string]any{"ev": "send", "n": n, "fromsvc": tok(evStr(r, "fromsvc")), "to": tok(evStr(r, "to")), "tosvc": tok(evStr(r, "tosvc")),
				"ttl": evInt(r, "ttl"), "len": evInt(r, "len"), "sha": evStr(r, "sha"), "note": note})
		case "dp_forward":
			tw.put(map[string]any{"ev": "forward", "n": n, "via": tok(evStr(r, "via")), "from": tok(evStr(r, "from")), "fromsvc": tok(evStr(r, "fromsvc")),
				"to": tok(evStr(r, "to")), "tosvc": tok(evStr(r, "tosvc")), "ttl_in": evInt(r, "ttl_in"), "ttl_out": evInt(r, "ttl_out"), "len": evInt(r, "len")})
		case "dp_deliver":
			tw.put(map[string]any{"ev": "deliver", "n": n, "svc": tok(evStr(r, "svc")), "from": tok(evStr(r, "from")), "fromsvc": tok(evStr(r, "fromsvc")),
				"len": evInt(r, "len"), "sha": evStr(r, "sha")})
		case "dp_expire":
			tw.put(map[string]any{"ev": "expire", "n": n, "from": tok(evStr(r, "from")), "fromsvc": tok(evStr(r, "fromsvc")),
				"to": tok(evStr(r, "to")), "tosvc": tok(evStr(r, "tosvc")), "notice": evBool(r, "notice")})
		case "dp_unknown":
			tw.put(map[string]any{"ev": "unknown", "n": n, "from": tok(evStr(r, "from")), "fromsvc": tok(evStr(r, "fromsvc")),
				"tosvc": tok(evStr(r, "tosvc")), "local": evBool(r, "local")})
		case "dp_noroute":
			tw.put(map[string]any{"ev": "noroute", "n": n, "to": tok(evStr(r, "to"))})
		case "unr_publish":
			tw.put(map[string]any{"ev": "publish", "n": n, "via": tok(evStr(r, "via")),
				"note": traceNote{evStr(r, "problem"), tok(evStr(r, "from")), tok(evStr(r, "fromsvc")), tok(evStr(r, "to")), tok(evStr(r, "tosvc"))}})
		case "unr_socket":
			tw.put(map[string]any{"ev": "socket", "n": n, "svc": tok(evStr(r, "svc")), "problem": evStr(r, "problem"),
				"to": tok(evStr(r, "to")), "tosvc": tok(evStr(r, "tosvc"))})
		case "h_inject": // a scripted (non-conforming) neighbour hands a packet of its own making to a real node
			tw.put(map[string]any{"ev": "inject", "n": tok(evStr(r, "at")), "from": tok(evStr(r, "from")), "fromsvc": tok(evStr(r, "fromsvc")),
				"to": tok(evStr(r, "to")), "tosvc": tok(evStr(r, "tosvc")), "ttl": evInt(r, "ttl"), "len": evInt(r, "len"), "sha": evStr(r, "sha")})
		case "h_bounce": // a scripted neighbour returns a packet it was given, unchanged, to a real node
			tw.put(map[string]any{"ev": "bounce", "n": n, "via": tok(evStr(r, "via")), "from": tok(evStr(r, "from")), "fromsvc": tok(evStr(r, "fromsvc")),
				"to": tok(evStr(r, "to")), "tosvc": tok(evStr(r, "tosvc")), "ttl": evInt(r, "ttl"), "len": evInt(r, "len")})
		case "h_absorb": // a scripted neighbour keeps a packet it was given
			tw.put(map[string]any{"ev": "absorb", "n": n, "from": tok(evStr(r, "from")), "fromsvc": tok(evStr(r, "fromsvc")),
				"to": tok(evStr(r, "to")), "tosvc": tok(evStr(r, "tosvc")), "ttl": evInt(r, "ttl"), "len": evInt(r, "len")})
		}
	}
	tw.put(map[string]any{"ev": "end", "strict": strict})
	tw.segs++

	return tw.lines - start
}
