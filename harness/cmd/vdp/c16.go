package main

import (
	"bytes"
	"context"
	"encoding/json"
	"errors"
	"flag"
	"fmt"
	"math/rand"
	"net"
	"os"
	"os/exec"
	"sort"
	"strings"
	"sync"
	"sync/atomic"
	"time"
	"unicode/utf8"

	"github.com/ansible/receptor/pkg/netceptor"
	"github.com/ansible/receptor/pkg/verifhook"
	"verif/harness/mesh"
)

// C16: senders learn when the target service does not exist; only the sending socket is told; dials fail fast;
// policy drops are silent; the close-while-sending race never delivers and reports the same packet, and never crashes.

func init() {
	commands["c16"] = cmdC16
	commands["c16race"] = cmdC16Race
}

type expNote struct {
	ToNode, ToSvc string
	Sentinel      bool
}

// c16Node is one node with its sockets: "app" (the sender under test) and unrelated sockets.
type c16Node struct {
	id    string
	n     *netceptor.Netceptor
	socks []*sock // socks[0] is the sender under test
	exp   map[string][]expNote
}

func noteMatches(got netceptor.UnreachableNotification, node, svc string, e expNote) bool {
	return got.Problem == netceptor.ProblemServiceUnknown && got.FromNode == node && got.FromService == svc &&
		got.ToNode == e.ToNode && got.ToService == e.ToSvc && got.ReceivedFromNode == e.ToNode
}

// notesAt returns, in arrival order, what the socket (node, svc) has received.
func notesAt(obs *observers, node, svc string) []netceptor.UnreachableNotification {
	obs.mu.Lock()
	defer obs.mu.Unlock()
	var out []netceptor.UnreachableNotification
	for _, n := range obs.notes {
		if n.Node == node && n.Svc == svc {
			out = append(out, n.N)
		}
	}

	return out
}

var sentinelSeq int64

// sentinelRound: every socket of nd sends one datagram to a service that is bound nowhere on `via` and waits for the
// notice about it.  Notifications reach a socket's channel in the order in which the node's broker published them, so
// once a socket has its own sentinel notice, anything published earlier that was (wrongly) routed to it has arrived too.
func sentinelRound(res *Result, obs *observers, nd *c16Node, via string, what string) bool {
	for _, s := range nd.socks {
		k := atomic.AddInt64(&sentinelSeq, 1)
		svc := fmt.Sprintf("z%07d", k%10000000)
		nd.exp[s.Svc] = append(nd.exp[s.Svc], expNote{ToNode: via, ToSvc: svc, Sentinel: true})
		if err := s.sendTo(nd.n, via, svc, []byte("sentinel")); err != nil {
			res.inconclusive("%s: sentinel send from %q:%q failed: %v", what, nd.id, s.Svc, err)

			return false
		}
	}
	for _, s := range nd.socks {
		want := len(nd.exp[s.Svc])
		last := nd.exp[s.Svc][want-1]
		ok := obs.waitUntil(40*time.Second, func() bool {
			for _, n := range obs.notes {
				if n.Node == nd.id && n.Svc == s.Svc && n.N.ToService == last.ToSvc {
					return true
				}
			}

			return false
		})
		if !ok {
			res.inconclusive("%s: sentinel notice for %q:%q did not arrive", what, nd.id, s.Svc)

			return false
		}
	}

	return true
}

// awaitNotes waits until the socket has received as many notifications as are expected so far; when they do not come
// although the mesh has long been idle the comparison will report them missing; when the mesh is still busy the run is inconclusive.
func awaitNotes(res *Result, col *collector, obs *observers, nd *c16Node, svc, what string) bool {
	want := len(nd.exp[svc])
	ok := obs.waitUntil(30*time.Second, func() bool {
		n := 0
		for _, x := range obs.notes {
			if x.Node == nd.id && x.Svc == svc {
				n++
			}
		}

		return n >= want
	})
	if !ok && lastEventAge(col) < 3*time.Second {
		res.inconclusive("%s: notices for %q:%q still outstanding while the mesh is busy", what, nd.id, svc)

		return false
	}

	return true
}

// compareNotes checks that each socket of nd received exactly the expected notifications, in order.
func compareNotes(res *Result, obs *observers, nd *c16Node, what string, replay any) {
	for _, s := range nd.socks {
		got := notesAt(obs, nd.id, s.Svc)
		exp := nd.exp[s.Svc]
		extra := func(g netceptor.UnreachableNotification) {
			sig := "C16:notice-to-unrelated-socket"
			if g.FromNode == nd.id && g.FromService == s.Svc {
				sig = "C16:unexpected-notice"
			}
			res.violate(sig, fmt.Sprintf("%s: socket %s:%s received a notification it must not get: %+v", what, q(nd.id), q(s.Svc), g), replay)
		}
		gi := 0
		for _, e := range exp {
			found := -1
			for j := gi; j < len(got); j++ {
				if noteMatches(got[j], nd.id, s.Svc, e) {
					found = j

					break
				}
			}
			if found >= 0 {
				for ; gi < found; gi++ {
					extra(got[gi])
				}
				gi = found + 1

				continue
			}
			// no exact match: is there one about the same destination with other fields?
			near := -1
			for j := gi; j < len(got); j++ {
				if got[j].ToService == e.ToSvc || (got[j].FromService == e.ToSvc && got[j].ToService == s.Svc) {
					near = j

					break
				}
			}
			if near >= 0 {
				g := got[near]
				sig := "C16:notice-fields-wrong"
				if g.Problem != netceptor.ProblemServiceUnknown {
					sig = "C16:notice-problem-wrong"
				}
				res.violate(sig, fmt.Sprintf("%s: socket %s:%s sent to the unbound %s:%s and was told %+v; expected Problem %q, From %s:%s, To %s:%s, received from %s",
					what, q(nd.id), q(s.Svc), q(e.ToNode), q(e.ToSvc), g, netceptor.ProblemServiceUnknown, q(nd.id), q(s.Svc), q(e.ToNode), q(e.ToSvc), q(e.ToNode)), replay)
				for ; gi < near; gi++ {
					extra(got[gi])
				}
				gi = near + 1

				continue
			}
			res.violate("C16:notice-missing", fmt.Sprintf("%s: socket %s:%s sent to the unbound %s:%s; no 'service unknown' notice about it arrived (later notices did: the next received is %+v)",
				what, q(nd.id), q(s.Svc), q(e.ToNode), q(e.ToSvc), nextOf(got, gi)), replay)
		}
		for ; gi < len(got); gi++ {
			extra(got[gi])
		}
	}
}

func nextOf(got []netceptor.UnreachableNotification, i int) any {
	if i < len(got) {
		return got[i]
	}

	return "nothing"
}

func c16Mesh(res *Result, t topo, rng *rand.Rand, odd bool, seed int64) (*mesh.Mesh, []*c16Node, *observers, bool) {
	ids := make([]string, t.N)
	pool := nodeIDPool(rng)
	for i := range ids {
		if odd {
			ids[i] = pool[i]
		} else {
			ids[i] = fmt.Sprintf("%s-%c", t.Name, 'A'+i)
		}
	}
	m, err := buildMesh(t, ids, mesh.Opts{RouteUpdate: 300 * time.Millisecond, MaxHops: 8}, seed)
	if err != nil {
		res.inconclusive("c16 mesh: %v", err)

		return nil, nil, nil, false
	}
	if !waitConverged(m, 40*time.Second) {
		m.StopAll()
		res.inconclusive("c16 mesh %s did not converge", t.Name)

		return nil, nil, nil, false
	}
	obs := newObservers()
	var nodes []*c16Node
	var spool []string
	for _, sv := range servicePool(rng) {
		unb := sv == "app" || sv == "abc" || !utf8.ValidString(sv) // (names that are not UTF-8: see c16NonUTF8)
		for _, u := range unboundNames {
			unb = unb || u == sv
		}
		if !unb {
			spool = append(spool, sv)
		}
	}
	for i, id := range ids {
		nd := &c16Node{id: id, n: m.Nodes[id].N, exp: map[string][]expNote{}}
		names := []string{"app", "abc", spool[(2*i)%len(spool)], spool[(2*i+1)%len(spool)]}
		seen := map[string]bool{}
		for _, svc := range names {
			if seen[svc] {
				svc += "2"
			}
			seen[svc] = true
			s, err := openSock(nd.n, id, svc, obs, 0)
			if err != nil {
				m.StopAll()
				res.inconclusive("c16: listen: %v", err)

				return nil, nil, nil, false
			}
			nd.socks = append(nd.socks, s)
		}
		nodes = append(nodes, nd)
	}

	return m, nodes, obs, true
}

// unboundNames are service names that nothing listens on although similar names are bound ("abc" is bound everywhere).
var unboundNames = []string{"nosvc", "ab", "abc\x01", "ABC", "abcdefgh", "\xc3\xa9\x7f"}

func c16Notices(res *Result, col *collector, tw *traceWriter, t topo, rng *rand.Rand, odd bool, seed int64) {
	ev0 := col.Len()
	m, nodes, obs, ok := c16Mesh(res, t, rng, odd, seed)
	if !ok {
		return
	}
	defer m.StopAll()
	name := t.Name
	for si, s := range nodes {
		for ti, tn := range nodes {
			if res.tooMany() {
				return
			}
			app := s.socks[0]
			replay := map[string]any{"topology": name, "sender": s.id, "target": tn.id}
			for _, u := range unboundNames {
				res.eval(fmt.Sprintf("unknown|%s|%d|%d|%s|%v", name, si, ti, u, odd))
				err := app.sendTo(s.n, tn.id, u, []byte("probe-"+u))
				if si == ti {
					// same node: synchronous error, no notice
					res.count("local_unknown")
					if err == nil || err.Error() != netceptor.ProblemServiceUnknown {
						res.violate("C16:local-unknown-no-error", fmt.Sprintf("%s: WriteTo from %s:app to the unbound local service %s returned %v; expected the error %q",
							name, q(s.id), q(u), err, netceptor.ProblemServiceUnknown), replay)
					}

					continue
				}
				res.count("remote_unknown")
				if err != nil {
					res.violate("C16:send-error", fmt.Sprintf("%s: WriteTo from %s:app to %s:%s failed: %v", name, q(s.id), q(tn.id), q(u), err), replay)

					continue
				}
				s.exp["app"] = append(s.exp["app"], expNote{ToNode: tn.id, ToSvc: u})
			}
			// first the notices that must come (positive wait) ...
			if !awaitNotes(res, col, obs, s, "app", name) {
				return
			}
			// ... then the barrier: every socket of the sender node gets its own later notice, which proves that
			// whatever the node's broker published before has reached every socket it was (rightly or wrongly) routed to
			via := nodes[(si+1)%len(nodes)].id
			if !sentinelRound(res, obs, s, via, name) {
				return
			}
			compareNotes(res, obs, s, name, replay)
			for _, sk := range s.socks { // what has been compared is consumed
				s.exp[sk.Svc] = nil
			}
			obs.mu.Lock()
			kept := obs.notes[:0]
			for _, n := range obs.notes {
				if n.Node != s.id {
					kept = append(kept, n)
				}
			}
			obs.notes = kept
			obs.mu.Unlock()
		}
	}
	// closing round: nothing was handed to a socket of any other node either
	for i, nd := range nodes {
		if !sentinelRound(res, obs, nd, nodes[(i+1)%len(nodes)].id, name) {
			return
		}
		compareNotes(res, obs, nd, name+" (closing round)", map[string]any{"topology": name, "node": nd.id})
	}
	arrs, _ := obs.snapshot()
	if len(arrs) != 0 {
		res.violate("C16:delivered-to-wrong-listener", fmt.Sprintf("%s: a datagram for an unbound service was delivered: %+v", name, arrs[0]), nil)
	}
	res.count("notice_topologies")
	res.sample(map[string]any{"topology": name, "odd_names": odd, "nodes": quoteAll(idsOf(nodes)), "sockets_per_node": 4, "unbound_services": quoteAll(unboundNames)}, 3)
	for _, nd := range nodes {
		for _, s := range nd.socks {
			s.close()
		}
	}
	if tw != nil {
		res.add("trace_lines", tw.segment(col.Since(ev0), 8, true))
	}
}

func idsOf(nodes []*c16Node) []string {
	out := []string{}
	for _, n := range nodes {
		out = append(out, n.id)
	}

	return out
}

// ---------------------------------------------------------------- service names that are not UTF-8

// jsonMangle returns what a string becomes when it travels as JSON text.
func jsonMangle(s string) string {
	b, _ := json.Marshal(s)
	var out string
	_ = json.Unmarshal(b, &out)

	return out
}

// c16NonUTF8: service names are 1..8 arbitrary non-zero bytes on the wire; the notice must name them exactly too.
func c16NonUTF8(res *Result, col *collector, rng *rand.Rand, seed int64) {
	ids := []string{"u8-A", "u8-B"}
	m, err := buildMesh(chainTopo(2), ids, mesh.Opts{RouteUpdate: 300 * time.Millisecond, MaxHops: 8}, seed)
	if err != nil || !waitConverged(m, 40*time.Second) {
		res.inconclusive("non-utf8 mesh: %v", err)

		return
	}
	defer m.StopAll()
	obs := newObservers()
	a := m.Nodes[ids[0]].N
	app, err1 := openSock(a, ids[0], "app", obs, 0)
	odd, err2 := openSock(a, ids[0], "\xfe\xff", obs, 0)
	if err1 != nil || err2 != nil {
		res.inconclusive("non-utf8: listen: %v %v", err1, err2)

		return
	}
	defer app.close()
	defer odd.close()
	settled := func(ev0 int, tosvc string) bool { // the notice has been published at the sender's node and things are quiet
		_, ok := col.WaitFor(ev0, 30*time.Second, func(r verifhook.Record) bool {
			return r["ev"] == "unr_publish" && nodeOfLabel(evStr(r, "n")) == ids[0] && jsonMangle(tosvc) == evStr(r, "tosvc")
		})
		if !ok {
			return false
		}

		return waitQuiescent(col, m, 300*time.Millisecond, 20*time.Second)
	}
	// (i) an unbound service whose name is not UTF-8
	const target = "\xff\x80"
	ev0 := col.Len()
	res.eval("nonutf8|target")
	if err := app.sendTo(a, ids[1], target, []byte("x")); err != nil {
		res.inconclusive("non-utf8: send: %v", err)

		return
	}
	if !settled(ev0, target) {
		res.inconclusive("non-utf8: the notice was not published at the sender's node")

		return
	}
	got := notesAt(obs, ids[0], "app")
	switch {
	case len(got) == 1 && noteMatches(got[0], ids[0], "app", expNote{ToNode: ids[1], ToSvc: target}):
	case len(got) == 1 && got[0].ToService == jsonMangle(target) && got[0].FromService == "app" && got[0].ToNode == ids[1]:
		res.violate("C16:notice-mangles-non-utf8-service", fmt.Sprintf("a datagram to the unbound service %q is answered with a notice naming service %q (%x): the notice travels as JSON text, "+
			"which cannot carry bytes that are not UTF-8 (DialContext's monitor compares this field with the dialled service, so such a dial is never abandoned)", target, got[0].ToService, got[0].ToService),
			map[string]any{"target_service_hex": fmt.Sprintf("%x", target)})
	case len(got) == 0:
		res.violate("C16:notice-missing", fmt.Sprintf("no notice for the unbound service %q reached the sender", target), nil)
	default:
		res.violate("C16:notice-fields-wrong", fmt.Sprintf("notice for the unbound service %q: %+v", target, got), nil)
	}
	// (ii) a sending socket whose own name is not UTF-8
	ev0 = col.Len()
	res.eval("nonutf8|sender")
	if err := odd.sendTo(a, ids[1], "nosvc", []byte("x")); err != nil {
		res.inconclusive("non-utf8: send: %v", err)

		return
	}
	if !settled(ev0, "nosvc") {
		res.inconclusive("non-utf8: the notice was not published at the sender's node")

		return
	}
	got = notesAt(obs, ids[0], odd.Svc)
	if len(got) == 0 {
		res.violate("C16:notice-lost-for-non-utf8-socket", fmt.Sprintf("socket %q sent to an unbound service; the notice came back to its node and was published, but no socket took it: "+
			"the notice names the sender's service as JSON text (%q), which never equals the socket's real name", odd.Svc, jsonMangle(odd.Svc)),
			map[string]any{"socket_service_hex": fmt.Sprintf("%x", odd.Svc)})
	} else if !noteMatches(got[0], ids[0], odd.Svc, expNote{ToNode: ids[1], ToSvc: "nosvc"}) {
		res.violate("C16:notice-fields-wrong", fmt.Sprintf("socket %q received %+v", odd.Svc, got[0]), nil)
	}
	if extra := notesAt(obs, ids[0], "app"); len(extra) > 1 {
		res.violate("C16:notice-to-unrelated-socket", fmt.Sprintf("socket app received %+v", extra[1]), nil)
	}
	res.count("non_utf8_cases")
}

// ---------------------------------------------------------------- firewall drop is silent

func c16Drop(res *Result, col *collector, tw *traceWriter, rng *rand.Rand, seed int64) {
	ev0 := col.Len()
	m, nodes, obs, ok := c16Mesh(res, chainTopo(3), rng, false, seed)
	if !ok {
		return
	}
	defer m.StopAll()
	s, mid, tn := nodes[0], nodes[1], nodes[2]
	rule := func(md *netceptor.MessageData) netceptor.FirewallResult {
		if md.ToService == "dropme" || md.ToService == "abc" {
			return netceptor.FirewallResultDrop
		}

		return netceptor.FirewallResultContinue
	}
	for _, where := range []*c16Node{tn, mid} { // dropped at the destination, then in transit
		_ = where.n.AddFirewallRules([]netceptor.FirewallRuleFunc{rule}, true)
		for _, svc := range []string{"dropme", "abc"} { // an unbound and a bound service
			res.eval(fmt.Sprintf("drop|%s|%s", where.id, svc))
			res.count("drop_cases")
			if err := s.socks[0].sendTo(s.n, tn.id, svc, []byte("to-be-dropped")); err != nil {
				res.violate("C16:send-error", fmt.Sprintf("drop: WriteTo failed: %v", err), nil)
			}
		}
		// a later datagram on the same path to an unbound, not filtered service: its notice is the barrier
		s.exp["app"] = append(s.exp["app"], expNote{ToNode: tn.id, ToSvc: "after"})
		_ = s.socks[0].sendTo(s.n, tn.id, "after", []byte("x"))
		if !awaitNotes(res, col, obs, s, "app", "drop") {
			return
		}
		if !sentinelRound(res, obs, s, mid.id, "drop") {
			return
		}
		compareNotes(res, obs, s, "firewall drop at "+where.id, map[string]any{"drop_at": where.id})
		for _, sk := range s.socks {
			s.exp[sk.Svc] = nil
		}
		obs.mu.Lock()
		obs.notes = nil
		obs.mu.Unlock()
		_ = where.n.AddFirewallRules(nil, true)
	}
	arrs, _ := obs.snapshot()
	if len(arrs) != 0 {
		res.violate("C16:dropped-packet-delivered", fmt.Sprintf("a datagram matching a drop rule was delivered: %+v", arrs[0]), nil)
	}
	for _, nd := range nodes {
		for _, sk := range nd.socks {
			sk.close()
		}
	}
	// the dropped packets simply end where they were dropped: not a strict segment
	if tw != nil {
		res.add("trace_lines", tw.segment(col.Since(ev0), 8, false))
	}
}

// ---------------------------------------------------------------- dials fail fast

// A dial to an unbound service is judged by its CAUSE, not by a stopwatch: it must end because the 'service unknown'
// notice cancelled it (DialContext then returns context.Canceled: nothing else cancels that context here), and not
// because the caller's deadline (14 s, just below the 15 s QUIC handshake idle time-out) or the handshake time-out ran out
// although notices had reached the dialling socket long before.  A dial that ran into the deadline WITHOUT such evidence
// (no or only one late notice at its socket: the machine may simply be slow) is inconclusive, never a violation.
const (
	dialDeadline    = 14 * time.Second
	dialNoticeEarly = 5 * time.Second // "long before": the first notice reached the socket at least this long before the end
)

type dialOutcome struct {
	err       error
	took      time.Duration
	notices   int           // 'service unknown' notifications that reached the dial's own socket while it ran
	noticeAt  time.Duration // when the first of them did (-1: never)
	afterNote time.Duration
}

func isTimeoutErr(err error) bool {
	if err == nil {
		return false
	}
	if errors.Is(err, context.DeadlineExceeded) {
		return true
	}
	var ne net.Error
	if errors.As(err, &ne) && ne.Timeout() {
		return true
	}
	t := err.Error()

	return strings.Contains(t, "timeout") || strings.Contains(t, "deadline") || strings.Contains(t, "no recent network activity")
}

// timedDial dials (target, service); service must be used by this dial only (the notices are attributed by it).
func timedDial(col *collector, n *netceptor.Netceptor, nodeID, target, service string, known map[string]bool) dialOutcome {
	ev0 := col.Len()
	start := time.Now()
	ctx, cancel := context.WithTimeout(context.Background(), dialDeadline)
	defer cancel()
	c, err := n.DialContext(ctx, target, service, nil)
	end := time.Now()
	if err == nil && c != nil {
		_ = c.Close()
	}
	out := dialOutcome{err: err, took: end.Sub(start), noticeAt: -1}
	for _, r := range col.Since(ev0) {
		if r["ev"] == "unr_socket" && nodeOfLabel(evStr(r, "n")) == nodeID && !known[evStr(r, "svc")] &&
			evStr(r, "problem") == netceptor.ProblemServiceUnknown && evStr(r, "tosvc") == service {
			t, _ := r["t"].(int64)
			if at := time.Unix(0, t); !at.After(end) {
				out.notices++
				if out.noticeAt < 0 {
					out.noticeAt = at.Sub(start)
				}
			}
		}
	}
	if out.noticeAt >= 0 {
		out.afterNote = out.took - out.noticeAt
	}

	return out
}

func judgeDial(res *Result, what string, o dialOutcome, replay any) {
	res.count("dials")
	res.add("dial_ms_total", int(o.took/time.Millisecond))
	switch {
	case o.err == nil:
		res.violate("C16:dial-to-unbound-succeeded", fmt.Sprintf("%s: DialContext returned a connection", what), replay)
	case errors.Is(o.err, context.Canceled):
		res.count("dials_abandoned_by_notice") // the only canceller of the dial's context is the unreachable monitor
	case isTimeoutErr(o.err) && o.notices >= 2 && o.afterNote >= dialNoticeEarly:
		res.violate("C16:dial-not-abandoned-on-notice", fmt.Sprintf("%s: %d 'service unknown' notices reached the dialling socket, the first after %v, but the dial was not abandoned: "+
			"it ended %v later by running out of time (%v)", what, o.notices, o.noticeAt.Round(time.Millisecond), o.afterNote.Round(time.Millisecond), o.err), replay)
	case isTimeoutErr(o.err):
		res.inconclusive("%s: the dial ran out of time after %v (%v) and %d notice(s) reached its socket: no definite cause", what, o.took.Round(time.Millisecond), o.err, o.notices)
	default:
		res.count("dials_ended_otherwise")
	}
}

func c16Dial(res *Result, col *collector, tw *traceWriter, rng *rand.Rand, seed int64, rounds int) {
	m, nodes, _, ok := c16Mesh(res, chainTopo(3), rng, false, seed)
	if !ok {
		return
	}
	defer m.StopAll()
	a, c := nodes[0], nodes[2]
	known := map[string]bool{}
	for _, s := range a.socks {
		known[s.Svc] = true
	}
	for r := 0; r < rounds; r++ {
		// (1) a service that was never bound
		res.eval(fmt.Sprintf("dial|unbound|%d", r))
		o := timedDial(col, a.n, a.id, c.id, fmt.Sprintf("nl%d", r), known)
		judgeDial(res, "dial to a service that was never bound", o, map[string]any{"case": "unbound"})
		// (2) a stream listener that exists, is used once, and is closed a moment before the next dial
		li, err := c.n.Listen("strm", nil)
		if err != nil {
			res.inconclusive("listen strm: %v", err)

			return
		}
		acc := make(chan error, 1)
		go func() {
			conn, err := li.Accept()
			if err == nil {
				buf := make([]byte, 1)
				_, _ = conn.Read(buf)
				_ = conn.Close()
			}
			acc <- err
		}()
		ctx, cancel := context.WithTimeout(context.Background(), 40*time.Second)
		conn, err := a.n.DialContext(ctx, c.id, "strm", nil)
		cancel()
		if err != nil {
			res.inconclusive("dial to a live listener failed: %v", err)
			_ = li.Close()

			return
		}
		_, _ = conn.Write([]byte{7})
		select {
		case <-acc:
		case <-time.After(20 * time.Second):
		}
		_ = conn.Close()
		_ = conn.CloseConnection()
		_ = li.Close()
		res.eval(fmt.Sprintf("dial|closed|%d", r))
		o = timedDial(col, a.n, a.id, c.id, "strm", known)
		judgeDial(res, "dial to a service whose listener was closed a moment ago", o, map[string]any{"case": "just-closed"})
		res.sample(map[string]any{"dial": "just-closed listener", "error": fmt.Sprint(o.err), "took_ms": o.took.Milliseconds(), "notice_after_ms": o.noticeAt.Milliseconds()}, 5)
	}
	for _, nd := range nodes {
		for _, sk := range nd.socks {
			sk.close()
		}
	}
	col.Reset()
}

// ---------------------------------------------------------------- close-while-sending race (own process)

type raceResult struct {
	Result
}

func cmdC16Race(args []string) {
	fs := flag.NewFlagSet("c16race", flag.ExitOnError)
	out := fs.String("out", "race.json", "result file")
	traceOut := fs.String("trace", "", "trace file")
	seed := fs.Int64("seed", 1, "seed")
	rounds := fs.Int("rounds", 30, "open/close rounds")
	_ = fs.Parse(args)
	res := &Result{}
	defer res.write(*out)
	col := installCollector()
	rng := rand.New(rand.NewSource(*seed*31 + 5))
	var tw *traceWriter
	if *traceOut != "" {
		var err error
		if tw, err = newTraceWriter(*traceOut, 4000); err != nil {
			res.inconclusive("trace: %v", err)

			return
		}
		defer func() {
			res.Segments, res.TraceLines = tw.segs, tw.lines
			tw.close()
		}()
	}
	ids := []string{"race-A", "race-B"}
	m, err := buildMesh(chainTopo(2), ids, mesh.Opts{RouteUpdate: 300 * time.Millisecond, MaxHops: 8}, *seed)
	if err != nil || !waitConverged(m, 40*time.Second) {
		res.inconclusive("race mesh: %v", err)

		return
	}
	defer m.StopAll()
	a, b := m.Nodes[ids[0]].N, m.Nodes[ids[1]].N
	obs := newObservers()
	const nSenders = 3
	var senders []*sock
	for i := 0; i < nSenders; i++ {
		s, err := openSock(a, ids[0], fmt.Sprintf("tx%d", i), obs, 0)
		if err != nil {
			res.inconclusive("race: %v", err)

			return
		}
		senders = append(senders, s)
	}
	for round := 0; round < *rounds && !res.tooMany(); round++ {
		ev0 := col.Len()
		obs.mu.Lock()
		obs.arrivals, obs.notes = nil, nil
		obs.mu.Unlock()
		rx, err := openSock(b, ids[1], "race", obs, time.Duration(rng.Intn(120))*time.Microsecond)
		if err != nil {
			res.inconclusive("race: listen: %v", err)

			return
		}
		var sent int64
		var wg sync.WaitGroup
		stop := make(chan struct{})
		for i, s := range senders {
			wg.Add(1)
			go func(i int, s *sock) {
				defer wg.Done()
				for k := 0; ; k++ {
					select {
					case <-stop:
						return
					default:
					}
					p := []byte(fmt.Sprintf("race|%d|%d|%d", round, i, k))
					if err := s.sendTo(a, ids[1], "race", p); err == nil {
						atomic.AddInt64(&sent, 1)
					}
					if k >= 400 {
						return
					}
				}
			}(i, s)
		}
		time.Sleep(time.Duration(200+rng.Intn(3000)) * time.Microsecond)
		rx.close() // the close under test, while datagrams are arriving
		time.Sleep(time.Duration(100+rng.Intn(1500)) * time.Microsecond)
		close(stop)
		wg.Wait()
		if !waitQuiescent(col, m, 150*time.Millisecond, 40*time.Second) {
			res.inconclusive("race: not quiescent")

			return
		}
		evs := col.Since(ev0)
		sortBySeq(evs)
		// the single deliverer at B handles arrivals one after the other: fw, then its outcome, then the next fw
		type arrivalT struct {
			openAtArrival, reopened bool
			delivered, unknown      bool
			closeDuring             bool
			fromsvc                 string
		}
		var arr []*arrivalT
		open := false
		nUnknownBy := map[string]int{}
		nDeliver := 0
		for _, r := range evs {
			if nodeOfLabel(evStr(r, "n")) != ids[1] {
				continue
			}
			switch r["ev"] {
			case "pc_open":
				if evStr(r, "svc") == "race" {
					open = true
					if len(arr) > 0 {
						arr[len(arr)-1].reopened = true
					}
				}
			case "pc_close":
				if evStr(r, "svc") == "race" {
					open = false
					if len(arr) > 0 {
						arr[len(arr)-1].closeDuring = true
					}
				}
			case "dp_fw":
				if evStr(r, "to") == ids[1] && evStr(r, "tosvc") == "race" {
					arr = append(arr, &arrivalT{openAtArrival: open, fromsvc: evStr(r, "fromsvc")})
				}
			case "dp_deliver":
				if evStr(r, "svc") == "race" && len(arr) > 0 {
					cur := arr[len(arr)-1]
					if cur.delivered {
						res.violate("C16:close-race-delivered-twice", "one arrival was followed by two deliveries", map[string]any{"round": round})
					}
					cur.delivered = true
					nDeliver++
				}
			case "dp_unknown":
				if evStr(r, "tosvc") == "race" && len(arr) > 0 {
					cur := arr[len(arr)-1]
					cur.unknown = true
					nUnknownBy[evStr(r, "fromsvc")]++
					if open {
						res.violate("C16:unknown-while-listening", "a datagram was answered 'service unknown' while the listener was registered and live", map[string]any{"round": round})
					}
				}
			}
		}
		nSilent, nUnknown := 0, 0
		for i, x := range arr {
			res.eval(fmt.Sprintf("race|%v|%v|%v|%v", x.openAtArrival, x.delivered, x.unknown, x.closeDuring))
			switch {
			case x.delivered && x.unknown:
				res.violate("C16:close-race-both", fmt.Sprintf("round %d: arrival %d was both delivered to the listener and answered with a notice", round, i), map[string]any{"round": round})
			case !x.delivered && !x.unknown:
				nSilent++
				if !x.closeDuring {
					res.violate("C16:close-race-lost-silently", fmt.Sprintf("round %d: arrival %d (listener open at arrival: %v) was neither delivered nor answered, and the listener was not closed while it waited",
						round, i, x.openAtArrival), map[string]any{"round": round})
				}
			case x.delivered && !x.openAtArrival && !x.reopened:
				res.violate("C16:delivered-after-close", fmt.Sprintf("round %d: arrival %d came after the listener had been closed and was still delivered", round, i), map[string]any{"round": round})
			}
			if x.unknown {
				nUnknown++
			}
		}
		if nSilent > 1 {
			res.violate("C16:close-race-lost-silently", fmt.Sprintf("round %d: %d datagrams vanished at one close (one deliverer can be overtaken by one close)", round, nSilent), map[string]any{"round": round})
		}
		// the notices must reach exactly the sockets that sent the unanswered datagrams
		okN := obs.waitUntil(10*time.Second, func() bool { return len(obs.notes) >= nUnknown })
		time.Sleep(2 * time.Millisecond)
		arrs, notes := obs.snapshot()
		if !okN && lastEventAge(col) < 2*time.Second {
			res.inconclusive("race: notices still moving")

			return
		}
		gotBy := map[string]int{}
		for _, n := range notes {
			gotBy[n.Svc]++
			if n.N.Problem != netceptor.ProblemServiceUnknown || n.N.FromService != n.Svc || n.N.ToNode != ids[1] || n.N.ToService != "race" || n.N.FromNode != ids[0] {
				res.violate("C16:notice-fields-wrong", fmt.Sprintf("round %d: socket %s received %+v", round, n.Svc, n.N), map[string]any{"round": round})
			}
		}
		for _, s := range senders {
			if gotBy[s.Svc] != nUnknownBy[s.Svc] {
				sig := "C16:notice-missing"
				if gotBy[s.Svc] > nUnknownBy[s.Svc] {
					sig = "C16:unexpected-notice"
				}
				res.violate(sig, fmt.Sprintf("round %d: socket %s sent %d datagrams that found no listener but received %d notices", round, s.Svc, nUnknownBy[s.Svc], gotBy[s.Svc]), map[string]any{"round": round})
			}
		}
		if len(arrs) != nDeliver {
			res.violate("C16:close-race-delivery-mismatch", fmt.Sprintf("round %d: %d datagrams were handed to the listener, its reader got %d", round, nDeliver, len(arrs)), map[string]any{"round": round})
		}
		seen := map[string]bool{}
		for _, x := range arrs {
			if seen[x.Sha] {
				res.violate("C16:close-race-delivered-twice", fmt.Sprintf("round %d: the reader got the same datagram twice", round), map[string]any{"round": round})
			}
			seen[x.Sha] = true
		}
		if int(sent) != len(arr) {
			res.violate("C16:close-race-lost-in-transit", fmt.Sprintf("round %d: %d datagrams were accepted by WriteTo, %d arrived at the target node", round, sent, len(arr)), map[string]any{"round": round})
		}
		res.add("race_sent", int(sent))
		res.add("race_delivered", nDeliver)
		res.add("race_noticed", nUnknown)
		res.add("race_overtaken_by_close", nSilent)
		res.count("race_rounds")
		if tw != nil && round < 6 {
			res.add("trace_lines", tw.segment(evs, 8, false))
		}
		col.Reset()
	}
	for _, s := range senders {
		s.close()
	}
	m.StopAll()
	col.Reset()
	if !res.tooMany() {
		raceMulti(res, col, rng, *seed, *rounds/2+1)
	}
	col.Reset()
	if !res.tooMany() {
		churn(res, col, rng, *seed, *rounds)
	}
}

// within runs fn in its own goroutine and reports whether it returned within d (a wedged node blocks its callers for ever).
func within(d time.Duration, fn func()) bool {
	done := make(chan struct{})
	go func() {
		defer close(done)
		fn()
	}()
	select {
	case <-done:
		return true
	case <-time.After(d):
		return false
	}
}

// churn: notices keep arriving at a node while unrelated sockets of that node are opened and closed (datagram sockets
// and the ephemeral sockets of concurrent dials).  UnreachBroker.tla: the node's broker hands every notice to every
// subscribed socket and waits for all of them, so a socket that closes must keep taking notices until the broker has
// processed its un-subscription.  Oracle: the sockets that stay open receive a notice for every datagram they sent to an
// unbound service, during and after the churn, and every later dial to an unbound service is abandoned by its notice
// within the bound.
func churn(res *Result, col *collector, rng *rand.Rand, seed int64, rounds int) {
	ids := []string{"ch-A", "ch-B"}
	m, err := buildMesh(chainTopo(2), ids, mesh.Opts{RouteUpdate: 300 * time.Millisecond, MaxHops: 8}, seed+1700)
	if err != nil || !waitConverged(m, 40*time.Second) {
		res.inconclusive("churn mesh: %v", err)

		return
	}
	defer m.StopAll()
	a := m.Nodes[ids[0]].N
	obs := newObservers()
	var steady []*sock
	known := map[string]bool{}
	for i := 0; i < 2; i++ {
		s, err := openSock(a, ids[0], fmt.Sprintf("st%d", i), obs, 0)
		if err != nil {
			res.inconclusive("churn: %v", err)

			return
		}
		steady = append(steady, s)
		known[s.Svc] = true
	}
	var sentSteady [2]int64
	var churnOps, dialsDone int64
	var dialMu sync.Mutex
	var dialOutcomes []dialOutcome
	stop := make(chan struct{})
	var wgSteady, wgChurn sync.WaitGroup
	for i, s := range steady {
		wgSteady.Add(1)
		go func(i int, s *sock) {
			defer wgSteady.Done()
			for k := 0; ; k++ {
				select {
				case <-stop:
					return
				default:
				}
				// at most 32 datagrams unanswered: the notices keep flowing all the time without a queue building up in the
				// (unbounded) links, which would only delay everybody's notices by seconds
				if atomic.LoadInt64(&sentSteady[i])-atomic.LoadInt64(&s.noted) >= 32 {
					time.Sleep(50 * time.Microsecond)

					continue
				}
				if s.sendTo(a, ids[1], "nosvc", []byte("steady")) == nil {
					atomic.AddInt64(&sentSteady[i], 1)
				}
				time.Sleep(time.Duration(20+k%7*15) * time.Microsecond)
			}
		}(i, s)
	}
	perChurner := 6 * rounds
	for c := 0; c < 6; c++ {
		wgChurn.Add(1)
		cseed := rng.Int63()
		go func(c int) {
			defer wgChurn.Done()
			r := rand.New(rand.NewSource(cseed))
			for k := 0; k < perChurner; k++ {
				pc, err := a.ListenPacket("")
				if err != nil {
					return
				}
				done := make(chan struct{})
				if ch := pc.SubscribeUnreachable(done); ch != nil {
					go func() {
						for range ch {
						}
					}()
				}
				_, _ = pc.WriteTo([]byte("churn"), a.NewAddr(ids[1], "gone"))
				if r.Intn(3) > 0 {
					time.Sleep(time.Duration(r.Intn(300)) * time.Microsecond)
				}
				_ = pc.Close() // the socket goes away while notices (its own and the others') are arriving
				close(done)
				atomic.AddInt64(&churnOps, 1)
			}
		}(c)
	}
	dialRounds := rounds/6 + 1
	for d := 0; d < 2; d++ { // two diallers at a time: the machine, not the node, must not be the bottleneck
		wgChurn.Add(1)
		go func(d int) {
			defer wgChurn.Done()
			for k := 0; k < dialRounds; k++ {
				o := timedDial(col, a, ids[0], ids[1], fmt.Sprintf("cd%d-%d", d, k), known)
				dialMu.Lock()
				dialOutcomes = append(dialOutcomes, o)
				dialMu.Unlock()
				atomic.AddInt64(&dialsDone, 1)
			}
		}(d)
	}
	// wait for the churn to finish; a node whose broker is wedged blocks the churners for ever: watch the progress
	finished := make(chan struct{})
	go func() {
		wgChurn.Wait()
		close(finished)
	}()
	stalled := false
	last, lastChange := int64(-1), time.Now()
	for waiting := true; waiting; {
		select {
		case <-finished:
			waiting = false
		case <-time.After(100 * time.Millisecond):
			cur := atomic.LoadInt64(&churnOps) + atomic.LoadInt64(&dialsDone)
			if cur != last {
				last, lastChange = cur, time.Now()
			} else if time.Since(lastChange) > dialDeadline+10*time.Second {
				stalled, waiting = true, false
			}
		}
	}
	close(stop)
	wgSteady.Wait()
	total := int(atomic.LoadInt64(&sentSteady[0]) + atomic.LoadInt64(&sentSteady[1]))
	countSteady := func() int {
		n := 0
		for _, x := range obs.notes {
			if known[x.Svc] {
				n++
			}
		}

		return n
	}
	ok := obs.waitUntil(30*time.Second, func() bool { return countSteady() >= total })
	obs.mu.Lock()
	gotSteady := countSteady()
	obs.mu.Unlock()
	rp := map[string]any{"scenario": "churn", "seed": seed, "socket_open_close_cycles": atomic.LoadInt64(&churnOps), "dials": atomic.LoadInt64(&dialsDone)}
	res.eval(fmt.Sprintf("churn|%v|%v", stalled, ok))
	res.add("churn_socket_cycles", int(atomic.LoadInt64(&churnOps)))
	res.add("churn_dials", int(atomic.LoadInt64(&dialsDone)))
	res.add("churn_steady_sent", total)
	res.add("churn_steady_noticed", gotSteady)
	if !ok {
		if lastEventAge(col) < 3*time.Second {
			res.inconclusive("churn: notices still moving")

			return
		}
		res.violate("C16:notices-stop-after-socket-churn", fmt.Sprintf("two sockets that stayed open sent %d datagrams to an unbound service while other sockets of their node were opened and closed "+
			"(%d cycles, %d dials; churn stalled: %v); they received %d 'service unknown' notices and the data plane has been idle for %v: the node no longer delivers notices",
			total, atomic.LoadInt64(&churnOps), atomic.LoadInt64(&dialsDone), stalled, gotSteady, lastEventAge(col).Round(time.Millisecond)), rp)
	} else if stalled {
		res.inconclusive("churn: socket churn stalled although all notices arrived")
	}
	if gotSteady > total {
		res.violate("C16:unexpected-notice", fmt.Sprintf("churn: the steady sockets sent %d datagrams and received %d notices", total, gotSteady), rp)
	}
	if ok { // notices were flowing normally: every concurrent dial is judged by the cause of its end
		dialMu.Lock()
		outs := append([]dialOutcome(nil), dialOutcomes...)
		dialMu.Unlock()
		for _, o := range outs {
			judgeDial(res, "dial to an unbound service during socket churn", o, rp)
			if o.took > 3*time.Second {
				res.Notes = append(res.Notes, fmt.Sprintf("slow dial during churn: took %v, %d notices at its socket (first after %v), error %v", o.took.Round(time.Millisecond), o.notices, o.noticeAt.Round(time.Millisecond), o.err))
			}
		}
	}
	// afterwards: a further datagram from a socket that has been open all the time, and a further dial
	n0 := len(notesAt(obs, ids[0], steady[0].Svc))
	res.eval("churn|after|send")
	_ = steady[0].sendTo(a, ids[1], "after", []byte("after"))
	got := obs.waitUntil(10*time.Second, func() bool {
		for _, x := range obs.notes {
			if x.Svc == steady[0].Svc && x.N.ToService == "after" {
				return true
			}
		}

		return false
	})
	if !got {
		if lastEventAge(col) < 3*time.Second {
			res.inconclusive("churn: data plane still busy after the churn")

			return
		}
		res.violate("C16:notices-stop-after-socket-churn", fmt.Sprintf("after %d socket open/close cycles and %d dials on its node, a socket that was open all the time (it had received %d notices before) "+
			"sent a datagram to an unbound service and no notice reached it within 10 s", atomic.LoadInt64(&churnOps), atomic.LoadInt64(&dialsDone), n0), rp)
	}
	res.eval("churn|after|dial")
	var o dialOutcome
	evd := col.Len()
	if !within(dialDeadline+10*time.Second, func() { o = timedDial(col, a, ids[0], ids[1], "afterdl", known) }) {
		produced := false
		for _, r := range col.Since(evd) {
			if r["ev"] == "dp_unknown" && evStr(r, "tosvc") == "afterdl" {
				produced = true
			}
		}
		if !got { // definite: the node has stopped delivering notices (shown above), and now it cannot even open the dial's socket
			res.violate("C16:dial-not-abandoned-after-socket-churn", fmt.Sprintf("a dial to an unbound service issued after the socket churn had not returned %v after its own deadline "+
				"(the addressed node answered 'service unknown': %v; new sockets cannot be opened on a node whose unreachable broker no longer accepts subscriptions)", 10*time.Second, produced), rp)
		} else {
			res.inconclusive("churn: the dial after the churn did not return although notices are still delivered")
		}
	} else if !got && isTimeoutErr(o.err) {
		res.violate("C16:dial-not-abandoned-after-socket-churn", fmt.Sprintf("a dial to an unbound service issued after the socket churn ran out of time after %v (%v): no notice reaches the node's sockets any more",
			o.took.Round(time.Millisecond), o.err), rp)
	} else {
		judgeDial(res, "dial to an unbound service after socket churn", o, rp)
	}
	res.count("churn_rounds")
}

// raceMulti: several deliverers at once (two neighbours and a sender on the listener's own node): the events of different
// deliverers interleave, so the round is judged by accounting: every arrival is delivered, answered or - for at most one
// arrival per deliverer - abandoned because Close() overtook it; notices and errors go to whoever sent; nothing crashes.
func raceMulti(res *Result, col *collector, rng *rand.Rand, seed int64, rounds int) {
	ids := []string{"rm-B", "rm-A1", "rm-A2"}
	m, err := buildMesh(topo{Name: "vee", N: 3, Edges: [][2]int{{0, 1}, {0, 2}}}, ids, mesh.Opts{RouteUpdate: 300 * time.Millisecond, MaxHops: 8}, seed+900)
	if err != nil || !waitConverged(m, 40*time.Second) {
		res.inconclusive("race(multi) mesh: %v", err)

		return
	}
	defer m.StopAll()
	b := m.Nodes[ids[0]].N
	obs := newObservers()
	var senders []*sock
	for i, id := range ids {
		s, err := openSock(m.Nodes[id].N, id, fmt.Sprintf("mx%d", i), obs, 0)
		if err != nil {
			res.inconclusive("race(multi): %v", err)

			return
		}
		senders = append(senders, s)
	}
	const deliverers = 3
	for round := 0; round < rounds && !res.tooMany(); round++ {
		ev0 := col.Len()
		obs.mu.Lock()
		obs.arrivals, obs.notes = nil, nil
		obs.mu.Unlock()
		rx, err := openSock(b, ids[0], "race", obs, time.Duration(rng.Intn(150))*time.Microsecond)
		if err != nil {
			res.inconclusive("race(multi): listen: %v", err)

			return
		}
		var sent, localErrs int64
		var wg sync.WaitGroup
		stop := make(chan struct{})
		for i, s := range senders {
			wg.Add(1)
			go func(i int, s *sock) {
				defer wg.Done()
				for k := 0; k < 300; k++ {
					select {
					case <-stop:
						return
					default:
					}
					err := s.sendTo(m.Nodes[s.Node].N, ids[0], "race", []byte(fmt.Sprintf("rm|%d|%d|%d", round, i, k)))
					if err == nil {
						atomic.AddInt64(&sent, 1)
					} else if s.Node == ids[0] && err.Error() == netceptor.ProblemServiceUnknown {
						atomic.AddInt64(&sent, 1)
						atomic.AddInt64(&localErrs, 1)
					}
				}
			}(i, s)
		}
		time.Sleep(time.Duration(200+rng.Intn(4000)) * time.Microsecond)
		rx.close()
		time.Sleep(time.Duration(100+rng.Intn(1500)) * time.Microsecond)
		close(stop)
		wg.Wait()
		if !waitQuiescent(col, m, 150*time.Millisecond, 40*time.Second) {
			res.inconclusive("race(multi): not quiescent")

			return
		}
		nFw, nDeliver, nClosed, nUnknownLocal := 0, 0, 0, 0
		unknownBy := map[string]int{}
		for _, r := range col.Since(ev0) {
			if nodeOfLabel(evStr(r, "n")) != ids[0] {
				continue
			}
			switch r["ev"] {
			case "dp_fw":
				if evStr(r, "to") == ids[0] && evStr(r, "tosvc") == "race" {
					nFw++
				}
			case "dp_deliver":
				if evStr(r, "svc") == "race" {
					nDeliver++
				}
			case "dp_deliver_closed":
				if evStr(r, "svc") == "race" {
					nClosed++
				}
			case "dp_unknown":
				if evStr(r, "tosvc") == "race" {
					if evBool(r, "local") {
						nUnknownLocal++
					} else {
						unknownBy[evStr(r, "fromsvc")]++
					}
				}
			}
		}
		nUnknown := nUnknownLocal
		for _, n := range unknownBy {
			nUnknown += n
		}
		want := nUnknown - nUnknownLocal
		okN := obs.waitUntil(10*time.Second, func() bool { return len(obs.notes) >= want })
		if !okN && lastEventAge(col) < 2*time.Second {
			res.inconclusive("race(multi): notices still moving")

			return
		}
		time.Sleep(2 * time.Millisecond)
		arrs, notes := obs.snapshot()
		res.eval(fmt.Sprintf("racemulti|%d|%d|%d", minInt(nDeliver, 3), minInt(nUnknown, 3), nFw-nDeliver-nUnknown))
		silent := nFw - nDeliver - nUnknown
		rp := map[string]any{"round": round, "variant": "multi"}
		if int(sent) != nFw {
			res.violate("C16:close-race-lost-in-transit", fmt.Sprintf("multi round %d: %d datagrams were accepted by WriteTo, %d arrived at the target node", round, sent, nFw), rp)
		}
		if silent < 0 {
			res.violate("C16:close-race-both", fmt.Sprintf("multi round %d: %d arrivals but %d deliveries + %d answers", round, nFw, nDeliver, nUnknown), rp)
		}
		if silent > deliverers || (nClosed > 0 && silent != nClosed) {
			res.violate("C16:close-race-lost-silently", fmt.Sprintf("multi round %d: %d arrivals were neither delivered nor answered; %d deliverers can be overtaken by the one close (abandoned deliveries recorded: %d)",
				round, silent, deliverers, nClosed), rp)
		}
		if len(arrs) != nDeliver {
			res.violate("C16:close-race-delivery-mismatch", fmt.Sprintf("multi round %d: %d datagrams were handed to the listener, its reader got %d", round, nDeliver, len(arrs)), rp)
		}
		if int(localErrs) != nUnknownLocal {
			res.violate("C16:local-unknown-no-error", fmt.Sprintf("multi round %d: %d local datagrams found no listener, the local sender saw %d errors", round, nUnknownLocal, localErrs), rp)
		}
		gotBy := map[string]int{}
		for _, n := range notes {
			gotBy[n.Svc]++
			if n.N.Problem != netceptor.ProblemServiceUnknown || n.N.FromService != n.Svc || n.N.ToNode != ids[0] || n.N.ToService != "race" || n.N.FromNode != n.Node {
				res.violate("C16:notice-fields-wrong", fmt.Sprintf("multi round %d: socket %s:%s received %+v", round, n.Node, n.Svc, n.N), rp)
			}
		}
		for _, s := range senders {
			if s.Node == ids[0] {
				if gotBy[s.Svc] != 0 {
					res.violate("C16:unexpected-notice", fmt.Sprintf("multi round %d: the local sender received %d notices", round, gotBy[s.Svc]), rp)
				}

				continue
			}
			if gotBy[s.Svc] != unknownBy[s.Svc] {
				sig := "C16:notice-missing"
				if gotBy[s.Svc] > unknownBy[s.Svc] {
					sig = "C16:unexpected-notice"
				}
				res.violate(sig, fmt.Sprintf("multi round %d: socket %s sent %d datagrams that found no listener but received %d notices", round, s.Svc, unknownBy[s.Svc], gotBy[s.Svc]), rp)
			}
		}
		res.add("racemulti_sent", int(sent))
		res.add("racemulti_delivered", nDeliver)
		res.add("racemulti_noticed", nUnknown)
		res.add("racemulti_overtaken_by_close", silent)
		res.count("racemulti_rounds")
		col.Reset()
	}
	for _, s := range senders {
		s.close()
	}
}

func minInt(a, b int) int {
	if a < b {
		return a
	}

	return b
}

func cmdC16(args []string) {
	fs := flag.NewFlagSet("c16", flag.ExitOnError)
	out := fs.String("out", "result.json", "result file")
	traceOut := fs.String("trace", "", "trace file for DataPlaneTrace.tla")
	seed := fs.Int64("seed", 1, "seed")
	tier := fs.String("tier", "quick", "quick or thorough")
	_ = fs.Parse(args)
	res := &Result{}
	defer res.write(*out)
	col := installCollector()
	rng := rand.New(rand.NewSource(*seed*1299709 + 1))
	thorough := *tier == "thorough"
	var tw *traceWriter
	if *traceOut != "" {
		var err error
		if tw, err = newTraceWriter(*traceOut, 9000); err != nil {
			res.inconclusive("trace file: %v", err)

			return
		}
		defer func() {
			res.Segments += tw.segs
			res.TraceLines += tw.lines
			tw.close()
		}()
	}
	// the race runs in a child process so that a crash of the node code is an observation, not the end of the harness
	raceOut := *out + ".race.json"
	raceTrace := ""
	if *traceOut != "" {
		raceTrace = *traceOut + ".race"
	}
	rounds := 25
	if thorough {
		rounds = 150
	}
	var raceErr error
	var raceStderr bytes.Buffer
	raceDone := make(chan struct{})
	go func() {
		defer close(raceDone)
		_ = os.Remove(raceOut)
		cmd := exec.Command(os.Args[0], "c16race", "-out", raceOut, "-seed", fmt.Sprint(*seed), "-rounds", fmt.Sprint(rounds), "-trace", raceTrace)
		cmd.Stderr = &raceStderr
		cmd.Stdout = &raceStderr
		raceErr = cmd.Run()
	}()

	topos := []struct {
		t   topo
		odd bool
	}{{chainTopo(3), false}, {starTopo, true}}
	if thorough {
		topos = append(topos, struct {
			t   topo
			odd bool
		}{diamondTopo, true}, struct {
			t   topo
			odd bool
		}{chainTopo(5), false})
	}
	for i, tp := range topos {
		c16Notices(res, col, tw, tp.t, rng, tp.odd, *seed*50+int64(i))
		col.Reset()
	}
	c16Drop(res, col, tw, rng, *seed*50+40)
	col.Reset()
	c16NonUTF8(res, col, rng, *seed*50+39)
	col.Reset()
	dr := 1
	if thorough {
		dr = 4
	}
	c16Dial(res, col, tw, rng, *seed*50+41, dr)

	<-raceDone
	var rr Result
	b, err := os.ReadFile(raceOut)
	if err != nil || json.Unmarshal(b, &rr) != nil {
		tail := raceStderr.String()
		if len(tail) > 3000 {
			tail = tail[len(tail)-3000:]
		}
		if strings.Contains(tail, "panic:") || strings.Contains(tail, "fatal error:") {
			first := tail
			if i := strings.Index(tail, "panic:"); i >= 0 {
				first = tail[i:]
			}
			if j := strings.Index(first, "\n"); j > 0 {
				first = first[:j]
			}
			res.violate("C16:close-race-crash", fmt.Sprintf("the process running the close-while-sending race died: %s", first), map[string]any{"stderr_tail": tail, "seed": *seed})
		} else {
			res.inconclusive("race child produced no result: %v %s", raceErr, tail)
		}

		return
	}
	res.Evaluations += rr.Evaluations
	res.ExtraDistinct += rr.Distinct
	for _, v := range rr.Violations {
		res.violate(v.Sig, v.What, v.Replay)
	}
	for _, s := range rr.Inconclusive {
		res.inconclusive("race: %s", s)
	}
	for k, v := range rr.Counters {
		if k != "violations" {
			res.add(k, v)
		}
	}
	res.Segments += rr.Segments
	res.TraceLines += rr.TraceLines
	keys := []string{}
	for k := range res.Counters {
		keys = append(keys, k)
	}
	sort.Strings(keys)
	_ = verifhook.On
}
