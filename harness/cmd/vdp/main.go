// Command vdp is the data-plane conformance harness (properties C02, C10, C16): it drives real Netceptor
// nodes with inputs derived from the TLA+ specifications DataPlane.tla / Framer.tla, compares what sockets
// observe with what was sent, and writes the hook events as trace lines for DataPlaneTrace.tla.
package main

import (
	"crypto/sha256"
	"encoding/hex"
	"encoding/json"
	"fmt"
	"os"
	"sort"
	"strings"
	"sync"
	"time"

	"github.com/ansible/receptor/pkg/logger"
	"github.com/ansible/receptor/pkg/verifhook"
)

// Violation is one observed departure of the real code from the specification.
type Violation struct {
	Sig    string `json:"sig"`
	What   string `json:"what"`
	Replay any    `json:"replay"`
}

// Result is what every subcommand writes.
type Result struct {
	mu            sync.Mutex
	Evaluations   int            `json:"evaluations"`
	Distinct      int            `json:"distinct"`
	Violations    []Violation    `json:"violations"`
	Inconclusive  []string       `json:"inconclusive"`
	Samples       []any          `json:"samples"`
	Counters      map[string]int `json:"counters"`
	Notes         []string       `json:"notes"`
	Segments      int            `json:"segments"`
	TraceLines    int            `json:"trace_lines"`
	ExtraDistinct int            `json:"-"`
	distinct      map[string]bool
}

func (r *Result) count(k string) { r.add(k, 1) }

func (r *Result) add(k string, n int) {
	r.mu.Lock()
	defer r.mu.Unlock()
	if r.Counters == nil {
		r.Counters = map[string]int{}
	}
	r.Counters[k] += n
}

func (r *Result) eval(key string) {
	r.mu.Lock()
	defer r.mu.Unlock()
	r.Evaluations++
	if r.distinct == nil {
		r.distinct = map[string]bool{}
	}
	r.distinct[key] = true
}

func (r *Result) violate(sig, what string, replay any) {
	r.mu.Lock()
	defer r.mu.Unlock()
	if len(r.Violations) < 100 {
		r.Violations = append(r.Violations, Violation{sig, what, replay})
	}
	if r.Counters == nil {
		r.Counters = map[string]int{}
	}
	r.Counters["violations"]++
}

// tooMany reports that enough violations have been recorded: the remaining cases of a scenario are skipped (each failing
// case may cost a long wait), the verdict is already certain.
func (r *Result) tooMany() bool {
	r.mu.Lock()
	defer r.mu.Unlock()

	return r.Counters["violations"] >= 6
}

func (r *Result) inconclusive(format string, a ...any) {
	r.mu.Lock()
	defer r.mu.Unlock()
	if len(r.Inconclusive) < 50 {
		r.Inconclusive = append(r.Inconclusive, fmt.Sprintf(format, a...))
	}
}

func (r *Result) sample(v any, max int) {
	r.mu.Lock()
	defer r.mu.Unlock()
	if len(r.Samples) < max {
		r.Samples = append(r.Samples, v)
	}
}

func (r *Result) write(path string) {
	r.mu.Lock()
	defer r.mu.Unlock()
	if r.Violations == nil {
		r.Violations = []Violation{}
	}
	r.Distinct = len(r.distinct) + r.ExtraDistinct
	b, _ := json.MarshalIndent(r, "", " ")
	if err := os.WriteFile(path, b, 0o644); err != nil {
		fmt.Fprintln(os.Stderr, "cannot write result:", err)
		os.Exit(3)
	}
}

var commands = map[string]func(args []string){}

func main() {
	if os.Getenv("VERIF_DEBUG") == "" {
		logger.SetGlobalQuietMode()
	} else {
		logger.SetGlobalLogLevel(logger.DebugLevel)
	}
	if len(os.Args) < 2 || commands[os.Args[1]] == nil {
		fmt.Fprintln(os.Stderr, "usage: vdp <command> [flags]; commands:")
		for k := range commands {
			fmt.Fprintln(os.Stderr, "  ", k)
		}
		os.Exit(2)
	}
	commands[os.Args[1]](os.Args[2:])
}

func readNDJSON[T any](path string) ([]T, error) {
	f, err := os.Open(path)
	if err != nil {
		return nil, err
	}
	defer f.Close()
	dec := json.NewDecoder(f)
	var out []T
	for dec.More() {
		var v T
		if err := dec.Decode(&v); err != nil {
			return nil, err
		}
		out = append(out, v)
	}

	return out, nil
}

// ---------------------------------------------------------------- hook event collector (with arrival time)

// collector stores hook events; every record gets "t" (UnixNano at arrival in the sink).
type collector struct {
	mu     sync.Mutex
	cond   *sync.Cond
	recs   []verifhook.Record
	dpN    int   // number of data-plane events so far (never reset)
	dpLast int64 // arrival time of the newest data-plane event
}

// isDataPlane: events of the datagram plane and of the harness's scripted peers; the periodic routing chatter is not.
func isDataPlane(ev string) bool {
	return strings.HasPrefix(ev, "dp_") || strings.HasPrefix(ev, "unr_") || strings.HasPrefix(ev, "h_") || strings.HasPrefix(ev, "pc_")
}

func installCollector() *collector {
	c := &collector{}
	c.cond = sync.NewCond(&c.mu)
	verifhook.SetSink(func(r verifhook.Record) {
		now := time.Now().UnixNano()
		r["t"] = now
		ev, _ := r["ev"].(string)
		c.mu.Lock()
		if isDataPlane(ev) {
			c.dpN++
			c.dpLast = now
		}
		c.recs = append(c.recs, r)
		c.cond.Broadcast()
		c.mu.Unlock()
	})

	return c
}

// dpCount returns the number of data-plane events seen so far.
func (c *collector) dpCount() int {
	c.mu.Lock()
	defer c.mu.Unlock()

	return c.dpN
}

func (c *collector) Len() int {
	c.mu.Lock()
	defer c.mu.Unlock()

	return len(c.recs)
}

func (c *collector) Since(from int) []verifhook.Record {
	c.mu.Lock()
	defer c.mu.Unlock()
	if from > len(c.recs) {
		from = len(c.recs)
	}

	return append([]verifhook.Record(nil), c.recs[from:]...)
}

// WaitFor blocks until an event at index >= from satisfies pred, or the timeout expires.
func (c *collector) WaitFor(from int, timeout time.Duration, pred func(verifhook.Record) bool) (int, bool) {
	deadline := time.Now().Add(timeout)
	c.mu.Lock()
	defer c.mu.Unlock()
	i := from
	for {
		for ; i < len(c.recs); i++ {
			if pred(c.recs[i]) {
				return i + 1, true
			}
		}
		rem := time.Until(deadline)
		if rem <= 0 {
			return len(c.recs), false
		}
		t := time.AfterFunc(rem, func() {
			c.mu.Lock()
			c.cond.Broadcast()
			c.mu.Unlock()
		})
		c.cond.Wait()
		t.Stop()
	}
}

// Drop forgets everything before index upTo (keeps memory bounded across many scenarios); indexes shift.
func (c *collector) Reset() {
	c.mu.Lock()
	c.recs = nil
	c.mu.Unlock()
}

func evStr(r verifhook.Record, k string) string {
	s, _ := r[k].(string)

	return s
}

func evInt(r verifhook.Record, k string) int {
	switch v := r[k].(type) {
	case int:
		return v
	case int64:
		return int(v)
	case uint64:
		return int(v)
	case float64:
		return int(v)
	case byte:
		return int(v)
	}

	return -1
}

func evBool(r verifhook.Record, k string) bool {
	b, _ := r[k].(bool)

	return b
}

func evSeq(r verifhook.Record) uint64 {
	v, _ := r["i"].(uint64)

	return v
}

func sortBySeq(recs []verifhook.Record) {
	sort.SliceStable(recs, func(a, b int) bool { return evSeq(recs[a]) < evSeq(recs[b]) })
}

func sha8(b []byte) string {
	s := sha256.Sum256(b)

	return hex.EncodeToString(s[:8])
}

func shaFull(b []byte) string {
	s := sha256.Sum256(b)

	return hex.EncodeToString(s[:])
}
