package main

import (
	"bytes"
	"context"
	"encoding/binary"
	"fmt"
	"math/rand"
	"net"
	"sync"
	"time"

	"github.com/ansible/receptor/pkg/framer"
	"github.com/ansible/receptor/pkg/netceptor"
)

// Framer vectors from specs/Framer.tla: frames over the alphabet {0,1}, a chunking of the framed byte stream
// and, after each chunk, the number of messages that can be taken out.
type framerVec struct {
	Frames [][]int `json:"frames"`
	Chunks []int   `json:"chunks"`
	Avail  []int   `json:"avail"`
}

func (v framerVec) stream() (stream []byte, frames [][]byte) {
	for _, f := range v.Frames {
		b := make([]byte, len(f))
		for i, s := range f {
			b[i] = byte(s)
		}
		frames = append(frames, b)
		hdr := make([]byte, 2)
		binary.LittleEndian.PutUint16(hdr, uint16(len(b)))
		stream = append(stream, hdr...)
		stream = append(stream, b...)
	}

	return stream, frames
}

// replayFramerDirect feeds the chunks to the real framer and compares, after every chunk, the messages that come out.
func replayFramerDirect(v framerVec) string {
	stream, frames := v.stream()
	f := framer.New()
	var out [][]byte
	pos := 0
	for i, c := range v.Chunks {
		if pos+c > len(stream) {
			return "vector chunking exceeds stream"
		}
		f.RecvData(stream[pos : pos+c])
		pos += c
		for f.MessageReady() {
			m, err := f.GetMessage()
			if err != nil {
				return fmt.Sprintf("GetMessage failed although MessageReady: %v", err)
			}
			out = append(out, append([]byte(nil), m...))
		}
		if len(out) != v.Avail[i] {
			return fmt.Sprintf("after chunk %d (%d bytes in) %d messages came out, expected %d", i+1, pos, len(out), v.Avail[i])
		}
		if _, err := f.GetMessage(); err == nil {
			return fmt.Sprintf("GetMessage returned a message although none is complete (after chunk %d)", i+1)
		}
	}
	if len(out) != len(frames) {
		return fmt.Sprintf("%d messages out, %d in", len(out), len(frames))
	}
	for i := range frames {
		if !bytes.Equal(out[i], frames[i]) {
			return fmt.Sprintf("message %d is %v, sent %v", i, out[i], frames[i])
		}
	}

	return ""
}

// replayFramerConn writes the chunks into a net.Pipe read by the real netMessageConn (MessageConnFromNetConn).
func replayFramerConn(v framerVec) (string, bool) {
	stream, frames := v.stream()
	a, b := net.Pipe()
	defer a.Close()
	defer b.Close()
	mc := netceptor.MessageConnFromNetConn(b)
	written := make(chan struct{})
	go func() {
		defer close(written)
		pos := 0
		for _, c := range v.Chunks {
			if _, err := a.Write(stream[pos : pos+c]); err != nil {
				return
			}
			pos += c
		}
	}()
	for i := range frames {
		var m []byte
		var err error
		for tries := 0; ; tries++ {
			m, err = mc.ReadMessage(context.Background(), 500*time.Millisecond)
			if err != netceptor.ErrTimeout {
				break
			}
			select {
			case <-written: // the whole stream has been handed over and still no message: definite
				return fmt.Sprintf("message %d of %d never came out although all %d bytes were delivered", i+1, len(frames), len(stream)), false
			default:
			}
			if tries > 60 {
				return "timeout", true
			}
		}
		if err != nil {
			return fmt.Sprintf("ReadMessage %d: %v", i, err), false
		}
		if !bytes.Equal(m, frames[i]) {
			return fmt.Sprintf("message %d is %v, sent %v", i, m, frames[i]), false
		}
	}

	return "", false
}

// ---------------------------------------------------------------- re-chunking relay between two real nodes

// chunkPattern says where one frame of the byte stream is cut.
type chunkPattern struct {
	HdrCut   bool      // between the two header bytes
	AfterHdr bool      // between header and body
	Body     []float64 // inside the body, as fractions of its length
	EndCut   bool      // at the end of the frame (false: coalesced with the start of the next frame)
}

func (p chunkPattern) key() string {
	return fmt.Sprintf("%v|%v|%v|%v", p.HdrCut, p.AfterHdr, p.Body, p.EndCut)
}

// patternsFromVectors turns TLC's (frames, chunking) vectors into per-frame cut patterns.
func patternsFromVectors(vecs []framerVec) []chunkPattern {
	seen := map[string]bool{}
	var out []chunkPattern
	for _, v := range vecs {
		cuts := map[int]bool{}
		pos := 0
		for _, c := range v.Chunks {
			pos += c
			cuts[pos] = true
		}
		start := 0
		for _, f := range v.Frames {
			end := start + 2 + len(f)
			p := chunkPattern{EndCut: cuts[end]}
			for o := 1; o < 2+len(f); o++ {
				if !cuts[start+o] {
					continue
				}
				switch {
				case o == 1:
					p.HdrCut = true
				case o == 2:
					p.AfterHdr = true
				default:
					p.Body = append(p.Body, float64(o-2)/float64(len(f)))
				}
			}
			if !seen[p.key()] {
				seen[p.key()] = true
				out = append(out, p)
			}
			start = end
		}
	}

	return out
}

type relayStats struct {
	mu                                               sync.Mutex
	Frames, HdrSplits, BodySplits, Coalesced, Writes int
}

// relay copies the framed byte stream from src to dst, cutting it according to the patterns (cyclically) or at random.
// An unbounded queue decouples reading from writing so that the synchronous pipes cannot deadlock the two nodes.
func relay(src, dst net.Conn, patterns []chunkPattern, rng *rand.Rand, st *relayStats) {
	var mu sync.Mutex
	cond := sync.NewCond(&mu)
	var queue [][]byte
	closed := false
	go func() { // reader: split the stream into frames
		var acc []byte
		buf := make([]byte, 65536)
		for {
			n, err := src.Read(buf)
			if n > 0 {
				acc = append(acc, buf[:n]...)
				for len(acc) >= 2 {
					l := int(binary.LittleEndian.Uint16(acc[:2]))
					if len(acc) < 2+l {
						break
					}
					fr := append([]byte(nil), acc[:2+l]...)
					acc = acc[2+l:]
					mu.Lock()
					queue = append(queue, fr)
					cond.Broadcast()
					mu.Unlock()
				}
			}
			if err != nil {
				mu.Lock()
				closed = true
				cond.Broadcast()
				mu.Unlock()

				return
			}
		}
	}()
	next := func(wait time.Duration) ([]byte, bool) { // pop a frame; ok=false when nothing came within wait (0 = for ever) or closed
		deadline := time.Now().Add(wait)
		mu.Lock()
		defer mu.Unlock()
		for len(queue) == 0 {
			if closed {
				return nil, false
			}
			if wait > 0 {
				rem := time.Until(deadline)
				if rem <= 0 {
					return nil, false
				}
				t := time.AfterFunc(rem, func() { mu.Lock(); cond.Broadcast(); mu.Unlock() })
				cond.Wait()
				t.Stop()
			} else {
				cond.Wait()
			}
		}
		fr := queue[0]
		queue = queue[1:]

		return fr, true
	}
	write := func(b []byte) bool {
		if len(b) == 0 {
			return true
		}
		st.mu.Lock()
		st.Writes++
		st.mu.Unlock()
		_, err := dst.Write(b)

		return err == nil
	}
	go func() {
		defer dst.Close()
		var carry []byte
		k := 0
		for {
			var fr []byte
			var ok bool
			if carry != nil {
				fr, ok = next(3 * time.Millisecond)
				if !ok {
					if !write(carry) {
						return
					}
					carry = nil

					continue
				}
				st.mu.Lock()
				st.Coalesced++
				st.mu.Unlock()
			} else {
				fr, ok = next(0)
				if !ok {
					return
				}
			}
			var p chunkPattern
			if len(patterns) > 0 {
				p = patterns[k%len(patterns)]
			} else {
				p = chunkPattern{HdrCut: rng.Intn(3) == 0, AfterHdr: rng.Intn(3) == 0, EndCut: rng.Intn(3) != 0}
				for j := rng.Intn(3); j > 0; j-- {
					p.Body = append(p.Body, rng.Float64())
				}
			}
			k++
			body := len(fr) - 2
			cutset := map[int]bool{}
			if p.HdrCut {
				cutset[1] = true
			}
			if p.AfterHdr && body > 0 {
				cutset[2] = true
			}
			if body >= 2 {
				for _, f := range p.Body {
					o := int(f * float64(body))
					if o < 1 {
						o = 1
					}
					if o > body-1 {
						o = body - 1
					}
					cutset[2+o] = true
				}
			}
			st.mu.Lock()
			st.Frames++
			if cutset[1] {
				st.HdrSplits++
			}
			for o := range cutset {
				if o > 2 {
					st.BodySplits++

					break
				}
			}
			st.mu.Unlock()
			prev := 0
			for o := 1; o < len(fr); o++ {
				if cutset[o] {
					seg := fr[prev:o]
					if carry != nil {
						seg = append(append([]byte(nil), carry...), seg...)
						carry = nil
					}
					if !write(seg) {
						return
					}
					prev = o
				}
			}
			last := fr[prev:]
			if carry != nil {
				last = append(append([]byte(nil), carry...), last...)
				carry = nil
			}
			if p.EndCut {
				if !write(last) {
					return
				}
			} else {
				carry = append([]byte(nil), last...)
			}
		}
	}()
}
