package main

import (
	"encoding/json"
	"flag"
	"fmt"
	"math/rand"
	"sort"
	"sync"
	"time"

	"github.com/ansible/receptor/pkg/netceptor"
	"github.com/ansible/receptor/pkg/verifhook"
	"verif/harness/e1"
	"verif/harness/memnet"
	"verif/harness/mesh"
	"verif/harness/peer"
)

// C10: hop limit bounds forwarding; reach iff distance <= hops; expiry is reported to the sender.
// (a) loop-free: TLC's vectors (DataPlanePing.tla) for chains/trees of real nodes: Ping, Traceroute and plain sends with
//     every budget, compared with the spec's operators.
// (b) adversarial tables: real nodes whose neighbours are scripted peers that advertise a phantom node and bounce packets.

func init() { commands["c10"] = cmdC10 }

type pingExp struct {
	From string `json:"from"`
	Err  string `json:"err"`
}

type pingVec struct {
	Topo    string     `json:"topo"`
	MaxHops int        `json:"maxhops"`
	Edges   [][]string `json:"edges"`
	Src     string     `json:"src"`
	Dst     string     `json:"dst"`
	Dist    int        `json:"dist"`
	Path    []string   `json:"path"`
	Hs      []int      `json:"hs"`
	Pings   []pingExp  `json:"pings"`
	Fates   []struct {
		Kind string `json:"kind"`
		At   string `json:"at"`
	} `json:"fates"`
	Trace []pingExp `json:"trace"`
}

// lastEventAge returns how long ago the newest data-plane hook event arrived (routing chatter does not count).
func lastEventAge(col *collector) time.Duration {
	col.mu.Lock()
	defer col.mu.Unlock()
	if col.dpLast == 0 {
		return time.Hour
	}

	return time.Since(time.Unix(0, col.dpLast))
}

func runPingTopo(res *Result, col *collector, tw *traceWriter, name string, vecs []pingVec, rng *rand.Rand, oddIDs bool, seed int64) {
	// nodes of the topology
	names := map[string]bool{}
	for _, e := range vecs[0].Edges {
		names[e[0]], names[e[1]] = true, true
	}
	var specNames []string
	for n := range names {
		specNames = append(specNames, n)
	}
	sort.Strings(specNames)
	id := map[string]string{}
	back := map[string]string{}
	pool := nodeIDPool(rng)
	for i, n := range specNames {
		if oddIDs {
			id[n] = pool[i]
		} else {
			id[n] = fmt.Sprintf("%s.%d-%s", vecs[0].Topo, vecs[0].MaxHops, n)
		}
		back[id[n]] = n
	}
	maxHops := vecs[0].MaxHops // maxForwardingHops of every node of this mesh: budget of notices and ping replies, length of a traceroute
	m := mesh.New(mesh.Opts{RouteUpdate: 300 * time.Millisecond, MaxHops: byte(maxHops)}, seed)
	defer m.StopAll()
	for _, n := range specNames {
		m.Start(id[n])
	}
	for _, e := range vecs[0].Edges {
		if _, err := m.Connect(id[e[0]], id[e[1]], 1, 1); err != nil {
			res.inconclusive("%s: connect: %v", name, err)

			return
		}
	}
	if !waitConverged(m, 40*time.Second) {
		res.inconclusive("%s: mesh did not converge", name)

		return
	}
	ev0 := col.Len()
	obs := newObservers()
	lsn := map[string]*sock{}
	snd := map[string]*sock{}
	for _, n := range specNames {
		var err error
		if lsn[n], err = openSock(m.Nodes[id[n]].N, id[n], "lsn", obs, 0); err != nil {
			res.inconclusive("%s: %v", name, err)

			return
		}
		if snd[n], err = openSock(m.Nodes[id[n]].N, id[n], "snd", obs, 0); err != nil {
			res.inconclusive("%s: %v", name, err)

			return
		}
	}
	defer func() {
		for _, n := range specNames {
			lsn[n].close()
			snd[n].close()
		}
	}()
	expArrivals, expNotes := 0, 0
	definite := func() bool { return lastEventAge(col) > 4*time.Second }
	for _, v := range vecs {
		if res.tooMany() {
			return
		}
		src := m.Nodes[id[v.Src]].N
		for i, h := range v.Hs {
			exp := v.Pings[i]
			// --- Ping
			ctx, cancel := ctxTimeout(30 * time.Second)
			_, from, err := src.Ping(ctx, id[v.Dst], byte(h))
			cancel()
			errText := ""
			if err != nil {
				errText = err.Error()
			}
			res.eval(fmt.Sprintf("ping|%s|%d|%s|%s|%d", v.Topo, v.MaxHops, v.Src, v.Dst, h))
			res.count("pings")
			if errText != exp.Err || from != id[exp.From] {
				if errText == "timeout" || errText == "user cancelled" {
					if !definite() {
						res.inconclusive("%s: ping %s->%s h=%d: %s while the mesh was still busy", name, v.Src, v.Dst, h, errText)

						continue
					}
				}
				what := "answer"
				if exp.Err == netceptor.ProblemExpiredInTransit {
					what = "expiry"
				}
				sig := fmt.Sprintf("C10:ping-%s-wrong", what)
				if errText == "timeout" {
					sig = fmt.Sprintf("C10:ping-%s-missing", what)
				} else if errText == exp.Err && from != id[exp.From] {
					sig = fmt.Sprintf("C10:ping-%s-attributed-to-wrong-node", what)
				}
				res.violate(sig, fmt.Sprintf("%s: Ping %s->%s (distance %d) with %d hops returned (from=%q, err=%q); the spec says (from=%q, err=%q)",
					name, v.Src, v.Dst, v.Dist, h, back[from]+"/"+from, errText, exp.From, exp.Err), map[string]any{"vector": v, "h": h})
			}
			// --- plain datagram with budget h
			payload := []byte(fmt.Sprintf("c10|%s|%s|%s|%d|%d", v.Topo, v.Src, v.Dst, h, rng.Int63()))
			sha := shaFull(payload)
			snd[v.Src].PC.SetHopsToLive(byte(h))
			a0, n0 := obs.nArrivals(), obs.nNotes()
			if err := snd[v.Src].sendTo(src, id[v.Dst], "lsn", payload); err != nil {
				res.violate("C10:send-error", fmt.Sprintf("%s: WriteTo %s->%s h=%d failed: %v", name, v.Src, v.Dst, h, err), map[string]any{"vector": v, "h": h})

				continue
			}
			res.eval(fmt.Sprintf("send|%s|%d|%s|%s|%d", v.Topo, v.MaxHops, v.Src, v.Dst, h))
			res.count("sends")
			arrive := v.Fates[i].Kind == "arrive"
			var ok bool
			if arrive {
				expArrivals++
				ok = obs.waitUntil(30*time.Second, func() bool {
					for _, a := range obs.arrivals[a0:] {
						if a.Sha == sha {
							return true
						}
					}

					return len(obs.notes) > n0
				})
			} else {
				expNotes++
				ok = obs.waitUntil(30*time.Second, func() bool { return len(obs.notes) > n0 || len(obs.arrivals) > a0 })
			}
			if !ok && !definite() {
				res.inconclusive("%s: send %s->%s h=%d: nothing observed while the mesh was still busy", name, v.Src, v.Dst, h)

				continue
			}
			arrs, notes := obs.snapshot()
			arrs, notes = arrs[a0:], notes[n0:]
			if arrive {
				if len(arrs) == 1 && len(notes) == 0 && arrs[0].Sha == sha && arrs[0].Node == id[v.Dst] && arrs[0].Svc == "lsn" &&
					arrs[0].FromNode == id[v.Src] && arrs[0].FromSvc == "snd" {
					continue
				}
				sig := "C10:not-delivered-within-budget"
				if len(notes) > 0 {
					sig = "C10:expired-within-budget"
				}
				res.violate(sig, fmt.Sprintf("%s: datagram %s->%s (distance %d) with %d hops must be delivered; observed %d arrival(s) %+v and %d notice(s) %+v",
					name, v.Src, v.Dst, v.Dist, h, len(arrs), arrs, len(notes), notes), map[string]any{"vector": v, "h": h})
			} else {
				at := id[v.Fates[i].At]
				if len(arrs) == 0 && len(notes) == 1 && notes[0].Node == id[v.Src] && notes[0].Svc == "snd" &&
					notes[0].N.Problem == netceptor.ProblemExpiredInTransit && notes[0].N.ReceivedFromNode == at &&
					notes[0].N.FromNode == id[v.Src] && notes[0].N.FromService == "snd" && notes[0].N.ToNode == id[v.Dst] && notes[0].N.ToService == "lsn" {
					continue
				}
				sig := "C10:expiry-notice-wrong"
				switch {
				case len(arrs) > 0:
					sig = "C10:delivered-beyond-budget"
				case len(notes) == 0:
					sig = "C10:expiry-notice-missing"
				case notes[0].N.ReceivedFromNode != at && notes[0].N.Problem == netceptor.ProblemExpiredInTransit:
					sig = "C10:expiry-reported-by-wrong-node"
				}
				res.violate(sig, fmt.Sprintf("%s: datagram %s->%s (distance %d) with %d hops must expire at %s and be reported to %s:snd only; observed %d arrival(s) %+v and %d notice(s) %+v",
					name, v.Src, v.Dst, v.Dist, h, v.Fates[i].At, v.Src, len(arrs), arrs, len(notes), notes), map[string]any{"vector": v, "h": h})
			}
		}
		// --- Traceroute
		ctx, cancel := ctxTimeout(60 * time.Second)
		var got []pingExp
		for r := range src.Traceroute(ctx, id[v.Dst]) {
			e := ""
			if r.Err != nil {
				e = r.Err.Error()
			}
			got = append(got, pingExp{From: r.From, Err: e})
		}
		cancel()
		res.eval(fmt.Sprintf("traceroute|%s|%d|%s|%s", v.Topo, v.MaxHops, v.Src, v.Dst))
		res.count("traceroutes")
		if v.Dist == v.MaxHops {
			res.count("traceroutes_at_the_hop_limit")
		} else if v.Dist > v.MaxHops {
			res.count("traceroutes_beyond_the_hop_limit")
		}
		same := len(got) == len(v.Trace)
		for i := 0; same && i < len(got); i++ {
			if got[i].From != id[v.Trace[i].From] || got[i].Err != "" {
				same = false
			}
		}
		if !same {
			timeout := false
			for _, g := range got {
				if g.Err == "timeout" || g.Err == "user cancelled" {
					timeout = true
				}
			}
			if timeout && !definite() {
				res.inconclusive("%s: traceroute %s->%s timed out while the mesh was busy", name, v.Src, v.Dst)
			} else {
				gl := []string{}
				for _, g := range got {
					gl = append(gl, fmt.Sprintf("%s(%s)", back[g.From], g.Err))
				}
				want := []string{}
				for _, w := range v.Trace {
					want = append(want, w.From)
				}
				res.violate("C10:traceroute-not-the-path", fmt.Sprintf("%s (maxForwardingHops %d): Traceroute %s->%s (distance %d) listed %v; expected %v (path %v)", name, v.MaxHops, v.Src, v.Dst, v.Dist, gl, want, v.Path),
					map[string]any{"vector": v, "got": got})
			}
		}
		if len(res.Samples) < 4 && v.Dist >= 2 {
			res.sample(map[string]any{"topo": v.Topo, "src": v.Src, "dst": v.Dst, "dist": v.Dist, "budgets": v.Hs, "expected_pings": v.Pings, "traceroute": got}, 4)
		}
	}
	// nothing else may have arrived anywhere (each expected event was matched one to one above; totals close the negative side)
	waitQuiescent(col, m, 200*time.Millisecond, 20*time.Second)
	arrs, notes := obs.snapshot()
	if len(arrs) > expArrivals {
		res.violate("C10:extra-delivery", fmt.Sprintf("%s: %d datagrams were delivered in total, %d were within budget", name, len(arrs), expArrivals), nil)
	}
	if len(notes) > expNotes {
		res.violate("C10:extra-notice", fmt.Sprintf("%s: %d notices reached the sender sockets, %d datagrams ran out of budget", name, len(notes), expNotes), nil)
	}
	res.count("topologies")
	for _, n := range specNames {
		lsn[n].close()
		snd[n].close()
	}
	if tw != nil {
		res.add("trace_lines", tw.segment(col.Since(ev0), maxHops, true))
	}
}

// ---------------------------------------------------------------- adversarial tables

func hookBarrier(col *collector, p *peer.Peer, timeout time.Duration) error {
	from := col.Len()
	if err := p.SendRaw(peer.Marker); err != nil {
		return err
	}
	_, ok := col.WaitFor(from, timeout, func(r verifhook.Record) bool {
		if r["ev"] != "recv" {
			return false
		}
		m, _ := r["msg"].(map[string]any)
		if m == nil {
			return false
		}
		t, _ := m["type"].(int)

		return t == 0x7F && m["len"] == 1
	})
	if !ok {
		return fmt.Errorf("barrier timeout")
	}

	return nil
}

type advNames struct{ byHash map[uint64]string }

func newAdvNames(names ...string) *advNames {
	a := &advNames{byHash: map[uint64]string{}}
	for _, n := range names {
		a.byHash[peer.Hash(n)] = n
	}

	return a
}

func (a *advNames) emit(ev, node string, d *peer.Data, extra ...any) {
	kv := []any{"from", a.byHash[d.FromHash], "fromsvc", d.FromService, "to", a.byHash[d.ToHash], "tosvc", d.ToService, "ttl", int(d.TTL), "len", len(d.Payload)}
	kv = append(kv, extra...)
	verifhook.Emit(node, ev, kv...)
}

// bouncer watches a scripted peer's session: data frames for the phantom node are handed back (unchanged) through
// `back`; everything else addressed to the peer is kept. Returns a stop function.
type bouncer struct {
	mu      sync.Mutex
	ttls    []int // TTL bytes of the frames for the phantom node, in arrival order
	others  []peer.Frame
	stopped chan struct{}
	limit   int // hand back at most this many frames in total (a loop that does not end by itself is cut here)
}

// allow lets the bouncer hand back n more frames than it has seen so far (set before every case: budget + slack).
func (b *bouncer) allow(n int) {
	b.mu.Lock()
	b.limit = len(b.ttls) + n
	b.mu.Unlock()
}

func startBouncer(p *peer.Peer, names *advNames, ghost string, backVia string, back func([]byte) error) *bouncer {
	b := &bouncer{stopped: make(chan struct{})}
	go func() {
		idx := 0
		for {
			select {
			case <-b.stopped:
				return
			default:
			}
			next, f := p.WaitFrame(idx, 50*time.Millisecond, func(f peer.Frame) bool { return f.Type == netceptor.MsgTypeData && f.Data != nil })
			idx = next
			if f == nil {
				if p.EOF() {
					return
				}

				continue
			}
			if f.Data.ToHash == peer.Hash(ghost) {
				b.mu.Lock()
				over := len(b.ttls) >= b.limit
				b.mu.Unlock()
				if over { // the loop should have ended long ago: keep the frame, the case is judged from the sequence seen
					names.emit("h_absorb", p.ID, f.Data)
					b.mu.Lock()
					b.ttls = append(b.ttls, int(f.Data.TTL))
					b.mu.Unlock()

					continue
				}
				names.emit("h_bounce", p.ID, f.Data, "via", backVia)
				_ = back(f.Raw)
				b.mu.Lock()
				b.ttls = append(b.ttls, int(f.Data.TTL)) // recorded after the hand-back, so that a later marker follows it on the wire
				b.mu.Unlock()
			} else {
				names.emit("h_absorb", p.ID, f.Data)
				b.mu.Lock()
				b.others = append(b.others, *f)
				b.mu.Unlock()
			}
		}
	}()

	return b
}

func (b *bouncer) snapshot() ([]int, []peer.Frame) {
	b.mu.Lock()
	defer b.mu.Unlock()

	return append([]int(nil), b.ttls...), append([]peer.Frame(nil), b.others...)
}

func (b *bouncer) waitTTL0(n0 int, timeout time.Duration) bool {
	deadline := time.Now().Add(timeout)
	for {
		b.mu.Lock()
		for _, t := range b.ttls[n0:] {
			if t == 0 {
				b.mu.Unlock()

				return true
			}
		}
		b.mu.Unlock()
		if time.Now().After(deadline) {
			return false
		}
		time.Sleep(time.Millisecond)
	}
}

func descending(from, step, count int) []int {
	out := []int{}
	for i := 0; i < count; i++ {
		out = append(out, from-i*step)
	}

	return out
}

func sameInts(a, b []int) bool {
	if len(a) != len(b) {
		return false
	}
	for i := range a {
		if a[i] != b[i] {
			return false
		}
	}

	return true
}

func decodeNotice(f peer.Frame) (netceptor.UnreachableMessage, bool) {
	var um netceptor.UnreachableMessage
	if f.Data == nil || f.Data.FromService != "unreach" || f.Data.ToService != "unreach" {
		return um, false
	}

	return um, json.Unmarshal(f.Data.Payload, &um) == nil
}

// advLoop2: one real node R; scripted P1 advertises the phantom node g and bounces; scripted P2 is a source/observer.
func advLoop2(res *Result, col *collector, tw *traceWriter, budgets []int) {
	const maxHops = 10
	ev0 := col.Len()
	r, err := e1.NewNode("R", e1.Opts{MaxHops: maxHops})
	if err != nil {
		res.inconclusive("adv2: %v", err)

		return
	}
	defer r.Stop()
	p1, err1 := r.Attach("P1")
	p2, err2 := r.Attach("P2")
	if err1 != nil || err2 != nil {
		res.inconclusive("adv2: attach: %v %v", err1, err2)

		return
	}
	if err := p1.Handshake("R", 1, map[string]float64{"g": 1}); err != nil {
		res.inconclusive("adv2: handshake: %v", err)

		return
	}
	if err := p2.Handshake("R", 1, nil); err != nil {
		res.inconclusive("adv2: handshake: %v", err)

		return
	}
	_ = p1.SendRoute(peer.RoutingUpdate{NodeID: "g", UpdateID: "g-1", UpdateEpoch: 5, UpdateSequence: 1, Connections: map[string]float64{"P1": 1}, ForwardingNode: "P1"})
	if !r.WaitTable(map[string]string{"P1": "P1", "P2": "P2", "g": "P1"}, 20*time.Second) {
		res.inconclusive("adv2: routing table did not settle: %v", r.N.Status().RoutingTable)

		return
	}
	names := newAdvNames("R", "P1", "P2", "g")
	b1 := startBouncer(p1, names, "g", "R", p1.SendRaw)
	b2 := startBouncer(p2, names, "g", "R", p2.SendRaw)
	defer close(b1.stopped)
	defer close(b2.stopped)
	obs := newObservers()
	src, err := openSock(r.N, "R", "src", obs, 0)
	if err != nil {
		res.inconclusive("adv2: %v", err)

		return
	}
	defer src.close()
	other, err := openSock(r.N, "R", "other", obs, 0)
	if err != nil {
		res.inconclusive("adv2: %v", err)

		return
	}
	defer other.close()
	settle := func() bool {
		return hookBarrier(col, p1, 20*time.Second) == nil && hookBarrier(col, p2, 20*time.Second) == nil
	}
	for _, h := range budgets {
		if res.tooMany() {
			return
		}
		// (i) the real node is the origin
		b1.allow(h + 8)
		t0, _ := b1.snapshot()
		_, o2 := b2.snapshot()
		n0 := obs.nNotes()
		f0 := countEv(col, "dp_forward")
		src.PC.SetHopsToLive(byte(h))
		payload := []byte(fmt.Sprintf("adv2-origin-%d", h))
		if err := src.sendTo(r.N, "g", "svc", payload); err != nil {
			res.violate("C10:send-error", fmt.Sprintf("adv2: WriteTo with %d hops failed: %v", h, err), nil)

			continue
		}
		got := obs.waitUntil(15*time.Second, func() bool { return len(obs.notes) > n0 })
		if !got && lastEventAge(col) < 3*time.Second {
			res.inconclusive("adv2: still busy after 15 s (origin, %d hops)", h)

			return
		}
		if !settle() {
			res.inconclusive("adv2: barrier timeout")

			return
		}
		time.Sleep(2 * time.Millisecond)
		t1, _ := b1.snapshot()
		_, o2b := b2.snapshot()
		_, notes := obs.snapshot()
		res.eval(fmt.Sprintf("adv2|origin|%d", h))
		res.count("adversarial_cases")
		ttls := t1[len(t0):]
		want := descending(h-1, 1, h)
		fwd := countEv(col, "dp_forward") - f0
		if !sameInts(ttls, want) || fwd != h {
			sig := "C10:loop-ttl-sequence"
			if len(ttls) > h || fwd > h {
				sig = "C10:forwarded-more-than-budget"
			}
			res.violate(sig, fmt.Sprintf("2-node loop R<->P1, origin R, %d hops: the peer saw TTL bytes %v (expected %v), R forwarded %d times (budget %d)", h, clip(ttls), clip(want), fwd, h),
				map[string]any{"scenario": "adv2-origin", "h": h})
		}
		nn := notes[n0:]
		if !got || len(nn) != 1 || nn[0].Svc != "src" || nn[0].N.Problem != netceptor.ProblemExpiredInTransit || nn[0].N.ReceivedFromNode != "R" ||
			nn[0].N.FromNode != "R" || nn[0].N.FromService != "src" || nn[0].N.ToNode != "g" || nn[0].N.ToService != "svc" {
			sig := "C10:expiry-notice-wrong"
			if len(nn) == 0 {
				sig = "C10:expiry-notice-missing"
			} else if len(nn) > 1 {
				sig = "C10:extra-notice"
			}
			res.violate(sig, fmt.Sprintf("2-node loop, origin R, %d hops: expected exactly one 'message expired' notice at R:src; got %+v", h, nn), map[string]any{"scenario": "adv2-origin", "h": h})
		}
		if len(o2b) != len(o2) {
			res.violate("C10:notice-to-wrong-node", fmt.Sprintf("2-node loop, origin R, %d hops: %d frame(s) were sent to the uninvolved neighbour P2", h, len(o2b)-len(o2)), nil)
		}
		// (ii) a neighbour is the source: the packet arrives at R with TTL h
		for _, notice := range []bool{false, true} {
			b1.allow(h + 8)
			t0, _ := b1.snapshot()
			_, o2 := b2.snapshot()
			f0 := countEv(col, "dp_forward")
			fromSvc, toSvc := "psrc", "svc"
			if notice {
				fromSvc, toSvc = "unreach", "unreach" // the expiring packet is itself a notice
			}
			pl := []byte(fmt.Sprintf("adv2-peer-%d-%v", h, notice))
			d := &peer.Data{TTL: byte(h), FromHash: peer.Hash("P2"), ToHash: peer.Hash("g"), FromService: fromSvc, ToService: toSvc, Payload: pl}
			names.emit("h_inject", "P2", d, "at", "R", "sha", sha8(pl))
			_ = p2.SendRaw(peer.EncodeData(byte(h), "P2", "g", fromSvc, toSvc, pl))
			u0 := countNoticeSends(col)
			if h > 0 {
				b1.waitTTL0(len(t0), 15*time.Second) // if the frame with TTL 0 never comes, the sequence check below says so
			}
			if !settle() { // R has handled the injected frame and (after the last hand-back) the frame with TTL 0
				res.inconclusive("adv2: barrier timeout")

				return
			}
			if !notice {
				// positive wait: the notice frame for P2
				deadline := time.Now().Add(15 * time.Second)
				arrived := false
				for time.Now().Before(deadline) && !arrived {
					if _, o := b2.snapshot(); len(o) > len(o2) {
						arrived = true
					}
					time.Sleep(time.Millisecond)
				}
				if !arrived && lastEventAge(col) < 3*time.Second {
					res.inconclusive("adv2: still busy after 15 s (packet from P2, TTL %d)", h)

					return
				}
			} else if n := countNoticeSends(col) - u0 + 0; n != 0 {
				_ = n // reported below through the frames / the trace
			}
			waitQuiescent(col, nil, 30*time.Millisecond, 10*time.Second)
			time.Sleep(2 * time.Millisecond)
			t1, _ := b1.snapshot()
			_, o2b := b2.snapshot()
			res.eval(fmt.Sprintf("adv2|peer|%d|%v", h, notice))
			res.count("adversarial_cases")
			ttls := t1[len(t0):]
			want := descending(h-1, 1, h)
			fwd := countEv(col, "dp_forward") - f0
			nNotice := len(o2b) - len(o2)
			if !notice {
				fwd -= nNotice // the notice itself is forwarded once by its origin R towards P2
			}
			if !sameInts(ttls, want) || fwd != h {
				sig := "C10:loop-ttl-sequence"
				if len(ttls) > h || fwd > h {
					sig = "C10:forwarded-more-than-budget"
				}
				res.violate(sig, fmt.Sprintf("2-node loop R<->P1, packet from P2 arriving with TTL %d (notice=%v): the peer saw TTL bytes %v (expected %v), R forwarded %d times", h, notice, clip(ttls), clip(want), fwd),
					map[string]any{"scenario": "adv2-peer", "h": h, "notice": notice})
			}
			newFrames := o2b[len(o2):]
			if notice {
				if len(newFrames) != 0 || countNoticeSends(col) != u0 {
					res.violate("C10:notice-about-notice", fmt.Sprintf("a notice packet ran out of budget at R (TTL %d on arrival) and R answered it with %d notice(s) (%d frame(s) reached its source)", h, countNoticeSends(col)-u0, len(newFrames)),
						map[string]any{"scenario": "adv2-peer", "h": h})
				}

				continue
			}
			okNotice := false
			if len(newFrames) == 1 {
				if um, ok := decodeNotice(newFrames[0]); ok {
					dd := newFrames[0].Data
					okNotice = dd.FromHash == peer.Hash("R") && dd.ToHash == peer.Hash("P2") && um.Problem == netceptor.ProblemExpiredInTransit &&
						um.FromNode == "P2" && um.FromService == "psrc" && um.ToNode == "g" && um.ToService == "svc" && int(dd.TTL) == maxHops-1
				}
			}
			if !okNotice {
				sig := "C10:expiry-notice-wrong"
				if len(newFrames) == 0 {
					sig = "C10:expiry-notice-missing"
				} else if len(newFrames) > 1 {
					sig = "C10:extra-notice"
				}
				res.violate(sig, fmt.Sprintf("packet from P2 for g ran out of budget at R (TTL %d on arrival): expected exactly one 'message expired' notice addressed to P2, P2 received %d frame(s) %s",
					h, len(newFrames), describeFrames(newFrames)), map[string]any{"scenario": "adv2-peer", "h": h})
			}
		}
	}
	_, notes := obs.snapshot()
	for _, n := range notes {
		if n.Svc != "src" {
			res.violate("C10:notice-to-wrong-socket", fmt.Sprintf("socket R:%s received %+v", n.Svc, n.N), nil)
		}
	}
	src.close()
	other.close()
	if tw != nil {
		res.add("trace_lines", tw.segment(col.Since(ev0), maxHops, true))
	}
}

func clip(a []int) []int {
	if len(a) > 12 {
		return append(append([]int(nil), a[:6]...), a[len(a)-6:]...)
	}

	return a
}

func describeFrames(fs []peer.Frame) string {
	out := ""
	for _, f := range fs {
		if um, ok := decodeNotice(f); ok {
			out += fmt.Sprintf("[notice ttl=%d %+v]", f.Data.TTL, um)
		} else if f.Data != nil {
			out += fmt.Sprintf("[data ttl=%d %s->%s %d bytes]", f.Data.TTL, f.Data.FromService, f.Data.ToService, len(f.Data.Payload))
		}
	}

	return out
}

func countNoticeSends(col *collector) int {
	col.mu.Lock()
	defer col.mu.Unlock()
	n := 0
	for _, r := range col.recs {
		if r["ev"] == "dp_send" && r["fromsvc"] == "unreach" {
			n++
		}
	}

	return n
}

func countEv(col *collector, ev string) int {
	col.mu.Lock()
	defer col.mu.Unlock()
	n := 0
	for _, r := range col.recs {
		if r["ev"] == ev {
			n++
		}
	}

	return n
}

// advLoop3: two real nodes R1-R2; scripted P (neighbour of R2) advertises the phantom node g; whatever P receives for g
// is handed to R1 through the scripted neighbour Q: forwarding tables R1: g->R2, R2: g->P, P/Q: g->R1, a three-node loop.
func advLoop3(res *Result, col *collector, tw *traceWriter, budgets []int) {
	const maxHops = 10
	ev0 := col.Len()
	r1, err := e1.NewNode("R1", e1.Opts{MaxHops: maxHops, RouteUpdate: 300 * time.Millisecond})
	if err != nil {
		res.inconclusive("adv3: %v", err)

		return
	}
	defer r1.Stop()
	r2, err := e1.NewNode("R2", e1.Opts{MaxHops: maxHops, RouteUpdate: 300 * time.Millisecond})
	if err != nil {
		res.inconclusive("adv3: %v", err)

		return
	}
	defer r2.Stop()
	link := memnet.NewPipe(4242)
	if !r1.B.Attach(link.A) || !r2.B.Attach(link.B) {
		res.inconclusive("adv3: cannot link the real nodes")

		return
	}
	// the real nodes first: what a scripted peer announces is flooded once, so both real nodes must be connected before
	if !r1.WaitTable(map[string]string{"R2": "R2"}, 30*time.Second) || !r2.WaitTable(map[string]string{"R1": "R1"}, 30*time.Second) {
		res.inconclusive("adv3: the real nodes did not connect: %v / %v", r1.N.Status().RoutingTable, r2.N.Status().RoutingTable)

		return
	}
	p, errp := r2.Attach("P")
	qq, errq := r1.Attach("Q")
	if errp != nil || errq != nil {
		res.inconclusive("adv3: attach: %v %v", errp, errq)

		return
	}
	if err := p.Handshake("R2", 1, map[string]float64{"g": 1}); err != nil {
		res.inconclusive("adv3: handshake P: %v", err)

		return
	}
	if err := qq.Handshake("R1", 1, nil); err != nil {
		res.inconclusive("adv3: handshake Q: %v", err)

		return
	}
	settled := false
	for try := 1; try <= 8 && !settled; try++ {
		// (re-)announce the scripted nodes with rising sequence numbers until both real nodes have the intended tables
		if try > 1 {
			_ = p.OwnUpdate(map[string]float64{"R2": 1, "g": 1})
			_ = qq.OwnUpdate(map[string]float64{"R1": 1})
		}
		_ = p.SendRoute(peer.RoutingUpdate{NodeID: "g", UpdateID: fmt.Sprintf("g-%d", try), UpdateEpoch: 5, UpdateSequence: uint64(try),
			Connections: map[string]float64{"P": 1}, ForwardingNode: "P"})
		settled = r1.WaitTable(map[string]string{"R2": "R2", "P": "R2", "Q": "Q", "g": "R2"}, 4*time.Second) &&
			r2.WaitTable(map[string]string{"R1": "R1", "P": "P", "g": "P", "Q": "R1"}, 4*time.Second)
	}
	if !settled {
		res.inconclusive("adv3: routing tables did not settle: %v / %v", r1.N.Status().RoutingTable, r2.N.Status().RoutingTable)

		return
	}
	names := newAdvNames("R1", "R2", "P", "Q", "g")
	bp := startBouncer(p, names, "g", "R1", qq.SendRaw) // P hands packets for g to R1 (over Q's session)
	bq := startBouncer(qq, names, "g", "R1", qq.SendRaw)
	defer close(bp.stopped)
	defer close(bq.stopped)
	obs := newObservers()
	src, err := openSock(r1.N, "R1", "src", obs, 0)
	if err != nil {
		res.inconclusive("adv3: %v", err)

		return
	}
	defer src.close()
	settle := func() bool {
		for i := 0; i < 2; i++ {
			if hookBarrier(col, p, 20*time.Second) != nil || hookBarrier(col, qq, 20*time.Second) != nil {
				return false
			}
			if !waitQuiescent(col, nil, 30*time.Millisecond, 20*time.Second) {
				return false
			}
		}

		return link.AB.Pending() == 0 && link.BA.Pending() == 0
	}
	for _, h := range budgets {
		if res.tooMany() {
			return
		}
		for _, mode := range []string{"origin", "peer"} {
			bp.allow(h/2 + 8)
			tp0, _ := bp.snapshot()
			_, oq0 := bq.snapshot()
			n0 := obs.nNotes()
			f0 := countEv(col, "dp_forward")
			pl := []byte(fmt.Sprintf("adv3-%s-%d", mode, h))
			if mode == "origin" {
				src.PC.SetHopsToLive(byte(h))
				if err := src.sendTo(r1.N, "g", "svc", pl); err != nil {
					res.violate("C10:send-error", fmt.Sprintf("adv3: WriteTo with %d hops failed: %v", h, err), nil)

					continue
				}
				if !obs.waitUntil(15*time.Second, func() bool { return len(obs.notes) > n0 }) && lastEventAge(col) < 3*time.Second {
					res.inconclusive("adv3: still busy after 15 s (origin, %d hops)", h)

					return
				}
			} else {
				d := &peer.Data{TTL: byte(h), FromHash: peer.Hash("Q"), ToHash: peer.Hash("g"), FromService: "qsrc", ToService: "svc", Payload: pl}
				names.emit("h_inject", "Q", d, "at", "R1", "sha", sha8(pl))
				_ = qq.SendRaw(peer.EncodeData(byte(h), "Q", "g", "qsrc", "svc", pl))
				deadline := time.Now().Add(15 * time.Second)
				arrived := false
				for time.Now().Before(deadline) && !arrived {
					if _, o := bq.snapshot(); len(o) > len(oq0) {
						arrived = true
					}
					time.Sleep(time.Millisecond)
				}
				if !arrived && lastEventAge(col) < 3*time.Second {
					res.inconclusive("adv3: still busy after 15 s (packet from Q, TTL %d)", h)

					return
				}
			}
			if !settle() {
				res.inconclusive("adv3: did not settle")

				return
			}
			res.eval(fmt.Sprintf("adv3|%s|%d", mode, h))
			res.count("adversarial_cases")
			tp1, _ := bp.snapshot()
			_, oq1 := bq.snapshot()
			_, notes := obs.snapshot()
			ttls := tp1[len(tp0):]
			want := descending(h-2, 2, h/2) // R1 and R2 each take one off per round
			fwd := countEv(col, "dp_forward") - f0
			expirer := "R1"
			if h%2 == 1 {
				expirer = "R2"
			}
			// forwards of the notice itself: none when R1 reports to its own socket; R2->R1 is one; R1->Q one; R2->R1->Q two
			noticeFwd := 0
			if mode == "origin" && expirer == "R2" {
				noticeFwd = 1
			} else if mode == "peer" {
				noticeFwd = 1
				if expirer == "R2" {
					noticeFwd = 2
				}
			}
			if !sameInts(ttls, want) || fwd-noticeFwd != h {
				sig := "C10:loop-ttl-sequence"
				if fwd-noticeFwd > h {
					sig = "C10:forwarded-more-than-budget"
				}
				res.violate(sig, fmt.Sprintf("3-node loop R1->R2->P->R1, %s, %d hops: P saw TTL bytes %v (expected %v); the real nodes forwarded the packet %d times (budget %d)",
					mode, h, clip(ttls), clip(want), fwd-noticeFwd, h), map[string]any{"scenario": "adv3-" + mode, "h": h})
			}
			if mode == "origin" {
				nn := notes[n0:]
				if len(nn) != 1 || nn[0].Svc != "src" || nn[0].N.Problem != netceptor.ProblemExpiredInTransit || nn[0].N.ReceivedFromNode != expirer ||
					nn[0].N.FromNode != "R1" || nn[0].N.FromService != "src" || nn[0].N.ToNode != "g" || nn[0].N.ToService != "svc" {
					sig := "C10:expiry-notice-wrong"
					if len(nn) == 0 {
						sig = "C10:expiry-notice-missing"
					} else if len(nn) == 1 && nn[0].N.ReceivedFromNode != expirer {
						sig = "C10:expiry-reported-by-wrong-node"
					}
					res.violate(sig, fmt.Sprintf("3-node loop, origin R1, %d hops: expected one 'message expired' notice from %s at R1:src; got %+v", h, expirer, nn), map[string]any{"scenario": "adv3-origin", "h": h})
				}
				if len(oq1) != len(oq0) {
					res.violate("C10:notice-to-wrong-node", fmt.Sprintf("3-node loop, origin R1, %d hops: Q received %s", h, describeFrames(oq1[len(oq0):])), nil)
				}
			} else {
				nf := oq1[len(oq0):]
				ok := false
				if len(nf) == 1 {
					if um, isN := decodeNotice(nf[0]); isN {
						ok = nf[0].Data.FromHash == peer.Hash(expirer) && nf[0].Data.ToHash == peer.Hash("Q") && um.Problem == netceptor.ProblemExpiredInTransit &&
							um.FromNode == "Q" && um.FromService == "qsrc" && um.ToNode == "g" && um.ToService == "svc"
					}
				}
				if !ok {
					sig := "C10:expiry-notice-wrong"
					if len(nf) == 0 {
						sig = "C10:expiry-notice-missing"
					}
					res.violate(sig, fmt.Sprintf("3-node loop, packet from Q with TTL %d: expected one 'message expired' notice from %s addressed to Q; Q received %s", h, expirer, describeFrames(nf)),
						map[string]any{"scenario": "adv3-peer", "h": h})
				}
			}
		}
	}
	src.close()
	if tw != nil {
		res.add("trace_lines", tw.segment(col.Since(ev0), maxHops, true))
	}
}

func cmdC10(args []string) {
	fs := flag.NewFlagSet("c10", flag.ExitOnError)
	out := fs.String("out", "result.json", "result file")
	traceOut := fs.String("trace", "", "trace file for DataPlaneTrace.tla")
	vecFile := fs.String("vectors", "", "NDJSON vectors from DataPlanePing.tla")
	seed := fs.Int64("seed", 1, "seed")
	tier := fs.String("tier", "quick", "quick or thorough")
	traceLimit := fs.Int("trace-limit", 12000, "stop tracing after this many lines")
	_ = fs.Parse(args)
	res := &Result{}
	defer res.write(*out)
	col := installCollector()
	rng := rand.New(rand.NewSource(*seed*104729 + 3))
	var tw *traceWriter
	if *traceOut != "" {
		var err error
		if tw, err = newTraceWriter(*traceOut, *traceLimit); err != nil {
			res.inconclusive("trace file: %v", err)

			return
		}
		defer func() {
			res.Segments, res.TraceLines = tw.segs, tw.lines
			tw.close()
		}()
	}
	budgets := []int{0, 1, 2, 3, 6, 255}
	if *tier == "thorough" {
		budgets = []int{0, 1, 2, 3, 4, 5, 7, 30, 254, 255}
	}
	advLoop2(res, col, tw, budgets)
	col.Reset()
	advLoop3(res, col, tw, budgets)
	col.Reset()

	vecs, err := readNDJSON[pingVec](*vecFile)
	if err != nil {
		res.inconclusive("vectors: %v", err)

		return
	}
	byTopo := map[string][]pingVec{}
	var order []string
	for _, v := range vecs {
		key := fmt.Sprintf("%s/%d", v.Topo, v.MaxHops)
		if _, ok := byTopo[key]; !ok {
			order = append(order, key)
		}
		byTopo[key] = append(byTopo[key], v)
	}
	sort.Strings(order)
	for i, name := range order {
		if res.tooMany() {
			break
		}
		vs := byTopo[name]
		sort.Slice(vs, func(a, b int) bool { return vs[a].Src+vs[a].Dst < vs[b].Src+vs[b].Dst })
		runPingTopo(res, col, tw, name, vs, rng, (i+int(*seed))%2 == 0, *seed*1000+int64(i))
		col.Reset()
	}
}
