package main

import (
	"context"
	"fmt"
	"math/rand"
	"net"
	"reflect"
	"strings"
	"sync"
	"sync/atomic"
	"time"

	"github.com/ansible/receptor/pkg/netceptor"
	"verif/harness/mesh"
)

// ---------------------------------------------------------------- names

// nodeIDPool returns node ids covering the classes of the property: 1 byte, long (200 B), UTF-8,
// ':' and punctuation, ids differing only in case; never "localhost" in any case.
func nodeIDPool(rng *rand.Rand) []string {
	long := strings.Repeat("L", 151) + fmt.Sprintf("-%048x", rng.Uint64())
	pool := []string{
		string(rune('a' + rng.Intn(26))), // 1 byte
		long[:200],                       // 200 bytes
		"nœud-日本-üß",                     // UTF-8, multi-byte
		"n:1;a/b?c=d&e,f+g|h",            // ':' and punctuation
		"Node-K",
		"node-k", // differs only in case
		"NODE-K",
		"x.y:z",
		"é",          // 2-byte single rune
		"LocalHost1", // contains, but is not, the reserved alias
		" sp ace ",
		"7",
	}
	rng.Shuffle(len(pool), func(i, j int) { pool[i], pool[j] = pool[j], pool[i] })

	return pool
}

// servicePool returns service names of 1..8 non-zero bytes: bytes >= 0x80, names that are prefixes of each
// other, names differing in case, 8-byte names (no padding left), names containing ':' and spaces.
func servicePool(rng *rand.Rand) []string {
	rnd := func(n int) string {
		b := make([]byte, n)
		for i := range b {
			b[i] = byte(1 + rng.Intn(255))
		}

		return string(b)
	}
	pool := []string{
		"abc", "abc\x01", "ab", "a", "abcdefgh", "abcdefg", "ABC", "Abc",
		"\xff", "\xff\xfe", "\x80\x81\x82\x83\x84\x85\x86\x87", "\x01", "\x01\x01",
		"s:v", " s", "s ", "pingx", "unreac", "\xc3\xa9", rnd(8), rnd(5), rnd(1) + "z",
	}
	seen := map[string]bool{"ping": true, "unreach": true}
	out := []string{}
	for _, s := range pool {
		if !seen[s] && len(s) >= 1 && len(s) <= 8 && !strings.ContainsRune(s, 0) {
			seen[s] = true
			out = append(out, s)
		}
	}

	return out
}

// ---------------------------------------------------------------- sockets with observers

type arrival struct {
	Node, Svc         string // where it arrived
	FromNode, FromSvc string
	Sha               string
	Len               int
	First             byte
	Uniform           bool // all bytes equal (used by the buffer-reuse scenario)
	Seq               int
}

type noteRec struct {
	Node, Svc string // the socket that received the notification
	N         netceptor.UnreachableNotification
}

// observers collects everything that any harness socket receives.
type observers struct {
	mu       sync.Mutex
	cond     *sync.Cond
	arrivals []arrival
	notes    []noteRec
	readErrs int
}

func newObservers() *observers {
	o := &observers{}
	o.cond = sync.NewCond(&o.mu)

	return o
}

func (o *observers) nArrivals() int { o.mu.Lock(); defer o.mu.Unlock(); return len(o.arrivals) }
func (o *observers) nNotes() int    { o.mu.Lock(); defer o.mu.Unlock(); return len(o.notes) }

func (o *observers) snapshot() ([]arrival, []noteRec) {
	o.mu.Lock()
	defer o.mu.Unlock()

	return append([]arrival(nil), o.arrivals...), append([]noteRec(nil), o.notes...)
}

// waitUntil polls cond (under the observers' condition variable) until true or timeout.
func (o *observers) waitUntil(timeout time.Duration, cond func() bool) bool {
	deadline := time.Now().Add(timeout)
	o.mu.Lock()
	defer o.mu.Unlock()
	for !cond() {
		rem := time.Until(deadline)
		if rem <= 0 {
			return false
		}
		t := time.AfterFunc(minDur(rem, 50*time.Millisecond), func() {
			o.mu.Lock()
			o.cond.Broadcast()
			o.mu.Unlock()
		})
		o.cond.Wait()
		t.Stop()
	}

	return true
}

func minDur(a, b time.Duration) time.Duration {
	if a < b {
		return a
	}

	return b
}

// addrParts reads the unexported node and service of a netceptor.Addr (String() joins them with ':', which is
// ambiguous for names containing ':').
func addrParts(a net.Addr) (node, service string) {
	v := reflect.ValueOf(a)
	if v.Kind() == reflect.Struct {
		if f := v.FieldByName("node"); f.IsValid() && f.Kind() == reflect.String {
			node = f.String()
		}
		if f := v.FieldByName("service"); f.IsValid() && f.Kind() == reflect.String {
			service = f.String()
		}
	}

	return node, service
}

type sock struct {
	Node, Svc string
	PC        netceptor.PacketConner
	done      chan struct{}
	slowRead  time.Duration
	noted     int64 // notifications received so far (atomic)
}

// openSock binds a datagram socket with a reader and an unreachable subscription feeding obs.
func openSock(n *netceptor.Netceptor, node, svc string, obs *observers, slowRead time.Duration) (*sock, error) {
	pc, err := n.ListenPacket(svc)
	if err != nil {
		return nil, err
	}
	s := &sock{Node: node, Svc: pc.LocalService(), PC: pc, done: make(chan struct{}), slowRead: slowRead}
	ch := pc.SubscribeUnreachable(s.done)
	go func() {
		buf := make([]byte, 70000)
		for {
			k, addr, err := pc.ReadFrom(buf)
			if err != nil {
				return
			}
			fn, fs := addrParts(addr)
			a := arrival{Node: node, Svc: s.Svc, FromNode: fn, FromSvc: fs, Sha: shaFull(buf[:k]), Len: k, Uniform: true}
			if k > 0 {
				a.First = buf[0]
				for _, c := range buf[:k] {
					if c != a.First {
						a.Uniform = false

						break
					}
				}
			}
			obs.mu.Lock()
			a.Seq = len(obs.arrivals)
			obs.arrivals = append(obs.arrivals, a)
			obs.cond.Broadcast()
			obs.mu.Unlock()
			if s.slowRead > 0 {
				time.Sleep(s.slowRead)
			}
		}
	}()
	if ch != nil {
		go func() {
			for m := range ch {
				atomic.AddInt64(&s.noted, 1)
				obs.mu.Lock()
				obs.notes = append(obs.notes, noteRec{Node: node, Svc: s.Svc, N: m})
				obs.cond.Broadcast()
				obs.mu.Unlock()
			}
		}()
	}

	return s, nil
}

func (s *sock) close() {
	_ = s.PC.Close()
	select {
	case <-s.done:
	default:
		close(s.done)
	}
}

func (s *sock) sendTo(n *netceptor.Netceptor, node, svc string, payload []byte) error {
	_, err := s.PC.WriteTo(payload, n.NewAddr(node, svc))

	return err
}

// ---------------------------------------------------------------- meshes

// waitConverged waits until the memnet mesh looks converged (least-cost tables everywhere).
func waitConverged(m *mesh.Mesh, timeout time.Duration) bool {
	deadline := time.Now().Add(timeout)
	for {
		if m.LooksConverged() {
			return true
		}
		if time.Now().After(deadline) {
			return false
		}
		time.Sleep(10 * time.Millisecond)
	}
}

// waitRoutes waits until every listed node has a route to every other listed node.
func waitRoutes(nodes map[string]*netceptor.Netceptor, timeout time.Duration) bool {
	deadline := time.Now().Add(timeout)
	for {
		ok := true
		for id, n := range nodes {
			rt := n.Status().RoutingTable
			for other := range nodes {
				if other != id {
					if _, has := rt[other]; !has {
						ok = false
					}
				}
			}
		}
		if ok {
			return true
		}
		if time.Now().After(deadline) {
			return false
		}
		time.Sleep(10 * time.Millisecond)
	}
}

// meshQuiet reports whether no frame is queued on any memnet link.
func meshQuiet(m *mesh.Mesh) bool {
	for _, l := range m.Links {
		if l.Pipe.AB.Pending() > 0 || l.Pipe.BA.Pending() > 0 {
			return false
		}
	}

	return true
}

// waitQuiescent waits until the number of data-plane events has been stable for `stable` and (if m != nil) no data frame
// is queued on a link.
func waitQuiescent(col *collector, m *mesh.Mesh, stable, timeout time.Duration) bool {
	deadline := time.Now().Add(timeout)
	last, since := col.dpCount(), time.Now()
	for {
		time.Sleep(5 * time.Millisecond)
		cur := col.dpCount()
		if cur != last || (m != nil && !meshQuiet(m)) {
			last, since = cur, time.Now()
		} else if time.Since(since) >= stable {
			return true
		}
		if time.Now().After(deadline) {
			return false
		}
	}
}

type topo struct {
	Name  string
	N     int
	Edges [][2]int
}

func chainTopo(n int) topo {
	t := topo{Name: fmt.Sprintf("chain%d", n), N: n}
	for i := 0; i+1 < n; i++ {
		t.Edges = append(t.Edges, [2]int{i, i + 1})
	}

	return t
}

var diamondTopo = topo{Name: "diamond", N: 4, Edges: [][2]int{{0, 1}, {0, 2}, {1, 3}, {2, 3}}}
var starTopo = topo{Name: "star", N: 5, Edges: [][2]int{{0, 1}, {0, 2}, {0, 3}, {0, 4}}}

// buildMesh starts the nodes of t with the given ids on memnet links of cost 1.
func buildMesh(t topo, ids []string, o mesh.Opts, seed int64) (*mesh.Mesh, error) {
	m := mesh.New(o, seed)
	for i := 0; i < t.N; i++ {
		m.Start(ids[i])
	}
	for _, e := range t.Edges {
		if _, err := m.Connect(ids[e[0]], ids[e[1]], 1, 1); err != nil {
			m.StopAll()

			return nil, err
		}
	}

	return m, nil
}

func ctxTimeout(d time.Duration) (context.Context, context.CancelFunc) {
	return context.WithTimeout(context.Background(), d)
}
