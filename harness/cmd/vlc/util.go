package main

import (
	"fmt"
	"regexp"
	"runtime"
	"sort"
	"strings"
	"time"

	"verif/harness/mesh"
)

// ---------------------------------------------------------------- goroutine accounting

// gor is one goroutine of the profile reduced to what identifies "which piece of code left it behind".
type gor struct {
	ID    string
	State string
	Sig   string   // innermost receptor/quic-go frame + " <- " + creator
	Stack []string // function names, innermost first
}

var (
	reHexArgs = regexp.MustCompile(`\(0x[0-9a-f, .x{}]*\)|\(\.\.\.\)|\(\)$`)
	reHdr     = regexp.MustCompile(`^goroutine (\d+) \[([^\],]+)`)
)

func relevantFrame(fn string) bool {
	return strings.Contains(fn, "ansible/receptor/pkg/") || strings.Contains(fn, "quic-go")
}

// goroutines returns every goroutine that has a frame in receptor/pkg or quic-go (the harness's own
// frames are kept in the stack so that the caller can see who is still inside a receptor call).
func goroutines() []gor {
	buf := make([]byte, 1<<20)
	for {
		n := runtime.Stack(buf, true)
		if n < len(buf) {
			buf = buf[:n]

			break
		}
		buf = make([]byte, 2*len(buf))
	}
	var out []gor
	for _, blk := range strings.Split(string(buf), "\n\n") {
		lines := strings.Split(strings.TrimSpace(blk), "\n")
		if len(lines) == 0 {
			continue
		}
		m := reHdr.FindStringSubmatch(lines[0])
		if m == nil {
			continue
		}
		g := gor{ID: m[1], State: m[2]}
		creator := ""
		for _, l := range lines[1:] {
			if strings.HasPrefix(l, "\t") {
				continue
			}
			if strings.HasPrefix(l, "created by ") {
				creator = strings.TrimPrefix(l, "created by ")
				if i := strings.Index(creator, " in goroutine"); i >= 0 {
					creator = creator[:i]
				}

				continue
			}
			fn := reHexArgs.ReplaceAllString(l, "")
			if i := strings.LastIndex(fn, "("); i > 0 && strings.HasSuffix(fn, ")") && !strings.Contains(fn[i:], "*") {
				fn = fn[:i]
			}
			g.Stack = append(g.Stack, fn)
		}
		// signature = the goroutine's entry function (outermost relevant frame) and who created it: stable while
		// the goroutine moves through its code, and it names the piece of code that left it behind
		rel := ""
		for _, fn := range g.Stack {
			if relevantFrame(fn) {
				rel = fn
			}
		}
		if rel == "" && !relevantFrame(creator) {
			continue
		}
		if rel == "" {
			rel = "(runtime)"
		}
		g.Sig = shortFn(rel) + " <- " + shortFn(creator)
		out = append(out, g)
	}

	return out
}

func shortFn(fn string) string {
	fn = strings.TrimPrefix(fn, "github.com/ansible/receptor/pkg/")
	fn = strings.TrimPrefix(fn, "github.com/quic-go/")

	return fn
}

func profile() map[string]int {
	p := map[string]int{}
	for _, g := range goroutines() {
		p[g.Sig]++
	}

	return p
}

// profileDiff lists signatures whose count in now exceeds base.
func profileDiff(base, now map[string]int) map[string]int {
	d := map[string]int{}
	for k, v := range now {
		if v > base[k] {
			d[k] = v - base[k]
		}
	}

	return d
}

func diffString(d map[string]int) string {
	ks := make([]string, 0, len(d))
	for k := range d {
		ks = append(ks, k)
	}
	sort.Slice(ks, func(i, j int) bool {
		if d[ks[i]] != d[ks[j]] {
			return d[ks[i]] > d[ks[j]]
		}

		return ks[i] < ks[j]
	})
	parts := []string{}
	for _, k := range ks {
		parts = append(parts, fmt.Sprintf("%d x %s", d[k], k))
	}

	return strings.Join(parts, "; ")
}

// countInFunc counts goroutines that are currently inside a function whose name contains fn and whose state has prefix.
func countInFunc(fn, statePrefix string) int {
	n := 0
	for _, g := range goroutines() {
		if !strings.HasPrefix(g.State, statePrefix) {
			continue
		}
		for _, f := range g.Stack {
			if strings.Contains(f, fn) {
				n++

				break
			}
		}
	}

	return n
}

// waitUntil polls cond every step until it is true or the ceiling is reached.
func waitUntil(ceiling, step time.Duration, cond func() bool) bool {
	deadline := time.Now().Add(ceiling)
	for {
		if cond() {
			return true
		}
		if time.Now().After(deadline) {
			return false
		}
		time.Sleep(step)
	}
}

// ---------------------------------------------------------------- mesh helpers

func regSize(nd *mesh.Node) int {
	l := nd.N.GetListenerLock()
	l.RLock()
	defer l.RUnlock()

	return len(nd.N.GetListenerRegistry())
}

func regKeys(nd *mesh.Node) []string {
	l := nd.N.GetListenerLock()
	l.RLock()
	defer l.RUnlock()
	ks := []string{}
	for k := range nd.N.GetListenerRegistry() {
		ks = append(ks, k)
	}
	sort.Strings(ks)

	return ks
}

// buildMesh starts the nodes and links ("a-b" strings, cost 1) and waits for routing convergence.
func buildMesh(seed int64, ids []string, links []string, o mesh.Opts) (*mesh.Mesh, error) {
	m := mesh.New(o, seed)
	for _, id := range ids {
		m.Start(id)
	}
	for _, l := range links {
		ab := strings.Split(l, "-")
		cost := 1.0
		if len(ab) == 3 {
			fmt.Sscanf(ab[2], "%g", &cost)
		}
		if _, err := m.Connect(ab[0], ab[1], cost, cost); err != nil {
			return nil, fmt.Errorf("connect %s: %w", l, err)
		}
	}
	if !waitUntil(60*time.Second, 20*time.Millisecond, m.LooksConverged) {
		return nil, fmt.Errorf("mesh did not converge")
	}

	return m, nil
}

// closeDeadlocked: a PacketConn.Close that has not returned is a definite deadlock when it waits for the registry
// write lock while a deliverer sits in the hand-over select of handleMessageData (which only Close's cancel or a
// reader can end): each waits for the other.
func closeDeadlocked() bool {
	waiting := false
	for _, g := range goroutines() {
		if !(strings.Contains(g.State, "RWMutex") || strings.HasPrefix(g.State, "semacquire") || strings.Contains(g.State, "Mutex.Lock")) {
			continue
		}
		for _, f := range g.Stack {
			if strings.Contains(f, "(*PacketConn).Close") {
				waiting = true
			}
		}
	}

	return waiting && countInFunc("handleMessageData", "select") > 0
}

// closeBounded calls Close in a goroutine and waits up to d; returns (returned, deadlocked).
func closeBounded(closeFn func() error, d time.Duration) (bool, bool) {
	if within(d, func() { _ = closeFn() }) {
		return true, false
	}

	return false, closeDeadlocked()
}
