package main

import (
	"context"
	"flag"
	"fmt"
	"math/rand"
	"net"
	"os"
	"sort"
	"strings"
	"sync"
	"time"

	"github.com/ansible/receptor/pkg/netceptor"
	"github.com/ansible/receptor/pkg/verifhook"
	"verif/harness/mesh"
)

// B1 for C17: the schedules found by TLC on Lifecycle.tla, replayed on real objects. The process is a
// child of "vlc c17": a Go panic in any goroutine kills it, and the parent turns the exit status and the
// panic message into the verdict.

type b1env struct {
	fatal bool // the node is wedged: report at once, no release accounting (it would block on the registry lock)
	res   *Result
	rng   *rand.Rand
	m     *mesh.Mesh
	a, b  *mesh.Node
	name  string
	base  map[string]int // registry baseline per node
	prof  map[string]int // goroutine baseline
}

type b1scenario struct {
	name string
	what string
	run  func(e *b1env)
}

var b1scenarios []b1scenario

func init() {
	commands["c17child"] = cmdC17Child
	b1scenarios = []b1scenario{
		{"two_deliverers_close", "Deliver_Begin x2, Deliver_Block x2 on an unread socket, then Close: both deliverers wake on the cancelled context", scTwoDeliverers},
		{"two_deliverers_gate_close", "Deliver_Begin x2 (parked right after the registry lookup), Close, then both run the delivery select", scTwoDeliverersGate},
		{"late_deliverer_after_close", "one deliverer blocked, one parked after the lookup, Close, first wakes, then the late one runs the select", scLateDeliverer},
		{"close_twice", "Close, CloseAgain on plain / advertised sockets, stream listeners and both kinds of stream close", scCloseTwice},
		{"close_race_readfrom", "ReadFrom (with and without deadline) racing Close", scCloseRaceRead},
		{"close_race_delivery", "local and remote senders plus a reader racing Close", scCloseRaceDelivery},
		{"listener_close_race", "Listener.Close racing a pending Accept and an in-flight dial", scListenerCloseRace},
		{"cancel_mid_dial", "context cancellation at a seeded point of DialContext", scCancelMidDial},
		{"dial_dead", "dial to a service nobody listens on, to an unknown node, and ping failures", scDialDead},
		{"ping_notice_race", "an unreachable notice for a ping arrives while SendPing returns for another reason (cancelled, answered)", scPingNoticeRace},
		{"open_race_shutdown", "sockets opened and closed while the node shuts down and its notice broker is busy", scOpenRaceShutdown},
		{"dial_dead_remote", "dials to a service nobody listens on at a reachable remote node, ended by the 'service unknown' notice (the caller's context stays alive)", scDialDeadRemote},
		{"stream_close_kinds", "dial+accept, then every order of Close / CloseConnection on both ends; dialler registry must return to baseline", scStreamCloseKinds},
	}
}

func cmdC17Child(args []string) {
	fs := flag.NewFlagSet("c17child", flag.ExitOnError)
	out := fs.String("out", "child.json", "result file")
	seed := fs.Int64("seed", 1, "seed")
	scen := fs.String("scenario", "", "scenario name")
	_ = fs.Parse(args)
	res := &Result{Extra: map[string]any{}}
	var sc *b1scenario
	for i := range b1scenarios {
		if b1scenarios[i].name == *scen {
			sc = &b1scenarios[i]
		}
	}
	if sc == nil {
		fmt.Fprintln(os.Stderr, "unknown scenario")
		os.Exit(2)
	}
	netceptor.MaxIdleTimeoutForQuicConnections = 4 * time.Second
	m, err := buildMesh(*seed, []string{"a", "b"}, []string{"a-b"}, mesh.Opts{RouteUpdate: 300 * time.Millisecond})
	if err != nil {
		res.inconclusive("%s: %v", sc.name, err)
		res.write(*out)

		return
	}
	e := &b1env{res: res, rng: rand.New(rand.NewSource(*seed*1000003 + int64(len(sc.name)))), m: m, a: m.Nodes["a"], b: m.Nodes["b"], name: sc.name}
	e.base = map[string]int{"a": regSize(e.a), "b": regSize(e.b)}
	e.prof = profile()
	// a watchdog: a scenario that wedges is inconclusive, never a verdict
	doneCh := make(chan struct{})
	go func() {
		select {
		case <-doneCh:
		case <-time.After(240 * time.Second):
			res.inconclusive("%s: scenario did not finish within 240 s", sc.name)
			res.Extra["stacks"] = diffString(profileDiff(e.prof, profile()))
			res.write(*out)
			os.Exit(0)
		}
	}()
	sc.run(e)
	// give a crash in a background goroutine the time to surface before we report success
	time.Sleep(300 * time.Millisecond)
	if !e.fatal {
		e.checkReleased()
	}
	close(doneCh)
	res.write(*out)
}

func (e *b1env) viol(kind, what string, replay any) {
	e.res.violate("C17:"+e.name+":"+kind, what, replay)
}

// checkReleased: after the scenario every registry is back to its baseline and no goroutine of receptor/quic-go
// beyond the baseline remains (both polled with a generous ceiling; QUIC idle timeout is 4 s in this process).
func (e *b1env) checkReleased() {
	ok := waitUntil(25*time.Second, 50*time.Millisecond, func() bool {
		return regSize(e.a) == e.base["a"] && regSize(e.b) == e.base["b"]
	})
	if !ok {
		e.viol("registry-not-released", fmt.Sprintf("service names still registered 25 s after every object was closed: a=%v b=%v", regKeys(e.a), regKeys(e.b)),
			map[string]any{"scenario": e.name})
	}
	var d map[string]int
	ok = waitUntil(25*time.Second, 100*time.Millisecond, func() bool {
		d = profileDiff(e.prof, profile())

		return len(d) == 0
	})
	if !ok {
		e.viol("goroutines-not-released:"+topSig(d), "goroutines left behind after every object was closed: "+diffString(d), map[string]any{"scenario": e.name})
	}
}

func topSig(d map[string]int) string {
	ks := []string{}
	for k := range d {
		ks = append(ks, k)
	}
	sort.Slice(ks, func(i, j int) bool {
		if d[ks[i]] != d[ks[j]] {
			return d[ks[i]] > d[ks[j]]
		}

		return ks[i] < ks[j]
	})
	if len(ks) == 0 {
		return ""
	}

	return strings.ReplaceAll(ks[0], " ", "")
}

// closeListener calls Listener.Close and classifies a call that never returns: a deadlock is definite when
// one goroutine sits in quic-go's Transport.closeServer (called from our Close) while the transport's
// listen goroutine sits in baseServer.close - each waits for what the other holds.
func (e *b1env) closeListener(li *netceptor.Listener) bool {
	if within(30*time.Second, func() { _ = li.Close() }) {
		return true
	}
	if countInFunc("(*Transport).closeServer", "sync.Mutex.Lock") > 0 || countInFunc("(*Transport).closeServer", "semacquire") > 0 {
		e.viol("listener-close-deadlock", "Listener.Close never returns: it closes the PacketConn first, the QUIC transport's reader then closes the server "+
			"holding the transport mutex while Listener.Close, inside the server's close-once, waits for that mutex", nil)
	} else {
		e.res.inconclusive("%s: Listener.Close did not return within 30 s", e.name)
	}

	return false
}

// closeSock closes a socket that may have deliveries in their hand-over; a Close that never returns is judged.
func (e *b1env) closeSock(pc netceptor.PacketConner, tag string) bool {
	ok, dead := closeBounded(pc.Close, 30*time.Second)
	if ok {
		return true
	}
	e.fatal = true
	if dead {
		e.viol("close-blocked-by-delivery", "PacketConn.Close never returns ("+tag+"): it waits for the registry write lock while a deliverer that still holds the "+
			"read lock waits in the hand-over select for Close's cancel; every later open/dial/ping on the node hangs too", nil)
	} else {
		e.res.inconclusive("%s: PacketConn.Close did not return within 30 s (%s)", e.name, tag)
	}

	return false
}

func addrOf(n *mesh.Node, svc string) net.Addr { return n.N.NewAddr(n.ID, svc) }

// within runs f and reports whether it returned before the ceiling.
func within(d time.Duration, f func()) bool {
	ch := make(chan struct{})
	go func() { f(); close(ch) }()
	select {
	case <-ch:
		return true
	case <-time.After(d):
		return false
	}
}

// readErrAfterClose: ReadFrom on a closed socket must return an error (promptly), never data.
func (e *b1env) readErrAfterClose(pc netceptor.PacketConner, tag string) {
	var err error
	var n int
	if !within(10*time.Second, func() { n, _, err = pc.ReadFrom(make([]byte, 100)) }) {
		e.viol("readfrom-hangs-after-close", "ReadFrom did not return within 10 s after Close ("+tag+")", nil)

		return
	}
	if err == nil {
		e.viol("readfrom-data-after-close", fmt.Sprintf("ReadFrom returned %d bytes and no error after Close (%s)", n, tag), nil)
	}
}

func (e *b1env) linkAlive(tag string) {
	ok := waitUntil(20*time.Second, 100*time.Millisecond, func() bool {
		ctx, cancel := context.WithTimeout(context.Background(), 3*time.Second)
		defer cancel()
		_, _, err := e.b.N.Ping(ctx, "a", 10)

		return err == nil
	})
	if !ok {
		e.res.inconclusive("%s: b cannot ping a after %s", e.name, tag)
	}
}

func scTwoDeliverers(e *b1env) {
	for _, variant := range []string{"local+local", "local+remote", "stream-listener"} {
		var victim netceptor.PacketConner
		var li *netceptor.Listener
		var err error
		if variant == "stream-listener" {
			// an unread stream listener cannot be built (quic reads it); a listener whose PacketConn is
			// being closed while datagrams arrive is covered by listener_close_race
			continue
		}
		victim, err = e.a.N.ListenPacket("victim")
		if err != nil {
			e.res.inconclusive("listen: %v", err)

			return
		}
		s1, _ := e.a.N.ListenPacket("")
		var s2 netceptor.PacketConner
		if variant == "local+local" {
			s2, _ = e.a.N.ListenPacket("")
		} else {
			s2, _ = e.b.N.ListenPacket("")
		}
		var wg sync.WaitGroup
		for _, s := range []netceptor.PacketConner{s1, s2} {
			wg.Add(1)
			go func(s netceptor.PacketConner) {
				defer wg.Done()
				_, _ = s.WriteTo([]byte("x"), addrOf(e.a, "victim"))
			}(s)
		}
		if !waitUntil(30*time.Second, 5*time.Millisecond, func() bool { return countInFunc("handleMessageData", "select") >= 2 }) {
			e.res.inconclusive("%s/%s: two deliverers did not park on the unread socket", e.name, variant)

			return
		}
		e.res.count("deliverers_parked")
		if !e.closeSock(victim, variant) {
			return
		}
		if !within(10*time.Second, wg.Wait) {
			e.viol("sender-stuck-after-close", "a sender blocked in delivery did not return within 10 s after Close ("+variant+")", nil)
		}
		e.readErrAfterClose(victim, variant)
		_ = s1.Close()
		_ = s2.Close()
		_ = li
		time.Sleep(200 * time.Millisecond)
		e.linkAlive(variant)
		e.res.Evaluations++
	}
}

// parkAtGate arms the gate, runs start() and waits for a goroutine to arrive at it.
func parkAtGate(name string, start func()) (release func(), ok bool) {
	hit, rel := verifhook.HoldGate(name)
	start()
	select {
	case <-hit:
		return rel, true
	case <-time.After(20 * time.Second):
		rel()

		return func() {}, false
	}
}

func scTwoDeliverersGate(e *b1env) {
	for it := 0; it < 4; it++ {
		victim, err := e.a.N.ListenPacket("victim")
		if err != nil {
			e.res.inconclusive("listen: %v", err)

			return
		}
		s1, _ := e.a.N.ListenPacket("")
		s2, _ := e.a.N.ListenPacket("")
		var wg sync.WaitGroup
		send := func(s netceptor.PacketConner) func() {
			return func() {
				wg.Add(1)
				go func() { defer wg.Done(); _, _ = s.WriteTo([]byte("x"), addrOf(e.a, "victim")) }()
			}
		}
		r1, ok1 := parkAtGate("deliver_after_lookup", send(s1))
		r2, ok2 := parkAtGate("deliver_after_lookup", send(s2))
		if !ok1 || !ok2 {
			r1()
			r2()
			e.res.inconclusive("%s: gate deliver_after_lookup not reached", e.name)

			return
		}
		// Close is called while both deliverers sit between lookup and select (it must not need them to move on,
		// but the schedule releases them right afterwards in any case)
		closed := make(chan bool, 1)
		go func() { closed <- e.closeSock(victim, "two deliverers after lookup") }()
		time.Sleep(20 * time.Millisecond)
		r1()
		r2()
		if !<-closed {
			return
		}
		if !within(10*time.Second, wg.Wait) {
			e.viol("sender-stuck-after-close", "a deliverer that had looked the socket up before Close did not return within 10 s", nil)
		}
		e.readErrAfterClose(victim, "gate")
		_ = s1.Close()
		_ = s2.Close()
		e.res.Evaluations++
	}
}

func scLateDeliverer(e *b1env) {
	for it := 0; it < 12; it++ {
		victim, err := e.a.N.ListenPacket("victim")
		if err != nil {
			e.res.inconclusive("listen: %v", err)

			return
		}
		s1, _ := e.a.N.ListenPacket("")
		s2, _ := e.a.N.ListenPacket("")
		var wg sync.WaitGroup
		wg.Add(1)
		go func() { defer wg.Done(); _, _ = s1.WriteTo([]byte("x"), addrOf(e.a, "victim")) }()
		if !waitUntil(30*time.Second, 2*time.Millisecond, func() bool { return countInFunc("handleMessageData", "select") >= 1 }) {
			e.res.inconclusive("%s: deliverer did not park", e.name)

			return
		}
		rel, ok := parkAtGate("deliver_after_lookup", func() {
			wg.Add(1)
			go func() { defer wg.Done(); _, _ = s2.WriteTo([]byte("y"), addrOf(e.a, "victim")) }()
		})
		if !ok {
			e.res.inconclusive("%s: gate deliver_after_lookup not reached", e.name)

			return
		}
		closed := make(chan bool, 1)
		go func() { closed <- e.closeSock(victim, "one deliverer blocked, one after lookup") }()
		// the blocked deliverer wakes (as-is: it closes recvChan); then the late one runs its select
		waitUntil(2*time.Second, time.Millisecond, func() bool { return countInFunc("handleMessageData", "select") == 0 })
		rel()
		if !<-closed {
			return
		}
		if !within(10*time.Second, wg.Wait) {
			e.viol("sender-stuck-after-close", "a late deliverer did not return within 10 s after Close", nil)
		}
		e.readErrAfterClose(victim, "late")
		_ = s1.Close()
		_ = s2.Close()
		e.res.Evaluations++
	}
}

func scCloseTwice(e *b1env) {
	// plain socket
	p, _ := e.a.N.ListenPacket("plain")
	_ = p.Close()
	_ = p.Close()
	e.readErrAfterClose(p, "plain")
	// advertised socket
	ad, _ := e.a.N.ListenPacketAndAdvertise("adv", map[string]string{"k": "v"})
	_ = ad.Close()
	_ = ad.Close()
	e.readErrAfterClose(ad, "advertised")
	// reopening the same names must work (the registry entry is gone)
	for _, svc := range []string{"plain", "adv"} {
		q, err := e.a.N.ListenPacket(svc)
		if err != nil {
			e.viol("name-not-released", "service name "+svc+" cannot be bound again after Close: "+err.Error(), nil)

			continue
		}
		_ = q.Close()
	}
	// stream listeners
	for _, adv := range []bool{false, true} {
		var li *netceptor.Listener
		var err error
		if adv {
			li, err = e.a.N.ListenAndAdvertise("li", nil, map[string]string{"k": "v"})
		} else {
			li, err = e.a.N.Listen("li", nil)
		}
		if err != nil {
			e.res.inconclusive("listen: %v", err)

			return
		}
		if !e.closeListener(li) {
			return
		}
		_ = li.Close()
		if !within(5*time.Second, func() { _, _ = li.Accept() }) {
			e.viol("accept-hangs-after-close", "Accept did not return after Listener.Close", nil)
		}
	}
	// streams: every pair of close calls on one end
	li, err := e.a.N.ListenAndAdvertise("echo", nil, nil)
	if err != nil {
		e.res.inconclusive("listen: %v", err)

		return
	}
	kinds := [][2]string{{"close", "close"}, {"conn", "conn"}, {"close", "conn"}, {"conn", "close"}}
	for _, k := range kinds {
		for _, side := range []string{"dial", "accept"} {
			d, s, ok := e.dialAccept(li, "echo")
			if !ok {
				return
			}
			target, other := d, s
			if side == "accept" {
				target, other = s, d
			}
			for _, c := range k {
				if c == "close" {
					_ = target.Close()
				} else {
					_ = target.CloseConnection()
				}
			}
			_ = other.CloseConnection()
			_ = target.CloseConnection()
			e.res.Evaluations++
		}
	}
	e.closeListener(li)
}

// dialAccept makes one stream b -> a:<svc> and returns both ends.
func (e *b1env) dialAccept(li *netceptor.Listener, svc string) (d, s *netceptor.Conn, ok bool) {
	type ar struct {
		c   net.Conn
		err error
	}
	ach := make(chan ar, 1)
	go func() { c, err := li.Accept(); ach <- ar{c, err} }()
	ctx, cancel := context.WithTimeout(context.Background(), 40*time.Second)
	defer cancel()
	d, err := e.b.N.DialContext(ctx, "a", svc, nil)
	if err != nil {
		e.res.inconclusive("%s: dial failed: %v", e.name, err)

		return nil, nil, false
	}
	select {
	case r := <-ach:
		if r.err != nil {
			e.res.inconclusive("%s: accept failed: %v", e.name, r.err)

			return nil, nil, false
		}

		return d, r.c.(*netceptor.Conn), true
	case <-time.After(40 * time.Second):
		e.res.inconclusive("%s: accept did not return", e.name)

		return nil, nil, false
	}
}

func scCloseRaceRead(e *b1env) {
	for it := 0; it < 60; it++ {
		p, err := e.a.N.ListenPacket("rr")
		if err != nil {
			e.viol("name-not-released", "service name rr cannot be bound again after Close: "+err.Error(), nil)

			return
		}
		deadline := it%3 == 1
		if deadline {
			_ = p.SetReadDeadline(time.Now().Add(300 * time.Millisecond))
		}
		var wg sync.WaitGroup
		errs := make([]error, 2)
		for r := 0; r < 2; r++ {
			wg.Add(1)
			go func(r int) {
				defer wg.Done()
				_, _, errs[r] = p.ReadFrom(make([]byte, 10))
			}(r)
		}
		time.Sleep(time.Duration(e.rng.Intn(2000)) * time.Microsecond)
		if it%3 == 2 {
			go func() { _ = p.Close() }()
		}
		_ = p.Close()
		if !within(10*time.Second, wg.Wait) {
			e.viol("readfrom-hangs-after-close", fmt.Sprintf("a ReadFrom pending at Close did not return within 10 s (deadline=%v)", deadline), nil)

			return
		}
		for _, er := range errs {
			if er == nil {
				e.viol("readfrom-data-after-close", "a ReadFrom pending at Close returned without error although nothing was sent", nil)
			}
		}
		e.res.Evaluations++
	}
}

func scCloseRaceDelivery(e *b1env) {
	for it := 0; it < 40; it++ {
		p, err := e.a.N.ListenPacket("rd")
		if err != nil {
			e.viol("name-not-released", "service name rd cannot be bound again after Close: "+err.Error(), nil)

			return
		}
		stop := make(chan struct{})
		var wg sync.WaitGroup
		srcs := []netceptor.PacketConner{}
		for i, nd := range []*mesh.Node{e.a, e.a, e.b} {
			s, _ := nd.N.ListenPacket("")
			srcs = append(srcs, s)
			wg.Add(1)
			go func(i int, s netceptor.PacketConner) {
				defer wg.Done()
				for {
					select {
					case <-stop:
						return
					default:
					}
					_, _ = s.WriteTo([]byte{byte(i)}, addrOf(e.a, "rd"))
					if i == 2 {
						time.Sleep(200 * time.Microsecond)
					}
				}
			}(i, s)
		}
		readers := it % 2 // 0: unread socket, 1: one reader
		for r := 0; r < readers; r++ {
			wg.Add(1)
			go func() {
				defer wg.Done()
				for {
					if _, _, err := p.ReadFrom(make([]byte, 10)); err != nil {
						return
					}
				}
			}()
		}
		time.Sleep(time.Duration(500+e.rng.Intn(4000)) * time.Microsecond)
		if !e.closeSock(p, "senders racing Close") {
			close(stop)

			return
		}
		time.Sleep(time.Duration(e.rng.Intn(2000)) * time.Microsecond)
		close(stop)
		if !within(15*time.Second, wg.Wait) {
			e.viol("sender-stuck-after-close", "senders/readers racing Close did not all return within 15 s", nil)

			return
		}
		for _, s := range srcs {
			_ = s.Close()
		}
		e.res.Evaluations++
	}
	e.linkAlive("close racing delivery")
}

func scListenerCloseRace(e *b1env) {
	for it := 0; it < 10; it++ {
		li, err := e.a.N.ListenAndAdvertise("lsvc", nil, nil)
		if err != nil {
			e.viol("name-not-released", "service name lsvc cannot be bound again after Listener.Close: "+err.Error(), nil)

			return
		}
		var wg sync.WaitGroup
		var acc net.Conn
		wg.Add(1)
		go func() { defer wg.Done(); acc, _ = li.Accept() }()
		var dc *netceptor.Conn
		wg.Add(1)
		go func() {
			defer wg.Done()
			ctx, cancel := context.WithTimeout(context.Background(), 40*time.Second)
			defer cancel()
			dc, _ = e.b.N.DialContext(ctx, "a", "lsvc", nil)
		}()
		time.Sleep(time.Duration(e.rng.Intn(12000)) * time.Microsecond)
		if !e.closeListener(li) {
			return
		}
		if it%2 == 1 {
			_ = li.Close()
		}
		if !within(60*time.Second, wg.Wait) {
			e.viol("stuck-after-listener-close", "Accept or an in-flight dial did not return within 60 s after Listener.Close", nil)

			return
		}
		if acc != nil {
			e.res.count("accepted_before_close")
			_ = acc.(*netceptor.Conn).CloseConnection()
		}
		if dc != nil {
			e.res.count("dialled_before_close")
			_ = dc.CloseConnection()
		}
		e.res.Evaluations++
	}
}

func scCancelMidDial(e *b1env) {
	li, err := e.a.N.ListenAndAdvertise("csvc", nil, nil)
	if err != nil {
		e.res.inconclusive("listen: %v", err)

		return
	}
	stopAcc := make(chan struct{})
	go func() {
		for {
			c, err := li.Accept()
			if err != nil {
				select {
				case <-stopAcc:
					return
				default:
					continue
				}
			}
			go func() {
				buf := make([]byte, 16)
				for {
					if _, err := c.Read(buf); err != nil {
						break
					}
				}
				_ = c.(*netceptor.Conn).CloseConnection()
			}()
		}
	}()
	for it := 0; it < 24; it++ {
		ctx, cancel := context.WithCancel(context.Background())
		delay := time.Duration(e.rng.Intn(9000)) * time.Microsecond
		if it%6 == 0 {
			delay = 0
		}
		go func() { time.Sleep(delay); cancel() }()
		var c *netceptor.Conn
		var derr error
		if !within(60*time.Second, func() { c, derr = e.b.N.DialContext(ctx, "a", "csvc", nil) }) {
			e.viol("dial-stuck-after-cancel", "DialContext did not return within 60 s after its context was cancelled", nil)

			return
		}
		if derr == nil {
			e.res.count("dial_completed_before_cancel")
			_ = c.Close()
			_ = c.CloseConnection()
		} else {
			e.res.count("dial_cancelled")
		}
		cancel()
		e.res.Evaluations++
	}
	close(stopAcc)
	e.closeListener(li)
}

func scDialDead(e *b1env) {
	for it := 0; it < 4; it++ {
		var derr error
		var c *netceptor.Conn
		ctx, cancel := context.WithTimeout(context.Background(), 40*time.Second)
		if !within(60*time.Second, func() { c, derr = e.b.N.DialContext(ctx, "a", "nosuch", nil) }) {
			e.viol("dial-dead-stuck", "dial to a service nobody listens on did not return within 60 s", nil)
		} else if derr == nil {
			e.viol("dial-dead-succeeded", "dial to a service nobody listens on succeeded", nil)
			_ = c.CloseConnection()
		}
		cancel()
		ctx, cancel = context.WithTimeout(context.Background(), 10*time.Second)
		if c, derr = e.b.N.DialContext(ctx, "nowhere", "x", nil); derr == nil {
			e.viol("dial-dead-succeeded", "dial to an unknown node succeeded", nil)
			_ = c.CloseConnection()
		}
		cancel()
		// pings: answered, unknown node, expired in transit, cancelled
		for _, p := range []struct {
			to   string
			hops byte
			want bool
		}{{"a", 10, true}, {"nowhere", 10, false}, {"a", 0, false}} {
			ctx, cancel = context.WithTimeout(context.Background(), 15*time.Second)
			_, _, perr := e.b.N.Ping(ctx, p.to, p.hops)
			cancel()
			if (perr == nil) != p.want {
				e.res.inconclusive("%s: ping %s hops=%d: unexpected result %v", e.name, p.to, p.hops, perr)
			}
		}
		ctx, cancel = context.WithCancel(context.Background())
		cancel()
		_, _, _ = e.b.N.Ping(ctx, "a", 10)
		for range e.b.N.Traceroute(context.Background(), "a") {
		}
		e.res.Evaluations++
	}
}

func scStreamCloseKinds(e *b1env) {
	li, err := e.a.N.ListenAndAdvertise("sck", nil, nil)
	if err != nil {
		e.res.inconclusive("listen: %v", err)

		return
	}
	// (dial-side calls, accept-side calls); "c" = Close, "C" = CloseConnection
	plans := [][2]string{{"cC", ""}, {"C", ""}, {"c", "C"}, {"c", "cC"}, {"", "C"}, {"cC", "c"}, {"C", "C"}}
	for _, pl := range plans {
		d, s, ok := e.dialAccept(li, "sck")
		if !ok {
			return
		}
		apply := func(c *netceptor.Conn, ops string) {
			for _, o := range ops {
				if o == 'c' {
					_ = c.Close()
				} else {
					_ = c.CloseConnection()
				}
			}
		}
		apply(d, pl[0])
		apply(s, pl[1])
		// the application on the accepting side always ends by closing its Conn (both ends done)
		if !strings.Contains(pl[1], "c") && !strings.Contains(pl[1], "C") {
			time.Sleep(50 * time.Millisecond)
			_ = s.Close()
		}
		if !strings.Contains(pl[0], "c") && !strings.Contains(pl[0], "C") {
			time.Sleep(50 * time.Millisecond)
			_ = d.Close()
		}
		ok = waitUntil(20*time.Second, 20*time.Millisecond, func() bool { return regSize(e.b) == e.base["b"] })
		if !ok {
			e.viol("dial-socket-not-released:"+pl[0]+"/"+pl[1],
				fmt.Sprintf("the dialling node still has its ephemeral service registered 20 s after the stream was closed (dial side %q, accept side %q; c=Close C=CloseConnection): %v", pl[0], pl[1], regKeys(e.b)),
				map[string]any{"dial": pl[0], "accept": pl[1]})
			// do not let one leak hide the next plan: move the baseline
			e.base["b"] = regSize(e.b)
		}
		e.res.Evaluations++
	}
	e.closeListener(li)
}

// scPingNoticeRace: b pings a with 0 hops to live (the packet expires at b itself and b publishes the notice
// to the ping's own socket) while the caller cancels at a seeded moment around the notice's arrival.
func scPingNoticeRace(e *b1env) {
	for it := 0; it < 400; it++ {
		ctx, cancel := context.WithCancel(context.Background())
		d := time.Duration(e.rng.Intn(300)) * time.Microsecond
		go func() { time.Sleep(d); cancel() }()
		_, _, err := e.b.N.Ping(ctx, "a", 0)
		cancel()
		if err != nil && strings.Contains(err.Error(), "cancelled") {
			e.res.count("ping_cancelled")
		} else {
			e.res.count("ping_other")
		}
		e.res.Evaluations++
	}
}

// scOpenRaceShutdown: a third node is shut down while sockets are being opened on it and unreachable notices are
// being published (the broker goroutine is between two selects when the context is cancelled).
func scOpenRaceShutdown(e *b1env) {
	for it := 0; it < 150; it++ {
		id := fmt.Sprintf("x%d", it)
		nd := e.m.Start(id)
		stop := make(chan struct{})
		var wg sync.WaitGroup
		src, err := nd.N.ListenPacket("src")
		if err != nil {
			e.res.inconclusive("listen: %v", err)

			return
		}
		for k := 0; k < 2; k++ {
			wg.Add(1)
			go func() {
				defer wg.Done()
				msg := []byte(`{"FromNode":"` + id + `","ToNode":"zz","FromService":"src","ToService":"q","Problem":"test"}`)
				for {
					select {
					case <-stop:
						return
					default:
					}
					_, _ = src.WriteTo(msg, nd.N.NewAddr(id, "unreach"))
				}
			}()
		}
		wg.Add(1)
		go func() {
			defer wg.Done()
			for j := 0; ; j++ {
				select {
				case <-stop:
					return
				default:
				}
				if pc, err := nd.N.ListenPacket(""); err == nil {
					if j%2 == 0 {
						_ = pc.Close()
					}
				}
			}
		}()
		time.Sleep(time.Duration(200+e.rng.Intn(1500)) * time.Microsecond)
		e.m.Stop(id)
		time.Sleep(time.Duration(500+e.rng.Intn(1500)) * time.Microsecond)
		close(stop)
		if !within(20*time.Second, wg.Wait) {
			e.viol("stuck-after-shutdown", "socket operations on a node being shut down did not return within 20 s", nil)

			return
		}
		e.res.Evaluations++
	}
	// the stopped nodes' sockets were never closed by their owner: only goroutines matter here
	e.base["a"], e.base["b"] = regSize(e.a), regSize(e.b)
}

// scDialDeadRemote: the dial is ended by monitorUnreachable's cancel ('service unknown' from the remote node), not by
// the caller: Dial() uses context.Background(), and a DialContext caller keeps its context alive long afterwards.
func scDialDeadRemote(e *b1env) {
	keep, keepCancel := context.WithCancel(context.Background())
	defer keepCancel()
	for it := 0; it < 8; it++ {
		var derr error
		var c *netceptor.Conn
		ok := within(60*time.Second, func() {
			if it%2 == 0 {
				c, derr = e.b.N.Dial("a", "nosuch", nil)
			} else {
				c, derr = e.b.N.DialContext(keep, "a", "nosuch", nil)
			}
		})
		if !ok {
			e.res.inconclusive("%s: dial to an unbound remote service did not return within 60 s", e.name)

			return
		}
		if derr == nil {
			e.viol("dial-dead-succeeded", "dial to a service nobody listens on succeeded", nil)
			_ = c.CloseConnection()
		}
		e.res.Evaluations++
	}
	// the release accounting runs while the callers' contexts are still alive
	time.Sleep(300 * time.Millisecond)
	e.checkReleased()
	e.fatal = true // already accounted
}
