// Command vlc is the conformance harness for C17 (lifecycle of sockets, listeners, streams) and
// C03 (mesh streams are reliable ordered byte pipes). Sub-commands:
//
//	c17       parent: runs the B1 schedules and the B2 histories in child processes (exit status = oracle)
//	c17child  one B1 schedule on real objects
//	c17hist   one seeded B2 history on a 3-node mesh with registry / goroutine accounting
//	c03       seeded bulk transfers over lossy/re-routing meshes, the connect bridge and the TCP proxies
package main

import (
	"encoding/json"
	"fmt"
	"os"

	"github.com/ansible/receptor/pkg/logger"
)

// Violation is one observed departure of the real code from the specification.
type Violation struct {
	Sig    string `json:"sig"`
	What   string `json:"what"`
	Replay any    `json:"replay"`
}

// Result is what every sub-command writes.
type Result struct {
	Evaluations  int            `json:"evaluations"`
	Distinct     int            `json:"distinct"`
	Violations   []Violation    `json:"violations"`
	Inconclusive []string       `json:"inconclusive"`
	Samples      []any          `json:"samples"`
	Counters     map[string]int `json:"counters"`
	Notes        []string       `json:"notes"`
	TraceFiles   []string       `json:"trace_files"`
	Extra        map[string]any `json:"extra,omitempty"`
}

func (r *Result) count(k string) { r.add(k, 1) }

func (r *Result) add(k string, n int) {
	if r.Counters == nil {
		r.Counters = map[string]int{}
	}
	r.Counters[k] += n
}

func (r *Result) violate(sig, what string, replay any) {
	for _, v := range r.Violations {
		if v.Sig == sig {
			r.count("violations")

			return
		}
	}
	if len(r.Violations) < 200 {
		r.Violations = append(r.Violations, Violation{sig, what, replay})
	}
	r.count("violations")
}

func (r *Result) inconclusive(f string, a ...any) {
	if len(r.Inconclusive) < 50 {
		r.Inconclusive = append(r.Inconclusive, fmt.Sprintf(f, a...))
	}
}

func (r *Result) write(path string) {
	if r.Violations == nil {
		r.Violations = []Violation{}
	}
	if r.Inconclusive == nil {
		r.Inconclusive = []string{}
	}
	b, _ := json.MarshalIndent(r, "", " ")
	tmp := path + ".tmp"
	if err := os.WriteFile(tmp, b, 0o644); err != nil {
		fmt.Fprintln(os.Stderr, "cannot write result:", err)
		os.Exit(3)
	}
	_ = os.Rename(tmp, path)
}

func readResult(path string) (*Result, error) {
	b, err := os.ReadFile(path)
	if err != nil {
		return nil, err
	}
	r := &Result{}
	if err := json.Unmarshal(b, r); err != nil {
		return nil, err
	}

	return r, nil
}

var commands = map[string]func(args []string){}

func main() {
	if os.Getenv("VERIF_DEBUG") == "" {
		logger.SetGlobalQuietMode()
	} else {
		logger.SetGlobalLogLevel(logger.DebugLevel)
	}
	if len(os.Args) < 2 || commands[os.Args[1]] == nil {
		fmt.Fprintln(os.Stderr, "usage: vlc <command> [flags]; commands:")
		for k := range commands {
			fmt.Fprintln(os.Stderr, "  ", k)
		}
		os.Exit(2)
	}
	commands[os.Args[1]](os.Args[2:])
}
