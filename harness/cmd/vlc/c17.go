package main

import (
	"flag"
	"fmt"
	"os"
	"os/exec"
	"path/filepath"
	"regexp"
	"strings"
	"sync"
	"time"
)

// vlc c17: runs every B1 schedule and the B2 histories as child processes. A child that dies (Go panic in any
// goroutine, fatal error) is a violation whose signature names the panic; a child that neither reports nor
// dies in time is inconclusive.

func init() { commands["c17"] = cmdC17 }

type childRun struct {
	name string
	args []string
	res  *Result
	exit int
	err  string
	wall time.Duration
}

var rePanic = regexp.MustCompile(`(?m)^(panic: .*|fatal error: .*)$`)

func runChild(dir, name string, args []string, timeout time.Duration) *childRun {
	cr := &childRun{name: name, args: args}
	out := filepath.Join(dir, name+".json")
	_ = os.Remove(out)
	errPath := filepath.Join(dir, name+".stderr")
	ef, _ := os.Create(errPath)
	cmd := exec.Command(os.Args[0], append(args, "-out", out)...)
	cmd.Stderr = ef
	cmd.Stdout = ef
	cmd.Env = os.Environ()
	t0 := time.Now()
	if err := cmd.Start(); err != nil {
		cr.exit = -1
		cr.err = err.Error()

		return cr
	}
	done := make(chan error, 1)
	go func() { done <- cmd.Wait() }()
	select {
	case err := <-done:
		if err != nil {
			cr.exit = cmd.ProcessState.ExitCode()
			if cr.exit == 0 {
				cr.exit = -1
			}
		}
	case <-time.After(timeout):
		_ = cmd.Process.Kill()
		<-done
		cr.exit = -2
	}
	cr.wall = time.Since(t0)
	ef.Close()
	if b, err := os.ReadFile(errPath); err == nil {
		if m := rePanic.FindString(string(b)); m != "" {
			cr.err = m
			// first receptor frame after the panic line
			rest := string(b)[strings.Index(string(b), m):]
			for _, l := range strings.Split(rest, "\n") {
				if strings.Contains(l, "ansible/receptor/pkg/") && !strings.HasPrefix(l, "\t") {
					cr.err += " at " + shortFn(reHexArgs.ReplaceAllString(l, ""))

					break
				}
			}
		}
	}
	cr.res, _ = readResult(out)

	return cr
}

func cmdC17(args []string) {
	fs := flag.NewFlagSet("c17", flag.ExitOnError)
	out := fs.String("out", "result.json", "result file")
	seed := fs.Int64("seed", 1, "seed")
	ops := fs.Int("ops", 200, "history length")
	dir := fs.String("dir", ".", "scratch directory")
	only := fs.String("only", "", "run only this B1 scenario / 'hist' / 'halfonly'")
	_ = fs.Parse(args)
	res := &Result{Counters: map[string]int{}, Extra: map[string]any{}}
	defer res.write(*out)
	var mu sync.Mutex
	var wg sync.WaitGroup
	sem := make(chan struct{}, 4)
	runs := []*childRun{}
	launch := func(name string, a []string, timeout time.Duration) {
		if *only != "" && *only != name {
			return
		}
		wg.Add(1)
		go func() {
			defer wg.Done()
			sem <- struct{}{}
			defer func() { <-sem }()
			cr := runChild(*dir, name, a, timeout)
			mu.Lock()
			runs = append(runs, cr)
			mu.Unlock()
		}()
	}
	histTimeout := time.Duration(900+3**ops) * time.Second
	launch("hist", []string{"c17hist", "-seed", fmt.Sprint(*seed), "-ops", fmt.Sprint(*ops), "-trace", filepath.Join(*dir, "objects.ndjson")}, histTimeout)
	launch("halfonly", []string{"c17hist", "-halfonly", "-seed", fmt.Sprint(*seed)}, 300*time.Second)
	for _, sc := range b1scenarios {
		launch(sc.name, []string{"c17child", "-scenario", sc.name, "-seed", fmt.Sprint(*seed)}, 300*time.Second)
	}
	wg.Wait()
	schedules := map[string]any{}
	for _, cr := range runs {
		kind := "schedule"
		if cr.name == "hist" || cr.name == "halfonly" {
			kind = "history"
		}
		switch {
		case cr.err != "":
			msg := strings.TrimPrefix(strings.TrimPrefix(cr.err, "panic: "), "fatal error: ")
			sig := "C17:crash:" + cr.name + ":" + strings.ReplaceAll(strings.SplitN(msg, " at ", 2)[0], " ", "-")
			res.violate(sig, fmt.Sprintf("the process died during %s %q: %s", kind, cr.name, cr.err), map[string]any{"child": cr.args})
		case cr.exit == -2:
			res.inconclusive("%s %s: child killed after its time limit", kind, cr.name)
		case cr.res == nil:
			res.inconclusive("%s %s: child exited with status %d without a report", kind, cr.name, cr.exit)
		default:
			for _, v := range cr.res.Violations {
				res.violate(v.Sig, v.What, map[string]any{"child": cr.args, "detail": v.Replay})
			}
			for _, s := range cr.res.Inconclusive {
				res.inconclusive("%s", s)
			}
			res.Evaluations += cr.res.Evaluations
			for k, v := range cr.res.Counters {
				res.Counters[cr.name+"/"+k] += v
			}
			if cr.name == "hist" {
				res.Samples = append(res.Samples, cr.res.Samples...)
				res.Distinct += cr.res.Distinct
				res.Extra["hist"] = cr.res.Extra
				res.TraceFiles = cr.res.TraceFiles
				res.Notes = append(res.Notes, cr.res.Notes...)
			} else if kind == "schedule" {
				res.Distinct++
			}
		}
		schedules[cr.name] = map[string]any{"wall_s": cr.wall.Seconds(), "exit": cr.exit, "died": cr.err}
	}
	res.Extra["children"] = schedules
}
