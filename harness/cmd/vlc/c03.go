package main

import (
	"bufio"
	"bytes"
	"context"
	"encoding/json"
	"flag"
	"fmt"
	"io"
	"math/rand"
	"net"
	"os"
	"path/filepath"
	"strings"
	"sync"
	"sync/atomic"
	"time"

	"github.com/ansible/receptor/pkg/controlsvc"
	"github.com/ansible/receptor/pkg/netceptor"
	"github.com/ansible/receptor/pkg/services"
	"github.com/ansible/receptor/pkg/verifhook"
	"verif/harness/freeport"
	"verif/harness/memnet"
	"verif/harness/mesh"
)

// C03: seeded bulk transfers in both directions over real meshes whose links lose, duplicate, delay and
// re-order data frames and whose active path is cut while an alternative exists; the same transfers through
// the control service's connect bridge and through a TCP proxy pair. Every Write/Read/Close/EOF of both
// applications is logged (dir, off, len, patternOK) and validated by TLC against StreamTrace.tla.

func init() { commands["c03"] = cmdC03 }

// ---------------------------------------------------------------- pattern and log

func patByte(dir int, off int64) byte {
	x := uint64(off)*2654435761 + uint64(dir+1)*40503
	x ^= x >> 13
	x *= 0x9E3779B97F4A7C15
	x ^= x >> 29

	return byte(x)
}

func fillPattern(b []byte, dir int, off int64) {
	for i := range b {
		b[i] = patByte(dir, off+int64(i))
	}
}

func checkPattern(b []byte, dir int, off int64) bool {
	for i := range b {
		if b[i] != patByte(dir, off+int64(i)) {
			return false
		}
	}

	return true
}

type ioLine struct {
	Ev   string `json:"ev"` // reset, w, close, r, eof, rerr, werr, end
	Dir  string `json:"dir"`
	Off  int64  `json:"off"`
	Len  int64  `json:"len"`
	OK   bool   `json:"ok"`
	Name string `json:"name"`
	Note string `json:"note"`
}

type ioLog struct {
	mu    sync.Mutex
	lines []ioLine
}

func (l *ioLog) add(x ioLine) {
	l.mu.Lock()
	l.lines = append(l.lines, x)
	l.mu.Unlock()
}

// ---------------------------------------------------------------- endpoints

type endpoint struct {
	rw         io.ReadWriter
	closeWrite func() error
	closeAll   func()
}

func meshEnd(c *netceptor.Conn) endpoint {
	return endpoint{rw: c, closeWrite: c.Close, closeAll: func() { _ = c.CloseConnection() }}
}

type halfCloser interface{ CloseWrite() error }

func sockEnd(c net.Conn, r io.Reader) endpoint {
	return endpoint{rw: struct {
		io.Reader
		io.Writer
	}{r, c}, closeWrite: c.(halfCloser).CloseWrite, closeAll: func() { _ = c.Close() }}
}

// ---------------------------------------------------------------- one transfer

type xferSpec struct {
	Name      string  `json:"name"`
	TotalAB   int64   `json:"total_ab"`
	TotalBA   int64   `json:"total_ba"`
	Orderly   bool    `json:"orderly"`         // close only after everything expected was read (full-close endpoints in the path)
	ReplyAft  bool    `json:"reply_after_eof"` // B starts writing only after it has read A's EOF (half-close-then-reply)
	MaxChunk  int     `json:"max_chunk"`
	PaceAB    float64 `json:"pace_ab_s"` // >0: the A->B writer trickles its data over about this many seconds (long-lived stream)
	pre       []ioLine
	FullClose bool `json:"full_close"` // a TCP / Unix socket endpoint is in the path
}

type xferResult struct {
	sig, what string
	inconcl   string
	wall      time.Duration
	readAB    int64
	readBA    int64
}

func chunkSize(rng *rand.Rand, maxChunk int) int {
	switch rng.Intn(6) {
	case 0:
		return 1 + rng.Intn(16)
	case 1:
		return 1 + rng.Intn(1500)
	case 2:
		return 1 + rng.Intn(maxChunk)
	default:
		return 1 + rng.Intn(1+maxChunk/8)
	}
}

// runTransfer moves TotalAB patterned bytes from A to B and TotalBA from B to A at the same time.
func runTransfer(lg *ioLog, sp xferSpec, a, b endpoint, seed int64, ceiling time.Duration) xferResult {
	note := ""
	if sp.Orderly || sp.FullClose {
		note = "full" // a full-close endpoint (TCP / Unix socket) is part of the path
	}
	lg.add(ioLine{Ev: "reset", Name: sp.Name, Note: note})
	for _, l := range sp.pre {
		lg.add(l)
	}
	t0 := time.Now()
	var res xferResult
	var mu sync.Mutex
	fail := func(sig, what string) {
		mu.Lock()
		if res.sig == "" {
			res.sig, res.what = sig, what
		}
		mu.Unlock()
	}
	var wg sync.WaitGroup
	readDone := map[string]chan struct{}{"ab": make(chan struct{}), "ba": make(chan struct{})}
	eofSeen := map[string]*bool{"ab": new(bool), "ba": new(bool)}
	writer := func(dirName string, dir int, e endpoint, total int64, rng *rand.Rand, waitFor chan struct{}, closeAfter chan struct{}) {
		defer wg.Done()
		if waitFor != nil {
			<-waitFor
		}
		var off int64
		for off < total {
			n := int64(chunkSize(rng, sp.MaxChunk))
			if sp.PaceAB > 0 && dirName == "ab" && n > 2048 {
				n = 2048
			}
			if n > total-off {
				n = total - off
			}
			if sp.PaceAB > 0 && dirName == "ab" {
				time.Sleep(time.Duration(sp.PaceAB * float64(n) / float64(total) * float64(time.Second)))
			}
			buf := make([]byte, n)
			fillPattern(buf, dir, off)
			lg.add(ioLine{Ev: "w", Dir: dirName, Off: off, Len: n, OK: true})
			wn, err := e.rw.Write(buf)
			if err != nil || int64(wn) != n {
				lg.add(ioLine{Ev: "werr", Dir: dirName, Off: off, Len: int64(wn), Note: fmt.Sprint(err)})
				fail("write-error:"+dirName, fmt.Sprintf("Write at offset %d of direction %s returned n=%d err=%v", off, dirName, wn, err))

				return
			}
			off += n
			if rng.Intn(8) == 0 {
				time.Sleep(time.Duration(rng.Intn(3000)) * time.Microsecond)
			}
		}
		if closeAfter != nil {
			<-closeAfter
		}
		lg.add(ioLine{Ev: "close", Dir: dirName, Off: off})
		if err := e.closeWrite(); err != nil {
			lg.add(ioLine{Ev: "werr", Dir: dirName, Off: off, Note: "close: " + err.Error()})
		}
	}
	reader := func(dirName string, dir int, e endpoint, total int64, rng *rand.Rand, out *int64) {
		defer wg.Done()
		defer close(readDone[dirName])
		var off int64
		for {
			buf := make([]byte, chunkSize(rng, sp.MaxChunk))
			n, err := e.rw.Read(buf)
			if n > 0 {
				ok := checkPattern(buf[:n], dir, off)
				lg.add(ioLine{Ev: "r", Dir: dirName, Off: off, Len: int64(n), OK: ok})
				if !ok {
					fail("corrupt:"+dirName, fmt.Sprintf("bytes read at offset %d..%d of direction %s differ from what was written there", off, off+int64(n), dirName))
				}
				off += int64(n)
				*out = off
				if off > total {
					fail("extra:"+dirName, fmt.Sprintf("direction %s delivered %d bytes, only %d were written", dirName, off, total))
				}
			}
			if err == io.EOF {
				lg.add(ioLine{Ev: "eof", Dir: dirName, Off: off})
				*eofSeen[dirName] = true
				if off != total {
					fail("early-eof:"+dirName, fmt.Sprintf("direction %s: end of stream after %d of %d bytes", dirName, off, total))
				}

				return
			}
			if err != nil {
				lg.add(ioLine{Ev: "rerr", Dir: dirName, Off: off, Note: err.Error()})
				if sp.Orderly && off == total {
					// after a complete exchange a full-close endpoint may report the peer's close as a reset
					return
				}
				fail("read-error:"+dirName, fmt.Sprintf("Read at offset %d of %d of direction %s failed: %v", off, total, dirName, err))

				return
			}
		}
	}
	allRead := map[string]chan struct{}{"ab": make(chan struct{}), "ba": make(chan struct{})}
	readDone["ab_all"], readDone["ba_all"] = allRead["ab"], allRead["ba"]
	// in orderly mode an application closes its writing side only after it has read everything it expects
	var closeAfterA, closeAfterB, waitB chan struct{}
	if sp.Orderly {
		closeAfterA, closeAfterB = make(chan struct{}), make(chan struct{})
	}
	if sp.ReplyAft {
		waitB = readDone["ab"]
	}
	wg.Add(4)
	go writer("ab", 0, a, sp.TotalAB, rand.New(rand.NewSource(seed*4+1)), nil, closeAfterA)
	go writer("ba", 1, b, sp.TotalBA, rand.New(rand.NewSource(seed*4+2)), waitB, closeAfterB)
	go reader("ab", 0, b, sp.TotalAB, rand.New(rand.NewSource(seed*4+3)), &res.readAB)
	go reader("ba", 1, a, sp.TotalBA, rand.New(rand.NewSource(seed*4+4)), &res.readBA)
	if sp.Orderly {
		// poll the counters: A may close once it has read all of BA, B once it has read all of AB
		go func() {
			doneA, doneB := false, false
			for !(doneA && doneB) {
				if !doneA && (res.readBA >= sp.TotalBA) {
					close(closeAfterA)
					doneA = true
				}
				if !doneB && (res.readAB >= sp.TotalAB) {
					close(closeAfterB)
					doneB = true
				}
				mu.Lock()
				failed := res.sig != ""
				mu.Unlock()
				if failed || time.Since(t0) > ceiling {
					if !doneA {
						close(closeAfterA)
					}
					if !doneB {
						close(closeAfterB)
					}

					return
				}
				time.Sleep(2 * time.Millisecond)
			}
		}()
	}
	if !within(ceiling, wg.Wait) {
		mu.Lock()
		if res.sig == "" {
			res.inconcl = fmt.Sprintf("%s: transfer not finished after %v (read ab=%d/%d ba=%d/%d)", sp.Name, ceiling, res.readAB, sp.TotalAB, res.readBA, sp.TotalBA)
		}
		mu.Unlock()
		a.closeAll()
		b.closeAll()
		within(20*time.Second, wg.Wait)
	}
	if res.sig == "" && res.inconcl == "" && (res.readAB != sp.TotalAB || res.readBA != sp.TotalBA) {
		fail("missing", fmt.Sprintf("totals differ: ab %d of %d, ba %d of %d", res.readAB, sp.TotalAB, res.readBA, sp.TotalBA))
	}
	note = ""
	if res.inconcl != "" {
		note = "inconclusive"
	}
	lg.add(ioLine{Ev: "end", Name: sp.Name, Note: note})
	res.wall = time.Since(t0)

	return res
}

// ---------------------------------------------------------------- scenarios

type topo struct {
	name  string
	ids   []string
	links []string
	from  string
	to    string
	// cut: link to cut mid-transfer ("" = none) and its class
	cut      string
	cutClass string
}

var topos = map[string]topo{
	"chain1":  {name: "chain1", ids: []string{"a", "b"}, links: []string{"a-b"}, from: "a", to: "b"},
	"chain2":  {name: "chain2", ids: []string{"a", "b", "c"}, links: []string{"a-b", "b-c"}, from: "a", to: "c"},
	"chain3":  {name: "chain3", ids: []string{"a", "b", "c", "d"}, links: []string{"a-b", "b-c", "c-d"}, from: "a", to: "d"},
	"chain4":  {name: "chain4", ids: []string{"a", "b", "c", "d", "e"}, links: []string{"a-b", "b-c", "c-d", "d-e"}, from: "a", to: "e"},
	"diamond": {name: "diamond", ids: []string{"a", "b", "c", "d"}, links: []string{"a-b-1", "b-d-1", "a-c-2", "c-d-2"}, from: "a", to: "d"},
	// re-routing: the active path is a-b-d (cost 2); the alternative a-c-d costs 4
	"cut_endpoint": {name: "cut_endpoint", ids: []string{"a", "b", "c", "d"}, links: []string{"a-b-1", "b-d-1", "a-c-2", "c-d-2"}, from: "a", to: "d", cut: "a-b", cutClass: "endpoint-adjacent"},
	// active path a-b-c-d (cost 3); b-x-c is the detour around the transit link b-c
	"cut_transit": {name: "cut_transit", ids: []string{"a", "b", "c", "d", "x"}, links: []string{"a-b-1", "b-c-1", "c-d-1", "b-x-2", "x-c-2"}, from: "a", to: "d", cut: "b-c", cutClass: "transit"},
}

type c03opts struct {
	seed     int64
	total    int64
	maxChunk int
	ceiling  time.Duration
	lossMax  int
	dir      string
}

type scenarioOut struct {
	Name    string         `json:"name"`
	Lines   []ioLine       `json:"-"`
	Sig     string         `json:"sig,omitempty"`
	What    string         `json:"what,omitempty"`
	Inconcl string         `json:"inconclusive,omitempty"`
	Wall    float64        `json:"wall_s"`
	Faults  map[string]int `json:"faults,omitempty"`
	Spec    xferSpec       `json:"spec"`
	Detail  map[string]any `json:"detail,omitempty"`
}

// applyFaults sets seeded loss/dup/reorder on every link direction and starts a goroutine that holds
// (delays) random link directions for a few milliseconds at a time.
func applyFaults(m *mesh.Mesh, rng *rand.Rand, lossMax int, stop chan struct{}) {
	hops := len(m.Links)
	for _, l := range m.Links {
		for _, d := range []*memnet.Dir{l.Pipe.AB, l.Pipe.BA} {
			loss := 0
			if lossMax > 0 {
				loss = rng.Intn(lossMax/max(1, min(hops, 4)) + 1)
			}
			d.SetFaults(memnet.Faults{LossPct: loss, DupPct: rng.Intn(8), ReorderPct: rng.Intn(20), ReorderSpan: 1 + rng.Intn(4)})
		}
	}
	hrng := rand.New(rand.NewSource(rng.Int63()))
	go func() {
		for {
			select {
			case <-stop:
				return
			case <-time.After(time.Duration(5+hrng.Intn(40)) * time.Millisecond):
			}
			l := m.Links[hrng.Intn(len(m.Links))]
			if l.Cut {
				continue
			}
			d := l.Pipe.AB
			if hrng.Intn(2) == 0 {
				d = l.Pipe.BA
			}
			d.SetHold(true)
			time.Sleep(time.Duration(1+hrng.Intn(15)) * time.Millisecond)
			d.SetHold(false)
		}
	}()
}

func faultCounters(m *mesh.Mesh) map[string]int {
	c := map[string]int{}
	for _, l := range m.Links {
		for _, d := range []*memnet.Dir{l.Pipe.AB, l.Pipe.BA} {
			c["pushed"] += d.Pushed
			c["dropped"] += d.Dropped
			c["duplicated"] += d.Duplicated
			c["reordered"] += d.Reordered
		}
	}

	return c
}

// injectNotices: while a transfer runs, a third node (a transit node when there is one) sends the two ends of the
// stream "unreachable" notices about the stream's own addresses with a TRANSIENT problem ('message expired': a
// datagram used up its hop budget in a momentary forwarding loop; 'blocked by firewall'). monitorUnreachable on
// both ends sees them; only 'service unknown' may end a stream. Each notice is logged for StreamTrace.tla.
func injectNotices(m *mesh.Mesh, lg *ioLog, rng *rand.Rand, via, dialNode, dialSvc, accNode, accSvc string, stop chan struct{}) {
	send := func(target string, um netceptor.UnreachableMessage, dir string) {
		b, _ := json.Marshal(um)
		lg.add(ioLine{Ev: "notice", Dir: dir, Note: um.Problem})
		_ = m.Nodes[via].N.SendMessageWithHopsToLive("unreach", target, "unreach", b, 10)
	}
	go func() {
		// wait until data is flowing
		waitUntil(30*time.Second, time.Millisecond, func() bool {
			lg.mu.Lock()
			defer lg.mu.Unlock()
			for _, l := range lg.lines {
				if l.Ev == "r" {
					return true
				}
			}

			return false
		})
		for i := 0; i < 24; i++ {
			select {
			case <-stop:
				return
			case <-time.After(time.Duration(500+rng.Intn(6000)) * time.Microsecond):
			}
			problem := netceptor.ProblemExpiredInTransit
			if i%3 == 2 {
				problem = netceptor.ProblemRejected
			}
			// to the accepting node: "your datagrams from the listener's service to the dialler's socket ..."
			send(accNode, netceptor.UnreachableMessage{FromNode: accNode, FromService: accSvc, ToNode: dialNode, ToService: dialSvc, Problem: problem}, "ba")
			// and the mirror image to the dialling node
			send(dialNode, netceptor.UnreachableMessage{FromNode: dialNode, FromService: dialSvc, ToNode: accNode, ToService: accSvc, Problem: problem}, "ab")
		}
	}()
}

// deadlineLines reads, right after Dial/Accept, the read deadline armed on each end's stream (verif accessor). The
// application has set none: an armed deadline was left behind by the library and will fail every Read once it
// passes ("accepted + 60 s"), long after a quick transfer has finished.
func deadlineLines(d, a *netceptor.Conn) (lines []ioLine, sig, what, inconcl string) {
	for _, e := range []struct {
		c    *netceptor.Conn
		dir  string
		side string
	}{{a, "ab", "accepting"}, {d, "ba", "dialling"}} {
		if e.c == nil {
			continue
		}
		t, ok := e.c.VerifReadDeadline()
		note := "none"
		switch {
		case !ok:
			note = "unknown"
			inconcl = "the QUIC stream's read deadline cannot be inspected (layout changed)"
		case !t.IsZero():
			note = "armed"
			sig = "accept:read-deadline-left-armed:" + e.side
			what = fmt.Sprintf("the stream handed to the %s application has a read deadline armed that the application never set (%v from now): every Read fails with 'deadline exceeded' once it passes", e.side, time.Until(t).Round(time.Second))
		}
		lines = append(lines, ioLine{Ev: "accepted", Dir: e.dir, Note: note})
	}

	return lines, sig, what, inconcl
}

func svcOf(a net.Addr) string {
	p := strings.SplitN(a.String(), ":", 2)
	if len(p) == 2 {
		return p[1]
	}

	return ""
}

func meshStream(m *mesh.Mesh, from, to, svc string) (d, a *netceptor.Conn, li *netceptor.Listener, err error) {
	li, err = m.Nodes[to].N.ListenAndAdvertise(svc, nil, nil)
	if err != nil {
		return nil, nil, nil, err
	}
	type ar struct {
		c   net.Conn
		err error
	}
	ach := make(chan ar, 1)
	go func() { c, err := li.Accept(); ach <- ar{c, err} }()
	ctx, cancel := context.WithTimeout(context.Background(), 60*time.Second)
	defer cancel()
	d, err = m.Nodes[from].N.DialContext(ctx, to, svc, nil)
	if err != nil {
		return nil, nil, li, fmt.Errorf("dial: %w", err)
	}
	select {
	case r := <-ach:
		if r.err != nil {
			return nil, nil, li, fmt.Errorf("accept: %w", r.err)
		}

		return d, r.c.(*netceptor.Conn), li, nil
	case <-time.After(60 * time.Second):
		return nil, nil, li, fmt.Errorf("accept timeout")
	}
}

func runDirect(o c03opts, tp topo, variant string, idx int64) scenarioOut {
	out := scenarioOut{Name: "direct/" + tp.name + "/" + variant}
	rng := rand.New(rand.NewSource(o.seed*7919 + idx))
	m, err := buildMesh(o.seed*100+idx, tp.ids, tp.links, mesh.Opts{RouteUpdate: 300 * time.Millisecond})
	if err != nil {
		out.Inconcl = err.Error()

		return out
	}
	defer m.StopAll()
	d, a, li, err := meshStream(m, tp.from, tp.to, "sink")
	if err != nil {
		out.Inconcl = out.Name + ": " + err.Error()

		return out
	}
	defer closeListenerBounded(li)
	stop := make(chan struct{})
	defer close(stop)
	applyFaults(m, rng, o.lossMax, stop)
	sp := xferSpec{Name: out.Name, TotalAB: o.total, TotalBA: o.total, MaxChunk: o.maxChunk}
	switch variant {
	case "asym":
		sp.TotalAB = 1 + rng.Int63n(4096)
	case "reply":
		sp.TotalAB = 1 + rng.Int63n(65536)
		sp.ReplyAft = true
	case "oneway":
		sp.TotalBA = 0
	}
	var dlSig, dlWhat string
	sp.pre, dlSig, dlWhat, out.Inconcl = deadlineLines(d, a)
	if variant == "longlived" {
		// a stream still in use more than the 60 s accept timeout after it was accepted
		sp.TotalAB, sp.TotalBA, sp.PaceAB = 192<<10, 4096, 66
	}
	out.Spec = sp
	lg := &ioLog{}
	via := tp.ids[len(tp.ids)/2]
	if tp.cut != "" {
		via = tp.to // the transit nodes are being re-routed: the accepting node itself relays the notices
	}
	injectNotices(m, lg, rand.New(rand.NewSource(rng.Int63())), via, tp.from, svcOf(d.LocalAddr()), tp.to, "sink", stop)
	if tp.cut != "" {
		// cut the link on the active path once a part of the data has gone through
		go func() {
			ab := strings.Split(tp.cut, "-")
			deadline := time.Now().Add(o.ceiling)
			for time.Now().Before(deadline) {
				lg.mu.Lock()
				var moved int64
				for _, l := range lg.lines {
					if l.Ev == "r" {
						moved += l.Len
					}
				}
				lg.mu.Unlock()
				if moved > (sp.TotalAB+sp.TotalBA)/4 {
					break
				}
				time.Sleep(time.Millisecond)
			}
			if l := m.FindLink(ab[0], ab[1]); l != nil {
				m.CutLink(l)
				lg.add(ioLine{Ev: "cut", Note: map[string]string{"endpoint-adjacent": "origin", "transit": "transit"}[tp.cutClass]})
			}
		}()
	}
	r := runTransfer(lg, sp, meshEnd(d), meshEnd(a), o.seed*131+idx, o.ceiling)
	_ = d.CloseConnection()
	_ = a.CloseConnection()
	out.Lines, out.Sig, out.What, out.Wall = lg.lines, r.sig, r.what, r.wall.Seconds()
	if r.inconcl != "" {
		out.Inconcl = r.inconcl
	}
	if out.Sig == "" && dlSig != "" {
		out.Sig, out.What = dlSig, dlWhat
	}
	out.Faults = faultCounters(m)
	if tp.cut != "" {
		cutAt, after := -1, 0
		for i, l := range lg.lines {
			if l.Ev == "cut" {
				cutAt = i
			} else if cutAt >= 0 && (l.Ev == "r" || l.Ev == "w") {
				after++
			}
		}
		out.Detail = map[string]any{"cut": tp.cut, "class": tp.cutClass, "cut_at_line": cutAt, "io_events_after_cut": after}
		if r.sig != "" {
			out.Sig = "reroute-" + tp.cutClass + ":" + r.sig
			out.What = "link " + tp.cut + " (" + tp.cutClass + " on the active path, alternative exists) was cut mid-transfer: " + r.what
			if strings.Contains(r.what, "no connection to next hop") || strings.Contains(r.what, "no route to node") || strings.Contains(r.what, "connInfo cancelled while forwarding") {
				// quic-go treats the synchronous routing error of the stream's own node as fatal
				out.Sig = "reroute:origin-send-error-fatal"
			}
		} else if out.Inconcl == "" && (cutAt < 0 || after == 0) {
			out.Inconcl = out.Name + ": the link was cut too late to matter (no I/O after the cut)"
		}
	}

	return out
}

// runConnect: unix socket client -> controlsvc "connect" -> mesh stream -> sink service.
func runConnect(o c03opts, idx int64, variant string) scenarioOut {
	out := scenarioOut{Name: "connect/" + variant}
	rng := rand.New(rand.NewSource(o.seed*7919 + idx))
	m, err := buildMesh(o.seed*100+idx, []string{"a", "b", "c"}, []string{"a-b", "b-c"}, mesh.Opts{RouteUpdate: 300 * time.Millisecond})
	if err != nil {
		out.Inconcl = err.Error()

		return out
	}
	defer m.StopAll()
	sock := filepath.Join(o.dir, fmt.Sprintf("ctl%d.sock", idx))
	_ = os.Remove(sock)
	ctx, cancel := context.WithCancel(context.Background())
	defer cancel()
	cs := controlsvc.New(true, m.Nodes["a"].N)
	if err := cs.RunControlSvc(ctx, "", nil, sock, 0o600, "", nil); err != nil {
		out.Inconcl = "controlsvc: " + err.Error()

		return out
	}
	li, err := m.Nodes["c"].N.ListenAndAdvertise("sink", nil, nil)
	if err != nil {
		out.Inconcl = err.Error()

		return out
	}
	defer closeListenerBounded(li)
	ach := make(chan net.Conn, 1)
	go func() { c, _ := li.Accept(); ach <- c }()
	uc, err := net.Dial("unix", sock)
	if err != nil {
		out.Inconcl = "dial unix: " + err.Error()

		return out
	}
	br := bufio.NewReaderSize(uc, 1<<16)
	_ = uc.SetDeadline(time.Now().Add(60 * time.Second))
	if _, err := br.ReadString('\n'); err != nil {
		out.Inconcl = "greeting: " + err.Error()

		return out
	}
	cmd := `{"command":"connect","node":"c","service":"sink"}` + "\n"
	if variant == "string" {
		cmd = "connect c sink\n"
	}
	_, _ = uc.Write([]byte(cmd))
	line, err := br.ReadString('\n')
	if err != nil || !strings.HasPrefix(line, "Connecting") {
		out.Inconcl = fmt.Sprintf("connect answer %q %v", line, err)

		return out
	}
	_ = uc.SetDeadline(time.Time{})
	var ac net.Conn
	select {
	case ac = <-ach:
	case <-time.After(60 * time.Second):
	}
	if ac == nil {
		out.Inconcl = "sink did not accept"

		return out
	}
	stop := make(chan struct{})
	defer close(stop)
	applyFaults(m, rng, o.lossMax, stop)
	sp := xferSpec{Name: out.Name, TotalAB: o.total, TotalBA: o.total, MaxChunk: o.maxChunk, Orderly: true}
	if variant == "halfclose" {
		// the client half-closes (CloseWrite) after a short request and the service replies after seeing EOF:
		// the full-close endpoint (Unix socket) is closed last, so nothing may be lost
		sp.Orderly, sp.ReplyAft, sp.TotalAB, sp.FullClose = false, true, 1+rng.Int63n(65536), true
	}
	var dlSig, dlWhat, dlInc string
	sp.pre, dlSig, dlWhat, dlInc = deadlineLines(nil, ac.(*netceptor.Conn))
	out.Spec = sp
	lg := &ioLog{}
	injectNotices(m, lg, rand.New(rand.NewSource(rng.Int63())), "b", "a", svcOf(ac.RemoteAddr()), "c", "sink", stop)
	r := runTransfer(lg, sp, sockEnd(uc, br), meshEnd(ac.(*netceptor.Conn)), o.seed*131+idx, o.ceiling)
	_ = uc.Close()
	_ = ac.(*netceptor.Conn).CloseConnection()
	out.Lines, out.Sig, out.What, out.Inconcl, out.Wall = lg.lines, r.sig, r.what, r.inconcl, r.wall.Seconds()
	if out.Sig == "" && dlSig != "" {
		out.Sig, out.What = dlSig, dlWhat
	}
	if out.Inconcl == "" {
		out.Inconcl = dlInc
	}
	out.Faults = faultCounters(m)

	return out
}

func freePort() int {
	p, err := freeport.Get()
	if err != nil {
		return 0
	}

	return p
}

// runDialCtx: the caller of DialContext follows the Go idiom (ctx, cancel := context.WithTimeout(...); defer cancel())
// and cancels the dial context once the dial has returned. A context governs the dial, not the connection made by it
// (DialContext itself stops watching it when the stream is open: close(okChan)), so the stream must stay a reliable
// pipe. The goroutine that watches the context during the dial is held at the gate dial_watch_before_select until the
// dial has returned and the context has been cancelled - the schedule a loaded machine produces by itself (seen once
// in direct/chain2/bulk: "Write at offset 0 ... connection context closed"). Runs alone: the gate is process-wide.
func runDialCtx(o c03opts, idx int64, reps int) scenarioOut {
	out := scenarioOut{Name: "dialctx/cancel-after-dial", Detail: map[string]any{}}
	rng := rand.New(rand.NewSource(o.seed*7919 + idx))
	m, err := buildMesh(o.seed*100+idx, []string{"a", "b"}, []string{"a-b"}, mesh.Opts{RouteUpdate: 300 * time.Millisecond})
	if err != nil {
		out.Inconcl = err.Error()

		return out
	}
	defer m.StopAll()
	li, err := m.Nodes["b"].N.ListenAndAdvertise("sink", nil, nil)
	if err != nil {
		out.Inconcl = err.Error()

		return out
	}
	defer closeListenerBounded(li)
	type ar struct {
		c   net.Conn
		err error
	}
	pipe := func(w, r *netceptor.Conn, dir string, data []byte) string {
		werr := make(chan error, 1)
		go func() {
			_ = w.SetWriteDeadline(time.Now().Add(20 * time.Second))
			_, e := w.Write(data)
			werr <- e
		}()
		got := make([]byte, len(data))
		_ = r.SetReadDeadline(time.Now().Add(20 * time.Second))
		n, rerr := io.ReadFull(r, got)
		if e := <-werr; e != nil {
			return fmt.Sprintf("Write of %d bytes in direction %s failed: %v", len(data), dir, e)
		}
		if rerr != nil {
			return fmt.Sprintf("Read in direction %s failed after %d of %d bytes: %v", dir, n, len(data), rerr)
		}
		if !bytes.Equal(got, data) {
			return fmt.Sprintf("direction %s: the %d bytes read differ from the bytes written", dir, len(data))
		}

		return ""
	}
	parked := 0
	for rep := 0; rep < reps && out.Sig == ""; rep++ {
		hit, release := verifhook.HoldGate("dial_watch_before_select")
		ach := make(chan ar, 1)
		go func() { c, err := li.Accept(); ach <- ar{c, err} }()
		ctx, cancel := context.WithTimeout(context.Background(), 60*time.Second)
		d, err := m.Nodes["a"].N.DialContext(ctx, "b", "sink", nil)
		if err != nil {
			cancel()
			release()
			out.Inconcl = out.Name + ": dial: " + err.Error()

			return out
		}
		var a *netceptor.Conn
		select {
		case r := <-ach:
			if r.err != nil {
				cancel()
				release()
				out.Inconcl = out.Name + ": accept: " + r.err.Error()

				return out
			}
			a = r.c.(*netceptor.Conn)
		case <-time.After(60 * time.Second):
			cancel()
			release()
			out.Inconcl = out.Name + ": accept timeout"

			return out
		}
		select {
		case <-hit:
			parked++
		case <-time.After(2 * time.Second):
		}
		cancel()  // the dial is over; this is what "defer cancel()" does in the caller
		release() // now the watcher looks at its channels
		time.Sleep(30 * time.Millisecond)
		data := make([]byte, 16<<10+rng.Intn(32<<10))
		rng.Read(data)
		what := pipe(d, a, "ab", data)
		if what == "" {
			what = pipe(a, d, "ba", data[:len(data)/2])
		}
		if what != "" {
			out.Sig = "stream-broken-by-cancel-after-dial"
			out.What = fmt.Sprintf("dial %d: the dial context was cancelled after DialContext had returned the connection (links perfect, nodes adjacent): %s", rep+1, what)
		}
		_ = d.Close()
		_ = a.Close()
		_ = d.CloseConnection()
		_ = a.CloseConnection()
	}
	out.Detail["dials"], out.Detail["watcher_parked"] = reps, parked
	if out.Sig == "" && parked == 0 {
		out.Inconcl = out.Name + ": the context watcher of DialContext never reached the gate dial_watch_before_select (hook missing?)"
	}

	return out
}

// runProxy: TCP client -> TCPProxyServiceInbound (node a) -> mesh -> TCPProxyServiceOutbound (node c) -> TCP server.
func runProxy(o c03opts, idx int64, variant string) scenarioOut {
	out := scenarioOut{Name: "tcpproxy/" + variant}
	rng := rand.New(rand.NewSource(o.seed*7919 + idx))
	m, err := buildMesh(o.seed*100+idx, []string{"a", "b", "c"}, []string{"a-b", "b-c"}, mesh.Opts{RouteUpdate: 300 * time.Millisecond})
	if err != nil {
		out.Inconcl = err.Error()

		return out
	}
	defer m.StopAll()
	srv, err := net.Listen("tcp", "127.0.0.1:0")
	if err != nil {
		out.Inconcl = "tcp listen: " + err.Error()

		return out
	}
	defer srv.Close()
	if err := services.TCPProxyServiceOutbound(m.Nodes["c"].N, "tcpout", nil, srv.Addr().String(), nil); err != nil {
		out.Inconcl = "outbound: " + err.Error()

		return out
	}
	port := freePort()
	if err := services.TCPProxyServiceInbound(m.Nodes["a"].N, "127.0.0.1", port, nil, "c", "tcpout", nil); err != nil {
		out.Inconcl = "inbound: " + err.Error()

		return out
	}
	ach := make(chan net.Conn, 1)
	go func() { c, _ := srv.Accept(); ach <- c }()
	var tc net.Conn
	if !waitUntil(20*time.Second, 50*time.Millisecond, func() bool {
		tc, err = net.Dial("tcp", fmt.Sprintf("127.0.0.1:%d", port))

		return err == nil
	}) {
		out.Inconcl = "tcp dial: " + err.Error()

		return out
	}
	var sc net.Conn
	select {
	case sc = <-ach:
	case <-time.After(60 * time.Second):
	}
	if sc == nil {
		out.Inconcl = "tcp server did not get the proxied connection"

		return out
	}
	stop := make(chan struct{})
	defer close(stop)
	applyFaults(m, rng, o.lossMax, stop)
	sp := xferSpec{Name: out.Name, TotalAB: o.total, TotalBA: o.total, MaxChunk: o.maxChunk, Orderly: true}
	if variant == "oneway" {
		sp.TotalBA = 0
	}
	out.Spec = sp
	lg := &ioLog{}
	r := runTransfer(lg, sp, sockEnd(tc, tc), sockEnd(sc, sc), o.seed*131+idx, o.ceiling)
	_ = tc.Close()
	_ = sc.Close()
	out.Lines, out.Sig, out.What, out.Inconcl, out.Wall = lg.lines, r.sig, r.what, r.inconcl, r.wall.Seconds()
	out.Faults = faultCounters(m)

	return out
}

// closeListenerBounded: Listener.Close with a ceiling. (A listener whose socket was cancelled behind its back can
// dead-lock in quic-go's transport/server close; the harness must not wait for it.)
func closeListenerBounded(li *netceptor.Listener) bool {
	return within(20*time.Second, func() { _ = li.Close() })
}

// ---------------------------------------------------------------- sibling streams on one listener

// killSocket closes a node's socket by name behind the application's back (its owner "goes away uncleanly").
func killSocket(nd *mesh.Node, svc string) bool {
	l := nd.N.GetListenerLock()
	l.RLock()
	pc := nd.N.GetListenerRegistry()[svc]
	l.RUnlock()
	if pc == nil {
		return false
	}
	_ = pc.Close()

	return true
}

// runSibling: two streams are accepted on ONE listener of node c. The dialler of the second one (node b) loses its
// socket without a word while the acceptor is still sending to it: the acceptor is told 'service unknown' and gives
// that connection up. The first stream (from node a, paced over a few seconds) must complete untouched, and the
// service must still accept a new dial afterwards.
func runSibling(o c03opts, idx int64) scenarioOut {
	out := scenarioOut{Name: "sibling/teardown"}
	rng := rand.New(rand.NewSource(o.seed*7919 + idx))
	m, err := buildMesh(o.seed*100+idx, []string{"a", "b", "c"}, []string{"a-b", "b-c"}, mesh.Opts{RouteUpdate: 300 * time.Millisecond})
	if err != nil {
		out.Inconcl = err.Error()

		return out
	}
	defer m.StopAll()
	li, err := m.Nodes["c"].N.ListenAndAdvertise("sink", nil, nil)
	if err != nil {
		out.Inconcl = err.Error()

		return out
	}
	defer closeListenerBounded(li)
	dialTo := func(from string) (d, a *netceptor.Conn, err error) {
		type ar struct {
			c   net.Conn
			err error
		}
		ach := make(chan ar, 1)
		go func() { c, err := li.Accept(); ach <- ar{c, err} }()
		ctx, cancel := context.WithTimeout(context.Background(), 40*time.Second)
		defer cancel()
		d, err = m.Nodes[from].N.DialContext(ctx, "c", "sink", nil)
		if err != nil {
			return nil, nil, fmt.Errorf("dial: %w", err)
		}
		select {
		case r := <-ach:
			if r.err != nil {
				return d, nil, fmt.Errorf("accept: %w", r.err)
			}

			return d, r.c.(*netceptor.Conn), nil
		case <-time.After(40 * time.Second):
			return d, nil, fmt.Errorf("accept timeout")
		}
	}
	d1, a1, err := dialTo("a")
	if err != nil {
		out.Inconcl = out.Name + ": first stream: " + err.Error()

		return out
	}
	d2, a2, err := dialTo("b")
	if err != nil {
		out.Inconcl = out.Name + ": second stream: " + err.Error()

		return out
	}
	stop := make(chan struct{})
	defer close(stop)
	applyFaults(m, rng, o.lossMax/2, stop)
	sp := xferSpec{Name: out.Name, TotalAB: o.total, TotalBA: o.total, MaxChunk: o.maxChunk, PaceAB: 4}
	sp.pre, _, _, _ = deadlineLines(d1, a1)
	out.Spec = sp
	lg := &ioLog{}
	// the second stream: the acceptor keeps sending; after a while the dialler's socket vanishes
	a2done := make(chan error, 1)
	go func() {
		buf := make([]byte, 1200)
		for {
			if _, err := a2.Write(buf); err != nil {
				a2done <- err

				return
			}
			time.Sleep(2 * time.Millisecond)
		}
	}()
	go func() {
		b := make([]byte, 4096)
		for {
			if _, err := d2.Read(b); err != nil {
				return
			}
		}
	}()
	killed := make(chan bool, 1)
	go func() {
		time.Sleep(800 * time.Millisecond)
		ok := killSocket(m.Nodes["b"], svcOf(d2.LocalAddr()))
		lg.add(ioLine{Ev: "cut", Note: "sibling"})
		killed <- ok
	}()
	r := runTransfer(lg, sp, meshEnd(d1), meshEnd(a1), o.seed*131+idx, o.ceiling)
	out.Lines, out.Sig, out.What, out.Inconcl, out.Wall = lg.lines, r.sig, r.what, r.inconcl, r.wall.Seconds()
	out.Faults = faultCounters(m)
	if ok := <-killed; !ok && out.Sig == "" && out.Inconcl == "" {
		out.Inconcl = out.Name + ": the second dialler's socket was not found"
	}
	// the acceptor gave the orphaned connection up (or will at its idle timeout): informational
	select {
	case e := <-a2done:
		out.Detail = map[string]any{"orphan_acceptor_write_ended": e.Error()}
	case <-time.After(100 * time.Millisecond):
		out.Detail = map[string]any{"orphan_acceptor_write_ended": "not yet"}
	}
	if out.Sig != "" {
		out.Sig = "sibling-stream-killed:" + out.Sig
		out.What = "a stream died when the acceptor gave up ANOTHER stream of the same listener whose dialler had vanished: " + out.What
	} else if out.Inconcl == "" {
		// the service must still be there for a new dial
		d3, a3, err := dialTo("a")
		if err != nil {
			out.Sig = "service-gone-after-sibling-teardown"
			out.What = "after the acceptor gave up one orphaned stream, a new dial to the same (still open) listener fails: " + err.Error()
		} else {
			_ = d3.CloseConnection()
			_ = a3.CloseConnection()
		}
		if d3 != nil && err != nil {
			_ = d3.CloseConnection()
		}
	}
	_ = d1.CloseConnection()
	_ = a1.CloseConnection()
	_ = d2.CloseConnection()
	_ = a2.CloseConnection()

	return out
}

// ---------------------------------------------------------------- a link that stops draining, then is cut

// stallLink is a memnet pipe whose ends can stop draining in one direction: Send blocks (the session's writer sits
// in Send, so the next forward waits for the writer: back-pressure) until the link is cut, then fails.
type stallLink struct {
	pipe    *memnet.Pipe
	mu      sync.Mutex
	stalled map[*memnet.End]bool
	cutCh   chan struct{}
	once    sync.Once
}

type stallEnd struct {
	*memnet.End
	l *stallLink
}

func (e *stallEnd) Send(b []byte) error {
	e.l.mu.Lock()
	st := e.l.stalled[e.End]
	e.l.mu.Unlock()
	if st {
		<-e.l.cutCh

		return io.ErrClosedPipe
	}

	return e.End.Send(b)
}

func (e *stallEnd) Close() error {
	e.l.cut()

	return nil
}

func (l *stallLink) cut() {
	l.once.Do(func() { close(l.cutCh) })
	l.pipe.Cut()
}

// sessBackend is a netceptor.Backend whose sessions are handed in by the harness (any BackendSession).
type sessBackend struct {
	mu  sync.Mutex
	ctx context.Context
	ch  chan netceptor.BackendSession
}

func (b *sessBackend) Start(ctx context.Context, _ *sync.WaitGroup) (chan netceptor.BackendSession, error) {
	b.mu.Lock()
	defer b.mu.Unlock()
	b.ctx, b.ch = ctx, make(chan netceptor.BackendSession)

	return b.ch, nil
}

func (b *sessBackend) attach(s netceptor.BackendSession) bool {
	b.mu.Lock()
	ctx, ch := b.ctx, b.ch
	b.mu.Unlock()
	if ch == nil {
		return false
	}
	select {
	case ch <- s:
		return true
	case <-ctx.Done():
		return false
	case <-time.After(5 * time.Second):
		return false
	}
}

// buildStallMesh is buildMesh with stallable links (registered in m.Links so that the mesh helpers see them).
func buildStallMesh(seed int64, ids []string, links []string, o mesh.Opts) (*mesh.Mesh, map[string]*stallLink, error) {
	m := mesh.New(o, seed)
	for _, id := range ids {
		m.Start(id)
	}
	sl := map[string]*stallLink{}
	for i, l := range links {
		ab := strings.Split(l, "-")
		cost := 1.0
		if len(ab) == 3 {
			fmt.Sscanf(ab[2], "%g", &cost)
		}
		p := memnet.NewPipe(seed*1000 + int64(i))
		k := &stallLink{pipe: p, stalled: map[*memnet.End]bool{}, cutCh: make(chan struct{})}
		ba, bb := &sessBackend{}, &sessBackend{}
		if err := m.Nodes[ab[0]].N.AddBackend(ba, netceptor.BackendConnectionCost(cost)); err != nil {
			return nil, nil, err
		}
		if err := m.Nodes[ab[1]].N.AddBackend(bb, netceptor.BackendConnectionCost(cost)); err != nil {
			return nil, nil, err
		}
		if !ba.attach(&stallEnd{p.A, k}) || !bb.attach(&stallEnd{p.B, k}) {
			return nil, nil, fmt.Errorf("backend did not accept the session")
		}
		m.Links = append(m.Links, &mesh.Link{A: ab[0], B: ab[1], CostA: cost, CostB: cost, Pipe: p})
		sl[ab[0]+"-"+ab[1]] = k
	}
	if !waitUntil(60*time.Second, 20*time.Millisecond, m.LooksConverged) {
		return nil, nil, fmt.Errorf("mesh did not converge")
	}

	return m, sl, nil
}

// wedgedForwarder reports a goroutine that sits in forwardMessage's hand-over select in both of two samples taken
// `gap` apart (same goroutine id): it is waiting to hand a datagram to the writer of a link.
func wedgedForwarder(gap time.Duration) (string, bool) {
	sample := func() map[string]string {
		out := map[string]string{}
		for _, g := range goroutines() {
			if !strings.HasPrefix(g.State, "select") {
				continue
			}
			for i, f := range g.Stack {
				if strings.Contains(f, "forwardMessage") && i <= 2 {
					who := "the origin's send path"
					for _, f2 := range g.Stack {
						if strings.Contains(f2, "runProtocol") {
							who = "a transit node's session loop (runProtocol)"
						}
					}
					out[g.ID] = who
				}
			}
		}

		return out
	}
	s1 := sample()
	if len(s1) == 0 {
		return "", false
	}
	time.Sleep(gap)
	for id, who := range sample() {
		if _, ok := s1[id]; ok {
			return who, true
		}
	}

	return "", false
}

// runStallCut: the transit link b-c of the active path a-b-c-d stops draining in the direction b->c while the
// transfer runs, and is cut 300 ms later; the detour b-x-c enters b through the same upstream session a-b.
func runStallCut(o c03opts, variant string, idx int64) scenarioOut {
	tp := topos["cut_transit"]
	out := scenarioOut{Name: "direct/stall_cut_transit/" + variant}
	rng := rand.New(rand.NewSource(o.seed*7919 + idx))
	m, sl, err := buildStallMesh(o.seed*100+idx, tp.ids, tp.links, mesh.Opts{RouteUpdate: 300 * time.Millisecond})
	if err != nil {
		out.Inconcl = err.Error()

		return out
	}
	defer m.StopAll()
	d, a, li, err := meshStream(m, tp.from, tp.to, "sink")
	if err != nil {
		out.Inconcl = out.Name + ": " + err.Error()

		return out
	}
	defer closeListenerBounded(li)
	stop := make(chan struct{})
	defer close(stop)
	applyFaults(m, rng, o.lossMax/2, stop)
	sp := xferSpec{Name: out.Name, TotalAB: o.total, TotalBA: o.total, MaxChunk: o.maxChunk}
	if variant == "oneway" {
		sp.TotalBA = 0
	}
	out.Spec = sp
	lg := &ioLog{}
	moved := func() int64 {
		lg.mu.Lock()
		defer lg.mu.Unlock()
		var n int64
		for _, l := range lg.lines {
			if l.Ev == "r" {
				n += l.Len
			}
		}

		return n
	}
	type verdict struct{ sig, what string }
	vch := make(chan verdict, 1)
	cutDone := make(chan struct{})
	link := sl["b-c"]
	go func() {
		defer close(cutDone)
		waitUntil(o.ceiling, time.Millisecond, func() bool { return moved() > (sp.TotalAB+sp.TotalBA)/4 })
		link.mu.Lock()
		link.stalled[link.pipe.A] = true // the end at b: b -> c stops draining
		link.mu.Unlock()
		lg.add(ioLine{Ev: "cut", Note: "stall"})
		time.Sleep(300 * time.Millisecond)
		if l := m.FindLink("b", "c"); l != nil {
			l.Cut = true
		}
		link.cut()
		lg.add(ioLine{Ev: "cut", Note: "transit"})
		// oracle for "never": once the routes have settled on the detour, nobody may still be waiting to hand a
		// datagram to the writer of the link that is gone
		t0, before := time.Now(), moved()
		for time.Since(t0) < 40*time.Second {
			time.Sleep(2 * time.Second)
			select {
			case <-stop:
				return
			default:
			}
			if !m.LooksConverged() {
				continue
			}
			now := moved()
			if now != before {
				before = now

				continue
			}
			if who, ok := wedgedForwarder(3 * time.Second); ok && moved() == now && time.Since(t0) > 8*time.Second {
				vch <- verdict{"reroute:forwarder-wedged-after-cut",
					fmt.Sprintf("%v after the congested transit link b-c was cut and the routes settled on the detour b-x-c, %s is still waiting to hand a datagram to the writer of the vanished link; the stream has not moved a byte since (%d of %d read)", time.Since(t0).Round(time.Second), who, now, sp.TotalAB+sp.TotalBA)}
				d.CloseConnection()
				a.CloseConnection()

				return
			}
		}
	}()
	r := runTransfer(lg, sp, meshEnd(d), meshEnd(a), o.seed*131+idx, o.ceiling)
	_ = d.CloseConnection()
	_ = a.CloseConnection()
	out.Lines, out.Sig, out.What, out.Inconcl, out.Wall = lg.lines, r.sig, r.what, r.inconcl, r.wall.Seconds()
	select {
	case v := <-vch:
		out.Sig, out.What, out.Inconcl = v.sig, v.what, ""
	default:
		cutAt, after := -1, 0
		for i, l := range lg.lines {
			if l.Ev == "cut" && l.Note == "transit" {
				cutAt = i
			} else if cutAt >= 0 && l.Ev == "r" {
				after++
			}
		}
		out.Detail = map[string]any{"cut": "b-c after stall", "cut_at_line": cutAt, "reads_after_cut": after}
		if out.Sig == "" && out.Inconcl == "" && after == 0 {
			out.Inconcl = out.Name + ": the link was stalled and cut too late to matter"
		}
		if out.Sig != "" {
			out.Sig = "reroute-stall-transit:" + out.Sig
		}
	}
	out.Faults = faultCounters(m)

	return out
}

// ---------------------------------------------------------------- command

func cmdC03(args []string) {
	fs := flag.NewFlagSet("c03", flag.ExitOnError)
	outPath := fs.String("out", "result.json", "result file")
	seed := fs.Int64("seed", 1, "seed")
	total := fs.Int64("total", 256<<10, "bytes per direction")
	traceOut := fs.String("trace", "stream.ndjson", "trace for TLC")
	dir := fs.String("dir", ".", "scratch directory")
	tier := fs.String("tier", "quick", "quick|thorough")
	only := fs.String("only", "", "run only scenarios whose name contains this")
	par := fs.Int("par", 4, "parallel scenarios")
	ceiling := fs.Duration("ceiling", 150*time.Second, "per-transfer ceiling")
	_ = fs.Parse(args)
	res := &Result{Counters: map[string]int{}, Extra: map[string]any{}}
	defer res.write(*outPath)
	// anti-vacuity: count the injected notices that a stream's own socket accepted as its own (hook event unr_socket)
	var unrSeen atomic.Int64
	verifhook.SetSink(func(r verifhook.Record) {
		if r["ev"] == "unr_socket" {
			unrSeen.Add(1)
		}
	})
	defer func() { res.Counters["notices_seen_by_stream_sockets"] = int(unrSeen.Load()) }()
	o := c03opts{seed: *seed, total: *total, maxChunk: 256 << 10, ceiling: *ceiling, lossMax: 12, dir: *dir}
	type job struct {
		name string
		run  func() scenarioOut
	}
	jobs := []job{}
	idx := int64(0)
	addDirect := func(tn, variant string, total int64) {
		idx++
		i, tp := idx, topos[tn]
		oo := o
		oo.total = total
		jobs = append(jobs, job{"direct/" + tn + "/" + variant, func() scenarioOut { return runDirect(oo, tp, variant, i) }})
	}
	variants := []string{"bulk", "asym", "reply", "oneway"}
	reps := 3
	if *tier == "thorough" {
		reps = 30
	}
	for rep := 0; rep < reps; rep++ {
		for k, tn := range []string{"chain1", "chain2", "chain3", "chain4", "diamond"} {
			v := "bulk"
			if rep > 0 {
				v = variants[(rep+k)%4]
			}
			addDirect(tn, v, o.total)
		}
		addDirect("cut_transit", variants[rep%2*3], o.total) // bulk / oneway
		if rep < 4 {
			idx++
			i, v := idx, variants[rep%2*3]
			jobs = append(jobs, job{"direct/stall_cut_transit/" + v, func() scenarioOut { return runStallCut(o, v, i) }})
		}
		for _, v := range []string{"json", "halfclose", "string"}[:min(3, rep+2)] {
			idx++
			i, v := idx, v
			jobs = append(jobs, job{"connect/" + v, func() scenarioOut { return runConnect(o, i, v) }})
		}
		for _, v := range []string{"bulk", "oneway"} {
			idx++
			i, v := idx, v
			jobs = append(jobs, job{"tcpproxy/" + v, func() scenarioOut { return runProxy(o, i, v) }})
		}
	}
	addDirect("cut_endpoint", "bulk", o.total)
	for k := 0; k < 2; k++ {
		idx++
		i := idx
		jobs = append(jobs, job{"sibling/teardown", func() scenarioOut { return runSibling(o, i) }})
	}
	if *tier == "thorough" {
		addDirect("cut_endpoint", "oneway", o.total)
		addDirect("chain2", "longlived", o.total)
		addDirect("chain1", "longlived", o.total)
		addDirect("chain2", "bulk", 8<<20)
		addDirect("chain4", "bulk", 2<<20)
		addDirect("diamond", "bulk", 4<<20)
		addDirect("cut_transit", "bulk", 4<<20)
	}
	outs := make([]scenarioOut, len(jobs)+1)
	if *only == "" || strings.Contains("dialctx/cancel-after-dial", *only) {
		// alone, before anything else dials: its gate is process-wide
		idx++
		dreps := 10
		if *tier == "thorough" {
			dreps = 60
		}
		t0 := time.Now()
		outs[len(jobs)] = runDialCtx(o, idx, dreps)
		outs[len(jobs)].Wall = time.Since(t0).Seconds()
	}
	sem := make(chan struct{}, *par)
	var wg sync.WaitGroup
	for j := range jobs {
		if *only != "" && !strings.Contains(jobs[j].name, *only) {
			continue
		}
		wg.Add(1)
		go func(j int) {
			defer wg.Done()
			sem <- struct{}{}
			defer func() { <-sem }()
			outs[j] = jobs[j].run()
		}(j)
	}
	wg.Wait()
	f, err := os.Create(*traceOut)
	if err != nil {
		res.inconclusive("trace: %v", err)

		return
	}
	enc := json.NewEncoder(f)
	distinct := map[string]bool{}
	summary := []any{}
	for _, so := range outs {
		if so.Name == "" {
			continue
		}
		res.count("transfers")
		if so.Inconcl != "" {
			res.inconclusive("%s", so.Inconcl)
		}
		if so.Sig != "" {
			sig := "C03:" + strings.SplitN(so.Name, "/", 2)[0] + ":" + so.Sig
			if strings.HasPrefix(so.Sig, "reroute:") || strings.HasPrefix(so.Sig, "accept:") || strings.HasPrefix(so.Sig, "sibling-stream-killed") || strings.HasPrefix(so.Sig, "service-gone") {
				sig = "C03:" + so.Sig
			}
			res.violate(sig, so.Name+": "+so.What, map[string]any{"scenario": so.Name, "seed": *seed, "spec": so.Spec, "faults": so.Faults})
		}
		for _, l := range so.Lines {
			_ = enc.Encode(l)
			if l.Ev == "notice" {
				res.count("notices_injected")
			}
			if l.Ev == "w" || l.Ev == "r" {
				res.Evaluations++
				distinct[fmt.Sprintf("%s/%s/%s/%d/%d", so.Name, l.Ev, l.Dir, l.Off, l.Len)] = true
			}
		}
		for k, v := range so.Faults {
			res.Counters[k] += v
		}
		summary = append(summary, map[string]any{"name": so.Name, "wall_s": so.Wall, "spec": so.Spec, "faults": so.Faults, "lines": len(so.Lines), "sig": so.Sig, "inconclusive": so.Inconcl, "detail": so.Detail})
		if len(res.Samples) < 2 && len(so.Lines) > 8 {
			res.Samples = append(res.Samples, map[string]any{"scenario": so.Name, "first_events": so.Lines[:8]})
		}
	}
	f.Close()
	res.Distinct = len(distinct)
	res.Extra["scenarios"] = summary
	res.TraceFiles = []string{*traceOut}
}
