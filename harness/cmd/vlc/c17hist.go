package main

import (
	"context"
	"encoding/json"
	"flag"
	"fmt"
	"io"
	"math/rand"
	"net"
	"os"
	"sort"
	"strings"
	"sync"
	"time"

	"github.com/ansible/receptor/pkg/netceptor"
	"github.com/ansible/receptor/pkg/verifhook"
	"verif/harness/mesh"
	"verif/harness/trace"
)

// B2 for C17: a long seeded history of open/dial/ping/traceroute/accept/read/write/close/close-again/cancel
// operations over three real nodes (a - b - c), with concurrent senders to the object being closed. After the
// history everything the driver still holds is closed ("both ends done"), the mesh is left to quiesce, and the
// listener registries and the goroutine profile must be back at the baseline taken before the history. A residue
// is only a leak if it grows in proportion to the history: the history is continued with twice as many operations
// and the residues are compared. Finally every node is shut down and all of its goroutines must end.

func init() { commands["c17hist"] = cmdC17Hist }

type hSock struct {
	node   string
	svc    string
	pc     netceptor.PacketConner
	adv    bool
	closed int
}

type hListener struct {
	node   string
	svc    string
	li     *netceptor.Listener
	closed int
	mu     sync.Mutex
	got    map[string]*netceptor.Conn // accepted connections by the dialler's address
	pumped bool
}

// pump accepts continuously; connections are matched to dials by the dialler's (ephemeral) address, so that a
// connection completed on the accepting side for a dial that was cancelled cannot be mistaken for the next one.
func (l *hListener) pump() {
	l.mu.Lock()
	if l.pumped {
		l.mu.Unlock()

		return
	}
	l.pumped, l.got = true, map[string]*netceptor.Conn{}
	l.mu.Unlock()
	go func() {
		for {
			c, err := l.li.Accept()
			if err != nil {
				if strings.Contains(err.Error(), "listener closed") {
					return
				}
				time.Sleep(time.Millisecond)

				continue
			}
			l.mu.Lock()
			l.got[c.RemoteAddr().String()] = c.(*netceptor.Conn)
			l.mu.Unlock()
		}
	}()
}

func (l *hListener) take(addr string, ceiling time.Duration) *netceptor.Conn {
	var c *netceptor.Conn
	waitUntil(ceiling, time.Millisecond, func() bool {
		l.mu.Lock()
		defer l.mu.Unlock()
		c = l.got[addr]
		delete(l.got, addr)

		return c != nil
	})

	return c
}

// strays closes connections nobody asked for (accepted for a dial that was cancelled).
func (l *hListener) strays() {
	l.mu.Lock()
	defer l.mu.Unlock()
	for k, c := range l.got {
		_ = c.CloseConnection()
		delete(l.got, k)
	}
}

type hStream struct {
	id       int
	dn, an   string // dialling / accepting node
	d, a     *netceptor.Conn
	dSvc     string // ephemeral service of the dialling side
	dOps     string // calls made so far on each end: c = Close, C = CloseConnection
	aOps     string
	halfOnly bool // deliberately left with Close on both ends only (known finding scenario)
}

type hist struct {
	res     *Result
	rng     *rand.Rand
	m       *mesh.Mesh
	nodes   []*mesh.Node
	socks   []*hSock
	lis     []*hListener
	perm    []*hListener // one long-lived listener per node: part of the baseline, closed only after the residue is measured
	streams []*hStream
	seq     int
	oplog   []string
	kinds   map[string]int
	out     string
	dialSvc map[string]string // ephemeral names created by our dials -> kind (for leak attribution)
}

func (h *hist) logf(f string, a ...any) {
	s := fmt.Sprintf(f, a...)
	h.oplog = append(h.oplog, s)
	k := strings.SplitN(s, " ", 2)[0]
	h.kinds[k]++
	if os.Getenv("VERIF_DEBUG") != "" {
		fmt.Fprintln(os.Stderr, "op", len(h.oplog), s)
	}
}

func (h *hist) name() string {
	h.seq++

	return fmt.Sprintf("s%06d", h.seq)
}

func (h *hist) node(id string) *mesh.Node { return h.m.Nodes[id] }

func (h *hist) pick() *mesh.Node { return h.nodes[h.rng.Intn(len(h.nodes))] }

func (h *hist) other(n *mesh.Node) *mesh.Node {
	for {
		o := h.pick()
		if o != n {
			return o
		}
	}
}

func cmdC17Hist(args []string) {
	fs := flag.NewFlagSet("c17hist", flag.ExitOnError)
	out := fs.String("out", "hist.json", "result file")
	seed := fs.Int64("seed", 1, "seed")
	ops := fs.Int("ops", 200, "operations in the first history (the confirmation history has twice as many)")
	traceOut := fs.String("trace", "", "per-object event trace for TLC (ndjson)")
	halfOnly := fs.Bool("halfonly", false, "run the known-finding scenario instead: streams closed with Close on both ends only")
	_ = fs.Parse(args)
	res := &Result{Extra: map[string]any{}}
	col := trace.Install()
	netceptor.MaxIdleTimeoutForQuicConnections = 4 * time.Second
	m, err := buildMesh(*seed, []string{"a", "b", "c"}, []string{"a-b", "b-c"}, mesh.Opts{RouteUpdate: 300 * time.Millisecond})
	if err != nil {
		res.inconclusive("mesh: %v", err)
		res.write(*out)

		return
	}
	h := &hist{res: res, rng: rand.New(rand.NewSource(*seed)), m: m, kinds: map[string]int{}, dialSvc: map[string]string{}, out: *out}
	for _, id := range []string{"a", "b", "c"} {
		h.nodes = append(h.nodes, m.Nodes[id])
	}
	watchdog := time.AfterFunc(time.Duration(600+*ops)*time.Second, func() {
		res.inconclusive("history did not finish in time; goroutines beyond baseline: %s", diffString(profile()))
		res.write(*out)
		os.Exit(0)
	})
	defer watchdog.Stop()
	// long-running services: a stream's resources must be released while its listener lives on
	for _, n := range h.nodes {
		li, err := n.N.ListenAndAdvertise("perm", nil, nil)
		if err != nil {
			res.inconclusive("listen: %v", err)
			res.write(*out)

			return
		}
		pl := &hListener{node: n.ID, svc: "perm", li: li}
		pl.pump() // its Accept goroutine belongs to the baseline
		h.perm = append(h.perm, pl)
	}
	// warm-up: one of everything, so that lazily created state is part of the baseline
	h.run(12, true)
	h.closeAll()
	base, ok := h.quiesce(nil)
	if !ok {
		res.Notes = append(res.Notes, "warm-up residue (taken as baseline): "+diffString(base.extra))
	}
	baseline := h.snapshot()
	h.oplog = nil
	h.kinds = map[string]int{}
	if *halfOnly {
		h.halfOnlyScenario(baseline)
		res.write(*out)

		return
	}
	// history 1
	h.run(*ops, false)
	h.closeAll()
	r1, clean := h.quiesce(&baseline)
	res.Evaluations = len(h.oplog)
	res.Extra["ops1"] = len(h.oplog)
	res.Extra["residue1"] = r1.describe()
	if !clean {
		// history 2: twice as long; a leak grows with it, a constant residue does not
		n1 := len(h.oplog)
		h.run(2**ops, false)
		h.closeAll()
		r2, _ := h.quiesce(&baseline)
		res.Evaluations = len(h.oplog)
		res.Extra["ops2"] = len(h.oplog) - n1
		res.Extra["residue2"] = r2.describe()
		h.judge(r1, r2, n1, len(h.oplog)-n1)
	}
	res.Counters = h.kinds
	distinct := map[string]bool{}
	for _, o := range h.oplog {
		distinct[o] = true
	}
	res.Distinct = len(h.kinds)
	if len(h.oplog) > 12 {
		res.Samples = append(res.Samples, h.oplog[:12])
	}
	// the long-running services end too (after the residue was measured, before the traces are judged)
	for _, l := range h.perm {
		h.bounded("Listener.Close", 60*time.Second, func() { _ = l.li.Close() })
	}
	// per-object traces for TLC
	if *traceOut != "" {
		n, err := writeObjectTraces(*traceOut, col.Since(0))
		if err != nil {
			res.inconclusive("trace: %v", err)
		}
		res.Extra["trace_objects"] = n
		res.TraceFiles = append(res.TraceFiles, *traceOut)
	}
	// Shutdown stops all background activity
	h.shutdownAll()
	res.write(*out)
}

// ---------------------------------------------------------------- residue accounting

type residue struct {
	reg   map[string][]string // node -> names beyond baseline
	extra map[string]int      // goroutine signature -> count beyond baseline
}

func (r residue) describe() map[string]any {
	return map[string]any{"registry": r.reg, "goroutines": r.extra}
}

type snapshotT struct {
	reg  map[string]map[string]bool
	prof map[string]int
}

func (h *hist) snapshot() snapshotT {
	s := snapshotT{reg: map[string]map[string]bool{}, prof: profile()}
	for _, n := range h.nodes {
		s.reg[n.ID] = map[string]bool{}
		for _, k := range regKeys(n) {
			s.reg[n.ID][k] = true
		}
	}

	return s
}

func (h *hist) residueNow(base *snapshotT) residue {
	r := residue{reg: map[string][]string{}, extra: map[string]int{}}
	if base == nil {
		r.extra = map[string]int{}

		return r
	}
	for _, n := range h.nodes {
		for _, k := range regKeys(n) {
			if !base.reg[n.ID][k] {
				r.reg[n.ID] = append(r.reg[n.ID], k)
			}
		}
	}
	r.extra = profileDiff(base.prof, profile())

	return r
}

func (r residue) empty() bool {
	n := len(r.extra)
	for _, v := range r.reg {
		n += len(v)
	}

	return n == 0
}

// quiesce waits until nothing beyond the baseline is left, or until the residue has been stable for a while
// after a generous ceiling (QUIC idle timeout is 4 s here; the ceiling is 10 times that).
func (h *hist) quiesce(base *snapshotT) (residue, bool) {
	if base == nil {
		// warm-up: wait for the profile to stop changing
		var last string
		stable := 0
		waitUntil(40*time.Second, 250*time.Millisecond, func() bool {
			s := fmt.Sprint(profile(), regSize(h.nodes[0]), regSize(h.nodes[1]), regSize(h.nodes[2]))
			if s == last {
				stable++
			} else {
				stable = 0
			}
			last = s

			return stable >= 16
		})

		return residue{extra: map[string]int{}}, true
	}
	var r residue
	ok := waitUntil(40*time.Second, 100*time.Millisecond, func() bool {
		r = h.residueNow(base)

		return r.empty()
	})

	return r, ok
}

// judge: alarm only on growth proportional to the history length, with an identified stack or registry owner.
func (h *hist) judge(r1, r2 residue, n1, n2 int) {
	for sig, c1 := range r1.extra {
		c2 := r2.extra[sig]
		if c2 >= c1+max(1, c1) {
			h.res.violate("C17:leak:goroutine:"+strings.ReplaceAll(sig, " ", ""),
				fmt.Sprintf("goroutines %q survive the objects that created them and grow with the history: %d after %d operations, %d after %d more (everything closed on both ends, mesh quiescent)", sig, c1, n1, c2, n2),
				map[string]any{"seed_ops": n1, "sig": sig})
		} else {
			h.res.Notes = append(h.res.Notes, fmt.Sprintf("constant residue (not a leak): %s %d -> %d", sig, c1, c2))
		}
	}
	for node, names1 := range r1.reg {
		names2 := r2.reg[node]
		if len(names2) >= len(names1)+max(1, len(names1)) {
			kinds := map[string]int{}
			for _, nm := range names2 {
				k := h.dialSvc[node+":"+nm]
				if k == "" {
					k = "other"
				}
				kinds[k]++
			}
			ks := []string{}
			for k := range kinds {
				ks = append(ks, k)
			}
			sort.Strings(ks)
			h.res.violate("C17:leak:registry:"+strings.Join(ks, "+"),
				fmt.Sprintf("node %s keeps service names registered after their owners were closed on both ends, growing with the history: %d after %d operations, %d after %d more (created by: %v)", node, len(names1), n1, len(names2), n2, kinds),
				map[string]any{"node": node, "names": names2})
		} else {
			h.res.Notes = append(h.res.Notes, fmt.Sprintf("constant registry residue on %s (not a leak): %v -> %v", node, names1, names2))
		}
	}
}

func (h *hist) shutdownAll() {
	for _, n := range h.nodes {
		h.m.Stop(n.ID)
	}
	var left map[string]int
	ok := waitUntil(40*time.Second, 100*time.Millisecond, func() bool {
		left = profile()

		return len(left) == 0
	})
	if !ok {
		h.res.violate("C17:shutdown:goroutine:"+topSig(left), "goroutines still running 40 s after Shutdown of every node: "+diffString(left), nil)
	}
	h.res.count("shutdown_checked")
}

// ---------------------------------------------------------------- the history

// closeSock: a socket Close that never returns because a delivery holds the registry wedges the whole node: judged
// and reported at once (the accounting that follows would block on the same lock).
func (h *hist) closeSock(pc netceptor.PacketConner, what string) {
	ok, dead := closeBounded(pc.Close, 30*time.Second)
	if ok {
		return
	}
	if dead {
		h.res.violate("C17:hist:close-blocked-by-delivery", "PacketConn.Close never returns ("+what+"): it waits for the registry write lock while a deliverer holding the read lock waits in the hand-over select for Close's cancel", map[string]any{"ops": len(h.oplog)})
	} else {
		h.res.inconclusive("PacketConn.Close did not return within 30 s (%s)", what)
	}
	h.res.Evaluations = len(h.oplog)
	h.res.write(h.out)
	os.Exit(0)
}

func (h *hist) bounded(what string, d time.Duration, f func()) bool {
	if within(d, f) {
		return true
	}
	h.res.inconclusive("operation did not return within %v: %s", d, what)

	return false
}

func (h *hist) run(n int, warm bool) {
	for i := 0; i < n; i++ {
		if len(h.res.Inconclusive) > 0 {
			return
		}
		k := h.rng.Intn(100)
		if warm {
			k = []int{0, 12, 22, 30, 38, 46, 56, 62, 70, 80, 90, 96}[i%12]
		}
		switch {
		case k < 10:
			h.opOpenSock()
		case k < 20:
			h.opCloseSock(false)
		case k < 24:
			h.opCloseSock(true)
		case k < 34:
			h.opTraffic()
		case k < 42:
			h.opListen()
		case k < 46:
			h.opCloseListener()
		case k < 62:
			h.opDial()
		case k < 70:
			h.opStreamIO()
		case k < 82:
			h.opStreamClose()
		case k < 88:
			h.opDialFail()
		case k < 96:
			h.opPing()
		default:
			h.opTraceroute()
		}
	}
}

func (h *hist) opOpenSock() {
	if len(h.socks) > 12 {
		h.opCloseSock(true)

		return
	}
	n := h.pick()
	s := &hSock{node: n.ID, svc: h.name(), adv: h.rng.Intn(2) == 0}
	var err error
	if s.adv {
		s.pc, err = n.N.ListenPacketAndAdvertise(s.svc, map[string]string{"t": "x"})
	} else {
		s.pc, err = n.N.ListenPacket(s.svc)
	}
	if err != nil {
		h.res.inconclusive("open socket: %v", err)

		return
	}
	h.socks = append(h.socks, s)
	h.logf("open_sock %s %s adv=%v", s.node, s.svc, s.adv)
}

// opCloseSock closes a socket while local and remote senders (and sometimes a reader) are busy with it.
func (h *hist) opCloseSock(underFire bool) {
	if len(h.socks) == 0 {
		h.opOpenSock()

		return
	}
	i := h.rng.Intn(len(h.socks))
	s := h.socks[i]
	n := h.node(s.node)
	if !underFire || s.closed > 0 {
		_ = s.pc.Close()
		s.closed++
		h.logf("close_sock %s %s again=%v", s.node, s.svc, s.closed > 1)
		if s.closed > 1 || h.rng.Intn(3) == 0 {
			_ = s.pc.Close()
			s.closed++
			h.socks = append(h.socks[:i], h.socks[i+1:]...)
			h.logf("close_sock_again %s %s", s.node, s.svc)
		}

		return
	}
	stop := make(chan struct{})
	var wg sync.WaitGroup
	senders := []netceptor.PacketConner{}
	for _, sn := range []*mesh.Node{n, n, h.other(n)} {
		src, err := sn.N.ListenPacket("")
		if err != nil {
			continue
		}
		senders = append(senders, src)
		wg.Add(1)
		go func(src netceptor.PacketConner, remote bool) {
			defer wg.Done()
			for j := 0; ; j++ {
				select {
				case <-stop:
					return
				default:
				}
				_, _ = src.WriteTo([]byte{byte(j)}, n.N.NewAddr(n.ID, s.svc))
				if remote {
					time.Sleep(100 * time.Microsecond)
				}
			}
		}(src, sn != n)
	}
	reader := h.rng.Intn(2) == 0
	if reader {
		wg.Add(1)
		go func() {
			defer wg.Done()
			for {
				if _, _, err := s.pc.ReadFrom(make([]byte, 8)); err != nil {
					return
				}
			}
		}()
	}
	time.Sleep(time.Duration(200+h.rng.Intn(3000)) * time.Microsecond)
	h.closeSock(s.pc, "closed under fire")
	s.closed++
	if h.rng.Intn(2) == 0 {
		_ = s.pc.Close()
		s.closed++
	}
	time.Sleep(time.Duration(h.rng.Intn(1000)) * time.Microsecond)
	close(stop)
	h.bounded("senders/reader of a socket closed under fire", 30*time.Second, wg.Wait)
	for _, src := range senders {
		_ = src.Close()
	}
	h.socks = append(h.socks[:i], h.socks[i+1:]...)
	h.logf("close_sock_under_fire %s %s reader=%v closes=%d", s.node, s.svc, reader, s.closed)
}

func (h *hist) opTraffic() {
	if len(h.socks) == 0 {
		h.opOpenSock()

		return
	}
	s := h.socks[h.rng.Intn(len(h.socks))]
	if s.closed > 0 {
		// reading a closed socket must fail, writing to it must not block
		var err error
		h.bounded("ReadFrom on a closed socket", 10*time.Second, func() { _, _, err = s.pc.ReadFrom(make([]byte, 8)) })
		if err == nil {
			h.res.violate("C17:readfrom-data-after-close", "ReadFrom returned without error on a closed socket", nil)
		}
		h.logf("read_closed %s %s", s.node, s.svc)

		return
	}
	n := h.node(s.node)
	src, err := h.other(n).N.ListenPacket("")
	if err != nil {
		return
	}
	cnt := 1 + h.rng.Intn(3)
	got := 0
	var wg sync.WaitGroup
	wg.Add(1)
	go func() {
		defer wg.Done()
		_ = s.pc.SetReadDeadline(time.Now().Add(5 * time.Second))
		for got < cnt {
			if _, _, err := s.pc.ReadFrom(make([]byte, 8)); err != nil {
				break
			}
			got++
		}
		_ = s.pc.SetReadDeadline(time.Time{})
	}()
	for j := 0; j < cnt; j++ {
		_, _ = src.WriteTo([]byte{byte(j)}, n.N.NewAddr(n.ID, s.svc))
	}
	h.bounded("datagram reader", 30*time.Second, wg.Wait)
	_ = src.Close()
	h.logf("traffic %s %s n=%d got=%d", s.node, s.svc, cnt, got)
}

func (h *hist) opListen() {
	if len(h.lis) > 5 {
		h.opCloseListener()

		return
	}
	n := h.pick()
	l := &hListener{node: n.ID, svc: h.name()}
	var err error
	if h.rng.Intn(2) == 0 {
		l.li, err = n.N.ListenAndAdvertise(l.svc, nil, nil)
	} else {
		l.li, err = n.N.Listen(l.svc, nil)
	}
	if err != nil {
		h.res.inconclusive("listen: %v", err)

		return
	}
	h.lis = append(h.lis, l)
	h.logf("listen %s %s", l.node, l.svc)
}

func (h *hist) opCloseListener() {
	if len(h.lis) == 0 {
		return
	}
	i := h.rng.Intn(len(h.lis))
	l := h.lis[i]
	// sometimes with a dial in flight
	var wg sync.WaitGroup
	inflight := h.rng.Intn(2) == 0
	var dc *netceptor.Conn
	if inflight {
		dn := h.other(h.node(l.node))
		l.pump()
		wg.Add(1)
		go func() {
			defer wg.Done()
			ctx, cancel := context.WithTimeout(context.Background(), 40*time.Second)
			defer cancel()
			dc, _ = dn.N.DialContext(ctx, l.node, l.svc, nil)
		}()
		time.Sleep(time.Duration(h.rng.Intn(10000)) * time.Microsecond)
	}
	if !h.bounded("Listener.Close", 60*time.Second, func() { _ = l.li.Close() }) {
		return
	}
	l.closed++
	if h.rng.Intn(2) == 0 {
		_ = l.li.Close()
		l.closed++
	}
	h.bounded("Accept / in-flight dial after Listener.Close", 90*time.Second, wg.Wait)
	if dc != nil {
		_ = dc.CloseConnection()
	}
	l.strays()
	// streams accepted from this listener earlier are closed by the listener (conn.Close on li.doneChan):
	// the application still has to finish them; that happens in opStreamClose / closeAll
	h.lis = append(h.lis[:i], h.lis[i+1:]...)
	h.logf("close_listener %s %s inflight=%v dialled=%v accepted=%v closes=%d", l.node, l.svc, inflight, dc != nil, false, l.closed)
}

func (h *hist) opDial() {
	if len(h.lis) == 0 {
		h.opListen()
	}
	if len(h.lis) == 0 || len(h.streams) > 10 {
		h.opStreamClose()

		return
	}
	l := h.lis[h.rng.Intn(len(h.lis))]
	if h.rng.Intn(2) == 0 {
		l = h.perm[h.rng.Intn(len(h.perm))]
	}
	dn := h.other(h.node(l.node))
	l.pump()
	ctx, cancel := context.WithTimeout(context.Background(), 60*time.Second)
	defer cancel()
	var d *netceptor.Conn
	var err error
	if !h.bounded("DialContext", 90*time.Second, func() { d, err = dn.N.DialContext(ctx, l.node, l.svc, nil) }) {
		return
	}
	if err != nil {
		h.res.inconclusive("dial %s -> %s:%s failed: %v", dn.ID, l.node, l.svc, err)

		return
	}
	ac := l.take(d.LocalAddr().String(), 60*time.Second)
	if ac == nil {
		h.res.inconclusive("accept did not return")
		_ = d.CloseConnection()

		return
	}
	h.seq++
	st := &hStream{id: h.seq, dn: dn.ID, an: l.node, d: d, a: ac}
	if a, ok := d.LocalAddr().(netceptor.Addr); ok {
		st.dSvc = strings.SplitN(a.String(), ":", 2)[1]
		h.dialSvc[dn.ID+":"+st.dSvc] = "dial"
	}
	h.streams = append(h.streams, st)
	h.logf("dial %s -> %s:%s", dn.ID, l.node, l.svc)
}

func (h *hist) opStreamIO() {
	if len(h.streams) == 0 {
		h.opDial()

		return
	}
	st := h.streams[h.rng.Intn(len(h.streams))]
	w, r := st.d, st.a
	wOps, rOps := st.dOps, st.aOps
	if h.rng.Intn(2) == 0 {
		w, r = st.a, st.d
		wOps, rOps = st.aOps, st.dOps
	}
	if wOps != "" || strings.Contains(rOps, "C") {
		h.logf("stream_io_skip %d", st.id)

		return
	}
	n := 1 + h.rng.Intn(3000)
	buf := make([]byte, n)
	var werr, rerr error
	h.bounded("stream write", 60*time.Second, func() { _, werr = w.Write(buf) })
	_ = r.SetReadDeadline(time.Now().Add(30 * time.Second))
	h.bounded("stream read", 60*time.Second, func() { _, rerr = io.ReadFull(r, buf) })
	_ = r.SetReadDeadline(time.Time{})
	h.logf("stream_io %d n=%d werr=%v rerr=%v", st.id, n, werr != nil, rerr != nil)
}

// opStreamClose performs one close call (Close or CloseConnection, possibly repeated) on one end of a stream.
func (h *hist) opStreamClose() {
	if len(h.streams) == 0 {
		return
	}
	i := h.rng.Intn(len(h.streams))
	st := h.streams[i]
	dial := h.rng.Intn(2) == 0
	cc := h.rng.Intn(2) == 0
	h.closeCall(st, dial, cc)
	if h.rng.Intn(4) == 0 {
		h.closeCall(st, dial, h.rng.Intn(2) == 0) // close again, either kind
	}
	if st.dOps != "" && st.aOps != "" {
		h.finishStream(st)
		h.streams = append(h.streams[:i], h.streams[i+1:]...)
	}
}

func (h *hist) closeCall(st *hStream, dial, cc bool) {
	c, ops := st.a, &st.aOps
	if dial {
		c, ops = st.d, &st.dOps
	}
	if cc {
		h.bounded("CloseConnection", 30*time.Second, func() { _ = c.CloseConnection() })
		*ops += "C"
	} else {
		h.bounded("Conn.Close", 30*time.Second, func() { _ = c.Close() })
		*ops += "c"
	}
	h.logf("stream_close %d side=%s kind=%s", st.id, map[bool]string{true: "dial", false: "accept"}[dial], map[bool]string{true: "CloseConnection", false: "Close"}[cc])
}

// finishStream: both ends have made a close call. A stream that only saw Close() (half close) on both ends is
// ended by one CloseConnection from a seeded side, like the work-unit code does; the Close-only case is the
// subject of the separate -halfonly scenario (open finding).
func (h *hist) finishStream(st *hStream) {
	if !strings.Contains(st.dOps, "C") && !strings.Contains(st.aOps, "C") {
		h.closeCall(st, h.rng.Intn(2) == 0, true)
	}
}

func (h *hist) opDialFail() {
	n := h.pick()
	o := h.other(n)
	switch h.rng.Intn(3) {
	case 0: // nobody listens
		var err error
		var c *netceptor.Conn
		// every other time the caller's context outlives the dial (Dial uses context.Background()): the dial is ended
		// by the 'service unknown' notice alone
		if h.rng.Intn(2) == 0 {
			h.bounded("dial to a dead service", 90*time.Second, func() { c, err = n.N.Dial(o.ID, "nosuch", nil) })
		} else {
			ctx, cancel := context.WithTimeout(context.Background(), 40*time.Second)
			h.bounded("dial to a dead service", 90*time.Second, func() { c, err = n.N.DialContext(ctx, o.ID, "nosuch", nil) })
			cancel()
		}
		if err == nil && c != nil {
			h.res.violate("C17:dial-dead-succeeded", "dial to a service nobody listens on succeeded", nil)
			_ = c.CloseConnection()
		}
		h.logf("dial_dead %s -> %s", n.ID, o.ID)
	case 1: // unknown node
		ctx, cancel := context.WithTimeout(context.Background(), 10*time.Second)
		c, err := n.N.DialContext(ctx, "nowhere", "x", nil)
		cancel()
		if err == nil {
			_ = c.CloseConnection()
		}
		h.logf("dial_noroute %s", n.ID)
	default: // cancelled mid-dial
		if len(h.lis) == 0 {
			h.opListen()
		}
		if len(h.lis) == 0 {
			return
		}
		l := h.lis[h.rng.Intn(len(h.lis))]
		dn := h.other(h.node(l.node))
		l.pump()
		ctx, cancel := context.WithCancel(context.Background())
		delay := time.Duration(h.rng.Intn(9000)) * time.Microsecond
		go func() { time.Sleep(delay); cancel() }()
		var c *netceptor.Conn
		var err error
		h.bounded("DialContext with cancelled context", 90*time.Second, func() { c, err = dn.N.DialContext(ctx, l.node, l.svc, nil) })
		cancel()
		if err == nil && c != nil {
			_ = c.CloseConnection()
		}
		time.Sleep(20 * time.Millisecond)
		l.strays()
		h.logf("dial_cancel %s -> %s:%s completed=%v", dn.ID, l.node, l.svc, err == nil)
	}
}

func (h *hist) opPing() {
	n := h.pick()
	o := h.other(n)
	kind := h.rng.Intn(4)
	ctx, cancel := context.WithTimeout(context.Background(), 15*time.Second)
	defer cancel()
	var err error
	switch kind {
	case 0:
		_, _, err = n.N.Ping(ctx, o.ID, 10)
	case 1:
		_, _, err = n.N.Ping(ctx, "nowhere", 10)
	case 2:
		_, _, err = n.N.Ping(ctx, o.ID, 0)
	default:
		c2, cancel2 := context.WithCancel(context.Background())
		go func() { time.Sleep(time.Duration(h.rng.Intn(500)) * time.Microsecond); cancel2() }()
		_, _, err = n.N.Ping(c2, o.ID, 10)
		cancel2()
	}
	h.logf("ping %s -> %s kind=%d ok=%v", n.ID, o.ID, kind, err == nil)
}

func (h *hist) opTraceroute() {
	n := h.pick()
	o := h.other(n)
	hops := 0
	h.bounded("traceroute", 60*time.Second, func() {
		for range n.N.Traceroute(context.Background(), o.ID) {
			hops++
		}
	})
	h.logf("traceroute %s -> %s hops=%d", n.ID, o.ID, hops)
}

// closeAll: the application finishes with everything it still holds.
func (h *hist) closeAll() {
	for _, st := range h.streams {
		if st.dOps == "" {
			h.closeCall(st, true, h.rng.Intn(2) == 0)
		}
		if st.aOps == "" {
			h.closeCall(st, false, h.rng.Intn(2) == 0)
		}
		h.finishStream(st)
	}
	h.streams = nil
	time.Sleep(50 * time.Millisecond)
	for _, l := range h.perm {
		l.strays()
	}
	for _, l := range h.lis {
		l.strays()
		h.bounded("Listener.Close", 60*time.Second, func() { _ = l.li.Close() })
		h.logf("close_listener %s %s final", l.node, l.svc)
	}
	h.lis = nil
	for _, s := range h.socks {
		_ = s.pc.Close()
		h.logf("close_sock %s %s final", s.node, s.svc)
	}
	h.socks = nil
}

// halfOnlyScenario: streams on which both ends only ever call Close() (like utils.BridgeConns does).
func (h *hist) halfOnlyScenario(base snapshotT) {
	n, o := h.node("a"), h.node("c")
	li, err := n.N.ListenAndAdvertise("half", nil, nil)
	if err != nil {
		h.res.inconclusive("listen: %v", err)

		return
	}
	h.lis = append(h.lis, &hListener{node: "a", svc: "half", li: li})
	time.Sleep(500 * time.Millisecond)
	base = h.snapshot() // the open listener belongs to the baseline
	const k = 5
	for i := 0; i < k; i++ {
		h.opDialTo(h.lis[0], o)
	}
	for _, st := range h.streams {
		// each end writes, closes its writing side, and reads the other's data to EOF
		for _, c := range []*netceptor.Conn{st.d, st.a} {
			_, _ = c.Write([]byte("bye"))
			_ = c.Close()
		}
		for _, c := range []*netceptor.Conn{st.d, st.a} {
			_ = c.SetReadDeadline(time.Now().Add(20 * time.Second))
			b, err := io.ReadAll(c)
			if err != nil || string(b) != "bye" {
				h.res.inconclusive("half-close exchange failed: %q %v", b, err)
			}
		}
	}
	h.res.Evaluations = len(h.streams)
	h.streams = nil
	// the listener stays open (a long-running service); three idle timeouts later the streams' resources should be gone
	defer func() { _ = li.Close() }()
	var r residue
	ok := waitUntil(3*netceptor.MaxIdleTimeoutForQuicConnections+5*time.Second, 200*time.Millisecond, func() bool {
		r = h.residueNow(&base)

		return r.empty()
	})
	h.res.Extra["residue"] = r.describe()
	if !ok && len(r.reg["c"]) >= k {
		h.res.violate("C17:leak:stream-closed-by-Close-on-both-ends",
			fmt.Sprintf("%d streams were closed with Conn.Close() on both ends after all data had been read to EOF; %v later the dialling node still has %d ephemeral services registered and these goroutines: %s",
				k, 3*netceptor.MaxIdleTimeoutForQuicConnections+5*time.Second, len(r.reg["c"]), diffString(r.extra)), map[string]any{"streams": k})
	} else if !ok {
		h.res.Notes = append(h.res.Notes, "half-only residue: "+fmt.Sprint(r.describe()))
	}
}

func (h *hist) opDialTo(l *hListener, dn *mesh.Node) {
	ach := make(chan net.Conn, 1)
	go func() { c, _ := l.li.Accept(); ach <- c }()
	ctx, cancel := context.WithTimeout(context.Background(), 60*time.Second)
	defer cancel()
	d, err := dn.N.DialContext(ctx, l.node, l.svc, nil)
	if err != nil {
		h.res.inconclusive("dial: %v", err)

		return
	}
	select {
	case c := <-ach:
		if c == nil {
			h.res.inconclusive("accept failed")

			return
		}
		h.streams = append(h.streams, &hStream{dn: dn.ID, an: l.node, d: d, a: c.(*netceptor.Conn)})
	case <-time.After(60 * time.Second):
		h.res.inconclusive("accept did not return")
	}
}

// ---------------------------------------------------------------- per-object traces

type objLine struct {
	Ev  string `json:"ev"`
	Obj string `json:"obj,omitempty"`
	Adv bool   `json:"adv"`
}

// writeObjectTraces projects the hook events on (node, service) objects and writes one segment per object:
// reset, then the object's events in order (open, begin, deliver, drop, unknown, close).
func writeObjectTraces(path string, recs []verifhook.Record) (int, error) {
	per := map[string][]objLine{}
	order := []string{}
	add := func(k string, l objLine) {
		if _, ok := per[k]; !ok {
			order = append(order, k)
		}
		per[k] = append(per[k], l)
	}
	for _, r := range recs {
		n, _ := r["n"].(string)
		n = strings.SplitN(n, "@", 2)[0] // pc_* events carry the node id, dp_* events the instance label id@epoch
		ev, _ := r["ev"].(string)
		svc, _ := r["svc"].(string)
		switch ev {
		case "pc_open":
			adv, _ := r["adv"].(bool)
			add(n+"/"+svc, objLine{Ev: "open", Adv: adv})
		case "pc_close":
			add(n+"/"+svc, objLine{Ev: "close"})
		case "dp_begin":
			add(n+"/"+svc, objLine{Ev: "begin"})
		case "dp_deliver":
			add(n+"/"+svc, objLine{Ev: "deliver"})
		case "dp_deliver_closed":
			add(n+"/"+svc, objLine{Ev: "drop"})
		case "dp_unknown":
			svc, _ = r["tosvc"].(string)
			add(n+"/"+svc, objLine{Ev: "unknown"})
		}
	}
	f, err := os.Create(path)
	if err != nil {
		return 0, err
	}
	defer f.Close()
	enc := json.NewEncoder(f)
	for _, k := range order {
		_ = enc.Encode(objLine{Ev: "reset", Obj: k})
		for _, l := range per[k] {
			_ = enc.Encode(l)
		}
	}

	return len(order), nil
}
