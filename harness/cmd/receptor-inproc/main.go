// Command receptor-inproc is the repository's receptor command (cmd/receptor-cl: same packages, same command-line
// and YAML registration, same --command-runner path) plus ONE additional work type implemented in-process: a Go
// WorkUnit built on the repository's BaseWorkUnit, registered through the same cmdline mechanism as work-command.
// It exists for the C13 "in-process units" case (DESIGN.md 4.2, engine E3).
//
//   - work-inproc:
//     worktype: inproc
//
// Payload (stdin of the unit): "<chunks> <delay-ms>\n"; the unit writes that many lines "inproc-chunk-<i>\n" to its
// stdout file through workceptor.STDoutWriter (which records the size in the status file after every write).
package main

import (
	"context"
	"fmt"
	"os"
	"path"
	"sync"
	"time"

	"github.com/ansible/receptor/cmd"
	"github.com/ansible/receptor/pkg/netceptor"
	"github.com/ansible/receptor/pkg/workceptor"
	"github.com/ghjm/cmdline"
)

type inprocUnit struct {
	workceptor.BaseWorkUnitForWorkUnit
	mu     sync.Mutex
	cancel context.CancelFunc
	done   chan struct{}
}

func newInproc(bwu workceptor.BaseWorkUnitForWorkUnit, w *workceptor.Workceptor, unitID string, workType string) workceptor.WorkUnit {
	if bwu == nil {
		bwu = &workceptor.BaseWorkUnit{}
	}
	u := &inprocUnit{BaseWorkUnitForWorkUnit: bwu}
	u.BaseWorkUnitForWorkUnit.Init(w, unitID, workType, workceptor.FileSystem{}, nil)

	return u
}

func (u *inprocUnit) run(ctx context.Context, chunks int, delay time.Duration) {
	defer close(u.done)
	out, err := workceptor.NewStdoutWriter(workceptor.FileSystem{}, u.UnitDir())
	if err != nil {
		u.UpdateBasicStatus(workceptor.WorkStateFailed, "cannot open stdout: "+err.Error(), 0)

		return
	}
	u.UpdateBasicStatus(workceptor.WorkStateRunning, "Running in process", 0)
	for i := 1; i <= chunks; i++ {
		select {
		case <-ctx.Done():
			return // Cancel records the outcome
		case <-time.After(delay):
		}
		if _, err := fmt.Fprintf(out, "inproc-chunk-%d\n", i); err != nil {
			u.UpdateBasicStatus(workceptor.WorkStateFailed, "write error: "+err.Error(), out.Size())

			return
		}
		// progress report through the unit object (updates the daemon's in-memory status as well)
		u.UpdateBasicStatus(workceptor.WorkStateRunning, "Running in process", out.Size())
	}
	u.UpdateBasicStatus(workceptor.WorkStateSucceeded, "done", out.Size())
}

// Start starts the unit.
func (u *inprocUnit) Start() error {
	chunks, delay := 3, 100
	if b, err := os.ReadFile(path.Join(u.UnitDir(), "stdin")); err == nil {
		_, _ = fmt.Sscanf(string(b), "%d %d", &chunks, &delay)
	}
	ctx, cancel := context.WithCancel(context.Background())
	u.mu.Lock()
	u.cancel = cancel
	u.done = make(chan struct{})
	u.mu.Unlock()
	go u.run(ctx, chunks, time.Duration(delay)*time.Millisecond)
	go u.MonitorLocalStatus() // as command units do: reload the record whenever the status file changes

	return nil
}

// Restart: an in-process unit does not survive its process.
func (u *inprocUnit) Restart() error {
	if err := u.Load(); err != nil {
		return err
	}
	if st := u.Status().State; st == workceptor.WorkStatePending || st == workceptor.WorkStateRunning {
		u.UpdateBasicStatus(workceptor.WorkStateFailed, "in-process unit lost at restart", -1)
	}

	return nil
}

// Cancel stops the unit.
func (u *inprocUnit) Cancel() error {
	u.mu.Lock()
	cancel, done := u.cancel, u.done
	u.mu.Unlock()
	if cancel == nil {
		return nil
	}
	cancel()
	<-done
	if !workceptor.IsComplete(u.Status().State) {
		u.UpdateBasicStatus(workceptor.WorkStateCanceled, "Canceled", -1)
	}

	return nil
}

// Release cancels and removes the unit.
func (u *inprocUnit) Release(force bool) error {
	if err := u.Cancel(); err != nil && !force {
		return err
	}

	return u.BaseWorkUnitForWorkUnit.Release(force)
}

// InprocCfg is the configuration item "work-inproc".
type InprocCfg struct {
	WorkType string `required:"true" description:"Name for this worker type"`
}

// Run registers the worker type.
func (cfg InprocCfg) Run() error {
	return workceptor.MainInstance.RegisterWorker(cfg.WorkType, newInproc, false)
}

func init() {
	cmdline.RegisterConfigTypeForApp("receptor-workers", "work-inproc", "Run a worker inside the receptor process (verification harness)", InprocCfg{})
}

func main() {
	cmd.RunConfigV1()
	if netceptor.MainInstance.BackendCount() == 0 {
		fmt.Printf("Nothing to do - no backends are running.\n")
		os.Exit(1)
	}
	<-netceptor.MainInstance.NetceptorDone()
}
