// vstress: start many receptor daemons at once, repeatedly, and report every start that dies, with the process's own
// output (diagnostic tool, DESIGN 12.11); -taken checks that a listener port in use is recognised as such.
package main

import (
	"errors"
	"flag"
	"fmt"
	"net"
	"os"
	"path/filepath"
	"sync"
	"time"

	"verif/harness/daemon"
	"verif/harness/freeport"
)

func freePort() int { return freeport.Must() }

// takenPort: a daemon told to listen on a port somebody else holds must be recognised as such (StartDied.PortTaken),
// not reported as a bare "daemon process died".
func takenPort(bin, dir string) int {
	l, err := net.Listen("tcp", "127.0.0.1:0")
	if err != nil {
		fmt.Println("listen:", err)

		return 2
	}
	defer l.Close()
	d := daemon.New(bin, filepath.Join(dir, "taken"), "n2")
	_ = os.RemoveAll(d.Dir)
	defer d.Cleanup()
	d.TCPPort = l.Addr().(*net.TCPAddr).Port
	err = d.Start(60 * time.Second)
	var sd *daemon.StartDied
	if !errors.As(err, &sd) || !errors.Is(err, daemon.ErrDied) || !sd.PortTaken() {
		fmt.Printf("taken port %d not recognised: %v\n", d.TCPPort, err)

		return 1
	}
	fmt.Printf("taken port recognised: %v\n", err)

	return 0
}

func main() {
	bin := flag.String("bin", "/verif/.work/bin/receptor", "")
	dir := flag.String("dir", "/tmp/vstress", "")
	k := flag.Int("k", 12, "")
	rounds := flag.Int("rounds", 10, "")
	taken := flag.Bool("taken", false, "self-test: start a daemon on a port that is in use")
	flag.Parse()
	if *taken {
		os.Exit(takenPort(*bin, *dir))
	}
	died := 0
	for r := 0; r < *rounds; r++ {
		var wg sync.WaitGroup
		var mu sync.Mutex
		for i := 0; i < *k; i++ {
			wg.Add(1)
			go func(i int) {
				defer wg.Done()
				d := daemon.New(*bin, filepath.Join(*dir, fmt.Sprintf("r%d-%d", r, i)), "n2")
				_ = os.RemoveAll(d.Dir)
				d.TCPPort = freePort()
				t0 := time.Now()
				err := d.Start(60 * time.Second)
				if err != nil {
					mu.Lock()
					died++
					b, _ := os.ReadFile(filepath.Join(d.Dir, "daemon.log"))
					fmt.Printf("round %d #%d port %d after %s: %v\n%s\n", r, i, d.TCPPort, time.Since(t0), err, b)
					mu.Unlock()
				}
				time.Sleep(200 * time.Millisecond)
				d.Cleanup()
			}(i)
		}
		wg.Wait()
	}
	fmt.Println("died", died, "of", *k**rounds)
}
