// Package sftrace reads verifhook traces of status-file operations (events sf_* emitted by
// pkg/workceptor/workunitbase.go), checks them with an acceptor that mirrors specs/StatusFileTrace.tla
// and writes the normalised per-file event sequences that TLC validates against that spec.
package sftrace

import (
	"bufio"
	"crypto/sha1"
	"encoding/hex"
	"encoding/json"
	"fmt"
	"os"
	"sort"
	"strconv"
	"strings"
)

// Event is one raw hook event.
type Event map[string]any

func (e Event) Str(k string) string {
	s, _ := e[k].(string)

	return s
}

func (e Event) Int(k string) int64 {
	switch v := e[k].(type) {
	case float64:
		return int64(v)
	case json.Number:
		n, _ := v.Int64()

		return n
	}

	return 0
}

func (e Event) Bool(k string) bool {
	b, _ := e[k].(bool)

	return b
}

// ReadTrace reads an NDJSON trace file. A last line without newline (a writer killed mid-line cannot
// happen with one write(2) per line, but a truncated copy can) is ignored.
func ReadTrace(path string) ([]Event, error) {
	f, err := os.Open(path)
	if err != nil {
		return nil, err
	}
	defer f.Close()
	var out []Event
	rd := bufio.NewReaderSize(f, 1<<20)
	for {
		line, err := rd.ReadBytes('\n')
		if len(line) > 0 && line[len(line)-1] == '\n' {
			var e Event
			if jerr := json.Unmarshal(line, &e); jerr == nil {
				out = append(out, e)
			} else {
				return out, fmt.Errorf("bad trace line %d: %v", len(out)+1, jerr)
			}
		}
		if err != nil {
			break
		}
	}

	return out, nil
}

// Norm is a normalised status-file event as read by StatusFileTrace.tla.
type Norm struct {
	Ev  string `json:"ev"`  // lock read apply trunc write unlock load save_trunc save_write reset
	A   int    `json:"-"`   // actor (process) index 1..NP (written as "p<A>")
	OK  bool   `json:"ok"`  // read/load parsed
	Z   bool   `json:"z"`   // read: file size was 0 (nothing loaded); load: file did not exist
	Cnt int    `json:"cnt"` // shared counter in the record (0 when the record has none)
	Own []int  `json:"-"`   // per-actor sum of private counters (written as {"p1":..,...})
	H   string `json:"h"`   // hash of the complete record text
	Raw int    `json:"raw"` // index of the raw event in the trace (for reports)
}

// Problem is one departure found by the acceptor.
type Problem struct {
	Sig  string `json:"sig"`
	What string `json:"what"`
	At   int    `json:"at"` // index in the normalised sequence
	File string `json:"file"`
}

func hashRec(s string) string {
	if s == "" {
		return ""
	}
	// canonical form: the same record loaded into a typed or an untyped ExtraData marshals its keys in a different order
	var v any
	if json.Unmarshal([]byte(s), &v) == nil {
		if b, err := json.Marshal(v); err == nil {
			s = string(b)
		}
	}
	h := sha1.Sum([]byte(s))

	return hex.EncodeToString(h[:8])
}

// abstract extracts the shared counter and per-process private counters from a record text written by
// cmd/vsf (ExtraData = {"c": n, "a<pid>_<g>": k, ...}); records of real units yield zeros.
func abstract(rec string, actorOf map[int]int, np int) (int, []int) {
	own := make([]int, np)
	if rec == "" {
		return 0, own
	}
	var d struct {
		ExtraData any
	}
	if json.Unmarshal([]byte(rec), &d) != nil {
		return 0, own
	}
	m, ok := d.ExtraData.(map[string]any)
	if !ok {
		return 0, own
	}
	cnt := 0
	for k, v := range m {
		f, ok := v.(float64)
		if !ok {
			continue
		}
		if k == "c" {
			cnt = int(f)

			continue
		}
		if strings.HasPrefix(k, "a") {
			parts := strings.SplitN(k[1:], "_", 2)
			pid, err := strconv.Atoi(parts[0])
			if err != nil {
				continue
			}
			if a, ok := actorOf[pid]; ok {
				own[a-1] += int(f)
			}
		}
	}

	return cnt, own
}

// FileTrace is the normalised event sequence of one status file.
type FileTrace struct {
	File   string
	Events []Norm
	Raw    []Event
	NP     int
	Pids   []int // actor index-1 -> pid
}

// Split groups the sf_* events by file (resolving name aliases through canon) and normalises them.
func Split(evs []Event, canon func(string) string) []*FileTrace {
	byFile := map[string]*FileTrace{}
	var order []string
	actorOf := map[string]map[int]int{}
	for i, e := range evs {
		ev := e.Str("ev")
		if !strings.HasPrefix(ev, "sf_") {
			continue
		}
		f := e.Str("file")
		if canon != nil {
			f = canon(f)
		}
		ft := byFile[f]
		if ft == nil {
			ft = &FileTrace{File: f}
			byFile[f] = ft
			order = append(order, f)
			actorOf[f] = map[int]int{}
		}
		pid := int(e.Int("p"))
		if _, ok := actorOf[f][pid]; !ok {
			actorOf[f][pid] = len(actorOf[f]) + 1
			ft.Pids = append(ft.Pids, pid)
		}
		e["_raw"] = float64(i)
		ft.Raw = append(ft.Raw, e)
	}
	for _, f := range order {
		ft := byFile[f]
		ft.NP = len(ft.Pids)
		for _, e := range ft.Raw {
			n := Norm{A: actorOf[f][int(e.Int("p"))], Raw: int(e.Int("_raw")), Own: make([]int, ft.NP)}
			rec := e.Str("rec")
			switch e.Str("ev") {
			case "sf_lock":
				n.Ev = "lock"
			case "sf_unlock":
				n.Ev = "unlock"
			case "sf_read":
				n.Ev, n.OK, n.Z = "read", e.Bool("ok"), e.Int("fsize") == 0
			case "sf_apply":
				n.Ev = "apply"
			case "sf_trunc":
				n.Ev = "trunc"
			case "sf_write":
				n.Ev = "write"
			case "sf_load":
				n.Ev, n.OK = "load", e.Bool("ok")
				n.Z = !n.OK && strings.Contains(e.Str("err"), "no such file")
			case "sf_save_trunc":
				n.Ev = "save_trunc"
			case "sf_save_write":
				n.Ev = "save_write"
			default:
				continue
			}
			n.H = hashRec(rec)
			n.Cnt, n.Own = abstract(rec, actorOf[f], ft.NP)
			ft.Events = append(ft.Events, n)
		}
	}
	var out []*FileTrace
	for _, f := range order {
		out = append(out, byFile[f])
	}

	return out
}

// Accept runs the acceptor over one file's events. It mirrors StatusFileTrace.tla:
//   - lock/unlock strictly alternate; every other event belongs to the lock holder (Mutex, contiguity);
//   - a read or load returns exactly the content left by the last write (no stale or torn read);
//   - an update writes what it applied to what it read, the counter part being +1/own+1 ("inc") or unchanged ("blind").
//
// counting says whether the records carry the vsf counters (so that the inc/blind relation is checked).
// absentOK: the file may not exist at the start of the trace (first access may be a Save or an update of an empty file).
func Accept(ft *FileTrace, counting bool) []Problem {
	var ps []Problem
	add := func(i int, sig, what string) {
		if len(ps) < 50 {
			ps = append(ps, Problem{Sig: sig, What: what, At: i, File: ft.File})
		}
	}
	holder := 0
	phase := ""
	known := false // content known (after a first read/write/load inside the trace)
	content := ""  // hash of file content, "" = empty or absent
	var rd, ap Norm
	alt, altOK := "", false // an alternative content left by a writer that died between apply and the logged write
	for i, n := range ft.Events {
		if n.Ev == "crash" {
			// the process is gone: the kernel has released its flock; whatever it had truncated stays truncated
			if holder == n.A {
				// a process that dies right after it applied its update may or may not have done the write(2): the hook
				// that logs the write comes after the system call.  Both contents are possible from here on.
				if phase == "applied" {
					alt, altOK = ap.H, true
				}
				holder, phase = 0, ""
			}

			continue
		}
		if n.Ev == "lock" {
			if holder != 0 {
				add(i, "C14:mutex", fmt.Sprintf("process #%d acquired the status lock while process #%d held it (event %d)", n.A, holder, n.Raw))
			}
			holder, phase = n.A, "locked"

			continue
		}
		if holder != n.A {
			add(i, "C14:unlocked-access", fmt.Sprintf("%s by process #%d outside its own lock section (holder #%d, event %d)", n.Ev, n.A, holder, n.Raw))
			// keep following the content so that later reports stay meaningful
		}
		switch n.Ev {
		case "unlock":
			if holder == n.A {
				if phase != "written" && phase != "loaded" && phase != "locked" && phase != "failed" {
					// ("wrote" without the truncate is an incomplete section too)
					add(i, "C14:incomplete-section", fmt.Sprintf("unlock in phase %s (event %d)", phase, n.Raw))
				}
				holder, phase = 0, ""
			}
		case "read":
			if !n.OK {
				add(i, "C14:torn-read", fmt.Sprintf("update by process #%d could not parse the record it read (event %d)", n.A, n.Raw))
				phase = "failed"

				break
			}
			if !n.Z {
				if known && n.H != content && altOK && n.H == alt {
					content = alt
				}
				altOK = false
				if known && n.H != content {
					add(i, "C14:stale-read", fmt.Sprintf("update by process #%d read a record different from the last one written (event %d)", n.A, n.Raw))
				}
				content, known = n.H, true
			} else if known && content != "" {
				add(i, "C14:stale-read", fmt.Sprintf("update by process #%d found an empty file although a record had been written (event %d)", n.A, n.Raw))
			}
			rd, phase = n, "read"
		case "apply":
			if phase != "read" {
				add(i, "C14:order", fmt.Sprintf("apply in phase %s (event %d)", phase, n.Raw))
			}
			if counting && !rd.Z {
				inc := n.Cnt == rd.Cnt+1
				blind := n.Cnt == rd.Cnt
				ownOK := true
				for k := range n.Own {
					d := n.Own[k] - rd.Own[k]
					if k == n.A-1 && inc {
						if d != 1 {
							ownOK = false
						}
					} else if d != 0 {
						ownOK = false
					}
				}
				if !(inc || blind) || !ownOK {
					add(i, "C14:bad-apply", fmt.Sprintf("update by process #%d turned counters %d/%v into %d/%v (event %d)", n.A, rd.Cnt, rd.Own, n.Cnt, n.Own, n.Raw))
				}
			}
			ap, phase = n, "applied"
		case "write":
			// UpdateFullStatus writes the new record in place ...
			if phase != "applied" {
				add(i, "C14:order", fmt.Sprintf("write in phase %s (event %d)", phase, n.Raw))
			}
			if n.H != ap.H {
				add(i, "C14:write-differs", fmt.Sprintf("record written differs from the record applied (event %d)", n.Raw))
			}
			content, known, phase = n.H, true, "wrote"
		case "trunc":
			// ... and then cuts the file to the new length (a stale tail is invisible to the first-value loader)
			if phase != "wrote" {
				add(i, "C14:order", fmt.Sprintf("truncate in phase %s (event %d)", phase, n.Raw))
			}
			phase = "written"
		case "load":
			if n.OK {
				if known && n.H != content && altOK && n.H == alt {
					content = alt
				}
				altOK = false
				if known && n.H != content {
					add(i, "C14:stale-load", fmt.Sprintf("Load by process #%d returned a record different from the last one written (event %d)", n.A, n.Raw))
				}
				content, known = n.H, true
			} else if !n.Z && known && content == "" {
				// the file really is empty (its last writer died between truncate and write): not a torn read
				phase = "loaded"

				break
			} else if !n.Z {
				add(i, "C14:torn-load", fmt.Sprintf("Load by process #%d failed to parse the record (event %d)", n.A, n.Raw))
			} else if known && content != "" {
				add(i, "C14:torn-load", fmt.Sprintf("Load by process #%d found no file although a record had been written (event %d)", n.A, n.Raw))
			}
			phase = "loaded"
		case "save_trunc":
			content, known, phase = "", true, "s_truncd"
		case "save_write":
			if phase != "s_truncd" {
				add(i, "C14:order", fmt.Sprintf("save write in phase %s (event %d)", phase, n.Raw))
			}
			content, known, phase = n.H, true, "written"
		}
	}

	return ps
}

// WithCrashes returns the events of ft with a "crash" event inserted after the LAST event of every process.
// Use it for traces recorded until every process was dead (crash experiments): a process that died inside a
// lock section simply stops emitting, and the next lock event of another process is legitimate only because
// the kernel released the dead holder's flock. For a process that ended outside a section the marker is a no-op.
func WithCrashes(ft *FileTrace) []Norm {
	last := map[int]int{}
	for i, n := range ft.Events {
		last[n.A] = i
	}
	var out []Norm
	for i, n := range ft.Events {
		out = append(out, n)
		if last[n.A] == i {
			out = append(out, Norm{Ev: "crash", A: n.A, Own: make([]int, len(n.Own)), Raw: n.Raw})
		}
	}

	return out
}

// UnitRewrites renders the status rewrites of every unit (sf_apply / sf_trunc / sf_write, plus crash markers when
// crashAware) as the event stream read by specs/WorkUnitTrace.tla. who: "r" runner process, "i" daemon acting for a
// remote mirror or an in-process unit, "d" daemon otherwise.
func UnitRewrites(evs []Event, crashAware bool) []map[string]any {
	runnerPid := map[int64]bool{}
	for _, e := range evs {
		if e.Str("ev") == "rn_begin" {
			runnerPid[e.Int("p")] = true
		}
	}
	type uev struct {
		m   map[string]any
		pid int64
	}
	perUnit := map[string][]uev{}
	var order []string
	for _, e := range evs {
		ev := e.Str("ev")
		if ev != "sf_apply" && ev != "sf_trunc" && ev != "sf_write" {
			continue
		}
		f := e.Str("file")
		if perUnit[f] == nil {
			order = append(order, f)
		}
		who := "d"
		if runnerPid[e.Int("p")] {
			who = "r"
		} else if t := e.Str("type"); t == "remote" || t == "inproc" {
			who = "i"
		}
		m := map[string]any{"ev": strings.TrimPrefix(ev, "sf_"), "who": who, "a": 0, "ost": 0, "osz": 0, "nst": 0, "nsz": 0, "z": false}
		if ev == "sf_apply" {
			m["ost"], m["osz"], m["nst"], m["nsz"], m["z"] = e.Int("old_state"), e.Int("old_size"), e.Int("new_state"), e.Int("new_size"), e.Int("fsize") == 0
		}
		perUnit[f] = append(perUnit[f], uev{m, e.Int("p")})
	}
	var out []map[string]any
	for _, f := range order {
		out = append(out, map[string]any{"ev": "reset", "who": "", "a": 0, "ost": 0, "osz": 0, "nst": 0, "nsz": 0, "z": false})
		actor := map[int64]int{}
		last := map[int64]int{}
		for i, u := range perUnit[f] {
			if actor[u.pid] == 0 {
				actor[u.pid] = len(actor) + 1
			}
			u.m["a"] = actor[u.pid]
			last[u.pid] = i
		}
		for i, u := range perUnit[f] {
			out = append(out, u.m)
			if crashAware && last[u.pid] == i {
				out = append(out, map[string]any{"ev": "crash", "who": "", "a": actor[u.pid], "ost": 0, "osz": 0, "nst": 0, "nsz": 0, "z": false})
			}
		}
	}

	return out
}

// WriteNorm writes the normalised events as NDJSON (one trace for StatusFileTrace.tla).
func WriteNorm(path string, evs []Norm) error {
	f, err := os.Create(path)
	if err != nil {
		return err
	}
	w := bufio.NewWriter(f)
	enc := json.NewEncoder(w)
	for _, n := range evs {
		own := map[string]int{}
		for k, v := range n.Own {
			own[fmt.Sprintf("p%d", k+1)] = v
		}
		rec := struct {
			Norm
			AS   string         `json:"a"`
			OwnM map[string]int `json:"own"`
		}{n, fmt.Sprintf("p%d", n.A), own}
		if err := enc.Encode(rec); err != nil {
			return err
		}
	}
	if err := w.Flush(); err != nil {
		return err
	}

	return f.Close()
}

// SigSummary returns the distinct signatures of a problem list, sorted.
func SigSummary(ps []Problem) []string {
	m := map[string]bool{}
	for _, p := range ps {
		m[p.Sig] = true
	}
	var out []string
	for k := range m {
		out = append(out, k)
	}
	sort.Strings(out)

	return out
}
