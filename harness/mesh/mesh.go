// Package mesh runs N real Netceptor nodes in one process joined by memnet pipes under harness control (engine E2).
package mesh

import (
	"context"
	"fmt"
	"math"
	"sort"
	"sync"
	"time"

	"github.com/ansible/receptor/pkg/netceptor"
	"verif/harness/memnet"
)

// Opts are the operational constants for every node of the mesh.
type Opts struct {
	RouteUpdate, ServiceAd, SeenExpire, MaxIdle time.Duration
	MaxHops                                     byte
	MTU                                         int
}

// Node is one real node.
type Node struct {
	ID      string
	N       *netceptor.Netceptor
	cancel  context.CancelFunc
	Started time.Time
	Stopped bool
}

// Link is one physical link between two nodes.
type Link struct {
	A, B   string
	CostA  float64 // cost configured at A for this link
	CostB  float64
	Pipe   *memnet.Pipe
	Silent bool
	Cut    bool
}

// Mesh is a set of nodes and links.
type Mesh struct {
	mu    sync.Mutex
	o     Opts
	Nodes map[string]*Node
	Links []*Link
	seed  int64
}

// New creates an empty mesh.
func New(o Opts, seed int64) *Mesh {
	if o.RouteUpdate == 0 {
		o.RouteUpdate = 300 * time.Millisecond
	}
	if o.SeenExpire == 0 {
		o.SeenExpire = time.Hour
	}
	if o.MaxIdle == 0 {
		o.MaxIdle = time.Hour
	}
	if o.MaxHops == 0 {
		o.MaxHops = 30
	}
	if o.MTU == 0 {
		o.MTU = 16384
	}

	return &Mesh{o: o, Nodes: map[string]*Node{}, seed: seed}
}

// Opts returns the constants in use.
func (m *Mesh) Opts() Opts { return m.o }

// Start starts (or restarts) the node id with a fresh Netceptor instance.
func (m *Mesh) Start(id string) *Node {
	ctx, cancel := context.WithCancel(context.Background())
	n := netceptor.NewWithConsts(ctx, id, m.o.MTU, m.o.RouteUpdate, m.o.ServiceAd, m.o.SeenExpire, m.o.MaxHops, m.o.MaxIdle)
	nd := &Node{ID: id, N: n, cancel: cancel, Started: time.Now()}
	m.mu.Lock()
	m.Nodes[id] = nd
	m.mu.Unlock()

	return nd
}

// Stop shuts a node down; its links are cut.
func (m *Mesh) Stop(id string) {
	m.mu.Lock()
	nd := m.Nodes[id]
	links := append([]*Link(nil), m.Links...)
	m.mu.Unlock()
	if nd == nil || nd.Stopped {
		return
	}
	nd.Stopped = true
	nd.N.Shutdown()
	nd.cancel()
	for _, l := range links {
		if (l.A == id || l.B == id) && !l.Cut {
			l.Cut = true
			l.Pipe.Cut()
		}
	}
}

// Connect creates a link a-b with the given per-side costs (one new backend per side).
func (m *Mesh) Connect(a, b string, costA, costB float64) (*Link, error) {
	m.mu.Lock()
	na, nb := m.Nodes[a], m.Nodes[b]
	m.seed++
	seed := m.seed
	m.mu.Unlock()
	if na == nil || nb == nil || na.Stopped || nb.Stopped {
		return nil, fmt.Errorf("node not running")
	}
	p := memnet.NewPipe(seed)
	ba, bb := memnet.NewBackend(), memnet.NewBackend()
	if err := na.N.AddBackend(ba, netceptor.BackendConnectionCost(costA)); err != nil {
		return nil, err
	}
	if err := nb.N.AddBackend(bb, netceptor.BackendConnectionCost(costB)); err != nil {
		return nil, err
	}
	if !ba.Attach(p.A) || !bb.Attach(p.B) {
		return nil, fmt.Errorf("backend did not accept the session")
	}
	l := &Link{A: a, B: b, CostA: costA, CostB: costB, Pipe: p}
	m.mu.Lock()
	m.Links = append(m.Links, l)
	m.mu.Unlock()

	return l, nil
}

// FindLink returns the live link between a and b, if any.
func (m *Mesh) FindLink(a, b string) *Link {
	m.mu.Lock()
	defer m.mu.Unlock()
	for i := len(m.Links) - 1; i >= 0; i-- {
		l := m.Links[i]
		if !l.Cut && ((l.A == a && l.B == b) || (l.A == b && l.B == a)) {
			return l
		}
	}

	return nil
}

// CutLink closes the link.
func (m *Mesh) CutLink(l *Link) {
	l.Cut = true
	l.Pipe.Cut()
}

// SilenceLink makes the link carry nothing without closing it.
func (m *Mesh) SilenceLink(l *Link) {
	l.Silent = true
	l.Pipe.Silence()
}

// StopAll stops every node.
func (m *Mesh) StopAll() {
	m.mu.Lock()
	ids := []string{}
	for id := range m.Nodes {
		ids = append(ids, id)
	}
	m.mu.Unlock()
	for _, id := range ids {
		m.Stop(id)
	}
}

// RealGraph returns the directed cost map of links that can work: both ends running, not cut, not silent,
// and both sides configured with the same cost (otherwise the protocol refuses the link).
func (m *Mesh) RealGraph() map[string]map[string]float64 {
	m.mu.Lock()
	defer m.mu.Unlock()
	g := map[string]map[string]float64{}
	for id, nd := range m.Nodes {
		if !nd.Stopped {
			g[id] = map[string]float64{}
		}
	}
	for _, l := range m.Links {
		// a link is one-shot: once either node has closed its session (rejection, idle time-out under load)
		// the pipe is cut and nothing re-dials it, so it is no longer part of the real topology
		if l.Cut || l.Silent || l.CostA != l.CostB || l.Pipe.Closed() {
			continue
		}
		if _, ok := g[l.A]; !ok {
			continue
		}
		if _, ok := g[l.B]; !ok {
			continue
		}
		if c, dup := g[l.A][l.B]; dup && c <= l.CostA {
			continue
		}
		g[l.A][l.B] = l.CostA
		g[l.B][l.A] = l.CostB
	}

	return g
}

// Dist computes least costs from src over g (wait heuristic only; verdicts come from TLC).
func Dist(g map[string]map[string]float64, src string) map[string]float64 {
	d := map[string]float64{}
	for n := range g {
		d[n] = math.Inf(1)
	}
	d[src] = 0
	for range g {
		for a, nb := range g {
			for b, c := range nb {
				if d[a]+c < d[b] {
					d[b] = d[a] + c
				}
			}
		}
	}

	return d
}

// LooksConverged is the harness's own quick estimate used only to decide how long to wait.
func (m *Mesh) LooksConverged() bool {
	g := m.RealGraph()
	for id := range g {
		nd := m.Nodes[id]
		st := nd.N.Status()
		d := Dist(g, id)
		want := 0
		for dst, c := range d {
			if dst == id || math.IsInf(c, 1) {
				continue
			}
			want++
			hop, ok := st.RoutingTable[dst]
			if !ok {
				return false
			}
			hc, isNb := g[id][hop]
			if !isNb || hc+Dist(g, hop)[dst] != c {
				return false
			}
			if pc, err := nd.N.PathCost(dst); err != nil || pc != c {
				return false
			}
		}
		if len(st.RoutingTable) != want {
			return false
		}
		conns := map[string]float64{}
		for _, c := range st.Connections {
			conns[c.NodeID] = c.Cost
		}
		if len(conns) != len(g[id]) {
			return false
		}
	}

	return true
}

// SortedIDs lists running nodes.
func (m *Mesh) SortedIDs() []string {
	m.mu.Lock()
	defer m.mu.Unlock()
	ids := []string{}
	for id, nd := range m.Nodes {
		if !nd.Stopped {
			ids = append(ids, id)
		}
	}
	sort.Strings(ids)

	return ids
}
