// Package trace collects verifhook events in-process and offers waiting and export helpers.
package trace

import (
	"encoding/json"
	"os"
	"sync"
	"time"

	"github.com/ansible/receptor/pkg/verifhook"
)

// Collector stores events in arrival order (arrival order = order of the per-process sequence number
// for events emitted under one lock; cross-lock order is by the atomic counter "i").
type Collector struct {
	mu        sync.Mutex
	cond      *sync.Cond
	recs      []verifhook.Record
	sessStart map[string]int // "node|session label" -> index of the latest sess_start event
	delays    sync.Map       // event name -> time.Duration: the emitting goroutine pauses right after that hook point
}

// SetDelay makes every goroutine that emits event ev pause for d right after the hook point (0 removes it). This is a
// schedule perturbation only: it widens the window between two statements of the code under test, it changes no state.
func (c *Collector) SetDelay(ev string, d time.Duration) {
	if d <= 0 {
		c.delays.Delete(ev)

		return
	}
	c.delays.Store(ev, d)
}

// SetDelayFor is SetDelay restricted to the events of one node instance (label "id@epoch").
func (c *Collector) SetDelayFor(ev, node string, d time.Duration) { c.SetDelay(ev+"@"+node, d) }

// Install creates a collector and installs it as the verifhook sink.
func Install() *Collector {
	c := &Collector{sessStart: map[string]int{}}
	c.cond = sync.NewCond(&c.mu)
	verifhook.SetSink(func(r verifhook.Record) {
		c.mu.Lock()
		if r["ev"] == "sess_start" {
			n, _ := r["n"].(string)
			s, _ := r["sess"].(string)
			c.sessStart[n+"|"+s] = len(c.recs)
		}
		c.recs = append(c.recs, r)
		c.cond.Broadcast()
		c.mu.Unlock()
		if ev, ok := r["ev"].(string); ok {
			if d, ok := c.delays.Load(ev); ok {
				time.Sleep(d.(time.Duration))
			}
			if n, ok := r["n"].(string); ok {
				if d, ok := c.delays.Load(ev + "@" + n); ok {
					time.Sleep(d.(time.Duration))
				}
			}
		}
	})

	return c
}

// SessStart returns the index of the latest sess_start event of the given node instance and session label (0 if none).
func (c *Collector) SessStart(node, sess string) int {
	c.mu.Lock()
	defer c.mu.Unlock()

	return c.sessStart[node+"|"+sess]
}

// Len returns the number of events so far.
func (c *Collector) Len() int {
	c.mu.Lock()
	defer c.mu.Unlock()

	return len(c.recs)
}

// Since returns a copy of the events from index from.
func (c *Collector) Since(from int) []verifhook.Record {
	c.mu.Lock()
	defer c.mu.Unlock()
	if from > len(c.recs) {
		from = len(c.recs)
	}

	return append([]verifhook.Record(nil), c.recs[from:]...)
}

// WaitFor blocks until an event at index >= from satisfies pred, or the timeout expires.
// It returns the index just after the matching event and true, or (len, false).
func (c *Collector) WaitFor(from int, timeout time.Duration, pred func(verifhook.Record) bool) (int, bool) {
	deadline := time.Now().Add(timeout)
	c.mu.Lock()
	defer c.mu.Unlock()
	i := from
	for {
		for ; i < len(c.recs); i++ {
			if pred(c.recs[i]) {
				return i + 1, true
			}
		}
		rem := time.Until(deadline)
		if rem <= 0 {
			return len(c.recs), false
		}
		t := time.AfterFunc(rem, func() {
			c.mu.Lock()
			c.cond.Broadcast()
			c.mu.Unlock()
		})
		c.cond.Wait()
		t.Stop()
	}
}

// Reset drops all stored events.
func (c *Collector) Reset() {
	c.mu.Lock()
	c.recs = nil
	c.mu.Unlock()
}

// WriteNDJSON writes the selected events as NDJSON.
func WriteNDJSON(path string, recs []verifhook.Record) error {
	f, err := os.Create(path)
	if err != nil {
		return err
	}
	defer f.Close()
	enc := json.NewEncoder(f)
	for _, r := range recs {
		if err := enc.Encode(r); err != nil {
			return err
		}
	}

	return nil
}

// Str fetches a string field.
func Str(r verifhook.Record, k string) string {
	s, _ := r[k].(string)

	return s
}
