// Package resd is a small driver for real receptor daemons used by cmd/vres (property C05):
// daemons started from generated YAML configs, a Unix control-socket client, harness-owned
// cuttable TCP relays, kill/restart and reaping of daemons and their detached command runners.
package resd

import (
	"bufio"
	"bytes"
	"encoding/json"
	"errors"
	"fmt"
	"io"
	"net"
	"os"
	"os/exec"
	"path/filepath"
	"strconv"
	"strings"
	"sync"
	"sync/atomic"
	"syscall"
	"time"

	"verif/harness/freeport"
)

// ---------------------------------------------------------------- daemons

// Daemon is one receptor process started from a YAML config on its own data directory.
type Daemon struct {
	Bin     string // receptor binary
	Name    string // node id
	Root    string // scenario directory (config, socket, log live here)
	DataDir string
	Sock    string
	Conf    string
	LogFile string
	Trace   string // VERIF_TRACE file ("" = none)
	mu      sync.Mutex
	cmd     *exec.Cmd
	waited  chan struct{}
	Starts  int
}

// Listener / Peer describe the backends written into the config.
type NodeCfg struct {
	ListenPort int      // 0 = none
	Peers      []string // host:port
	LocalOnly  bool
	WorkTypes  []string // every work type is "bash <runtime params>"
	LogLevel   string
}

// NewDaemon writes the configuration of a node; Start launches it.
func NewDaemon(bin, root, name string, c NodeCfg) (*Daemon, error) {
	d := &Daemon{Bin: bin, Name: name, Root: root}
	d.DataDir = filepath.Join(root, name+".data")
	d.Sock = filepath.Join(root, name+".sock")
	d.Conf = filepath.Join(root, name+".yml")
	d.LogFile = filepath.Join(root, name+".log")
	if len(d.Sock) > 100 {
		return nil, fmt.Errorf("socket path too long: %s", d.Sock)
	}
	if err := os.MkdirAll(d.DataDir, 0o700); err != nil {
		return nil, err
	}
	var b strings.Builder
	b.WriteString("---\n")
	fmt.Fprintf(&b, "- node:\n    id: %s\n    datadir: %s\n", name, d.DataDir)
	lvl := c.LogLevel
	if lvl == "" {
		lvl = "info"
	}
	fmt.Fprintf(&b, "- log-level: %s\n", lvl)
	if c.LocalOnly {
		b.WriteString("- local-only:\n")
	}
	if c.ListenPort != 0 {
		fmt.Fprintf(&b, "- tcp-listener:\n    port: %d\n    bindaddr: 127.0.0.1\n", c.ListenPort)
	}
	for _, p := range c.Peers {
		fmt.Fprintf(&b, "- tcp-peer:\n    address: %s\n    redial: true\n", p)
	}
	for _, wt := range c.WorkTypes {
		fmt.Fprintf(&b, "- work-command:\n    worktype: %s\n    command: bash\n    allowruntimeparams: true\n", wt)
	}
	fmt.Fprintf(&b, "- control-service:\n    service: control\n    filename: %s\n", d.Sock)
	if err := os.WriteFile(d.Conf, []byte(b.String()), 0o600); err != nil {
		return nil, err
	}

	return d, nil
}

// Start launches the daemon and waits until its control socket answers.
func (d *Daemon) Start(deadline time.Duration) error {
	d.mu.Lock()
	if d.cmd != nil {
		d.mu.Unlock()

		return errors.New("already running")
	}
	_ = os.Remove(d.Sock)
	lf, err := os.OpenFile(d.LogFile, os.O_CREATE|os.O_APPEND|os.O_WRONLY, 0o600)
	if err != nil {
		d.mu.Unlock()

		return err
	}
	fmt.Fprintf(lf, "==== start %d of %s at %s\n", d.Starts+1, d.Name, time.Now().Format(time.RFC3339Nano))
	cmd := exec.Command(d.Bin, "--config", d.Conf)
	cmd.Stdout = lf
	cmd.Stderr = lf
	cmd.Dir = d.Root
	cmd.Env = append(os.Environ(), "VERIF_TRACE="+d.Trace)
	// own process group so that nothing of ours is signalled by accident; the runner detaches itself (setsid)
	cmd.SysProcAttr = &syscall.SysProcAttr{Setpgid: true}
	if err := cmd.Start(); err != nil {
		lf.Close()
		d.mu.Unlock()

		return err
	}
	lf.Close()
	d.cmd = cmd
	d.Starts++
	w := make(chan struct{})
	d.waited = w
	d.mu.Unlock()
	go func() {
		_ = cmd.Wait()
		close(w)
	}()
	t0 := time.Now()
	for {
		select {
		case <-w:
			return fmt.Errorf("daemon %s exited during start (last output: %q)", d.Name, Tail(d.LogFile, 1200))
		default:
		}
		c, err := Dial(d.Sock, 2*time.Second)
		if err == nil {
			c.Close()

			return nil
		}
		if time.Since(t0) > deadline {
			return fmt.Errorf("daemon %s: control socket not ready after %s: %v", d.Name, deadline, err)
		}
		time.Sleep(50 * time.Millisecond)
	}
}

// Kill sends SIGKILL to the daemon process only (detached runners survive) and reaps it.
func (d *Daemon) Kill() {
	d.mu.Lock()
	cmd, w := d.cmd, d.waited
	d.cmd = nil
	d.mu.Unlock()
	if cmd == nil || cmd.Process == nil {
		return
	}
	_ = cmd.Process.Kill()
	select {
	case <-w:
	case <-time.After(10 * time.Second):
	}
}

// Alive reports whether the process started last is still running.
func (d *Daemon) Alive() bool {
	d.mu.Lock()
	cmd, w := d.cmd, d.waited
	d.mu.Unlock()
	if cmd == nil {
		return false
	}
	select {
	case <-w:
		return false
	default:
		return true
	}
}

// UnitDir is the directory of a unit on this node.
func (d *Daemon) UnitDir(id string) string { return filepath.Join(d.DataDir, d.Name, id) }

// ReapAll kills every process whose command line mentions root and which is either the receptor
// binary (daemons, detached runners "unitdir=<root>/...") or a payload ("bash <root>/...").
// Runners are session leaders: their whole process group is killed.
func ReapAll(root string, bin string) int {
	self := os.Getpid()
	ents, _ := os.ReadDir("/proc")
	n := 0
	for _, e := range ents {
		pid, err := strconv.Atoi(e.Name())
		if err != nil || pid == self || pid == os.Getppid() {
			continue
		}
		raw, err := os.ReadFile(filepath.Join("/proc", e.Name(), "cmdline"))
		if err != nil || !bytes.Contains(raw, []byte(root)) {
			continue
		}
		args := strings.Split(string(raw), "\x00")
		if len(args) == 0 {
			continue
		}
		isReceptor := args[0] == bin
		isPayload := filepath.Base(args[0]) == "bash" && len(args) > 1 && strings.HasPrefix(args[1], root)
		if !isReceptor && !isPayload {
			continue
		}
		if isReceptor && strings.Contains(string(raw), "--command-runner") {
			_ = syscall.Kill(-pid, syscall.SIGKILL)
		}
		_ = syscall.Kill(pid, syscall.SIGKILL)
		n++
	}

	return n
}

// ---------------------------------------------------------------- control client

// Ctl is one control-service session.
type Ctl struct {
	Conn  net.Conn
	Hello string
}

// Dial connects and consumes the greeting line.
func Dial(sock string, timeout time.Duration) (*Ctl, error) {
	c, err := net.DialTimeout("unix", sock, timeout)
	if err != nil {
		return nil, err
	}
	ct := &Ctl{Conn: c}
	_ = c.SetReadDeadline(time.Now().Add(timeout))
	h, err := ct.ReadLine()
	_ = c.SetReadDeadline(time.Time{})
	if err != nil {
		c.Close()

		return nil, fmt.Errorf("no greeting: %w", err)
	}
	ct.Hello = h

	return ct, nil
}

// ReadLine reads one line byte by byte (nothing beyond the newline is consumed).
func (c *Ctl) ReadLine() (string, error) {
	var out []byte
	b := make([]byte, 1)
	for {
		n, err := c.Conn.Read(b)
		if n == 1 {
			if b[0] == '\n' {
				return string(out), nil
			}
			out = append(out, b[0])
		}
		if err != nil {
			return string(out), err
		}
	}
}

func (c *Ctl) Close() { _ = c.Conn.Close() }

// Command sends one line and decodes the one-line reply.
func (c *Ctl) Command(line string, timeout time.Duration) (map[string]any, error) {
	_ = c.Conn.SetDeadline(time.Now().Add(timeout))
	defer c.Conn.SetDeadline(time.Time{})
	if _, err := c.Conn.Write([]byte(line + "\n")); err != nil {
		return nil, err
	}
	r, err := c.ReadLine()
	if err != nil {
		return nil, fmt.Errorf("reading reply to %q: %w (got %q)", line, err, r)
	}
	if strings.HasPrefix(r, "ERROR") {
		return nil, &RemoteError{r}
	}
	var m map[string]any
	if err := json.Unmarshal([]byte(r), &m); err != nil {
		return nil, fmt.Errorf("bad reply %q: %w", r, err)
	}

	return m, nil
}

// RemoteError is an "ERROR: ..." reply of the daemon.
type RemoteError struct{ Line string }

func (e *RemoteError) Error() string { return e.Line }

// Once opens a session, runs one command and closes.
func Once(sock, line string, timeout time.Duration) (map[string]any, error) {
	c, err := Dial(sock, timeout)
	if err != nil {
		return nil, err
	}
	defer c.Close()

	return c.Command(line, timeout)
}

// Submission is a "work submit" in progress: the unit exists (ID known) but has not been started
// until Finish sends the end of stdin.
type Submission struct {
	c  *Ctl
	ID string
}

// SubmitBegin sends the submit command and returns once the unit id is known.
func SubmitBegin(sock, node, worktype, params string, timeout time.Duration) (*Submission, error) {
	c, err := Dial(sock, timeout)
	if err != nil {
		return nil, err
	}
	req := map[string]string{"command": "work", "subcommand": "submit", "node": node, "worktype": worktype, "params": params}
	b, _ := json.Marshal(req)
	_ = c.Conn.SetDeadline(time.Now().Add(timeout))
	if _, err := c.Conn.Write(append(b, '\n')); err != nil {
		c.Close()

		return nil, err
	}
	l, err := c.ReadLine()
	if err != nil {
		c.Close()

		return nil, err
	}
	const pre = "Work unit created with ID "
	if !strings.HasPrefix(l, pre) {
		c.Close()

		return nil, fmt.Errorf("unexpected submit reply %q", l)
	}
	id := strings.TrimPrefix(l, pre)
	if i := strings.IndexByte(id, '.'); i > 0 {
		id = id[:i]
	}

	return &Submission{c: c, ID: id}, nil
}

// Finish sends stdin + EOF and waits for the final reply.
func (s *Submission) Finish(stdin []byte, timeout time.Duration) (map[string]any, error) {
	defer s.c.Close()
	_ = s.c.Conn.SetDeadline(time.Now().Add(timeout))
	if len(stdin) > 0 {
		if _, err := s.c.Conn.Write(stdin); err != nil {
			return nil, err
		}
	}
	if uc, ok := s.c.Conn.(*net.UnixConn); ok {
		if err := uc.CloseWrite(); err != nil {
			return nil, err
		}
	}
	l, err := s.c.ReadLine()
	if err != nil && l == "" {
		return nil, err
	}
	if strings.HasPrefix(l, "ERROR") {
		return nil, &RemoteError{l}
	}
	var m map[string]any
	if err := json.Unmarshal([]byte(l), &m); err != nil {
		return nil, fmt.Errorf("bad submit reply %q", l)
	}

	return m, nil
}

// UnitStatus is the part of a status record the checks use.
type UnitStatus struct {
	State      int
	StdoutSize int64
	Detail     string
	StateName  string
}

// Status asks the daemon for the status of a unit.
func Status(sock, id string, timeout time.Duration) (*UnitStatus, error) {
	m, err := Once(sock, "work status "+id, timeout)
	if err != nil {
		return nil, err
	}
	st := &UnitStatus{}
	if f, ok := m["State"].(float64); ok {
		st.State = int(f)
	} else {
		return nil, fmt.Errorf("status reply without State: %v", m)
	}
	if f, ok := m["StdoutSize"].(float64); ok {
		st.StdoutSize = int64(f)
	}
	st.Detail, _ = m["Detail"].(string)
	st.StateName, _ = m["StateName"].(string)

	return st, nil
}

// ReadStatusFile reads the status record of a unit from disk (retrying over the truncate-then-write window).
func ReadStatusFile(unitDir string) (*UnitStatus, error) {
	var last error
	for i := 0; i < 40; i++ {
		b, err := os.ReadFile(filepath.Join(unitDir, "status"))
		if err == nil && len(bytes.TrimSpace(b)) > 0 {
			st := &UnitStatus{}
			if err = json.Unmarshal(b, st); err == nil {
				return st, nil
			}
		}
		if err == nil {
			err = errors.New("empty status file")
		}
		last = err
		time.Sleep(2 * time.Millisecond)
	}

	return nil, last
}

// ResultStream is an open "work results" session after its header line.
type ResultStream struct {
	c      *Ctl
	Header string
}

// OpenResults sends "work results <id> <pos>" and consumes the header line.
func OpenResults(sock, id string, pos int64, timeout time.Duration) (*ResultStream, error) {
	c, err := Dial(sock, timeout)
	if err != nil {
		return nil, err
	}
	_ = c.Conn.SetDeadline(time.Now().Add(timeout))
	if _, err := c.Conn.Write([]byte(fmt.Sprintf("work results %s %d\n", id, pos))); err != nil {
		c.Close()

		return nil, err
	}
	h, err := c.ReadLine()
	if err != nil {
		c.Close()

		return nil, fmt.Errorf("no results header: %w (got %q)", err, h)
	}
	_ = c.Conn.SetDeadline(time.Time{})
	if strings.HasPrefix(h, "ERROR") {
		c.Close()

		return nil, &RemoteError{h}
	}
	if !strings.HasPrefix(h, "Streaming results for work unit "+id) {
		c.Close()

		return nil, fmt.Errorf("unexpected results header %q", h)
	}

	return &ResultStream{c: c, Header: h}, nil
}

// Read reads stream bytes; deadline zero = none. io.EOF = the daemon closed the stream.
func (r *ResultStream) Read(p []byte, deadline time.Time) (int, error) {
	_ = r.c.Conn.SetReadDeadline(deadline)

	return r.c.Conn.Read(p)
}

func (r *ResultStream) Close() { r.c.Close() }

// IsTimeout tells a read deadline from a real error.
func IsTimeout(err error) bool {
	var ne net.Error

	return errors.As(err, &ne) && ne.Timeout()
}

// ---------------------------------------------------------------- relays

// Relay is a TCP forwarder owned by the harness: Cut closes every connection and makes new ones
// die at once; Heal lets traffic through again.
type Relay struct {
	Name   string
	ln     net.Listener
	target string
	mu     sync.Mutex
	conns  map[net.Conn]struct{}
	cut    bool
	closed bool
	Cuts   int
	// bursty mode: data towards the target is held and handed over only at multiples of burst, everything
	// that has accumulated in one write (0 = pass through)
	burst  atomic.Int64 // period in nanoseconds
	holdTo atomic.Int64 // unix nanos until which nothing is handed over towards the target
	// NewestFirst: what has accumulated during a stall / between two bursts is handed over with the data messages
	// (backend frames: 2-byte little-endian length, first payload byte 0 = data) in reverse order - what a datagram
	// network does when an early packet is lost and retransmitted behind later ones.  Other messages keep their order.
	NewestFirst atomic.Bool
	Reordered   atomic.Int64
	Flushes     atomic.Int64 // bursts of more than one read delivered
}

// SetBurst makes the direction dialler -> target deliver in bursts every period (0 switches it off).
func (r *Relay) SetBurst(period time.Duration) { r.burst.Store(int64(period)) }

// reorderFrames returns the complete frames of b (control messages first in their order, then the data messages newest
// first) and the incomplete remainder.
func (r *Relay) reorderFrames(b []byte, newestFirst bool) (out, rest []byte) {
	var ctl, data [][]byte
	b0 := b
	for len(b) >= 2 {
		n := int(b[0]) | int(b[1])<<8
		if len(b) < n+2 {
			break
		}
		fr := b[:n+2]
		if n > 0 && fr[2] == 0 {
			data = append(data, fr)
		} else {
			ctl = append(ctl, fr)
		}
		b = b[n+2:]
	}
	rest = append([]byte{}, b...)
	if !newestFirst {
		return b0[:len(b0)-len(rest)], rest
	}
	for _, f := range ctl {
		out = append(out, f...)
	}
	for i := len(data) - 1; i >= 0; i-- {
		out = append(out, data[i]...)
	}
	if len(data) > 1 {
		r.Reordered.Add(1)
	}

	return out, rest
}

// HoldFor stalls the direction dialler -> target for d from now on; what arrives meanwhile is delivered at once afterwards.
func (r *Relay) HoldFor(d time.Duration) { r.holdTo.Store(time.Now().Add(d).UnixNano()) }

// forwardBursty copies src to dst; while the relay is in bursty mode nothing is written between two burst
// instants, then everything read meanwhile goes out at once (order preserved, nothing lost).
func (r *Relay) forwardBursty(dst, src net.Conn) {
	var mu sync.Mutex
	var pend []byte
	reads := 0
	eof := false
	go func() {
		buf := make([]byte, 64*1024)
		for {
			n, err := src.Read(buf)
			mu.Lock()
			if n > 0 {
				pend = append(pend, buf[:n]...)
				reads++
			}
			if err != nil {
				eof = true
				mu.Unlock()

				return
			}
			mu.Unlock()
		}
	}()
	for {
		p := time.Duration(r.burst.Load())
		if p > 0 {
			now := time.Now().UnixNano()
			time.Sleep(time.Duration(int64(p) - now%int64(p)))
		} else {
			time.Sleep(200 * time.Microsecond)
		}
		held := false
		for {
			h := r.holdTo.Load() - time.Now().UnixNano()
			if h <= 0 {
				break
			}
			held = true
			time.Sleep(time.Duration(h))
		}
		mu.Lock()
		out, k, done := pend, reads, eof
		pend, reads = nil, 0
		mu.Unlock()
		if len(out) > 0 {
			if (p > 0 || held) && k > 1 {
				r.Flushes.Add(1)
			}
			// only whole backend frames are handed over (so that a later burst starts at a frame boundary)
			var rest []byte
			out, rest = r.reorderFrames(out, (p > 0 || held) && r.NewestFirst.Load())
			if len(rest) > 0 && !done { // incomplete frame: goes out in front of what is read next
				mu.Lock()
				pend = append(rest, pend...)
				mu.Unlock()
			}
			if _, err := dst.Write(out); err != nil {
				return
			}
		}
		if done {
			return
		}
	}
}

// NewRelay listens on an ephemeral loopback port and forwards to target.
func NewRelay(name, target string) (*Relay, error) {
	ln, err := net.Listen("tcp", "127.0.0.1:0")
	if err != nil {
		return nil, err
	}
	r := &Relay{Name: name, ln: ln, target: target, conns: map[net.Conn]struct{}{}}
	go r.accept()

	return r, nil
}

func (r *Relay) Addr() string { return r.ln.Addr().String() }

func (r *Relay) accept() {
	for {
		c, err := r.ln.Accept()
		if err != nil {
			return
		}
		r.mu.Lock()
		if r.cut || r.closed {
			r.mu.Unlock()
			c.Close()

			continue
		}
		r.mu.Unlock()
		go r.serve(c)
	}
}

func (r *Relay) serve(c net.Conn) {
	t, err := net.DialTimeout("tcp", r.target, 3*time.Second)
	if err != nil {
		c.Close()

		return
	}
	r.mu.Lock()
	if r.cut || r.closed {
		r.mu.Unlock()
		c.Close()
		t.Close()

		return
	}
	r.conns[c] = struct{}{}
	r.conns[t] = struct{}{}
	r.mu.Unlock()
	done := make(chan struct{}, 2)
	cp := func(dst, src net.Conn) {
		_, _ = io.Copy(dst, src)
		done <- struct{}{}
	}
	go func() {
		r.forwardBursty(t, c)
		done <- struct{}{}
	}()
	go cp(c, t)
	<-done
	c.Close()
	t.Close()
	<-done
	r.mu.Lock()
	delete(r.conns, c)
	delete(r.conns, t)
	r.mu.Unlock()
}

// Cut breaks the link.
func (r *Relay) Cut() {
	r.mu.Lock()
	r.cut = true
	r.Cuts++
	for c := range r.conns {
		c.Close()
	}
	r.mu.Unlock()
}

// Heal lets new connections through.
func (r *Relay) Heal() {
	r.mu.Lock()
	r.cut = false
	r.mu.Unlock()
}

// Close stops the relay.
func (r *Relay) Close() {
	r.mu.Lock()
	r.closed = true
	for c := range r.conns {
		c.Close()
	}
	r.mu.Unlock()
	r.ln.Close()
}

// FreePort returns an unused loopback TCP port reserved for this process (package freeport: outside the ephemeral range).
func FreePort() (int, error) { return freeport.Get() }

// ---------------------------------------------------------------- misc

// FileSize returns the size of a file or -1 when it does not exist.
func FileSize(p string) int64 {
	st, err := os.Stat(p)
	if err != nil {
		return -1
	}

	return st.Size()
}

// Tail returns the last n bytes of a file as text (for diagnostics).
func Tail(p string, n int64) string {
	f, err := os.Open(p)
	if err != nil {
		return ""
	}
	defer f.Close()
	st, _ := f.Stat()
	if st != nil && st.Size() > n {
		_, _ = f.Seek(st.Size()-n, 0)
	}
	r := bufio.NewReader(f)
	b, _ := io.ReadAll(r)

	return string(b)
}
