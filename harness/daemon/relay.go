package daemon

import (
	"io"
	"net"
	"sync"
)

// Relay is a cuttable TCP relay between two receptor nodes: the dialling node's tcp-peer points at the relay,
// the relay forwards to the listening node. Cut closes every relayed connection and refuses new ones (accept and
// close at once) until Heal.
type Relay struct {
	Port   int
	target string
	ln     net.Listener
	mu     sync.Mutex
	cut    bool
	conns  map[net.Conn]bool
	closed bool
}

// NewRelay listens on a free local port and forwards to target ("127.0.0.1:port").
func NewRelay(target string) (*Relay, error) {
	ln, err := net.Listen("tcp", "127.0.0.1:0")
	if err != nil {
		return nil, err
	}
	r := &Relay{Port: ln.Addr().(*net.TCPAddr).Port, target: target, ln: ln, conns: map[net.Conn]bool{}}
	go r.loop()

	return r, nil
}

func (r *Relay) loop() {
	for {
		c, err := r.ln.Accept()
		if err != nil {
			return
		}
		r.mu.Lock()
		if r.cut || r.closed {
			r.mu.Unlock()
			c.Close()

			continue
		}
		r.mu.Unlock()
		t, err := net.Dial("tcp", r.target)
		if err != nil {
			c.Close()

			continue
		}
		r.mu.Lock()
		r.conns[c], r.conns[t] = true, true
		r.mu.Unlock()
		pipe := func(a, b net.Conn) {
			_, _ = io.Copy(a, b)
			a.Close()
			b.Close()
			r.mu.Lock()
			delete(r.conns, a)
			delete(r.conns, b)
			r.mu.Unlock()
		}
		go pipe(c, t)
		go pipe(t, c)
	}
}

// Cut drops the link.
func (r *Relay) Cut() {
	r.mu.Lock()
	r.cut = true
	for c := range r.conns {
		c.Close()
	}
	r.mu.Unlock()
}

// Heal lets connections through again.
func (r *Relay) Heal() {
	r.mu.Lock()
	r.cut = false
	r.mu.Unlock()
}

// Close stops the relay.
func (r *Relay) Close() {
	r.mu.Lock()
	r.closed = true
	for c := range r.conns {
		c.Close()
	}
	r.mu.Unlock()
	r.ln.Close()
}
